import LyModel.Bridge.Basic
import LyModel.Generated.FnIff
import LyModel.Iff.Model
/-!
# `lysc_iff_getop` / `iff_setop` as translated from schema_features.c = the hand model `Iff.getop` / `Iff.setop`

Method: (1) *locality* — the translated function on a list `l` and position `pos` is the translated function on the one
byte `l[pos / 4]` and position `pos % 4` (unfolding the generated definition; only `/ 4`, `% 4` facts are used);
(2) the one-byte function is compared with `getRec` / `setRec` by evaluating the GENERATED code on all 256 bytes × 4
positions (× 4 operators) in the kernel.  A changed shift, mask or record width in the C source breaks (2) by name.
-/
namespace LyModel.Bridge.Iff
open LyModel LyModel.Generated

theorem mod4_div (pos : UInt64) : (pos % 4) / 4 = 0 := by
  apply UInt64.toNat_inj.mp
  simp [UInt64.toNat_div, UInt64.toNat_mod]

theorem mod4_mod (pos : UInt64) : (pos % 4) % 4 = pos % 4 := by
  apply UInt64.toNat_inj.mp
  simp [UInt64.toNat_mod]

theorem div4_toNat (pos : UInt64) : (pos / 4).toNat = pos.toNat / 4 := by
  simp [UInt64.toNat_div]

theorem mod4_cases (pos : UInt64) : ∃ k : Fin 4, pos % 4 = UInt64.ofNat k.val ∧ pos.toNat % 4 = k.val := by
  refine ⟨⟨pos.toNat % 4, by omega⟩, ?_, rfl⟩
  apply UInt64.toNat_inj.mp
  simp [UInt64.toNat_mod]
  omega

/-- (1) locality of the translated `lysc_iff_getop` -/
theorem getop_local (l : Bytes) (pos : UInt64) :
    Fn.lysc_iff_getop l pos = Fn.lysc_iff_getop [C.rd l (pos.toNat / 4)] (pos % 4) := by
  simp only [Fn.lysc_iff_getop, mod4_div, mod4_mod, div4_toNat]
  simp [C.rd]

set_option maxRecDepth 1000000 in
/-- (2) the translated code on one byte, all bytes and record positions -/
theorem getop_byte : ∀ (k : Fin 4) (n : Fin 256),
    Fn.lysc_iff_getop [UInt8.ofNat n.val] (UInt64.ofNat k.val) = Iff.getRec (UInt8.ofNat n.val) k.val := by
  decide +kernel

/-- **Bridge.**  The translated `lysc_iff_getop` is the hand model `Iff.getop`, for every byte list and position. -/
theorem getop_eq (l : Bytes) (pos : UInt64) : Fn.lysc_iff_getop l pos = Iff.getop l pos.toNat := by
  obtain ⟨k, hk, hk'⟩ := mod4_cases pos
  rw [getop_local, hk, Iff.getop, hk']
  have := getop_byte k ⟨(C.rd l (pos.toNat / 4)).toNat, UInt8.toNat_lt _⟩
  simpa [C.rd, List.getD_eq_getElem?_getD] using this

/-- (1) locality of the translated `iff_setop` (the position lies inside the list) -/
theorem setop_local (l : Bytes) (op : UInt8) (pos : UInt64) (h : pos.toNat / 4 < l.length) :
    (Fn.iff_setop l op pos).list =
      l.set (pos.toNat / 4) ((Fn.iff_setop [C.rd l (pos.toNat / 4)] op (pos % 4)).list.getD 0 0) := by
  simp only [Fn.iff_setop, mod4_div, mod4_mod, div4_toNat]
  simp [C.rd, C.wr, h]

set_option maxRecDepth 1000000 in
/-- (2) the translated code on one byte: all bytes, operators `≤ 3` (the C asserts it) and record positions -/
theorem setop_byte : ∀ (k : Fin 4) (o : Fin 4) (n : Fin 256),
    (Fn.iff_setop [UInt8.ofNat n.val] (UInt8.ofNat o.val) (UInt64.ofNat k.val)).list
      = [Iff.setRec (UInt8.ofNat n.val) (UInt8.ofNat o.val) k.val] := by
  decide +kernel

/-- **Bridge.**  The translated `iff_setop`, for an operator `≤ 3` (asserted by the C) and a position inside the list,
    is the hand model `Iff.setop`. -/
theorem setop_eq (l : Bytes) (op : UInt8) (pos : UInt64) (hop : op ≤ 3) (h : pos.toNat / 4 < l.length) :
    (Fn.iff_setop l op pos).list = Iff.setop l op pos.toNat := by
  obtain ⟨k, hk, hk'⟩ := mod4_cases pos
  rw [setop_local l op pos h, hk, Iff.setop, hk']
  have hop' : op.toNat < 4 := by
    have := UInt8.le_iff_toNat_le.mp hop
    simp at this; omega
  have := setop_byte k ⟨op.toNat, hop'⟩ ⟨(C.rd l (pos.toNat / 4)).toNat, UInt8.toNat_lt _⟩
  simp at this
  rw [this]
  simp [C.rd, List.getD_eq_getElem?_getD]

end LyModel.Bridge.Iff
