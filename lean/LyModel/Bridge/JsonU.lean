import LyModel.Bridge.Basic
import LyModel.Generated.FnJson
import LyModel.Text.JsonText
/-!
# the `\uXXXX` digit loop of `lyjson_string` (json.c, slice) as translated = the hand model `JsonText.uValue`

`u_step`: one iteration of the generated loop either stops at a NUL or accumulates `stepU value b`, whose digit `dC b` is the
expression the C evaluates (in `int`, converted to `size_t`); `dC_eq`: that digit = `JsonText.hexDigitC` modulo 2^32 on all 256
bytes; `stepU_ofInt`: the `uint32_t` accumulation is the hand model's `Int` accumulation modulo 2^32; `u_eq`: the bridge.
-/
namespace LyModel.Bridge.JsonU
open LyModel LyModel.Generated

/-- the digit value as the C computes it: `(size_t)(int)` of `c - '0'`, `10 + (c - 'a')` or `10 + (c - 'A')` -/
def dC (b : UInt8) : UInt64 :=
  if (C.isdigit b.toInt8.toInt32 != 0) then (b.toInt8.toInt32 - (0x30 : Int32)).toInt64.toUInt64
  else if decide (b.toInt8.toInt32 > (0x46 : Int32)) then ((0xa : Int32) + (b.toInt8.toInt32 - (0x61 : Int32))).toInt64.toUInt64
  else ((0xa : Int32) + (b.toInt8.toInt32 - (0x41 : Int32))).toInt64.toUInt64

/-- `value = (LY_BASE_HEX * value) + u` in `uint32_t` -/
def stepU (v : UInt32) (b : UInt8) : UInt32 := (((0x10 : UInt32) * v).toUInt64 + dC b).toUInt32

set_option maxRecDepth 100000 in
theorem byte_facts : ∀ b : UInt8, (!(b.toInt8 != 0)) = (b == 0) ∧ (dC b).toUInt32 = UInt32.ofInt (JsonText.hexDigitC b) := by
  apply forall_uint8; decide +kernel

set_option maxRecDepth 100000 in
theorem idx_facts : ∀ i : UInt8, ((i.toUInt32.toInt32 + (1 : Int32)).toInt8).toUInt8 = i + 1 ∧
    decide (i.toUInt32.toInt32 < (4 : Int32)) = decide (i < 4) := by
  apply forall_uint8; decide

/-- one iteration of the translated loop -/
theorem u_step (inp : Bytes) (off : UInt64) (v0 : UInt32) (fuel : Nat) (i : UInt8) (u : UInt64) (value : UInt32) (hi : i < 4) :
    Fn.lyjson_string__u.loop1 inp off v0 (fuel + 1) i u value =
      if C.rd inp (off + i.toUInt64).toNat == 0 then .ret ⟨1, v0⟩
      else Fn.lyjson_string__u.loop1 inp off v0 fuel (i + 1) (dC (C.rd inp (off + i.toUInt64).toNat))
        (stepU value (C.rd inp (off + i.toUInt64).toNat)) := by
  rw [Fn.lyjson_string__u.loop1]
  obtain ⟨b, hb⟩ : ∃ b, C.rd inp (off + i.toUInt64).toNat = b := ⟨_, rfl⟩
  simp only [hb, (idx_facts i).1, (idx_facts i).2, (byte_facts b).1, hi, decide_true, if_true, stepU, dC]
  by_cases hz : (b == 0) = true
  · simp [hz]
  · by_cases hd : (C.isdigit b.toInt8.toInt32 != 0) = true <;> by_cases hg : decide (b.toInt8.toInt32 > 70) = true <;>
      simp only [hz, hd, hg, if_true, if_false, Bool.false_eq_true]

theorem stepU_ofInt (v : Int) (b : UInt8) : stepU (UInt32.ofInt v) b = UInt32.ofInt (16 * v + JsonText.hexDigitC b) := by
  unfold stepU
  rw [UInt64.toUInt32_add, UInt32.toUInt32_toUInt64, (byte_facts b).2, UInt32.ofInt_add, UInt32.ofInt_mul]
  rfl

/-- what the slice leaves behind, given the hand model's verdict -/
def uOut (v0 : UInt32) : Option Int → Fn.lyjson_string__u.R
  | none => ⟨1, v0⟩
  | some v => ⟨0, UInt32.ofInt v⟩

/-- **Bridge.**  The translated digit loop, started at the first of the four characters, is `JsonText.uValue 4 … 0`: error exactly
    when a NUL is among them, otherwise the hand model's value modulo 2^32 (the model converts with `% 4294967296` as well). -/
theorem u_eq (inp : Bytes) (v0 : UInt32) :
    Fn.lyjson_string__u inp 0 v0 = uOut v0 (JsonText.uValue 4 [C.rd inp 0, C.rd inp 1, C.rd inp 2, C.rd inp 3] 0) := by
  have f4 : ((4 : Int32).toInt - (UInt32.ofInt 0).toInt32.toInt).toNat = 4 := by decide
  have z0 : (0 : UInt8).toUInt32 = UInt32.ofInt 0 := by decide
  have n0 : ((0 : UInt64) + (0 : UInt8).toUInt64).toNat = 0 := by decide
  have n1 : ((0 : UInt64) + ((0 : UInt8) + 1).toUInt64).toNat = 1 := by decide
  have n2 : ((0 : UInt64) + ((0 : UInt8) + 1 + 1).toUInt64).toNat = 2 := by decide
  have n3 : ((0 : UInt64) + ((0 : UInt8) + 1 + 1 + 1).toUInt64).toNat = 3 := by decide
  unfold Fn.lyjson_string__u
  simp only [z0, f4]
  rw [u_step _ _ _ _ _ _ _ (by decide), n0]
  by_cases h0 : (C.rd inp 0 == 0) = true
  · simp [h0, JsonText.uValue, uOut]
  rw [if_neg h0, u_step _ _ _ _ _ _ _ (by decide), n1]
  by_cases h1 : (C.rd inp 1 == 0) = true
  · simp [h0, h1, JsonText.uValue, uOut]
  rw [if_neg h1, u_step _ _ _ _ _ _ _ (by decide), n2]
  by_cases h2 : (C.rd inp 2 == 0) = true
  · simp [h0, h1, h2, JsonText.uValue, uOut]
  rw [if_neg h2, u_step _ _ _ _ _ _ _ (by decide), n3]
  by_cases h3 : (C.rd inp 3 == 0) = true
  · simp [h0, h1, h2, h3, JsonText.uValue, uOut]
  rw [if_neg h3]
  simp only [Fn.lyjson_string__u.loop1, stepU_ofInt, JsonText.uValue, h0, h1, h2, h3, Bool.false_eq_true, if_false, uOut]

end LyModel.Bridge.JsonU
