import LyModel.Bridge.Basic
import LyModel.Generated.FnUtf8
import LyModel.Text.Utf8
/-!
# `ly_checkutf8` (with the variadic `ly_utf8_less` / `ly_utf8_greater` / `ly_utf8_and_equal`) as translated from
# ly_common.c = the hand model `Utf8.checkUtf8`

The three helpers are loops over a `va_list`; the translator turns each into a function recursive over a fuel
(`bytes - i`).  `less_loop` / `greater_loop` / `andeq_loop` are inductions over the argument list relating the generated
loop to the hand model's recursion over the constant list; `checkutf8_eq` then replaces every call in the generated
`ly_checkutf8` and compares the `(int)(char)` tests with the byte tests (all 256 bytes).  A changed constant in one of the
calls, a changed comparison in a helper, a changed `in_len` bound or class mask in the C source breaks a theorem here.
-/
namespace LyModel.Bridge.Utf8
open LyModel LyModel.Generated

/-- the byte a variadic `int` argument is compared as: `(uint8_t)byte` -/
def vb (x : Int32) : UInt8 := x.toInt8.toUInt8

set_option maxRecDepth 100000 in
theorem zx_toInt : ∀ a : UInt8, a.toUInt32.toInt32.toInt = (a.toNat : Int) := by apply forall_uint8; decide

theorem zx_lt (a b : UInt8) : (a.toUInt32.toInt32 < b.toUInt32.toInt32) ↔ a < b := by
  rw [Int32.lt_iff_toInt_lt, zx_toInt, zx_toInt, UInt8.lt_iff_toNat_lt]; omega

theorem inc_toInt (i : Int32) (h0 : 0 ≤ i.toInt) (n : Int32) (h : i.toInt < n.toInt) : (i + 1).toInt = i.toInt + 1 := by
  have := Int32.toInt_lt n
  rw [Int32.toInt_add, Int32.toInt_one, Int.bmod_eq_of_le (by omega) (by omega)]

theorem rd_drop (b : Bytes) (k : Nat) : Utf8.rd (b.drop k) 0 = C.rd b k := by
  simp [Utf8.rd, C.rd, List.getD_eq_getElem?_getD]

theorem less_loop (input : Bytes) (n : Int32) :
    ∀ (ap : List Int32) (i byte : Int32), 0 ≤ i.toInt → i.toInt + ap.length = n.toInt →
      (match Fn.ly_utf8_less.loop1 n input ap.length ap byte i with | .ret r => r | .next _ => 0)
        = if Utf8.lessThan (input.drop i.toNatClampNeg) (ap.map vb) then 1 else 0 := by
  intro ap
  induction ap with
  | nil => intro i byte _ _; simp [Fn.ly_utf8_less.loop1, Utf8.lessThan]
  | cons x t ih =>
    intro i byte h0 hn
    have hlt : i < n := by rw [Int32.lt_iff_toInt_lt]; simp at hn; omega
    have hi1 := inc_toInt i h0 n (Int32.lt_iff_toInt_lt.mp hlt)
    have hk : (i + 1).toNatClampNeg = i.toNatClampNeg + 1 := by simp only [Int32.toNatClampNeg]; rw [hi1]; omega
    have ih' := ih (i + 1) x (by omega) (by simp at hn; omega)
    rw [hk] at ih'
    simp only [List.length_cons, Fn.ly_utf8_less.loop1, hlt, decide_true, if_true, List.headD_cons, List.tail_cons,
      List.map_cons, Utf8.lessThan, rd_drop]
    have e : x.toInt8.toUInt8 = vb x := rfl
    simp only [e, gt_iff_lt, zx_lt, List.tail_drop]
    by_cases h1 : vb x < C.rd input i.toNatClampNeg
    · have : ¬ C.rd input i.toNatClampNeg < vb x := by
        rw [UInt8.lt_iff_toNat_lt] at *; omega
      simp [h1, this]
    · by_cases h2 : C.rd input i.toNatClampNeg < vb x
      · simp [h1, h2]
      · simp only [h1, h2, decide_false, if_false]
        exact ih'

/-- a constant byte as the variadic `int` argument the C passes -/
def zx (k : UInt8) : Int32 := k.toUInt32.toInt32

set_option maxRecDepth 100000 in
theorem vb_zx : ∀ k : UInt8, vb (zx k) = k := by apply forall_uint8; decide

theorem map_vb_zx (ks : List UInt8) : (ks.map zx).map vb = ks := by
  induction ks with
  | nil => rfl
  | cons k t ih => simp [vb_zx, ih]

theorem zx_and (a m : UInt8) : zx a &&& zx m = zx (a &&& m) := by
  simp [zx]

theorem zx_inj (a b : UInt8) : zx a = zx b ↔ a = b := by
  constructor
  · intro h
    have := congrArg Int32.toInt h
    simp only [zx, zx_toInt] at this
    exact UInt8.toNat_inj.mp (by omega)
  · intro h; rw [h]

theorem less_eq (input : Bytes) (ks : List UInt8) (n : Int32) (hn : n.toInt = ks.length) :
    Fn.ly_utf8_less input n (ks.map zx) = if Utf8.lessThan input ks then 1 else 0 := by
  have := less_loop input n (ks.map zx) 0 0 (by simp) (by simp [hn])
  simp only [map_vb_zx, List.length_map] at this
  unfold Fn.ly_utf8_less
  have hf : (n.toInt - (0 : Int32).toInt).toNat = ks.length := by simp [hn]
  simp only [hf]
  generalize Fn.ly_utf8_less.loop1 n input ks.length (List.map zx ks) 0 0 = L at this ⊢
  cases L with
  | ret r => simpa using this
  | next s => obtain ⟨a, b, c⟩ := s; simpa using this

theorem greater_loop (input : Bytes) (n : Int32) :
    ∀ (ap : List Int32) (i byte : Int32), 0 ≤ i.toInt → i.toInt + ap.length = n.toInt →
      (match Fn.ly_utf8_greater.loop1 n input ap.length ap byte i with | .ret r => r | .next _ => 0)
        = if Utf8.greaterThan (input.drop i.toNatClampNeg) (ap.map vb) then 1 else 0 := by
  intro ap
  induction ap with
  | nil => intro i byte _ _; simp [Fn.ly_utf8_greater.loop1, Utf8.greaterThan]
  | cons x t ih =>
    intro i byte h0 hn
    have hlt : i < n := by rw [Int32.lt_iff_toInt_lt]; simp at hn; omega
    have hi1 := inc_toInt i h0 n (Int32.lt_iff_toInt_lt.mp hlt)
    have hk : (i + 1).toNatClampNeg = i.toNatClampNeg + 1 := by simp only [Int32.toNatClampNeg]; rw [hi1]; omega
    have ih' := ih (i + 1) x (by omega) (by simp at hn; omega)
    rw [hk] at ih'
    simp only [List.length_cons, Fn.ly_utf8_greater.loop1, hlt, decide_true, if_true, List.headD_cons, List.tail_cons,
      List.map_cons, Utf8.greaterThan, rd_drop]
    have e : x.toInt8.toUInt8 = vb x := rfl
    simp only [e, gt_iff_lt, zx_lt, List.tail_drop]
    by_cases h1 : vb x < C.rd input i.toNatClampNeg
    · simp [h1]
    · by_cases h2 : C.rd input i.toNatClampNeg < vb x
      · simp [h1, h2]
      · simp only [h1, h2, decide_false, if_false]
        exact ih'


theorem greater_eq (input : Bytes) (ks : List UInt8) (n : Int32) (hn : n.toInt = ks.length) :
    Fn.ly_utf8_greater input n (ks.map zx) = if Utf8.greaterThan input ks then 1 else 0 := by
  have := greater_loop input n (ks.map zx) 0 0 (by simp) (by simp [hn])
  simp only [map_vb_zx, List.length_map] at this
  unfold Fn.ly_utf8_greater
  have hf : (n.toInt - (0 : Int32).toInt).toNat = ks.length := by simp [hn]
  simp only [hf]
  generalize Fn.ly_utf8_greater.loop1 n input ks.length (List.map zx ks) 0 0 = L at this ⊢
  cases L with
  | ret r => simpa using this
  | next s => obtain ⟨a, b, c⟩ := s; simpa using this


/-- the variadic arguments of `ly_utf8_and_equal`: mask and value alternate -/
def flat : List (UInt8 × UInt8) → List Int32
  | [] => []
  | (m, v) :: t => zx m :: zx v :: flat t

theorem andeq_loop (input : Bytes) (n : Int32) :
    ∀ (ps : List (UInt8 × UInt8)) (i and_ byte : Int32), 0 ≤ i.toInt → i.toInt + ps.length = n.toInt →
      (match Fn.ly_utf8_and_equal.loop1 n input ps.length and_ (flat ps) byte i with | .ret r => r | .next _ => 1)
        = if Utf8.andEqual (input.drop i.toNatClampNeg) ps then 1 else 0 := by
  intro ps
  induction ps with
  | nil => intro i a byte _ _; simp [Fn.ly_utf8_and_equal.loop1, Utf8.andEqual]
  | cons p t ih =>
    obtain ⟨m, v⟩ := p
    intro i a byte h0 hn
    have hlt : i < n := by rw [Int32.lt_iff_toInt_lt]; simp at hn; omega
    have hi1 := inc_toInt i h0 n (Int32.lt_iff_toInt_lt.mp hlt)
    have hk : (i + 1).toNatClampNeg = i.toNatClampNeg + 1 := by simp only [Int32.toNatClampNeg]; rw [hi1]; omega
    have ih' := ih (i + 1) (zx m) (zx v) (by omega) (by simp at hn; omega)
    rw [hk] at ih'
    have e : (zx v).toInt8.toUInt8.toUInt32.toInt32 = zx v := by
      have := vb_zx v; simp only [vb] at this; rw [this]; rfl
    have e2 : ∀ b : UInt8, b.toUInt32.toInt32 = zx b := fun _ => rfl
    simp only [List.length_cons, Fn.ly_utf8_and_equal.loop1, hlt, decide_true, if_true, flat, List.headD_cons, List.tail_cons,
      Utf8.andEqual, rd_drop, e, e2, zx_and, List.tail_drop, bne]
    by_cases h1 : (C.rd input i.toNatClampNeg &&& m) = v
    · simp only [h1, beq_self_eq_true, Bool.not_true, Bool.false_eq_true, if_false, Bool.true_and]
      exact ih'
    · have : (zx (C.rd input i.toNatClampNeg &&& m) == zx v) = false := by simp [zx_inj, h1]
      simp [this, h1]

theorem andeq_eq (input : Bytes) (ps : List (UInt8 × UInt8)) (n : Int32) (hn : n.toInt = ps.length) :
    Fn.ly_utf8_and_equal input n (flat ps) = if Utf8.andEqual input ps then 1 else 0 := by
  have := andeq_loop input n ps 0 0 0 (by simp) (by simp [hn])
  unfold Fn.ly_utf8_and_equal
  have hf : (n.toInt - (0 : Int32).toInt).toNat = ps.length := by simp [hn]
  simp only [hf]
  generalize Fn.ly_utf8_and_equal.loop1 n input ps.length 0 (flat ps) 0 0 = L at this ⊢
  cases L with
  | ret r => simpa using this
  | next s => obtain ⟨a, b, c, d⟩ := s; simpa using this

/-- `(int)(char)b` -/
abbrev sc (b : UInt8) : Int32 := b.toInt8.toInt32

set_option maxRecDepth 100000 in
theorem sc_ascii : ∀ b : UInt8, (!(sc b &&& 0x80 != 0)) = (b &&& 0x80 == 0) := by apply forall_uint8; decide
set_option maxRecDepth 100000 in
theorem sc_l2 : ∀ b : UInt8, ((sc b &&& 0xe0) == 0xc0) = (b &&& 0xE0 == 0xC0) := by apply forall_uint8; decide
set_option maxRecDepth 100000 in
theorem sc_l3 : ∀ b : UInt8, ((sc b &&& 0xf0) == 0xe0) = (b &&& 0xF0 == 0xE0) := by apply forall_uint8; decide
set_option maxRecDepth 100000 in
theorem sc_l4 : ∀ b : UInt8, ((sc b &&& 0xf8) == 0xf0) = (b &&& 0xF8 == 0xF0) := by apply forall_uint8; decide
set_option maxRecDepth 100000 in
theorem sc_ne : ∀ b : UInt8, (sc b != 9) = (b != 0x9) ∧ (sc b != 0xa) = (b != 0xa) ∧ (sc b != 0xd) = (b != 0xd) := by
  apply forall_uint8; decide

theorem ite_ne0 (p : Bool) : ((if p = true then (1 : Int32) else 0) != 0) = p := by cases p <;> decide

/-- what `ly_checkutf8(input, in_len, &len)` leaves behind, given the hand model's verdict -/
def checkOut (l0 : UInt64) : Option Nat → Fn.ly_checkutf8.R
  | none => ⟨3, l0⟩
  | some k => ⟨0, UInt64.ofNat k⟩

theorem checkutf8_eq (inp : Bytes) (in_len l0 : UInt64) :
    Fn.ly_checkutf8 inp in_len l0 = checkOut l0 (Utf8.checkUtf8 inp in_len.toNat) := by
  have a1 : [(0x20 : Int32)] = [0x20].map zx := by decide
  have a2 : [(0xc2 : Int32), (0x80 : Int32)] = [0xC2, 0x80].map zx := by decide
  have a3 : [(0xdf : Int32), (0xbf : Int32)] = [0xDF, 0xBF].map zx := by decide
  have a4 : [(0xe0 : Int32), (0xc0 : Int32), (0xc0 : Int32), (0x80 : Int32)] = flat [(0xE0, 0xC0), (0xC0, 0x80)] := by decide
  have a5 : [(0xed : Int32), (0xa0 : Int32), (0x80 : Int32)] = [0xED, 0xA0, 0x80].map zx := by decide
  have a6 : [(0xed : Int32), (0xbf : Int32), (0xbf : Int32)] = [0xED, 0xBF, 0xBF].map zx := by decide
  have a7 : [(0xe0 : Int32), (0xa0 : Int32), (0x80 : Int32)] = [0xE0, 0xA0, 0x80].map zx := by decide
  have a8 : [(0xef : Int32), (0xbf : Int32), (0xbf : Int32)] = [0xEF, 0xBF, 0xBF].map zx := by decide
  have a9 : [(0xf0 : Int32), (0xe0 : Int32), (0xc0 : Int32), (0x80 : Int32), (0xc0 : Int32), (0x80 : Int32)]
      = flat [(0xF0, 0xE0), (0xC0, 0x80), (0xC0, 0x80)] := by decide
  have a10 : [(0xf0 : Int32), (0x90 : Int32), (0x80 : Int32), (0x80 : Int32)] = [0xF0, 0x90, 0x80, 0x80].map zx := by decide
  have a11 : [(0xf4 : Int32), (0x8f : Int32), (0xbf : Int32), (0xbf : Int32)] = [0xF4, 0x8F, 0xBF, 0xBF].map zx := by decide
  have a12 : [(0xf8 : Int32), (0xf0 : Int32), (0xc0 : Int32), (0x80 : Int32), (0xc0 : Int32), (0x80 : Int32), (0xc0 : Int32), (0x80 : Int32)]
      = flat [(0xF8, 0xF0), (0xC0, 0x80), (0xC0, 0x80), (0xC0, 0x80)] := by decide
  unfold Fn.ly_checkutf8 Utf8.checkUtf8
  simp only [a1, a2, a3, a4, a5, a6, a7, a8, a9, a10, a11, a12]
  rw [less_eq inp _ 1 (by decide), less_eq inp _ 2 (by decide), less_eq inp _ 3 (by decide), less_eq inp _ 3 (by decide),
    less_eq inp _ 4 (by decide), greater_eq inp _ 2 (by decide), greater_eq inp _ 3 (by decide), greater_eq inp _ 3 (by decide),
    greater_eq inp _ 4 (by decide), andeq_eq inp _ 2 (by decide), andeq_eq inp _ 3 (by decide), andeq_eq inp _ 4 (by decide)]
  have r0 : C.rd inp 0 = Utf8.rd inp 0 := rfl
  have g1 : decide (in_len > 1) = decide (in_len.toNat > 1) := by simp [UInt64.lt_iff_toNat_lt]
  have g2 : decide (in_len > 2) = decide (in_len.toNat > 2) := by simp [UInt64.lt_iff_toNat_lt]
  have g3 : decide (in_len > 3) = decide (in_len.toNat > 3) := by simp [UInt64.lt_iff_toNat_lt]
  simp only [r0, ite_ne0, sc_ascii, sc_l2, sc_l3, sc_l4, (sc_ne _).1, (sc_ne _).2.1, (sc_ne _).2.2, g1, g2, g3]
  generalize Utf8.rd inp 0 = b0
  repeat' split
  all_goals simp_all [checkOut]

end LyModel.Bridge.Utf8
