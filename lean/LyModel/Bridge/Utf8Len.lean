import LyModel.Bridge.Basic
import LyModel.Generated.FnUtf8
import LyModel.Val.Model
/-!
# `ly_utf8len` as translated from ly_common.c = the hand model `Val.utf8Len`

The translated loop walks a pointer offset `ptr` through `str` by `utf8_char_length_table[(unsigned char)*ptr]` (the table is
translated too) while `(size_t)(ptr - str) < bytes && *ptr`; the hand model recurses over the list with `utf8CharLen`.
`tbl_eq`: table = `utf8CharLen` on all 256 bytes; `utf8len_loop`: induction on the remaining length (both sides fuelled).
-/
namespace LyModel.Bridge.Utf8
open LyModel LyModel.Generated

theorem ptr_conv (p : Nat) (hp : p < 2 ^ 63) : (Int64.ofNat p - Int64.ofNat 0).toUInt64.toNat = p := by
  have : Int64.ofNat 0 = 0 := rfl
  rw [this, Int64.sub_zero]
  simp
  omega

set_option maxRecDepth 100000 in
theorem tbl_eq : ∀ b : UInt8, (C.tbl Fn.utf8_char_length_table b.toNat).toNat = Val.utf8CharLen b ∧
    1 ≤ Val.utf8CharLen b ∧ Val.utf8CharLen b ≤ 6 := by
  apply forall_uint8; decide

/-- the value a finished loop hands on: the count -/
def lenOf : C.Flow UInt64 (UInt64 × Nat) → UInt64
  | .ret r => r
  | .next (l, _) => l

theorem utf8len_loop (s : Bytes) (hs : s.length + 6 < 2 ^ 63) :
    ∀ (k ptr : Nat) (len : UInt64) (fg fh : Nat), s.length - ptr ≤ k → s.length - ptr ≤ fg → s.length - ptr + 1 ≤ fh →
      ptr ≤ s.length + 6 →
      lenOf (Fn.ly_utf8len.loop1 (UInt64.ofNat s.length) s fg len ptr) = len + UInt64.ofNat (Val.utf8Len fh (s.drop ptr)) := by
  intro k
  induction k with
  | zero =>
    intro ptr len fg fh hk _ hfh hp
    have hge : s.length ≤ ptr := by omega
    have hd : s.drop ptr = [] := List.drop_eq_nil_of_le hge
    have hc : ¬ ((Int64.ofNat ptr - Int64.ofNat 0).toUInt64 < UInt64.ofNat s.length) := by
      rw [UInt64.lt_iff_toNat_lt, ptr_conv ptr (by omega)]; simp; omega
    obtain ⟨fh', rfl⟩ : ∃ f, fh = f + 1 := ⟨fh - 1, by omega⟩
    cases fg with
    | zero => simp [Fn.ly_utf8len.loop1, lenOf, hd, Val.utf8Len]
    | succ fg =>
      have hc2 : ¬ (UInt64.ofNat ptr < UInt64.ofNat s.length) := by
        rw [UInt64.lt_iff_toNat_lt]; simp; omega
      simp [Fn.ly_utf8len.loop1, lenOf, hd, Val.utf8Len, hc2]
  | succ k ih =>
    intro ptr len fg fh hk hfg hfh hp
    by_cases hge : s.length ≤ ptr
    · exact ih ptr len fg fh (by omega) hfg hfh hp |> fun h => h
    · have hlt : ptr < s.length := by omega
      obtain ⟨fg', rfl⟩ : ∃ f, fg = f + 1 := ⟨fg - 1, by omega⟩
      obtain ⟨fh', rfl⟩ : ∃ f, fh = f + 1 := ⟨fh - 1, by omega⟩
      have hd : s.drop ptr = s[ptr] :: s.drop (ptr + 1) := List.drop_eq_getElem_cons hlt
      have hrd : C.rd s ptr = s[ptr] := by simp [C.rd, List.getD_eq_getElem?_getD, hlt]
      have hc : ((Int64.ofNat ptr - Int64.ofNat 0).toUInt64 < UInt64.ofNat s.length) := by
        rw [UInt64.lt_iff_toNat_lt, ptr_conv ptr (by omega)]; simp; omega
      obtain ⟨ht, ht1, ht6⟩ := tbl_eq s[ptr]
      rw [Fn.ly_utf8len.loop1, hd, Val.utf8Len, hrd]
      by_cases hz : s[ptr] = 0
      · simp [hz, lenOf]
      · have hnz : (s[ptr].toInt8 != 0) = true := by
          have : ∀ b : UInt8, b ≠ 0 → (b.toInt8 != 0) = true := by
            intro b hb; simp; intro h; apply hb
            have := congrArg Int8.toUInt8 h
            simp only [UInt8.toUInt8_toInt8] at this
            rw [this]; rfl
          exact this _ hz
        simp only [hc, decide_true, hnz, Bool.and_self, if_true, ht]
        have hz' : (s[ptr] == 0) = false := by simpa using hz
        simp only [hz', Bool.false_eq_true, if_false]
        rw [ih (ptr + Val.utf8CharLen s[ptr]) (len + 1) fg' fh' (by omega) (by omega) (by omega) (by omega)]
        rw [← hd, List.drop_drop]
        rw [UInt64.ofNat_add, UInt64.add_assoc]
        rfl

/-- **Bridge.**  The translated `ly_utf8len(str, strlen(str))` is the hand model `Val.utf8Len` (with the fuel the string store
    uses), for every byte string. -/
theorem utf8len_eq (s : Bytes) (hs : s.length + 6 < 2 ^ 63) :
    Fn.ly_utf8len s (UInt64.ofNat s.length) = UInt64.ofNat (Val.utf8Len (s.length + 1) s) := by
  have := utf8len_loop s hs s.length 0 0 s.length (s.length + 1) (by omega) (by omega) (by omega) (by omega)
  unfold Fn.ly_utf8len
  simp only [Nat.sub_zero]
  simp only [List.drop_zero, UInt64.zero_add] at this
  rw [← this]
  cases Fn.ly_utf8len.loop1 (UInt64.ofNat s.length) s s.length 0 0 with
  | ret r => rfl
  | next p => obtain ⟨a, b⟩ := p; rfl

end LyModel.Bridge.Utf8
