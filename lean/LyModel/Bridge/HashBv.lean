import LyModel.Bridge.Hash
import LyModel.Ctx.Jenkins
/-! The `UInt32` hand model of the Jenkins hash (`LyHt.Jenkins`, used by C17) and the `BitVec 32` one (`Ctx.Jenkins`,
used by C19) agree; hence the function GENERATED from hash_table.c is also the C19 model. -/
namespace LyModel.Bridge.Hash
open LyModel LyModel.LyHt

set_option maxRecDepth 100000 in
theorem sext_bv : ∀ b : UInt8, (Jenkins.sext b).toBitVec = Ctx.Jenkins.ext b := by
  apply LyModel.Bridge.forall_uint8; decide

theorem step_bv (h : UInt32) (b : UInt8) : (Jenkins.step h b).toBitVec = Ctx.Jenkins.absorb h.toBitVec b := by
  simp [Jenkins.step, Ctx.Jenkins.absorb, Ctx.Jenkins.mix1, Ctx.Jenkins.mix2, sext_bv]

theorem fin_bv (h : UInt32) : (Jenkins.fin h).toBitVec = Ctx.Jenkins.finish h.toBitVec := by
  simp [Jenkins.fin, Ctx.Jenkins.finish, Ctx.Jenkins.fin1, Ctx.Jenkins.fin2, Ctx.Jenkins.fin3]

theorem foldl_bv (k : Bytes) : ∀ h : UInt32, (k.foldl Jenkins.step h).toBitVec = k.foldl Ctx.Jenkins.absorb h.toBitVec := by
  induction k with
  | nil => intro h; rfl
  | cons b t ih => intro h; simp [List.foldl_cons, ih, step_bv]

theorem multi_bv (h : UInt32) (k : Bytes) : (Jenkins.hashMulti h (some k)).toBitVec = Ctx.Jenkins.multi h.toBitVec k := by
  unfold Jenkins.hashMulti Ctx.Jenkins.multi
  cases k with
  | nil => simp [fin_bv]
  | cons b t => simp [foldl_bv, step_bv]

theorem hash_bv (k : Bytes) : (Jenkins.hash k).toBitVec = Ctx.Jenkins.hash k := by
  unfold Jenkins.hash Ctx.Jenkins.hash
  have h0 : Jenkins.hashMulti (Jenkins.hashMulti 0 (some k)) none = Jenkins.hashMulti (Jenkins.hashMulti 0 (some k)) (some []) := by
    simp [Jenkins.hashMulti]
  rw [h0, multi_bv, multi_bv]
  rfl

end LyModel.Bridge.Hash
