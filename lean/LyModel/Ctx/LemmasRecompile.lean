import LyModel.Ctx.LemmasRevert
/-!
(Re)compiling a context whose implemented modules have all their leafref targets implemented does not change
which modules exist, which are implemented, or any feature: `lys_compile_depset_all` only implements a module when a
leafref of a module being compiled points into a module that is not implemented.
-/
namespace LyModel.Ctx

variable {mk : Option MKey} {c : List Core}

def Core.key (x : Core) : MKey := (x.src.name, x.src.rev)

def findCore (cs : List Core) (k : MKey) : Option Core := cs.find? (fun x => x.key == k)

/-- every leafref of an implemented module points into an implemented module -/
def LrefClosedC (cs : List Core) : Prop :=
  ∀ x ∈ cs, x.implemented = true → ∀ tn ∈ x.src.lrefs, ∀ tk, x.impRes.find? (fun k => k.1 == tn) = some tk →
    ∀ t, findCore cs tk = some t → t.implemented = true

def Ctx.LrefClosed (s : Ctx) : Prop := LrefClosedC (s.mods.map Mod.core)

/-- executable form, for concrete contexts -/
def lrefClosedB (cs : List Core) : Bool :=
  cs.all fun x => !x.implemented || x.src.lrefs.all fun tn =>
    match x.impRes.find? (fun k => k.1 == tn) with
    | none => true
    | some tk => match findCore cs tk with
      | none => true
      | some t => t.implemented

theorem lrefClosed_of_B {cs : List Core} (h : lrefClosedB cs = true) : LrefClosedC cs := by
  intro x hx hi tn htn tk htk t ht
  unfold lrefClosedB at h
  rw [List.all_eq_true] at h
  have h1 := h x hx
  simp only [hi, Bool.not_true, Bool.false_or, List.all_eq_true] at h1
  have h2 := h1 tn htn
  rw [htk] at h2
  simp only [ht] at h2
  exact h2

/-- the module list as the theorems observe it is constant -/
def J (mk : Option MKey) (c : List Core) (s : Ctx) : Prop := s.mods.map (coreM mk) = c

theorem coreM_of_core {m m' : Mod} (h : m'.core = m.core) : coreM mk m' = coreM mk m := by
  simp only [Mod.core, Core.mk.injEq] at h
  obtain ⟨h1, h2, h3, h4, h5⟩ := h
  simp [coreM, Mod.restoredCore, h1, h2, h3, h4, h5, Mod.key_eq_of_src h1]

theorem J.updFree {s : Ctx} (h : J mk c s) (k : MKey) (f : Mod → Mod) (hc : ∀ m, (f m).core = m.core) :
    J mk c (s.upd k f) := by
  unfold J at *
  rw [← h]
  simp only [Ctx.upd, List.map_map]
  apply List.map_congr_left
  intro m _
  simp only [Function.comp]
  split
  · exact coreM_of_core (hc m)
  · rfl

theorem J.congr {s s' : Ctx} (h : J mk c s) (hm : s'.mods = s.mods) : J mk c s' := by
  unfold J at *; rw [hm]; exact h

theorem J.installCompiled {s : Ctx} (h : J mk c s) (k : MKey) : J mk c (installCompiled k s) := by
  unfold LyModel.Ctx.installCompiled
  split
  · exact h
  · next m _ =>
    exact (h.updFree k (fun m' => { m' with compiled := some (s.nextId, s.descOf m) }) (fun _ => rfl)).congr rfl

theorem presJ_updFree (k : MKey) (f : Mod → Mod) (hc : ∀ m, (f m).core = m.core) : Pres (J mk c) (updM k f) :=
  pres_modS fun _ h => h.updFree k f hc

theorem presJ_compileChecked (k : MKey) : Pres (J mk c) (compileChecked k) := by
  unfold compileChecked
  apply pres_getBind
  intro s
  split
  · exact presAt_pure _ _
  · split
    · exact (pres_bind (pres_modS fun _ h => h.congr rfl) (fun _ => pres_failS _)).at s
    · exact (pres_modS fun s h => (J.congr (s' := tick 1 s) h rfl).installCompiled k).at s

theorem coreM_key (m : Mod) : (coreM mk m).key = m.key := rfl
theorem coreM_implemented (m : Mod) : (coreM mk m).implemented = m.implemented := by
  simp [coreM, Mod.restoredCore]
theorem coreM_src (m : Mod) : (coreM mk m).src = m.src := rfl
theorem coreM_impRes (m : Mod) : (coreM mk m).impRes = m.impRes := rfl

theorem findCore_of_find {s : Ctx} (h : J mk c s) {k : MKey} {m : Mod} (hf : s.find k = some m) :
    findCore c k = some (coreM mk m) := by
  unfold J at h
  rw [← h]
  unfold findCore Ctx.find at *
  rw [List.find?_map]
  have : ((fun x : Core => x.key == k) ∘ coreM mk) = fun m => m.key == k := by
    funext m; simp [Function.comp, coreM_key]
  rw [this, hf]; rfl

theorem pres_foldlS_mem {α β : Type} {P : Ctx → Prop} {f : β → α → M β} : ∀ {l : List α},
    (∀ b, ∀ a ∈ l, Pres P (f b a)) → ∀ b, Pres P (foldlS l b f) := by
  intro l
  induction l with
  | nil => intro _ b; exact pres_pure b
  | cons a r ih =>
    intro h b
    exact pres_bind (h b a (List.mem_cons_self ..)) (fun b' => ih (fun b a' ha' => h b a' (List.mem_cons_of_mem _ ha')) b')

theorem presJ_compileIfNot (st : Bool × List MKey) (k : MKey) : Pres (J mk c) (compileIfNot st k) := by
  unfold compileIfNot
  apply pres_getBind
  intro s
  split
  · exact (pres_bind (presJ_compileChecked _) (fun _ => pres_pure _)).at s
  · exact presAt_pure _ _

/-- the one place where compiling can implement a module is dead when the leafref targets are implemented -/
theorem presJ_unresLoop (hcl : LrefClosedC c) : ∀ fuel work done, Pres (J mk c) (unresLoop fuel work done) := by
  intro fuel
  induction fuel with
  | zero => intro work done; unfold unresLoop; exact pres_pure false
  | succ n ih =>
    intro work done
    cases work with
    | nil =>
      unfold unresLoop
      apply pres_getBind
      intro s
      split
      · exact presAt_failS _ _
      · exact presAt_pure _ _
    | cons k rest =>
      unfold unresLoop
      apply pres_getBind
      intro s0 hs0
      refine (pres_bind (pres_foldlS_mem (fun st tn htn => ?_) _) (fun r => ?_)).at s0 hs0
      · split
        · exact pres_pure _
        · apply pres_getBind
          intro s
          split
          · exact presAt_pure _ _
          · next m hm =>
            split
            · exact presAt_pure _ _
            · next himpl =>
              split
              · exact presAt_pure _ _
              · next tk htk =>
                split
                · exact presAt_pure _ _
                · next t ht =>
                  intro hs
                  -- the target is implemented: no module gets implemented here
                  have hti : t.implemented = true := by
                    have hcm := findCore_of_find hs hm
                    have hct := findCore_of_find hs ht
                    have hmem : coreM mk m ∈ c := by
                      unfold findCore at hcm
                      exact List.mem_of_find?_eq_some hcm
                    have htn' : tn ∈ m.src.lrefs := by
                      cases hm0 : s0.find k with
                      | none => rw [hm0] at htn; cases htn
                      | some m0 =>
                        rw [hm0] at htn
                        have h0 := findCore_of_find hs0 hm0
                        rw [hcm] at h0
                        have : (coreM mk m).src = (coreM mk m0).src := by rw [Option.some.inj h0]
                        rw [coreM_src, coreM_src] at this
                        rw [this]; exact htn
                    have := hcl (coreM mk m) hmem (by rw [coreM_implemented]; simpa using himpl) tn
                      (by rw [coreM_src]; exact htn') tk (by rw [coreM_impRes]; exact htk) (coreM mk t) hct
                    rw [coreM_implemented] at this; exact this
                  refine (pres_bind ?_ (fun r => ?_)).at s hs
                  · simp only [hti, Bool.not_true, Bool.false_eq_true, if_false]
                    exact pres_pure _
                  · split
                    · exact pres_pure _
                    · refine pres_bind (presJ_compileIfNot _ _) (fun st1 => ?_)
                      apply pres_getBind
                      intro s'
                      split
                      · exact (pres_foldlS (fun st k => presJ_compileIfNot st k) _).at s'
                      · exact presAt_pure _ _
      · obtain ⟨rec, extra⟩ := r
        dsimp only
        split
        · exact pres_pure _
        · exact ih _ _

theorem presJ_depsetR (hcl : LrefClosedC c) : ∀ fuel ds, Pres (J mk c) (depsetR fuel ds) := by
  intro fuel
  induction fuel with
  | zero => intro ds; exact pres_failS _
  | succ n ih =>
    intro ds
    unfold depsetR
    refine pres_bind (pres_foldlS (fun work k => ?_) _) (fun work => ?_)
    · apply pres_getBind
      intro s
      split
      · exact presAt_pure _ _
      · split
        · exact presAt_pure _ _
        · refine (pres_bind (presJ_updFree k (fun x => { x with compiled := none }) (fun _ => rfl)) (fun _ => ?_)).at s
          exact pres_bind (presJ_compileChecked _) (fun _ => pres_pure _)
    · apply pres_getBind
      intro s
      refine (pres_bind (presJ_unresLoop hcl _ _ _) (fun rec => ?_)).at s
      split
      · exact ih ds
      · exact pres_forEach (fun k => presJ_updFree k (fun x => { x with toCompile := false }) (fun _ => rfl))

theorem presJ_compileAll (hcl : LrefClosedC c) : Pres (J mk c) compileAll := by
  unfold compileAll
  apply pres_getBind
  intro s
  refine (pres_forEach (fun ds => ?_)).at s
  refine pres_bind ?_ (fun _ => ?_)
  · unfold checkFeatures
    apply pres_getBind
    intro s1
    split
    · exact presAt_pure _ _
    · exact presAt_failS _ _
  · apply pres_getBind
    intro s'
    exact (presJ_depsetR hcl _ _).at s'

end LyModel.Ctx
