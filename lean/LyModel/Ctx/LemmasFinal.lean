import LyModel.Ctx.LemmasRecompile
/-!
Assembly: a failed API call gives back the module list (sources, implemented flags, features, resolved imports) it found.
-/
namespace LyModel.Ctx

variable {c₀ : List Core}

def Op.featArg : Op → FeatArg
  | .parse _ f => f
  | .load _ _ f => f
  | .setImpl _ f => f
  | _ => none

/-- blank the features of module `k` -/
def maskCore (k : MKey) (x : Core) : Core :=
  { x with feats := if some k = some x.key then [] else x.feats, subFeats := if some k = some x.key then [] else x.subFeats }

theorem restoredCore_mask (imp : List MKey) (k : MKey) (m : Mod) :
    Mod.restoredCore imp (some k) m = maskCore k (Mod.restoredCore imp none m) := by
  unfold Mod.restoredCore maskCore Core.key
  simp only [reduceCtorEq, if_false]
  rfl

theorem Inv.mask {s : Ctx} (k : MKey) (h : Inv none c₀ s) : Inv (some k) (c₀.map (maskCore k)) s := by
  refine ⟨?_, h.nodup, h.flag⟩
  rw [← h.restore]
  simp only [LyModel.Ctx.restore, List.map_map]
  apply List.map_congr_left
  intro m _
  exact restoredCore_mask _ k m

theorem inv_iff_invK {mk : Option MKey} {s : Ctx} : Inv mk c₀ s ↔ InvK mk c₀ [] s :=
  ⟨fun h => ⟨h, fun _ hk => by cases hk⟩, fun h => h.1⟩

theorem pres_parseIn {mk : Option MKey} (fuel : Nat) (src : ModSrc) (chk : Option (Option Bytes)) :
    Pres (Inv mk c₀) (parseIn fuel src chk) := fun s hs =>
  ((pres_parse fuel).1 src chk [] s (inv_iff_invK.mp hs)).1

theorem pres_parseLoad {mk : Option MKey} (fuel : Nat) (name : Bytes) (rev : Option Bytes) :
    Pres (Inv mk c₀) (parseLoad fuel name rev) := fun s hs =>
  ((pres_parse fuel).2 name rev [] s (inv_iff_invK.mp hs)).1

theorem Inv.privMark {mk : Option MKey} {s : Ctx} (h : Inv mk c₀ s) : Inv mk c₀ (privMark s) := by
  unfold LyModel.Ctx.privMark
  apply Inv.tick
  have := Inv.map (fun m => if m.implemented then { m with toCompile := true } else m) h
    (by intro m; split <;> rfl) (by intro m _ _; split <;> rfl)
    (by intro m hm
        split
        · next hi => intro _; exact hi
        · exact h.flag m hm)
  exact this.congr rfl rfl rfl

/-- operations without a `features` argument (or with NULL) keep the invariant unmasked -/
theorem pres_forward_none (op : Op) (hf : op.featArg = none) : Pres (Inv none c₀) (forward op) := by
  cases op with
  | parse src f =>
    simp only [Op.featArg] at hf; subst hf
    unfold forward
    apply pres_getBind
    intro s
    exact (pres_bind (pres_parseIn _ _ _) (fun k => pres_implementAndCompile_none k)).at s
  | load name rev f =>
    simp only [Op.featArg] at hf; subst hf
    unfold forward
    apply pres_getBind
    intro s
    exact (pres_bind (pres_parseLoad _ _ _) (fun k => pres_implementAndCompile_none k)).at s
  | setImpl k f =>
    simp only [Op.featArg] at hf; subst hf
    unfold forward
    exact pres_implementAndCompile_none k
  | compile =>
    unfold forward
    exact pres_bind (pres_depSetsM _) (fun _ => pres_compileAll)
  | setOpt ex pp =>
    unfold forward
    apply pres_getBind
    intro s
    refine (pres_bind ?_ (fun _ => pres_modS fun _ h => h.congr rfl rfl rfl)).at s
    split
    · refine pres_bind (pres_modS fun _ h => h.privMark) (fun _ => ?_)
      exact pres_bind (pres_depSetsM _) (fun _ => pres_compileAll)
    · exact pres_pure _
  | unsetOpt ex pp =>
    unfold forward
    exact pres_modS fun _ h => h.congr rfl rfl rfl

/-- any operation keeps the invariant up to the features of one module -/
theorem forward_masked (op : Op) (s : Ctx) (h : Inv none c₀ s) :
    ∃ k, Inv (some k) (c₀.map (maskCore k)) (forward op s).2 := by
  cases op with
  | parse src f =>
    simp only [forward, bind_run, getS_run]
    have h1 := pres_parseIn (parseFuel s) src none s h
    cases hp : parseIn (parseFuel s) src none s with
    | mk r s1 =>
      rw [hp] at h1
      cases r with
      | error e => exact ⟨default, h1.mask _⟩
      | ok k => exact ⟨k, pres_implementAndCompile_masked k f s1 (h1.mask k)⟩
  | load name rev f =>
    simp only [forward, bind_run, getS_run]
    have h1 := pres_parseLoad (parseFuel s) name rev s h
    cases hp : parseLoad (parseFuel s) name rev s with
    | mk r s1 =>
      rw [hp] at h1
      cases r with
      | error e => exact ⟨default, h1.mask _⟩
      | ok k => exact ⟨k, pres_implementAndCompile_masked k f s1 (h1.mask k)⟩
  | setImpl k f =>
    unfold forward
    exact ⟨k, pres_implementAndCompile_masked k f s (h.mask k)⟩
  | compile => exact ⟨default, (pres_forward_none .compile rfl s h).mask _⟩
  | setOpt ex pp => exact ⟨default, (pres_forward_none (.setOpt ex pp) rfl s h).mask _⟩
  | unsetOpt ex pp => exact ⟨default, (pres_forward_none (.unsetOpt ex pp) rfl s h).mask _⟩

theorem lrefClosed_coreM {mk : Option MKey} {l : List Mod} (h : LrefClosedC (l.map Mod.core)) :
    LrefClosedC (l.map (coreM mk)) := by
  intro x hx hxi tn htn tk htk t ht
  simp only [List.mem_map] at hx
  obtain ⟨m, hm, rfl⟩ := hx
  -- the target in the masked list comes from a module
  unfold findCore at ht
  rw [List.find?_map] at ht
  cases hft : List.find? ((fun x : Core => x.key == tk) ∘ coreM mk) l with
  | none => rw [hft] at ht; cases ht
  | some tm =>
    rw [hft] at ht
    simp only [Option.map_some, Option.some.injEq] at ht
    subst ht
    rw [coreM_implemented] at hxi ⊢
    have hfind : findCore (l.map Mod.core) tk = some tm.core := by
      unfold findCore
      rw [List.find?_map]
      have : ((fun x : Core => x.key == tk) ∘ Mod.core) = ((fun x : Core => x.key == tk) ∘ coreM mk) := by
        funext m'; rfl
      rw [this, hft]; rfl
    exact h m.core (List.mem_map_of_mem hm) hxi tn htn tk htk tm.core hfind

/-- the state after the two loops and the recompilation of `lys_unres_glob_revert` -/
theorem revert_cores {mk : Option MKey} {s₀ s1 : Ctx} (hc : s₀.creating = []) (hi : s₀.implementing = [])
    (hl : s₀.LrefClosed) (h : Inv mk (restore mk s₀) s1) :
    (revert s1).mods.map (coreM mk) = s₀.mods.map (coreM mk) := by
  have hj : J mk (s₀.mods.map (coreM mk)) (revertCore s1) := by
    unfold J
    rw [revertCore_cores, h.restore, restore_quiescent s₀ hc hi]
  rw [revert_eq]
  split
  · exact hj
  · exact presJ_compileAll (lrefClosed_coreM hl) _ hj

end LyModel.Ctx
