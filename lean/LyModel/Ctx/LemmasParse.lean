import LyModel.Ctx.LemmasFwd
/-!
`lys_parse_in` / `lys_parse_load` keep the rollback invariant: a module enters the context only together with its
entry in `creating`, and while its imports are being resolved only modules in `creating` get their `imports[].module` set.
-/
namespace LyModel.Ctx

variable {mk : Option MKey} {c₀ : List Core}

/-- `Inv` plus: the modules currently being parsed (up the import chain) are in `creating` -/
def InvK (mk : Option MKey) (c₀ : List Core) (K : List MKey) (s : Ctx) : Prop :=
  Inv mk c₀ s ∧ ∀ k ∈ K, k ∈ s.creating

theorem find_upd (s : Ctx) (k k' : MKey) (f : Mod → Mod) (hsrc : ∀ m, (f m).src = m.src) :
    (s.upd k f).find k' = (s.find k').map (fun m => if m.key == k then f m else m) := by
  unfold Ctx.find Ctx.upd
  simp only [List.find?_map]
  have : ((fun m : Mod => m.key == k') ∘ fun m => if (m.key == k) = true then f m else m) = fun m => m.key == k' := by
    funext m
    simp only [Function.comp]
    split
    · rw [Mod.key_eq_of_src (hsrc m)]
    · rfl
  rw [this]

theorem find_upd_none {s : Ctx} {k k' : MKey} {f : Mod → Mod} (hsrc : ∀ m, (f m).src = m.src)
    (h : s.find k' = none) : (s.upd k f).find k' = none := by
  rw [find_upd s k k' f hsrc, h]; rfl

/-- lift a preservation result for `Inv` to `InvK` when the action does not touch `creating` -/
theorem presK_of {α : Type} {x : M α} {K : List MKey} (h : Pres (Inv mk c₀) x) (hc : ∀ s, (x s).2.creating = s.creating) :
    Pres (InvK mk c₀ K) x := by
  intro s hs
  refine ⟨h s hs.1, ?_⟩
  rw [hc s]; exact hs.2

theorem presK_updFree {K : List MKey} (k : MKey) (f : Mod → Mod)
    (hc : ∀ m, (f m).core = m.core) (ht : ∀ m, (f m).toCompile = true → m.toCompile = true) :
    Pres (InvK mk c₀ K) (updM k f) :=
  presK_of (pres_updFree k f hc ht) (fun _ => rfl)

theorem parseDecision_create {s : Ctx} {src : ModSrc} {check : Option (Option Bytes)} {old : Option MKey} {l : Latest}
    (h : parseDecision s src check = .create old l) : s.find (src.name, src.rev) = none := by
  unfold parseDecision at h
  split at h
  dsimp only at h
  split at h
  · cases h
  · split at h
    · cases h
    · next hnone =>
      exact hnone

theorem InvK.enterMod {K : List MKey} {s : Ctx} (src : ModSrc) (old : Option MKey) (l : Latest)
    (hs : InvK mk c₀ K s) (hfind : s.find (src.name, src.rev) = none) :
    InvK mk c₀ ((src.name, src.rev) :: K) (enterMod src old l s) := by
  unfold LyModel.Ctx.enterMod
  cases old with
  | none =>
    refine ⟨hs.1.createMod src l hfind, ?_⟩
    intro k' hk'
    simp only [LyModel.Ctx.createMod, LyModel.Ctx.tick, List.mem_append, List.mem_singleton]
    rcases List.mem_cons.mp hk' with rfl | hk'
    · exact Or.inr rfl
    · exact Or.inl (hs.2 k' hk')
  | some ok =>
    have h1 : Inv mk c₀ (s.upd ok fun m => { m with latest := { m.latest with rev := false, dirs := false } }) :=
      hs.1.updFree ok _ (fun _ => rfl) (fun _ => id)
    refine ⟨h1.createMod src l (find_upd_none (fun _ => rfl) hfind), ?_⟩
    intro k' hk'
    simp only [LyModel.Ctx.createMod, LyModel.Ctx.tick, List.mem_append, List.mem_singleton]
    rcases List.mem_cons.mp hk' with rfl | hk'
    · exact Or.inr rfl
    · exact Or.inl (hs.2 k' hk')

theorem InvK.weaken {K : List MKey} {k : MKey} {s : Ctx} (h : InvK mk c₀ (k :: K) s) : InvK mk c₀ K s :=
  ⟨h.1, fun k' hk' => h.2 k' (List.mem_cons_of_mem _ hk')⟩

theorem presK_finishParse {K : List MKey} (src : ModSrc) (k : MKey) : Pres (InvK mk c₀ K) (finishParse src k) := by
  unfold finishParse
  refine pres_bind (presK_updFree _ _ (fun _ => rfl) (fun _ => id)) (fun _ => ?_)
  split
  · exact pres_failS _
  · exact pres_bind (presK_updFree _ _ (fun _ => rfl) (fun _ => id)) (fun _ => pres_pure _)

theorem presK_loadFinish {K : List MKey} (rev : Option Bytes) (got : Option MKey) (ml : Option Mod) :
    Pres (InvK mk c₀ K) (loadFinish rev got ml) := by
  unfold loadFinish
  split
  · refine pres_bind ?_ (fun _ => ?_)
    · split
      · exact presK_updFree _ _ (fun _ => rfl) (fun _ => id)
      · exact pres_pure _
    · apply pres_getBind
      intro s
      refine (pres_bind ?_ (fun _ => pres_pure _)).at s
      split
      · exact presK_updFree _ _ (fun _ => rfl) (fun _ => id)
      · exact pres_pure _
  · split
    · exact pres_failS _
    · exact pres_bind (presK_updFree _ _ (fun _ => rfl) (fun _ => id)) (fun _ => pres_pure _)

theorem presK_circularCheck {K : List MKey} (k : MKey) : Pres (InvK mk c₀ K) (circularCheck k) := by
  unfold circularCheck
  apply pres_getBind
  intro s
  split
  · exact presAt_failS _ _
  · exact presAt_pure _ _

theorem pres_parse : ∀ fuel,
    (∀ src chk K, Pres (InvK mk c₀ K) (parseIn fuel src chk)) ∧
    (∀ name rev K, Pres (InvK mk c₀ K) (parseLoad fuel name rev)) := by
  intro fuel
  induction fuel with
  | zero =>
    refine ⟨fun _ _ _ => ?_, fun _ _ _ => ?_⟩
    · unfold parseIn; exact pres_failS _
    · unfold parseLoad; exact pres_failS _
  | succ n ih =>
    obtain ⟨ihIn, ihLoad⟩ := ih
    refine ⟨fun src chk K => ?_, fun name rev K => ?_⟩
    · -- parseIn
      unfold parseIn
      split
      · exact pres_failS _
      · apply pres_getBind
        intro s
        split
        · exact presAt_failS _ _
        · exact presAt_pure _ _
        · next old lflags hdec =>
          -- the module enters the context
          intro hs
          have hfind := parseDecision_create hdec
          have hcreate := hs.enterMod src old lflags hfind
          -- everything after it keeps the invariant with `k` among the modules being parsed
          have hrest : Pres (InvK mk c₀ ((src.name, src.rev) :: K))
              (do
                forEach src.imports fun x => do
                  let t ← parseLoad n x.1 (if x.2.isEmpty then none else some x.2)
                  (if x.2.isEmpty then updM t fun m => { m with latest := { m.latest with imp := true } } else pure ())
                  updM (src.name, src.rev) fun m => { m with impRes := m.impRes ++ [t] }
                finishParse src (src.name, src.rev)) := by
            refine pres_bind (pres_forEach (fun x => ?_)) (fun _ => presK_finishParse _ _)
            refine pres_bind (ihLoad _ _ _) (fun t => ?_)
            refine pres_bind ?_ (fun _ => ?_)
            · split
              · exact presK_updFree _ _ (fun _ => rfl) (fun _ => id)
              · exact pres_pure _
            · -- imports[].module of the module being created
              apply pres_modS
              intro s1 hs1
              refine ⟨hs1.1.updCreating _ _ (fun _ => rfl) (hs1.2 _ (List.mem_cons_self ..)) ?_, hs1.2⟩
              intro m hm _ hmt
              exact hs1.1.flag m hm hmt
          exact (modS_bind_establish hcreate hrest).weaken
    · -- parseLoad
      unfold parseLoad
      apply pres_getBind
      intro s
      refine (pres_bind ?_ (fun k => presK_circularCheck k)).at s
      split
      · exact pres_pure _
      · refine pres_bind ?_ (fun got => presK_loadFinish _ _ _)
        split
        · exact pres_pure _
        · split
          · exact pres_attemptLoad _ (ihIn _ _ _)
          · exact pres_pure _

end LyModel.Ctx
