import LyModel.Base
/-!
Jenkins one-at-a-time hash as used by libyang (`hash_table.c: lyht_hash_multi`), on `BitVec 32`.

    if (key_part && len) for each byte: hash += (char)b; hash += hash << 10; hash ^= hash >> 6;
    else                 hash += hash << 3; hash ^= hash >> 11; hash += hash << 15;

`key_part` is `const char *`: on the supported hosts `char` is signed, so a byte ≥ 0x80 is sign-extended before it
is added (mirrored here; module names, revisions and feature names are ASCII, the `implemented` byte is 0 or 1).
Core Lean only: this file is linked into `lydrv`.
-/
namespace LyModel.Ctx.Jenkins

abbrev H := BitVec 32

/-- `(uint32_t)(char)b` -/
def ext (b : UInt8) : H := (BitVec.ofNat 8 b.toNat).signExtend 32

def mix1 (h : H) : H := h + (h <<< 10)
def mix2 (h : H) : H := h ^^^ (h >>> 6)

/-- one byte of the absorbing loop -/
def absorb (h : H) (b : UInt8) : H := mix2 (mix1 (h + ext b))

def fin1 (h : H) : H := h + (h <<< 3)
def fin2 (h : H) : H := h ^^^ (h >>> 11)
def fin3 (h : H) : H := h + (h <<< 15)

/-- the `else` branch: final avalanche -/
def finish (h : H) : H := fin3 (fin2 (fin1 h))

/-- `lyht_hash_multi(hash, key_part, len)`; an empty key part takes the finishing branch, exactly as the C does -/
def multi (h : H) (key : Bytes) : H :=
  if key.isEmpty then finish h else key.foldl absorb h

/-- `lyht_hash(key, len)` -/
def hash (key : Bytes) : H := multi (multi 0 key) []

/-- absorbing the concatenation of non-empty parts part by part = absorbing the whole string -/
def absorbAll (h : H) (bs : Bytes) : H := bs.foldl absorb h

end LyModel.Ctx.Jenkins
