import LyModel.Ctx.LemmasFinal
/-!
`lys_features_restore` on the error path of `lys_set_implemented` / `lys_parse` / `ly_ctx_load_module` (fixes/F4.diff): it keeps the
rollback invariant, and turns the invariant "up to the features of the module the `features` argument was applied to" into the
invariant without exception.
-/
namespace LyModel.Ctx

/-- in a quiescent context a module found by its key is the only one with that key, and `restore` lists its core -/
theorem quiescent_core_of_key {mk : Option MKey} {s : Ctx} (hc : s.creating = []) (hi : s.implementing = [])
    (hnd : (s.mods.map (·.key)).Nodup) {k : MKey} {m0 : Mod} (hf : s.find k = some m0) {x : Core}
    (hx : x ∈ restore mk s) (hk : x.key = k) : x = coreM mk m0 := by
  rw [restore_quiescent s hc hi] at hx
  obtain ⟨m, hm, rfl⟩ := List.mem_map.mp hx
  obtain ⟨hm0, hk0⟩ := find_some_mem hf
  have : m = m0 := nodup_map_inj hnd hm hm0 (by rw [hk0]; exact hk)
  rw [this]

/-- the restored features are the features the module has anyway, unless it is the masked module -/
theorem inv_restoreFeats {mk : Option MKey} {s s1 : Ctx} {op : Op} (hc : s.creating = []) (hi : s.implementing = [])
    (hnd : (s.mods.map (·.key)).Nodup) (h : Inv mk (restore mk s) s1) : Inv mk (restore mk s) (restoreFeats s op s1) := by
  rcases restoreFeats_cases s op s1 with e | ⟨k, m0, hf, _, e⟩ <;> rw [e]
  · exact h
  · refine Inv.upd k (fun m => { m with feats := m0.feats, subFeats := m0.subFeats }) h (fun _ => rfl) ?_ ?_
    · intro m hm hmk hcr
      by_cases hmask : mk = some m.key
      · simp [Mod.restoredCore, Mod.key, hmask]
      · have hmem : Mod.restoredCore s1.implementing mk m ∈ restore mk s := by
          rw [← h.restore]
          unfold restore
          apply List.mem_map_of_mem
          rw [List.mem_filter]
          exact ⟨hm, by rw [hmk, hcr]; rfl⟩
        have := quiescent_core_of_key hc hi hnd hf hmem hmk
        have h1 := congrArg Core.feats this
        have h2 := congrArg Core.subFeats this
        have hmask0 : ¬ mk = some m0.key := by rw [(find_some_mem hf).2, ← hmk]; exact hmask
        simp only [Mod.restoredCore, coreM, hmask, hmask0, if_false] at h1 h2
        simp only [Mod.restoredCore, Mod.key, hmask, if_false, h1, h2]
        simp [Mod.key] at hmask
        simp [hmask]
    · intro m hm _ ht
      exact h.flag m hm ht

/-- put the features of module `k` (those it has in `s`) back into a core whose features are masked -/
def unmaskCore (k : MKey) (m0 : Mod) (x : Core) : Core :=
  if x.key = k then { x with feats := m0.feats, subFeats := m0.subFeats } else x

/-- **the exception disappears**: with the features of the one module restored, the invariant up to that module's features is
    the invariant proper -/
theorem inv_unmask {s s1 : Ctx} {k : MKey} {m0 : Mod} (hc : s.creating = []) (hi : s.implementing = [])
    (hnd : (s.mods.map (·.key)).Nodup) (hf : s.find k = some m0) (h : Inv (some k) (restore (some k) s) s1) :
    Inv none (restore none s) (s1.upd k fun m => { m with feats := m0.feats, subFeats := m0.subFeats }) := by
  have h' : Inv (some k) (restore (some k) s) (s1.upd k fun m => { m with feats := m0.feats, subFeats := m0.subFeats }) := by
    refine Inv.upd k (fun m => { m with feats := m0.feats, subFeats := m0.subFeats }) h (fun _ => rfl) ?_ ?_
    · intro m _ hmk _
      simp [Mod.restoredCore, Mod.key, ← hmk]
    · intro m hm _ ht
      exact h.flag m hm ht
  refine ⟨?_, h'.nodup, h'.flag⟩
  have hun1 : ∀ m ∈ (s1.upd k fun m => { m with feats := m0.feats, subFeats := m0.subFeats }).mods,
      Mod.restoredCore s1.implementing none m = unmaskCore k m0 (Mod.restoredCore s1.implementing (some k) m) := by
    intro m hm
    simp only [Ctx.upd, List.mem_map] at hm
    obtain ⟨m1, _, rfl⟩ := hm
    by_cases hk : m1.key = k
    · have hb : (m1.key == k) = true := by simpa using hk
      simp [hb, unmaskCore, Mod.restoredCore, Core.key, Mod.key, hk, ← hk]
    · have hb : (m1.key == k) = false := by simpa using hk
      have hk' : ¬ k = m1.key := fun e => hk e.symm
      simp [hb, unmaskCore, Mod.restoredCore, Core.key, hk, hk', Mod.key] at *
      simp [Mod.key, hk, hk']
  have hun0 : ∀ m ∈ s.mods, coreM none m = unmaskCore k m0 (coreM (some k) m) := by
    intro m hm
    by_cases hk : m.key = k
    · obtain ⟨hm0, hk0⟩ := find_some_mem hf
      have : m = m0 := nodup_map_inj hnd hm hm0 (by rw [hk0]; exact hk)
      subst this
      simp [unmaskCore, coreM, Mod.restoredCore, Core.key, Mod.key, hk, ← hk]
    · have hk' : ¬ k = m.key := fun e => hk e.symm
      simp [unmaskCore, coreM, Mod.restoredCore, Core.key, hk, hk', Mod.key] at *
      simp [Mod.key, hk, hk']
  have e1 := h'.restore
  rw [restore_quiescent s hc hi] at e1 ⊢
  have e2 := congrArg (List.map (unmaskCore k m0)) e1
  simp only [restore, List.map_map] at e2 ⊢
  rw [show (List.map (coreM none) s.mods) = List.map (unmaskCore k m0 ∘ coreM (some k)) s.mods from
    List.map_congr_left fun m hm => hun0 m hm, ← e2]
  apply List.map_congr_left
  intro m hm
  exact hun1 m (List.mem_filter.mp hm).1

/-- any operation keeps the invariant up to the features of its target module — the module `lys_features_backup` reads —, and
    keeps it without exception when no target becomes known -/
theorem forward_target {c₀ : List Core} (op : Op) (s : Ctx) (h : Inv none c₀ s) :
    match targetKey s op with
    | some k => Inv (some k) (c₀.map (maskCore k)) (forward op s).2
    | none => Inv none c₀ (forward op s).2 := by
  cases op with
  | parse src f =>
    simp only [forward, bind_run, getS_run, targetKey]
    have h1 := pres_parseIn (parseFuel s) src none s h
    cases hp : parseIn (parseFuel s) src none s with
    | mk r s1 =>
      rw [hp] at h1
      cases r with
      | error e => exact h1
      | ok k => exact pres_implementAndCompile_masked k f s1 (h1.mask k)
  | load name rev f =>
    simp only [forward, bind_run, getS_run, targetKey]
    have h1 := pres_parseLoad (parseFuel s) name rev s h
    cases hp : parseLoad (parseFuel s) name rev s with
    | mk r s1 =>
      rw [hp] at h1
      cases r with
      | error e => exact h1
      | ok k => exact pres_implementAndCompile_masked k f s1 (h1.mask k)
  | setImpl k f =>
    simp only [targetKey]
    unfold forward
    exact pres_implementAndCompile_masked k f s (h.mask k)
  | compile => exact pres_forward_none .compile rfl s h
  | setOpt ex pp => exact pres_forward_none (.setOpt ex pp) rfl s h
  | unsetOpt ex pp => exact pres_forward_none (.unsetOpt ex pp) rfl s h

/-- **with the features restored on the error path the rollback invariant holds without exception** at the point where
    `lys_unres_glob_revert` starts -/
theorem inv_restored {s : Ctx} (op : Op) (hc : s.creating = []) (hi : s.implementing = [])
    (hnd : (s.mods.map (·.key)).Nodup) (hfl : ∀ m ∈ s.mods, m.toCompile = true → m.implemented = true)
    (hcfg : s.cfg2.restoreFeats = true) :
    Inv none (restore none s) (restoreFeats s op (forward op s).2) := by
  have hinv : Inv none (restore none s) s := ⟨rfl, hnd, hfl⟩
  have ht := forward_target op s hinv
  unfold restoreFeats
  rw [if_pos hcfg]
  cases hk : targetKey s op with
  | none => rw [hk] at ht; exact ht
  | some k =>
    rw [hk] at ht
    have ht' : Inv (some k) (restore (some k) s) (forward op s).2 := by
      have : (restore none s).map (maskCore k) = restore (some k) s := by
        simp only [restore, List.map_map]
        apply List.map_congr_left
        intro m _
        exact (restoredCore_mask _ k m).symm
      rw [← this]; exact ht
    cases hf : s.find k with
    | some m0 => simp only [hf]; exact inv_unmask hc hi hnd hf ht'
    | none =>
      -- the target was created by this call: no module that stays has its key
      simp only [hf]
      refine ⟨?_, ht'.nodup, ht'.flag⟩
      have hno := find_none_iff.mp hf
      have e1 := ht'.restore
      rw [restore_quiescent s hc hi] at e1 ⊢
      have hR : ∀ x ∈ List.map (coreM (some k)) s.mods, x.key ≠ k := by
        intro x hx
        obtain ⟨m, hm, rfl⟩ := List.mem_map.mp hx
        exact hno m hm
      have hL : ∀ m ∈ (forward op s).2.mods.filter (fun m => !(forward op s).2.creating.contains m.key), m.key ≠ k := by
        intro m hm
        have : Mod.restoredCore (forward op s).2.implementing (some k) m ∈ List.map (coreM (some k)) s.mods := by
          rw [← e1]; exact List.mem_map_of_mem hm
        exact hR _ this
      have e2 := congrArg (List.map (unmaskCore k default)) e1
      simp only [restore, List.map_map] at e2 ⊢
      have a1 : List.map (coreM none) s.mods = List.map (unmaskCore k default ∘ coreM (some k)) s.mods := by
        apply List.map_congr_left
        intro m hm
        have hk1 : ¬ m.key = k := hno m hm
        have hk2 : ¬ k = m.key := fun e => hk1 e.symm
        simp [unmaskCore, coreM, Mod.restoredCore, Core.key, Mod.key, hk1, hk2] at *
        simp [Mod.key, hk1, hk2]
      rw [a1, ← e2]
      apply List.map_congr_left
      intro m hm
      have hk1 : ¬ m.key = k := hL m hm
      have hk2 : ¬ k = m.key := fun e => hk1 e.symm
      simp [unmaskCore, Mod.restoredCore, Core.key, Mod.key, hk1, hk2] at *
      simp [Mod.key, hk1, hk2]

end LyModel.Ctx
