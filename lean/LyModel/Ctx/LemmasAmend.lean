import LyModel.Ctx.LemmasFinal
import LyModel.Ctx.LemmasCount
/-!
`augmented_by` / `deviated_by` (`lys_module`) through a failed operation.

Forward part (`AB`): for every module that is not being created, each of the two arrays is what it was at the start followed by
references to modules that are being implemented (`lys_array_add_mod_ref` appends, never twice); nothing else in the forward part
of any operation writes the arrays.  Revert part: `lys_precompile_augments_deviations_revert` removes exactly the references to
the modules in `unres.implementing`, keeping the order, and the recompilation that follows does not touch the arrays when the
leafref targets of the implemented modules are implemented (`JA`).
-/
namespace LyModel.Ctx

abbrev AV := MKey × List MKey × List MKey

/-- key, `augmented_by`, `deviated_by` -/
def Mod.av (m : Mod) : AV := (m.key, m.augBy, m.devBy)

/-- `l` is `base` followed by references to modules of `imp` -/
def Ext (imp base l : List MKey) : Prop := ∃ e, l = base ++ e ∧ ∀ k ∈ e, k ∈ imp

theorem Ext.mono {imp imp' base l : List MKey} (h : Ext imp base l) (hi : ∀ k ∈ imp, k ∈ imp') : Ext imp' base l := by
  obtain ⟨e, h1, h2⟩ := h
  exact ⟨e, h1, fun k hk => hi k (h2 k hk)⟩

structure AB (a₀ : List AV) (s : Ctx) : Prop where
  aug : ∀ m ∈ s.mods, s.creating.contains m.key = false → ∃ x ∈ a₀, x.1 = m.key ∧ Ext s.implementing x.2.1 m.augBy
  dev : ∀ m ∈ s.mods, s.creating.contains m.key = false → ∃ x ∈ a₀, x.1 = m.key ∧ Ext s.implementing x.2.2 m.devBy
  nodup : ∀ m ∈ s.mods, m.augBy.Nodup ∧ m.devBy.Nodup

variable {a₀ : List AV}

/-- the general step: every module afterwards is a module from before (same key and arrays) or a module being created with
    empty arrays; `creating` and `implementing` only grow -/
theorem AB.step {s s' : Ctx} (h : AB a₀ s)
    (hm : ∀ m' ∈ s'.mods, (∃ m ∈ s.mods, m.av = m'.av) ∨ (s'.creating.contains m'.key = true ∧ m'.augBy = [] ∧ m'.devBy = []))
    (hc : ∀ k, s.creating.contains k = true → s'.creating.contains k = true)
    (hi : ∀ k ∈ s.implementing, k ∈ s'.implementing) : AB a₀ s' := by
  refine ⟨?_, ?_, ?_⟩
  · intro m' hm' hcr
    rcases hm m' hm' with ⟨m, hmm, hav⟩ | ⟨h1, _, _⟩
    · simp only [Mod.av, Prod.mk.injEq] at hav
      obtain ⟨hk, ha, _⟩ := hav
      have hcr0 : s.creating.contains m.key = false := by
        cases hb : s.creating.contains m.key with
        | false => rfl
        | true => rw [← hk, hc _ hb] at hcr; cases hcr
      obtain ⟨x, hx, hxk, hext⟩ := h.aug m hmm hcr0
      exact ⟨x, hx, hxk.trans hk, ha ▸ hext.mono hi⟩
    · rw [h1] at hcr; cases hcr
  · intro m' hm' hcr
    rcases hm m' hm' with ⟨m, hmm, hav⟩ | ⟨h1, _, _⟩
    · simp only [Mod.av, Prod.mk.injEq] at hav
      obtain ⟨hk, _, hd⟩ := hav
      have hcr0 : s.creating.contains m.key = false := by
        cases hb : s.creating.contains m.key with
        | false => rfl
        | true => rw [← hk, hc _ hb] at hcr; cases hcr
      obtain ⟨x, hx, hxk, hext⟩ := h.dev m hmm hcr0
      exact ⟨x, hx, hxk.trans hk, hd ▸ hext.mono hi⟩
    · rw [h1] at hcr; cases hcr
  · intro m' hm'
    rcases hm m' hm' with ⟨m, hmm, hav⟩ | ⟨_, h2, h3⟩
    · simp only [Mod.av, Prod.mk.injEq] at hav
      obtain ⟨_, ha, hd⟩ := hav
      rw [← ha, ← hd]; exact h.nodup m hmm
    · rw [h2, h3]; exact ⟨List.nodup_nil, List.nodup_nil⟩

/-- a change of the module list that keeps key and arrays of every module -/
theorem AB.keep {s s' : Ctx} (h : AB a₀ s) (hm : s'.mods.map Mod.av = s.mods.map Mod.av) (hc : s'.creating = s.creating)
    (hi : s'.implementing = s.implementing) : AB a₀ s' := by
  refine h.step (fun m' hm' => Or.inl ?_) (fun k hk => hc ▸ hk) (fun k hk => hi ▸ hk)
  have : m'.av ∈ s.mods.map Mod.av := hm ▸ List.mem_map_of_mem hm'
  obtain ⟨m, hmm, he⟩ := List.mem_map.mp this
  exact ⟨m, hmm, he⟩

theorem map_av (l : List Mod) (g : Mod → Mod) (hg : ∀ m, (g m).av = m.av) : (l.map g).map Mod.av = l.map Mod.av := by
  rw [List.map_map]
  exact List.map_congr_left fun m _ => hg m

theorem upd_av (s : Ctx) (k : MKey) (f : Mod → Mod) (hf : ∀ m, (f m).av = m.av) :
    (s.upd k f).mods.map Mod.av = s.mods.map Mod.av := by
  unfold Ctx.upd
  exact map_av _ _ fun m => by split; exact hf m; rfl

theorem AB.upd {s : Ctx} (h : AB a₀ s) (k : MKey) (f : Mod → Mod) (hf : ∀ m, (f m).av = m.av) : AB a₀ (s.upd k f) :=
  h.keep (upd_av s k f hf) rfl rfl

theorem presAB_updM (k : MKey) (f : Mod → Mod) (hf : ∀ m, (f m).av = m.av) : Pres (AB a₀) (updM k f) :=
  pres_modS fun _ h => h.upd k f hf

theorem AB.tick {s : Ctx} (n : Nat) (h : AB a₀ s) : AB a₀ (tick n s) := h.keep rfl rfl rfl

theorem AB.createMod {s : Ctx} (h : AB a₀ s) (src : ModSrc) (l : Latest) : AB a₀ (createMod src l s) := by
  unfold LyModel.Ctx.createMod
  apply AB.tick
  refine h.step ?_ ?_ (fun k hk => hk)
  · intro m' hm'
    simp only [List.mem_append, List.mem_singleton] at hm'
    rcases hm' with hm' | rfl
    · exact Or.inl ⟨m', hm', rfl⟩
    · right
      simp [newMod, Mod.key, List.contains_append]
  · intro k hk
    simp only [List.contains_append, hk, Bool.true_or]

theorem AB.enterMod {s : Ctx} (h : AB a₀ s) (src : ModSrc) (old : Option MKey) (l : Latest) : AB a₀ (enterMod src old l s) := by
  unfold LyModel.Ctx.enterMod
  cases old with
  | none => exact h.createMod src l
  | some ok => exact (h.upd ok (fun m => { m with latest := { m.latest with rev := false, dirs := false } }) (fun _ => rfl)).createMod src l

theorem AB.installCompiled {s : Ctx} (h : AB a₀ s) (k : MKey) : AB a₀ (installCompiled k s) := by
  unfold LyModel.Ctx.installCompiled
  split
  · exact h
  · next m _ => exact (h.upd k (fun m' => { m' with compiled := some (s.nextId, s.descOf m) }) (fun _ => rfl)).keep rfl rfl rfl

theorem AB.markImpl {s : Ctx} (h : AB a₀ s) (k : MKey) : AB a₀ (markImpl k s) := by
  unfold LyModel.Ctx.markImpl
  apply AB.tick
  refine (h.upd k (fun x => { x with implemented := true, toCompile := true }) (fun _ => rfl)).step
    (fun m' hm' => Or.inl ⟨m', hm', rfl⟩) (fun _ hk => hk) ?_
  intro x hx
  exact List.mem_append_left _ hx

theorem setFeatures_av {m m' : Mod} {arg : FeatArg} {c : Bool} (h : setFeatures m arg = some (m', c)) : m'.av = m.av := by
  unfold setFeatures at h
  split at h
  · simp at h; obtain ⟨rfl, _⟩ := h; rfl
  · simp at h; obtain ⟨rfl, _⟩ := h; rfl
  · split at h
    · simp at h; obtain ⟨rfl, _⟩ := h; rfl
    · dsimp only at h
      split at h
      · simp at h; obtain ⟨rfl, _⟩ := h; rfl
      · simp at h

theorem AB.setFeatsPrim {s : Ctx} (h : AB a₀ s) (k : MKey) (arg : FeatArg) : AB a₀ (setFeatsPrim k arg s) := by
  unfold LyModel.Ctx.setFeatsPrim
  refine h.upd k _ (fun m => ?_)
  split
  · next m' c heq => exact setFeatures_av heq
  · rfl

theorem AB.setFeatsFlag {s : Ctx} (h : AB a₀ s) (k : MKey) (arg : FeatArg) : AB a₀ (setFeatsFlag k arg s) := by
  unfold LyModel.Ctx.setFeatsFlag
  apply AB.tick
  refine h.upd k _ (fun m => ?_)
  split
  · next m' c heq =>
    have := setFeatures_av heq
    exact this
  · rfl

theorem markDepSet_av (s : Ctx) (ds : List MKey) : (markDepSet s ds).mods.map Mod.av = s.mods.map Mod.av ∧
    (markDepSet s ds).creating = s.creating ∧ (markDepSet s ds).implementing = s.implementing := by
  unfold markDepSet
  split
  · exact ⟨map_av _ _ fun m => by split <;> rfl, rfl, rfl⟩
  · exact ⟨rfl, rfl, rfl⟩

theorem foldMarkDepSet_av (dss : List (List MKey)) : ∀ s : Ctx, (dss.foldl markDepSet s).mods.map Mod.av = s.mods.map Mod.av ∧
    (dss.foldl markDepSet s).creating = s.creating ∧ (dss.foldl markDepSet s).implementing = s.implementing := by
  induction dss with
  | nil => intro s; exact ⟨rfl, rfl, rfl⟩
  | cons d r ih =>
    intro s
    obtain ⟨a1, a2, a3⟩ := ih (markDepSet s d)
    obtain ⟨b1, b2, b3⟩ := markDepSet_av s d
    exact ⟨a1.trans b1, a2.trans b2, a3.trans b3⟩

theorem presAB_depSetsM (mod : Option MKey) : Pres (AB a₀) (depSetsM mod) := by
  unfold depSetsM
  apply pres_modS
  intro s h
  obtain ⟨a1, a2, a3⟩ := foldMarkDepSet_av (depSetsCreate s mod) s
  exact h.keep a1 a2 a3

theorem presAB_compileChecked (k : MKey) : Pres (AB a₀) (compileChecked k) := by
  unfold compileChecked
  refine pres_getBind' fun s => ?_
  split
  · exact pres_pure _
  · split
    · exact pres_bind (pres_modS fun _ h => h.tick 1) (fun _ => pres_failS _)
    · exact pres_modS fun _ h => (h.tick 1).installCompiled k

theorem presAB_hasCompiledImportR : ∀ fuel k, Pres (AB a₀) (hasCompiledImportR fuel k) := by
  intro fuel
  induction fuel with
  | zero => intro k; exact pres_pure false
  | succ m ih =>
    intro k
    unfold hasCompiledImportR
    refine pres_getBind' fun s => ?_
    split
    · exact pres_pure _
    · refine pres_anyS fun x => pres_getBind' fun s1 => ?_
      split
      · exact pres_pure _
      · split
        · exact pres_pure _
        · split
          · exact pres_bind (presAB_updM _ _ (by intro m; first | rfl | (split <;> rfl))) (fun _ => pres_pure _)
          · exact ih x

/-! ### `lys_precompile_augments_deviations`: the one place that writes the arrays -/

/-- the invariant while module `k` is being implemented -/
def ABk (k : MKey) (a₀ : List AV) (s : Ctx) : Prop := AB a₀ s ∧ k ∈ s.implementing

theorem Ext.add {imp base l : List MKey} {k : MKey} (h : Ext imp base l) (hk : k ∈ imp) : Ext imp base (addRef k l).1 := by
  unfold addRef
  split
  · exact h
  · obtain ⟨e, h1, h2⟩ := h
    refine ⟨e ++ [k], by rw [h1, List.append_assoc], ?_⟩
    intro x hx
    simp only [List.mem_append, List.mem_singleton] at hx
    rcases hx with hx | rfl
    · exact h2 x hx
    · exact hk

theorem nodup_addRef {l : List MKey} {k : MKey} (h : l.Nodup) : (addRef k l).1.Nodup := by
  unfold addRef
  split
  · exact h
  · next hc =>
    rw [List.nodup_append]
    refine ⟨h, by simp, ?_⟩
    intro a ha b hb
    simp only [List.mem_singleton] at hb
    subst hb
    intro heq
    subst heq
    exact hc (by simpa using ha)

/-- the two arrays are written through one of these two updates -/
theorem ABk.setList {s : Ctx} {k tk : MKey} {t : Mod} (isAug : Bool) (h : ABk k a₀ s) (ht : s.find tk = some t)
    (f : Mod → Mod) (hkey : ∀ x, (f x).key = x.key)
    (hf : ∀ x, (isAug = true ∧ (f x).augBy = (addRef k t.augBy).1 ∧ (f x).devBy = x.devBy) ∨
               (isAug = false ∧ (f x).augBy = x.augBy ∧ (f x).devBy = (addRef k t.devBy).1)) :
    ABk k a₀ (s.upd tk f) := by
  obtain ⟨htm, htk⟩ := find_some_mem ht
  obtain ⟨hab, hk⟩ := h
  refine ⟨?_, hk⟩
  have hmem : ∀ m' ∈ (s.upd tk f).mods, ∃ m ∈ s.mods, m'.key = m.key ∧
        ((m.key ≠ tk ∧ m'.augBy = m.augBy ∧ m'.devBy = m.devBy) ∨
         (m.key = tk ∧ m'.augBy = (addRef k t.augBy).1 ∧ m'.devBy = m.devBy) ∨
         (m.key = tk ∧ m'.augBy = m.augBy ∧ m'.devBy = (addRef k t.devBy).1)) := by
    intro m' hm'
    simp only [Ctx.upd, List.mem_map] at hm'
    obtain ⟨m, hm, rfl⟩ := hm'
    refine ⟨m, hm, ?_, ?_⟩
    · split
      · exact hkey m
      · rfl
    · by_cases hmk : m.key = tk
      · have hb : (m.key == tk) = true := by simpa using hmk
        rw [if_pos hb]
        rcases hf m with ⟨_, h1, h2⟩ | ⟨_, h1, h2⟩
        · exact Or.inr (Or.inl ⟨hmk, h1, h2⟩)
        · exact Or.inr (Or.inr ⟨hmk, h1, h2⟩)
      · have hb : ¬ (m.key == tk) = true := by simpa using hmk
        rw [if_neg hb]
        exact Or.inl ⟨hmk, rfl, rfl⟩
  have hcrt : s.creating.contains t.key = s.creating.contains tk := by rw [htk]
  refine ⟨?_, ?_, ?_⟩
  · intro m' hm' hcr
    obtain ⟨m, hm, hk', hcase⟩ := hmem m' hm'
    have hcr' : s.creating.contains m.key = false := by rw [← hk']; exact hcr
    rcases hcase with ⟨_, ha, _⟩ | ⟨hmk, ha, _⟩ | ⟨_, ha, _⟩
    · obtain ⟨x, hx, hxk, hext⟩ := hab.aug m hm hcr'
      exact ⟨x, hx, hxk.trans hk'.symm, ha ▸ hext⟩
    · obtain ⟨x, hx, hxk, hext⟩ := hab.aug t htm (by rw [hcrt, ← hmk]; exact hcr')
      exact ⟨x, hx, by rw [hxk, htk, hk', hmk], ha ▸ hext.add hk⟩
    · obtain ⟨x, hx, hxk, hext⟩ := hab.aug m hm hcr'
      exact ⟨x, hx, hxk.trans hk'.symm, ha ▸ hext⟩
  · intro m' hm' hcr
    obtain ⟨m, hm, hk', hcase⟩ := hmem m' hm'
    have hcr' : s.creating.contains m.key = false := by rw [← hk']; exact hcr
    rcases hcase with ⟨_, _, hd⟩ | ⟨_, _, hd⟩ | ⟨hmk, _, hd⟩
    · obtain ⟨x, hx, hxk, hext⟩ := hab.dev m hm hcr'
      exact ⟨x, hx, hxk.trans hk'.symm, hd ▸ hext⟩
    · obtain ⟨x, hx, hxk, hext⟩ := hab.dev m hm hcr'
      exact ⟨x, hx, hxk.trans hk'.symm, hd ▸ hext⟩
    · obtain ⟨x, hx, hxk, hext⟩ := hab.dev t htm (by rw [hcrt, ← hmk]; exact hcr')
      exact ⟨x, hx, by rw [hxk, htk, hk', hmk], hd ▸ hext.add hk⟩
  · intro m' hm'
    obtain ⟨m, hm, _, hcase⟩ := hmem m' hm'
    rcases hcase with ⟨_, ha, hd⟩ | ⟨_, ha, hd⟩ | ⟨_, ha, hd⟩
    · rw [ha, hd]; exact hab.nodup m hm
    · rw [ha, hd]; exact ⟨nodup_addRef (hab.nodup t htm).1, (hab.nodup m hm).2⟩
    · rw [ha, hd]; exact ⟨(hab.nodup m hm).1, nodup_addRef (hab.nodup t htm).2⟩

theorem ABk.markTarget {s : Ctx} {k tk : MKey} {t : Mod} (isAug : Bool) (h : ABk k a₀ s) (ht : s.find tk = some t) :
    ABk k a₀ (s.upd tk fun x => if isAug then { x with augBy := (addRef k (if isAug then t.augBy else t.devBy)).1 }
      else { x with devBy := (addRef k (if isAug then t.augBy else t.devBy)).1 }) := by
  apply h.setList isAug ht
  · intro x; cases isAug <;> rfl
  · intro x
    cases isAug
    · exact Or.inr ⟨rfl, rfl, rfl⟩
    · exact Or.inl ⟨rfl, rfl, rfl⟩

theorem presABk_markTarget (k : MKey) (isAug : Bool) (acc : List MKey) (x : Bytes) : Pres (ABk k a₀) (markTarget k isAug acc x) := by
  unfold markTarget
  apply pres_getBind
  intro s
  split
  · exact presAt_pure _ _
  · split
    · exact presAt_pure _ _
    · split
      · exact presAt_pure _ _
      · next m _ tk _ t ht =>
        intro hs
        exact (pres_pure (P := ABk k a₀) _) _ (hs.markTarget isAug ht)

theorem presABk_foldTargets (k : MKey) (isAug : Bool) : ∀ (l : List Bytes) (acc : List MKey),
    Pres (ABk k a₀) (foldTargets k isAug l acc) := by
  intro l
  induction l with
  | nil => intro acc; exact pres_pure acc
  | cons x r ih => intro acc; unfold foldTargets; exact pres_bind (presABk_markTarget k isAug acc x) (fun a => ih a)

/-- a stronger invariant for the first action, the plain one afterwards -/
theorem bind_weaken {α β : Type} {P' Q : Ctx → Prop} {x : M α} {f : α → M β} (hx : Pres P' x) (hw : ∀ s, P' s → Q s)
    (hf : ∀ a s, P' s → Q (f a s).2) : ∀ s, P' s → Q ((x >>= f) s).2 := by
  intro s hs
  have h1 := hx s hs
  rw [bind_run]
  cases hxs : x s with
  | mk r s' =>
    rw [hxs] at h1
    cases r with
    | ok a => exact hf a s' h1
    | error e => exact hw s' h1

theorem modS_bind_from {β : Type} {P' Q : Ctx → Prop} {g : Ctx → Ctx} {f : Unit → M β} {s : Ctx} (h1 : P' (g s))
    (hf : ∀ u, P' u → Q (f () u).2) : Q ((modS g >>= f) s).2 := hf (g s) h1

theorem weaken_match_fault {β : Type} {P' Q : Ctx → Prop} (o : Option Nat) (y : M β) (hw : ∀ s, P' s → Q s)
    (hy : ∀ u, P' u → Q (y u).2) : ∀ u, P' u → Q ((match o with | some rc => failS rc | none => y) u).2 := by
  cases o with
  | none => exact hy
  | some rc => exact fun u hu => hw u hu

theorem presAB_implementCore : ∀ fuel k, Pres (AB a₀) (implementCore fuel k) := by
  intro fuel
  induction fuel with
  | zero => intro k; exact pres_failS _
  | succ m ih =>
    intro k
    unfold implementCore
    refine pres_getBind' fun s => ?_
    split
    · exact pres_failS _
    · split
      · exact pres_pure _
      · split
        · exact pres_failS _
        · intro s1 hs1
          have hk : ABk k a₀ (LyModel.Ctx.markImpl k s1) :=
            ⟨hs1.markImpl k, by simp [LyModel.Ctx.markImpl, LyModel.Ctx.tick]⟩
          refine modS_bind_from (P' := ABk k a₀) hk (weaken_match_fault _ _ (fun _ h => h.1) (fun u hu => ?_))
          · refine bind_weaken (presABk_foldTargets _ _ _ _) (fun _ h => h.1) (fun set1 u1 hu1 => ?_) u hu
            refine bind_weaken (presABk_foldTargets _ _ _ _) (fun _ h => h.1) (fun set2 u2 hu2 => ?_) u1 hu1
            refine (pres_bind (pres_foldlS (fun rec x => ?_) _) (fun _ => ?_)) u2 hu2.1
            · split
              · exact pres_pure _
              · refine pres_getBind' fun s1 => ?_
                split
                · exact pres_pure _
                · split
                  · exact pres_bind (ih x) (fun _ => pres_pure _)
                  · split
                    · exact pres_bind (presAB_updM _ _ (by intro m; first | rfl | (split <;> rfl))) (fun _ => pres_pure _)
                    · exact pres_pure _
            · split
              · exact pres_pure _
              · exact presAB_hasCompiledImportR _ _

theorem presAB_implement (k : MKey) (arg : FeatArg) : Pres (AB a₀) (implement k arg) := by
  unfold implement
  refine pres_getBind' fun s => ?_
  split
  · exact pres_failS _
  · split
    · exact pres_failS _
    · split
      · exact pres_failS _
      · exact pres_bind (pres_modS fun _ h => h.setFeatsPrim k arg) (fun _ => presAB_implementCore _ _)

theorem presAB_setImplementedInner (k : MKey) (arg : FeatArg) : Pres (AB a₀) (setImplementedInner k arg) := by
  unfold setImplementedInner
  refine pres_getBind' fun s => ?_
  split
  · exact pres_failS _
  · split
    · split
      · exact pres_failS _
      · split
        · exact pres_modS fun _ h => h.setFeatsFlag k arg
        · exact pres_pure _
    · exact pres_bind (presAB_implement k arg) (fun _ => pres_pure _)

theorem presAB_compileIfNot (st : Bool × List MKey) (k : MKey) : Pres (AB a₀) (compileIfNot st k) := by
  unfold compileIfNot
  refine pres_getBind' fun s => ?_
  split
  · exact pres_bind (presAB_compileChecked _) (fun _ => pres_pure _)
  · exact pres_pure _

theorem presAB_unresLoop : ∀ fuel work done, Pres (AB a₀) (unresLoop fuel work done) := by
  intro fuel
  induction fuel with
  | zero => intro work done; unfold unresLoop; exact pres_pure false
  | succ m ih =>
    intro work done
    cases work with
    | nil =>
      unfold unresLoop
      refine pres_getBind' fun s => ?_
      split
      · exact pres_failS _
      · exact pres_pure _
    | cons k rest =>
      unfold unresLoop
      refine pres_getBind' fun s0 => ?_
      refine pres_bind (pres_foldlS (fun st tn => ?_) _) (fun r => ?_)
      · split
        · exact pres_pure _
        · refine pres_getBind' fun s => ?_
          split
          · exact pres_pure _
          · split
            · exact pres_pure _
            · split
              · exact pres_pure _
              · split
                · exact pres_pure _
                · refine pres_bind ?_ (fun r => ?_)
                  · split
                    · exact presAB_implement _ _
                    · exact pres_pure _
                  · split
                    · exact pres_pure _
                    · refine pres_bind (presAB_compileIfNot _ _) (fun st1 => pres_getBind' fun s' => ?_)
                      split
                      · exact pres_foldlS (fun st k => presAB_compileIfNot st k) _
                      · exact pres_pure _
      · obtain ⟨rec, extra⟩ := r
        dsimp only
        split
        · exact pres_pure _
        · exact ih _ _

theorem presAB_depsetR : ∀ fuel ds, Pres (AB a₀) (depsetR fuel ds) := by
  intro fuel
  induction fuel with
  | zero => intro ds; exact pres_failS _
  | succ m ih =>
    intro ds
    unfold depsetR
    refine pres_bind (pres_foldlS (fun work k => ?_) _) (fun work => ?_)
    · refine pres_getBind' fun s => ?_
      split
      · exact pres_pure _
      · split
        · exact pres_pure _
        · exact pres_bind (presAB_updM _ _ (by intro m; first | rfl | (split <;> rfl))) (fun _ => pres_bind (presAB_compileChecked _) (fun _ => pres_pure _))
    · refine pres_getBind' fun s => ?_
      refine pres_bind (presAB_unresLoop _ _ _) (fun rec => ?_)
      split
      · exact ih ds
      · exact pres_forEach (fun k => presAB_updM _ _ (by intro m; first | rfl | (split <;> rfl)))

theorem presAB_compileAll : Pres (AB a₀) compileAll := by
  unfold compileAll
  refine pres_getBind' fun s => ?_
  refine pres_forEach (fun ds => ?_)
  refine pres_bind ?_ (fun _ => pres_getBind' fun s' => presAB_depsetR _ _)
  unfold checkFeatures
  refine pres_getBind' fun s1 => ?_
  split
  · exact pres_pure _
  · exact pres_failS _

theorem presAB_finishParse (src : ModSrc) (k : MKey) : Pres (AB a₀) (finishParse src k) := by
  unfold finishParse
  refine pres_bind (presAB_updM _ _ (by intro m; first | rfl | (split <;> rfl))) (fun _ => ?_)
  split
  · exact pres_failS _
  · exact pres_bind (presAB_updM _ _ (by intro m; first | rfl | (split <;> rfl))) (fun _ => pres_pure _)

theorem presAB_loadFinish (rev : Option Bytes) (got : Option MKey) (ml : Option Mod) : Pres (AB a₀) (loadFinish rev got ml) := by
  unfold loadFinish
  split
  · refine pres_bind ?_ (fun _ => pres_getBind' fun s => pres_bind ?_ (fun _ => pres_pure _))
    · split
      · exact presAB_updM _ _ (by intro m; first | rfl | (split <;> rfl))
      · exact pres_pure _
    · split
      · exact presAB_updM _ _ (by intro m; first | rfl | (split <;> rfl))
      · exact pres_pure _
  · split
    · exact pres_failS _
    · exact pres_bind (presAB_updM _ _ (by intro m; first | rfl | (split <;> rfl))) (fun _ => pres_pure _)

theorem presAB_parse : ∀ fuel,
    (∀ src chk, Pres (AB a₀) (parseIn fuel src chk)) ∧ (∀ name rev, Pres (AB a₀) (parseLoad fuel name rev)) := by
  intro fuel
  induction fuel with
  | zero =>
    refine ⟨fun _ _ => ?_, fun _ _ => ?_⟩
    · unfold parseIn; exact pres_failS _
    · unfold parseLoad; exact pres_failS _
  | succ m ih =>
    obtain ⟨ihIn, ihLoad⟩ := ih
    refine ⟨fun src chk => ?_, fun name rev => ?_⟩
    · unfold parseIn
      split
      · exact pres_failS _
      · refine pres_getBind' fun s => ?_
        split
        · exact pres_failS _
        · exact pres_pure _
        · refine pres_bind (pres_modS fun _ h => h.enterMod _ _ _) (fun _ => ?_)
          refine pres_bind (pres_forEach (fun x => ?_)) (fun _ => presAB_finishParse _ _)
          refine pres_bind (ihLoad _ _) (fun y => pres_bind ?_ (fun _ => presAB_updM _ _ (by intro m; first | rfl | (split <;> rfl))))
          split
          · exact presAB_updM _ _ (by intro m; first | rfl | (split <;> rfl))
          · exact pres_pure _
    · unfold parseLoad
      refine pres_getBind' fun s => ?_
      refine pres_bind ?_ (fun k => ?_)
      · split
        · exact pres_pure _
        · refine pres_bind ?_ (fun got => presAB_loadFinish _ _ _)
          split
          · exact pres_pure _
          · split
            · exact pres_attemptLoad _ (ihIn _ _)
            · exact pres_pure _
      · unfold circularCheck
        refine pres_getBind' fun s1 => ?_
        split
        · exact pres_failS _
        · exact pres_pure _

theorem presAB_implementAndCompile (k : MKey) (arg : FeatArg) : Pres (AB a₀) (implementAndCompile k arg) := by
  unfold implementAndCompile
  refine pres_bind (presAB_setImplementedInner k arg) (fun _ => pres_getBind' fun s => ?_)
  split
  · exact pres_pure _
  · exact pres_bind (presAB_depSetsM _) (fun _ => presAB_compileAll)

/-- the forward part of every operation only appends references to modules being implemented -/
theorem presAB_forward (op : Op) : Pres (AB a₀) (forward op) := by
  cases op with
  | parse src f =>
    unfold forward
    exact pres_getBind' fun s => pres_bind ((presAB_parse _).1 _ _) (fun k => presAB_implementAndCompile k f)
  | load name rev f =>
    unfold forward
    exact pres_getBind' fun s => pres_bind ((presAB_parse _).2 _ _) (fun k => presAB_implementAndCompile k f)
  | setImpl k f => unfold forward; exact presAB_implementAndCompile k f
  | compile => unfold forward; exact pres_bind (presAB_depSetsM _) (fun _ => presAB_compileAll)
  | setOpt ex pp =>
    unfold forward
    refine pres_getBind' fun s => pres_bind ?_ (fun _ => pres_modS fun _ h => h.keep rfl rfl rfl)
    split
    · refine pres_bind (pres_modS fun s h => ?_) (fun _ => pres_bind (presAB_depSetsM _) (fun _ => presAB_compileAll))
      unfold privMark
      refine AB.tick 4 (h.keep (map_av _ _ fun m => by split <;> rfl) rfl rfl)
    · exact pres_pure _
  | unsetOpt ex pp => unfold forward; exact pres_modS fun _ h => h.keep rfl rfl rfl

/-! ### `lys_unres_glob_revert` -/

theorem eraseOne_filter {k : MKey} : ∀ {l : List MKey}, l.Nodup → eraseOne k l = l.filter (fun a => !(a == k)) := by
  intro l
  induction l with
  | nil => intro _; rfl
  | cons a r ih =>
    intro h
    simp only [List.nodup_cons] at h
    unfold eraseOne
    by_cases hak : a = k
    · subst hak
      simp only [beq_self_eq_true, if_true, List.filter_cons, Bool.not_true, Bool.false_eq_true, if_false]
      symm
      apply List.filter_eq_self.mpr
      intro x hx
      have : x ≠ a := fun e => h.1 (e ▸ hx)
      simpa using this
    · have hb : (a == k) = false := by simpa using hak
      simp only [hb, Bool.false_eq_true, if_false, List.filter_cons, Bool.not_false, if_true]
      rw [ih h.2]

theorem foldl_eraseOne (imp : List MKey) : ∀ {l : List MKey}, l.Nodup →
    imp.foldl (fun l k => eraseOne k l) l = l.filter (fun a => !imp.contains a) := by
  induction imp with
  | nil => intro l _; simp [List.filter_eq_self.mpr]
  | cons k r ih =>
    intro l h
    simp only [List.foldl_cons]
    rw [eraseOne_filter h, ih (h.filter _), List.filter_filter]
    apply List.filter_congr
    intro a _
    simp only [List.contains_cons]
    cases (a == k) <;> simp

theorem unimplMod_arrays (m : Mod) (k : MKey) :
    (unimplMod m k).augBy = eraseOne k m.augBy ∧ (unimplMod m k).devBy = eraseOne k m.devBy := by
  unfold unimplMod
  dsimp only
  split <;> exact ⟨rfl, rfl⟩

theorem foldl_unimplMod_arrays (imp : List MKey) : ∀ m : Mod,
    (imp.foldl unimplMod m).augBy = imp.foldl (fun l k => eraseOne k l) m.augBy ∧
    (imp.foldl unimplMod m).devBy = imp.foldl (fun l k => eraseOne k l) m.devBy := by
  induction imp with
  | nil => intro m; exact ⟨rfl, rfl⟩
  | cons k r ih =>
    intro m
    simp only [List.foldl_cons]
    obtain ⟨h1, h2⟩ := ih (unimplMod m k)
    obtain ⟨h3, h4⟩ := unimplMod_arrays m k
    rw [h1, h2, h3, h4]; exact ⟨rfl, rfl⟩

/-- references to modules being implemented are removed, the others stay in their order -/
theorem ext_erased {imp base l : List MKey} (he : Ext imp base l) (hn : l.Nodup) (hd : ∀ k ∈ base, k ∉ imp) :
    imp.foldl (fun l k => eraseOne k l) l = base := by
  obtain ⟨e, rfl, h2⟩ := he
  rw [foldl_eraseOne imp hn, List.filter_append]
  have h1 : base.filter (fun a => !imp.contains a) = base := by
    apply List.filter_eq_self.mpr
    intro a ha
    have := hd a ha
    simpa using this
  have h3 : e.filter (fun a => !imp.contains a) = [] := by
    apply List.filter_eq_nil_iff.mpr
    intro a ha
    have := h2 a ha
    simpa using this
  rw [h1, h3, List.append_nil]

/-- the modules the two loops leave, and what they leave of the arrays -/
theorem revertCore_arrays (s : Ctx) : ∀ m' ∈ (revertCore s).mods, ∃ m ∈ s.mods, s.creating.contains m.key = false ∧
    m'.key = m.key ∧ m'.augBy = s.implementing.foldl (fun l k => eraseOne k l) m.augBy ∧
    m'.devBy = s.implementing.foldl (fun l k => eraseOne k l) m.devBy := by
  intro m' hm'
  unfold revertCore at hm'
  obtain ⟨g, hg, e⟩ := fixLatest_spec (s.implementing.foldl unimplement s) (removeCreated (s.implementing.foldl unimplement s))
  rw [e] at hm'
  obtain ⟨h1, h2⟩ := foldl_unimplement s.implementing s
  simp only [removeCreated, h1, h2, List.mem_map, List.mem_filter] at hm'
  obtain ⟨m1, ⟨⟨m, hm, rfl⟩, hcr⟩, rfl⟩ := hm'
  have hb := hg (s.implementing.foldl unimplMod m)
  have hkey : (s.implementing.foldl unimplMod m).key = m.key := Mod.key_eq_of_src (foldl_unimplMod_src _ m)
  obtain ⟨ha, hd⟩ := foldl_unimplMod_arrays s.implementing m
  refine ⟨m, hm, ?_, ?_, ?_, ?_⟩
  · rw [hkey] at hcr; simpa using hcr
  · rw [hb.key, hkey]
  · rw [← ha]; unfold Mod.butLatest at hb; rw [hb]
  · rw [← hd]; unfold Mod.butLatest at hb; rw [hb]

theorem map_av_eq : ∀ (l : List Mod) (a : List AV), l.map (·.key) = a.map (·.1) → (a.map (·.1)).Nodup →
    (∀ m' ∈ l, (∃ x ∈ a, x.1 = m'.key ∧ m'.augBy = x.2.1) ∧ (∃ x ∈ a, x.1 = m'.key ∧ m'.devBy = x.2.2)) →
    l.map Mod.av = a := by
  intro l
  induction l with
  | nil => intro a h _ _; cases a with
    | nil => rfl
    | cons _ _ => simp at h
  | cons m r ih =>
    intro a hk hn hx
    cases a with
    | nil => simp at hk
    | cons b t =>
      simp only [List.map_cons, List.cons.injEq] at hk
      obtain ⟨hk1, hk2⟩ := hk
      simp only [List.map_cons, List.nodup_cons] at hn
      -- an element of `b :: t` with the key of `b` is `b`
      have huniq : ∀ x ∈ b :: t, x.1 = b.1 → x = b := by
        intro x hxm hxk
        rcases List.mem_cons.mp hxm with rfl | hxt
        · rfl
        · exact absurd (hxk ▸ List.mem_map_of_mem (f := fun y : AV => y.1) hxt) hn.1
      obtain ⟨⟨x1, hx1, hx1k, hx1a⟩, ⟨x2, hx2, hx2k, hx2d⟩⟩ := hx m (List.mem_cons_self ..)
      have e1 := huniq x1 hx1 (hx1k.trans hk1)
      have e2 := huniq x2 hx2 (hx2k.trans hk1)
      rw [e1] at hx1a; rw [e2] at hx2d
      have hrest := ih t hk2 hn.2 (by
        intro m' hm'
        have hkm : m'.key ∈ t.map (·.1) := hk2 ▸ List.mem_map_of_mem (f := fun y : Mod => y.key) hm'
        obtain ⟨⟨y1, hy1, hy1k, hy1a⟩, ⟨y2, hy2, hy2k, hy2d⟩⟩ := hx m' (List.mem_cons_of_mem _ hm')
        have ht : ∀ y ∈ b :: t, y.1 = m'.key → y ∈ t := by
          intro y hy hyk
          rcases List.mem_cons.mp hy with rfl | hyt
          · exact absurd (hyk ▸ hkm) hn.1
          · exact hyt
        exact ⟨⟨y1, ht y1 hy1 hy1k, hy1k, hy1a⟩, ⟨y2, ht y2 hy2 hy2k, hy2k, hy2d⟩⟩)
      simp only [List.map_cons, List.cons.injEq]
      refine ⟨?_, hrest⟩
      show (m.key, m.augBy, m.devBy) = b
      rw [hx1a, hx2d, hk1]

/-- the arrays are exactly what they are (during the recompilation at the end of the revert) -/
def AX (a : List AV) (s : Ctx) : Prop := s.mods.map Mod.av = a

variable {a : List AV}

theorem presAX_updM (k : MKey) (f : Mod → Mod) (hf : ∀ m, (f m).av = m.av) : Pres (AX a) (updM k f) :=
  pres_modS fun s h => (upd_av s k f hf).trans h

theorem AX.installCompiled {s : Ctx} (h : AX a s) (k : MKey) : AX a (installCompiled k s) := by
  unfold LyModel.Ctx.installCompiled
  split
  · exact h
  · next m _ => exact (upd_av s k (fun m' => { m' with compiled := some (s.nextId, s.descOf m) }) (fun _ => rfl)).trans h

theorem presAX_compileChecked (k : MKey) : Pres (AX a) (compileChecked k) := by
  unfold compileChecked
  refine pres_getBind' fun s => ?_
  split
  · exact pres_pure _
  · split
    · exact pres_bind (pres_modS fun _ h => h) (fun _ => pres_failS _)
    · exact pres_modS fun s h => AX.installCompiled (s := tick 1 s) h k

theorem presAX_compileIfNot (st : Bool × List MKey) (k : MKey) : Pres (AX a) (compileIfNot st k) := by
  unfold compileIfNot
  refine pres_getBind' fun s => ?_
  split
  · exact pres_bind (presAX_compileChecked _) (fun _ => pres_pure _)
  · exact pres_pure _

variable {mk : Option MKey} {c : List Core}

/-- module set and arrays during the recompilation -/
def JA (mk : Option MKey) (c : List Core) (a : List AV) (s : Ctx) : Prop := J mk c s ∧ AX a s

theorem presJA_unresLoop (hcl : LrefClosedC c) : ∀ fuel work done, Pres (JA mk c a) (unresLoop fuel work done) := by
  intro fuel
  induction fuel with
  | zero => intro work done; unfold unresLoop; exact pres_pure false
  | succ n ih =>
    intro work done
    cases work with
    | nil =>
      unfold unresLoop
      apply pres_getBind
      intro s
      split
      · exact presAt_failS _ _
      · exact presAt_pure _ _
    | cons k rest =>
      unfold unresLoop
      apply pres_getBind
      intro s0 hs0
      refine (pres_bind (pres_foldlS_mem (fun st tn htn => ?_) _) (fun r => ?_)).at s0 hs0
      · split
        · exact pres_pure _
        · apply pres_getBind
          intro s
          split
          · exact presAt_pure _ _
          · next m hm =>
            split
            · exact presAt_pure _ _
            · next himpl =>
              split
              · exact presAt_pure _ _
              · next tk htk =>
                split
                · exact presAt_pure _ _
                · next t ht =>
                  intro hs
                  have hti : t.implemented = true := by
                    have hcm := findCore_of_find hs.1 hm
                    have hct := findCore_of_find hs.1 ht
                    have hmem : coreM mk m ∈ c := by
                      unfold findCore at hcm
                      exact List.mem_of_find?_eq_some hcm
                    have htn' : tn ∈ m.src.lrefs := by
                      cases hm0 : s0.find k with
                      | none => rw [hm0] at htn; cases htn
                      | some m0 =>
                        rw [hm0] at htn
                        have h0 := findCore_of_find hs0.1 hm0
                        rw [hcm] at h0
                        have : (coreM mk m).src = (coreM mk m0).src := by rw [Option.some.inj h0]
                        rw [coreM_src, coreM_src] at this
                        rw [this]; exact htn
                    have := hcl (coreM mk m) hmem (by rw [coreM_implemented]; simpa using himpl) tn
                      (by rw [coreM_src]; exact htn') tk (by rw [coreM_impRes]; exact htk) (coreM mk t) hct
                    rw [coreM_implemented] at this; exact this
                  refine (pres_bind ?_ (fun r => ?_)).at s hs
                  · simp only [hti, Bool.not_true, Bool.false_eq_true, if_false]
                    exact pres_pure _
                  · split
                    · exact pres_pure _
                    · refine pres_bind (pres_and (presJ_compileIfNot _ _) (presAX_compileIfNot _ _)) (fun st1 => ?_)
                      apply pres_getBind
                      intro s'
                      split
                      · exact (pres_foldlS (fun st k => pres_and (presJ_compileIfNot st k) (presAX_compileIfNot st k)) _).at s'
                      · exact presAt_pure _ _
      · obtain ⟨rec, extra⟩ := r
        dsimp only
        split
        · exact pres_pure _
        · exact ih _ _

theorem presJA_depsetR (hcl : LrefClosedC c) : ∀ fuel ds, Pres (JA mk c a) (depsetR fuel ds) := by
  intro fuel
  induction fuel with
  | zero => intro ds; exact pres_failS _
  | succ n ih =>
    intro ds
    unfold depsetR
    refine pres_bind (pres_foldlS (fun work k => ?_) _) (fun work => ?_)
    · apply pres_getBind
      intro s
      split
      · exact presAt_pure _ _
      · split
        · exact presAt_pure _ _
        · refine (pres_bind (pres_and (presJ_updFree k (fun x => { x with compiled := none }) (fun _ => rfl))
            (presAX_updM k (fun x => { x with compiled := none }) (fun _ => rfl))) (fun _ => ?_)).at s
          exact pres_bind (pres_and (presJ_compileChecked _) (presAX_compileChecked _)) (fun _ => pres_pure _)
    · apply pres_getBind
      intro s
      refine (pres_bind (presJA_unresLoop hcl _ _ _) (fun rec => ?_)).at s
      split
      · exact ih ds
      · exact pres_forEach (fun k => pres_and (presJ_updFree k (fun x => { x with toCompile := false }) (fun _ => rfl))
          (presAX_updM k (fun x => { x with toCompile := false }) (fun _ => rfl)))

theorem presJA_compileAll (hcl : LrefClosedC c) : Pres (JA mk c a) compileAll := by
  unfold compileAll
  apply pres_getBind
  intro s
  refine (pres_forEach (fun ds => ?_)).at s
  refine pres_bind ?_ (fun _ => ?_)
  · unfold checkFeatures
    apply pres_getBind
    intro s1
    split
    · exact presAt_pure _ _
    · exact presAt_failS _ _
  · apply pres_getBind
    intro s'
    exact (presJA_depsetR hcl _ _).at s'

/-- **the arrays after the revert**: a forward part that started in the quiescent context `s₀` and kept `Inv` and `AB` is
    rolled back to the very arrays of `s₀`, provided no module being implemented was referenced in `s₀` -/
theorem revert_av {s₀ s1 : Ctx} (hc : s₀.creating = []) (hi : s₀.implementing = []) (hl : s₀.LrefClosed)
    (hnd : (s₀.mods.map (·.key)).Nodup) (h : Inv mk (restore mk s₀) s1) (hab : AB (s₀.mods.map Mod.av) s1)
    (hdis : ∀ x ∈ s₀.mods.map Mod.av, ∀ k ∈ x.2.1 ++ x.2.2, k ∉ s1.implementing) :
    (revert s1).mods.map Mod.av = s₀.mods.map Mod.av := by
  have hj : J mk (s₀.mods.map (coreM mk)) (revertCore s1) := by
    unfold J
    rw [revertCore_cores, h.restore, restore_quiescent s₀ hc hi]
  have hkeys : (revertCore s1).mods.map (·.key) = (s₀.mods.map Mod.av).map (·.1) := by
    have := congrArg (List.map Core.key) hj
    simp only [List.map_map] at this ⊢
    exact this
  have hax : AX (s₀.mods.map Mod.av) (revertCore s1) := by
    apply map_av_eq _ _ hkeys
    · simp only [List.map_map]; exact hnd
    · intro m' hm'
      obtain ⟨m, hm, hcr, hk, ha, hd⟩ := revertCore_arrays s1 m' hm'
      obtain ⟨x, hx, hxk, hext⟩ := hab.aug m hm hcr
      obtain ⟨y, hy, hyk, hexd⟩ := hab.dev m hm hcr
      refine ⟨⟨x, hx, hxk.trans hk.symm, ?_⟩, ⟨y, hy, hyk.trans hk.symm, ?_⟩⟩
      · rw [ha]
        exact ext_erased hext (hab.nodup m hm).1 (fun k hk' => hdis x hx k (List.mem_append_left _ hk'))
      · rw [hd]
        exact ext_erased hexd (hab.nodup m hm).2 (fun k hk' => hdis y hy k (List.mem_append_right _ hk'))
  rw [revert_eq]
  split
  · exact hax
  · exact (presJA_compileAll (lrefClosed_coreM hl) _ ⟨hj, hax⟩).2

end LyModel.Ctx
