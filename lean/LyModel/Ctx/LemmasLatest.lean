import LyModel.Ctx.LemmasRevert
import LyModel.Ctx.LemmasCount
import LyModel.Ctx.LemmasYl
import LyModel.Ctx.LemmasRecompile
/-!
`latest_revision` and the repaired `lys_unres_glob_revert` (F132): compiling never touches `latest_revision` or the
resolved imports, and after the recomputation LYS_MOD_IMPORTED_REV is on exactly the modules that some module of the
context imports without revision-date.
-/
namespace LyModel.Ctx

/-- what LYS_MOD_IMPORTED_REV is about: key, the modules imported without revision-date, `latest_revision` -/
def Mod.lview (m : Mod) : MKey × List MKey × Latest := (m.key, m.datelessTargets, m.latest)

/-- the module list, as far as `latest_revision` and the dateless imports are concerned, is constant -/
def LV (c : List (MKey × List MKey × Latest)) (s : Ctx) : Prop := s.mods.map Mod.lview = c

variable {c : List (MKey × List MKey × Latest)}

theorem LV.upd {s : Ctx} (h : LV c s) (k : MKey) (f : Mod → Mod) (hf : ∀ m, (f m).lview = m.lview) : LV c (s.upd k f) := by
  unfold LV at *
  rw [← h]
  simp only [Ctx.upd, List.map_map]
  apply List.map_congr_left
  intro m _
  simp only [Function.comp]
  split
  · exact hf m
  · rfl

theorem LV.congr {s s' : Ctx} (h : LV c s) (hm : s'.mods = s.mods) : LV c s' := by
  unfold LV at *; rw [hm]; exact h

theorem presLV_updM (k : MKey) (f : Mod → Mod) (hf : ∀ m, (f m).lview = m.lview) : Pres (LV c) (updM k f) :=
  pres_modS fun _ h => h.upd k f hf

theorem LV.installCompiled {s : Ctx} (h : LV c s) (k : MKey) : LV c (installCompiled k s) := by
  unfold LyModel.Ctx.installCompiled
  split
  · exact h
  · next m _ =>
    exact (h.upd k (fun m' => { m' with compiled := some (s.nextId, s.descOf m) }) (fun _ => rfl)).congr rfl

theorem presLV_compileChecked (k : MKey) : Pres (LV c) (compileChecked k) := by
  unfold compileChecked
  refine pres_getBind' fun s => ?_
  split
  · exact pres_pure _
  · split
    · exact pres_bind (pres_modS fun _ h => h.congr rfl) (fun _ => pres_failS _)
    · exact pres_modS fun s h => (LV.congr (s' := tick 1 s) h rfl).installCompiled k

theorem presLV_compileIfNot (st : Bool × List MKey) (k : MKey) : Pres (LV c) (compileIfNot st k) := by
  unfold compileIfNot
  refine pres_getBind' fun s => ?_
  split
  · exact pres_bind (presLV_compileChecked _) (fun _ => pres_pure _)
  · exact pres_pure _

theorem presLV_hasCompiledImportR : ∀ fuel k, Pres (LV c) (hasCompiledImportR fuel k) := by
  intro fuel
  induction fuel with
  | zero => intro k; exact pres_pure false
  | succ m ih =>
    intro k
    unfold hasCompiledImportR
    refine pres_getBind' fun s => ?_
    split
    · exact pres_pure _
    · refine pres_anyS fun x => pres_getBind' fun s1 => ?_
      split
      · exact pres_pure _
      · split
        · exact pres_pure _
        · split
          · exact pres_bind (presLV_updM _ _ (fun _ => rfl)) (fun _ => pres_pure _)
          · exact ih x

theorem presLV_markTarget (k : MKey) (isAug : Bool) (acc : List MKey) (x : Bytes) : Pres (LV c) (markTarget k isAug acc x) := by
  unfold markTarget
  refine pres_getBind' fun s => ?_
  split
  · exact pres_pure _
  · split
    · exact pres_pure _
    · split
      · exact pres_pure _
      · exact pres_bind (presLV_updM _ _ (by intro m; split <;> rfl)) (fun _ => pres_pure _)

theorem presLV_foldTargets (k : MKey) (isAug : Bool) : ∀ (l : List Bytes) (acc : List MKey),
    Pres (LV c) (foldTargets k isAug l acc) := by
  intro l
  induction l with
  | nil => intro acc; exact pres_pure acc
  | cons x r ih => intro acc; unfold foldTargets; exact pres_bind (presLV_markTarget k isAug acc x) (fun a => ih a)

theorem LV.markImpl {s : Ctx} (h : LV c s) (k : MKey) : LV c (markImpl k s) :=
  (h.upd k (fun x => { x with implemented := true, toCompile := true }) (fun _ => rfl)).congr rfl

theorem presLV_implementCore : ∀ fuel k, Pres (LV c) (implementCore fuel k) := by
  intro fuel
  induction fuel with
  | zero => intro k; exact pres_failS _
  | succ m ih =>
    intro k
    unfold implementCore
    refine pres_getBind' fun s => ?_
    split
    · exact pres_failS _
    · split
      · exact pres_pure _
      · split
        · exact pres_failS _
        · refine pres_bind (pres_modS fun _ h => h.markImpl k) (fun _ => ?_)
          split
          · exact pres_failS _
          · refine pres_bind (presLV_foldTargets _ _ _ _) (fun _ => ?_)
            refine pres_bind (presLV_foldTargets _ _ _ _) (fun _ => ?_)
            refine pres_bind (pres_foldlS (fun rec x => ?_) _) (fun _ => ?_)
            · split
              · exact pres_pure _
              · refine pres_getBind' fun s1 => ?_
                split
                · exact pres_pure _
                · split
                  · exact pres_bind (ih x) (fun _ => pres_pure _)
                  · split
                    · exact pres_bind (presLV_updM _ _ (fun _ => rfl)) (fun _ => pres_pure _)
                    · exact pres_pure _
            · split
              · exact pres_pure _
              · exact presLV_hasCompiledImportR _ _

theorem setFeatures_lview {m m' : Mod} {arg : FeatArg} {b : Bool} (h : setFeatures m arg = some (m', b)) : m'.lview = m.lview := by
  unfold setFeatures at h
  split at h
  · simp at h; obtain ⟨rfl, _⟩ := h; rfl
  · simp at h; obtain ⟨rfl, _⟩ := h; rfl
  · split at h
    · simp at h; obtain ⟨rfl, _⟩ := h; rfl
    · dsimp only at h
      split at h
      · simp at h; obtain ⟨rfl, _⟩ := h; rfl
      · simp at h

theorem presLV_implement (k : MKey) (arg : FeatArg) : Pres (LV c) (implement k arg) := by
  unfold implement
  refine pres_getBind' fun s => ?_
  split
  · exact pres_failS _
  · split
    · exact pres_failS _
    · split
      · exact pres_failS _
      · refine pres_bind (pres_modS fun s h => ?_) (fun _ => presLV_implementCore _ _)
        unfold setFeatsPrim
        apply h.upd
        intro m
        split
        · next heq => exact setFeatures_lview heq
        · rfl

theorem presLV_unresLoop : ∀ fuel work done, Pres (LV c) (unresLoop fuel work done) := by
  intro fuel
  induction fuel with
  | zero => intro work done; unfold unresLoop; exact pres_pure false
  | succ m ih =>
    intro work done
    cases work with
    | nil =>
      unfold unresLoop
      refine pres_getBind' fun s => ?_
      split
      · exact pres_failS _
      · exact pres_pure _
    | cons k rest =>
      unfold unresLoop
      refine pres_getBind' fun s0 => ?_
      refine pres_bind (pres_foldlS (fun st tn => ?_) _) (fun r => ?_)
      · split
        · exact pres_pure _
        · refine pres_getBind' fun s => ?_
          split
          · exact pres_pure _
          · split
            · exact pres_pure _
            · split
              · exact pres_pure _
              · split
                · exact pres_pure _
                · refine pres_bind ?_ (fun r => ?_)
                  · split
                    · exact presLV_implement _ _
                    · exact pres_pure _
                  · split
                    · exact pres_pure _
                    · refine pres_bind (presLV_compileIfNot _ _) (fun st1 => pres_getBind' fun s' => ?_)
                      split
                      · exact pres_foldlS (fun st k => presLV_compileIfNot st k) _
                      · exact pres_pure _
      · obtain ⟨rec, extra⟩ := r
        dsimp only
        split
        · exact pres_pure _
        · exact ih _ _

theorem presLV_depsetR : ∀ fuel ds, Pres (LV c) (depsetR fuel ds) := by
  intro fuel
  induction fuel with
  | zero => intro ds; exact pres_failS _
  | succ m ih =>
    intro ds
    unfold depsetR
    refine pres_bind (pres_foldlS (fun work k => ?_) _) (fun work => ?_)
    · refine pres_getBind' fun s => ?_
      split
      · exact pres_pure _
      · split
        · exact pres_pure _
        · exact pres_bind (presLV_updM _ _ (fun _ => rfl)) (fun _ => pres_bind (presLV_compileChecked _) (fun _ => pres_pure _))
    · refine pres_getBind' fun s => ?_
      refine pres_bind (presLV_unresLoop _ _ _) (fun rec => ?_)
      split
      · exact ih ds
      · exact pres_forEach (fun k => presLV_updM _ _ (fun _ => rfl))

theorem presLV_compileAll : Pres (LV c) compileAll := by
  unfold compileAll
  refine pres_getBind' fun s => ?_
  refine pres_forEach (fun ds => ?_)
  refine pres_bind ?_ (fun _ => pres_getBind' fun s' => presLV_depsetR _ _)
  unfold checkFeatures
  refine pres_getBind' fun s1 => ?_
  split
  · exact pres_pure _
  · exact pres_failS _

/-! ## LYS_MOD_IMPORTED_REV after the repaired revert -/

/-- is module `k` imported without revision-date by a module of the list? -/
def importedIn (l : List (MKey × List MKey × Latest)) (k : MKey) : Bool := l.any fun x => x.2.1.contains k

/-- LYS_MOD_IMPORTED_REV is on exactly the modules that some module of the context imports without revision-date -/
def ImpOkL (l : List (MKey × List MKey × Latest)) : Prop := ∀ x ∈ l, x.2.2.imp = importedIn l x.1

def Ctx.ImpOk (s : Ctx) : Prop := ImpOkL (s.mods.map Mod.lview)

/-- executable form, for concrete contexts -/
def impOkB (s : Ctx) : Bool := (s.mods.map Mod.lview).all fun x => x.2.2.imp == importedIn (s.mods.map Mod.lview) x.1

theorem Ctx.ImpOk.ofB {s : Ctx} (h : impOkB s = true) : s.ImpOk := by
  intro x hx
  unfold impOkB at h
  rw [List.all_eq_true] at h
  simpa using h x hx

theorem recomputeImported_impOk (s : Ctx) : (recomputeImported s).ImpOk := by
  intro x hx
  unfold recomputeImported at *
  simp only [List.map_map, List.mem_map, Function.comp] at hx
  obtain ⟨m, hm, rfl⟩ := hx
  simp only [Mod.lview, importedIn, List.map_map, List.any_map, Function.comp]
  rfl

theorem foldl_unimplement_cfg (imp : List MKey) : ∀ s : Ctx, (imp.foldl unimplement s).cfg = s.cfg := by
  induction imp with
  | nil => intro s; rfl
  | cons k r ih => intro s; simp only [List.foldl_cons]; rw [ih]; rfl

/-- the two loops of the repaired `lys_unres_glob_revert` leave LYS_MOD_IMPORTED_REV consistent with the imports that remain -/
theorem revertCore_impOk (s : Ctx) (h : s.cfg.recomputeImported = true) : (revertCore s).ImpOk := by
  unfold revertCore fixLatest
  simp only [foldl_unimplement_cfg, h, if_true]
  split
  · unfold Ctx.ImpOk markReverted
    have : ∀ l : List Mod, ∀ p : Mod → Bool, (l.map fun m => if p m then { m with toCompile := true } else m).map Mod.lview = l.map Mod.lview := by
      intro l p
      rw [List.map_map]
      apply List.map_congr_left
      intro m _
      simp only [Function.comp]
      split <;> rfl
    dsimp only
    rw [this]
    exact recomputeImported_impOk _
  · exact recomputeImported_impOk _

/-- … and so does the whole function: the recompilation of the previous context does not touch `latest_revision` -/
theorem revert_impOk (s : Ctx) (h : s.cfg.recomputeImported = true) : (revert s).ImpOk := by
  rw [revert_eq]
  split
  · exact revertCore_impOk s h
  · have h1 := presLV_compileAll (c := (revertCore s).mods.map Mod.lview) (revertCore s) rfl
    unfold Ctx.ImpOk
    unfold LV at h1
    rw [h1]
    exact revertCore_impOk s h

/-- LYS_MOD_IMPORTED_REV of a consistent module list is determined by the keys and the dateless imports -/
theorem impOk_determined {l l' : List Mod}
    (h : l'.map (fun m => (m.key, m.datelessTargets)) = l.map (fun m => (m.key, m.datelessTargets)))
    (h' : ImpOkL (l'.map Mod.lview)) (h0 : ImpOkL (l.map Mod.lview)) :
    l'.map (fun m => (m.key, m.latest.imp)) = l.map (fun m => (m.key, m.latest.imp)) := by
  have key : ∀ u : List Mod, ImpOkL (u.map Mod.lview) →
      u.map (fun m => (m.key, m.latest.imp)) =
        (u.map (fun m => (m.key, m.datelessTargets))).map
          (fun x => (x.1, (u.map (fun m => (m.key, m.datelessTargets))).any fun z => z.2.contains x.1)) := by
    intro u hu
    rw [List.map_map]
    apply List.map_congr_left
    intro m hm
    have := hu m.lview (List.mem_map_of_mem hm)
    simp only [Mod.lview, importedIn, List.any_map] at this
    simp only [Function.comp, List.any_map, this]
    rfl
  rw [key l' h', key l h0, h]

/-- key and dateless imports are part of what a failed call gives back -/
theorem dateless_of_coreM {mk : Option MKey} {l l' : List Mod} (h : l'.map (coreM mk) = l.map (coreM mk)) :
    l'.map (fun m => (m.key, m.datelessTargets)) = l.map (fun m => (m.key, m.datelessTargets)) := by
  have key : ∀ u : List Mod, u.map (fun m => (m.key, m.datelessTargets)) =
      (u.map (coreM mk)).map (fun x => (x.key, ((x.src.imports.zip x.impRes).filter (·.1.2.isEmpty)).map (·.2))) := by
    intro u
    rw [List.map_map]
    rfl
  rw [key, key, h]

/-- the parameters of a context never change -/
theorem cfg_constant (s : Ctx) (op : Op) : (run s op).2.cfg = s.cfg ∧ (forward op s).2.cfg = s.cfg := by
  have hf : YT s.cfg (ylGen s) s.ticks (forward op s).2 := presYT_forward op s ⟨rfl, Nat.le_refl _, fun _ _ => rfl⟩
  refine ⟨?_, hf.cfg⟩
  unfold run
  split
  · rfl
  · split
    · next s1 hfw =>
      rw [hfw] at hf
      cases op <;> dsimp only <;> (try split) <;> exact hf.cfg
    · next e s1 hfw =>
      rw [hfw] at hf
      have hr : ∀ s1 : Ctx, (revert s1).cfg = s1.cfg := by
        intro s1
        have h0 : (revertCore s1).cfg = s1.cfg := by
          unfold revertCore
          obtain ⟨g, _, e⟩ := fixLatest_spec (s1.implementing.foldl unimplement s1) (removeCreated (s1.implementing.foldl unimplement s1))
          rw [e]
          exact foldl_unimplement_cfg _ _
        rw [revert_eq]
        split
        · exact h0
        · have := presYT_compileAll (g := (revertCore s1).cfg) (y := ylGen (revertCore s1)) (t := (revertCore s1).ticks)
            (revertCore s1) ⟨rfl, Nat.le_refl _, fun _ _ => rfl⟩
          exact this.cfg.trans h0
      cases op <;> dsimp only <;> first | exact hf.cfg | exact (hr _).trans hf.cfg | exact (hr _).trans ((restoreFeats_cfg _ _ _).trans hf.cfg)


end LyModel.Ctx
