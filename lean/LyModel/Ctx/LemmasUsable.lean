import LyModel.Ctx.LemmasRevert
/-!
`lys_parse_in` / `lys_parse_load` never touch a compiled module and never implement anything: a call that fails in one of
their stages leaves every compiled module (hence every data tree) alone.
-/
namespace LyModel.Ctx

/-- nothing compiled has changed and nothing was implemented, relative to a fixed list `c` of (key, compiled) -/
def Untouched (c : List (MKey × Option (Nat × Desc))) (imp : List MKey) (s : Ctx) : Prop :=
  (s.mods.filter fun m => !s.creating.contains m.key).map (fun m => (m.key, m.compiled)) = c ∧ s.implementing = imp ∧
  (s.mods.map (·.key)).Nodup

variable {c : List (MKey × Option (Nat × Desc))} {imp : List MKey}

theorem Untouched.upd {s : Ctx} (h : Untouched c imp s) (k : MKey) (f : Mod → Mod)
    (hsrc : ∀ m, (f m).src = m.src) (hcomp : ∀ m, (f m).compiled = m.compiled) : Untouched c imp (s.upd k f) := by
  have hkey : ∀ m, (f m).key = m.key := fun m => Mod.key_eq_of_src (hsrc m)
  obtain ⟨h1, h2, h3⟩ := h
  refine ⟨?_, h2, ?_⟩
  · rw [← h1]
    simp only [Ctx.upd, List.filter_map, List.map_map]
    have hf : ((fun m : Mod => !s.creating.contains m.key) ∘ fun m => if (m.key == k) = true then f m else m)
        = fun m => !s.creating.contains m.key := by
      funext m; simp only [Function.comp]; split <;> simp [hkey]
    rw [hf]
    apply List.map_congr_left
    intro m _
    simp only [Function.comp]
    split
    · simp [hkey, hcomp]
    · rfl
  · simp only [Ctx.upd, List.map_map]
    have : ((fun m : Mod => m.key) ∘ fun m => if (m.key == k) = true then f m else m) = fun m => m.key := by
      funext m; simp only [Function.comp]; split <;> simp [hkey]
    rw [this]; exact h3

theorem presU_updM (k : MKey) (f : Mod → Mod) (hsrc : ∀ m, (f m).src = m.src) (hcomp : ∀ m, (f m).compiled = m.compiled) :
    Pres (Untouched c imp) (updM k f) := pres_modS fun _ h => h.upd k f hsrc hcomp

theorem Untouched.createMod {s1 : Ctx} (h : Untouched c imp s1) (src : ModSrc) (l : Latest)
    (hnew : s1.find (src.name, src.rev) = none) : Untouched c imp (createMod src l s1) := by
  have hne0 := find_none_iff.mp hnew
  obtain ⟨h1, h2, h3⟩ := h
  unfold LyModel.Ctx.createMod LyModel.Ctx.tick
  refine ⟨?_, h2, ?_⟩
  · rw [← h1]
    simp only [List.filter_append]
    have hf : (List.filter (fun m => !(s1.creating ++ [(src.name, src.rev)]).contains m.key) s1.mods)
        = List.filter (fun m => !s1.creating.contains m.key) s1.mods := by
      apply List.filter_congr
      intro m hm
      have := hne0 m hm
      simp [this]
    simp only [hf]
    simp [Mod.key, newMod]
  · simp only [List.map_append, List.map_cons, List.map_nil]
    rw [List.nodup_append]
    refine ⟨h3, by simp, ?_⟩
    intro a ha b hb
    simp only [List.mem_map] at ha
    obtain ⟨m, hm, rfl⟩ := ha
    simp only [List.mem_singleton] at hb
    subst hb
    intro heq
    exact hne0 m hm (by simpa [Mod.key, newMod] using heq)

theorem Untouched.enterMod {s : Ctx} (h : Untouched c imp s) (src : ModSrc) (old : Option MKey) (l : Latest)
    (hnew : s.find (src.name, src.rev) = none) : Untouched c imp (enterMod src old l s) := by
  unfold LyModel.Ctx.enterMod
  cases old with
  | none => exact h.createMod src l hnew
  | some ok =>
    have h1 : Untouched c imp (s.upd ok fun m => { m with latest := { m.latest with rev := false, dirs := false } }) :=
      h.upd ok _ (fun _ => rfl) (fun _ => rfl)
    exact h1.createMod src l (find_upd_none (fun _ => rfl) hnew)

theorem presU_finishParse (src : ModSrc) (k : MKey) : Pres (Untouched c imp) (finishParse src k) := by
  unfold finishParse
  refine pres_bind (presU_updM _ _ (fun _ => rfl) (fun _ => rfl)) (fun _ => ?_)
  split
  · exact pres_failS _
  · exact pres_bind (presU_updM _ _ (fun _ => rfl) (fun _ => rfl)) (fun _ => pres_pure _)

theorem presU_loadFinish (rev : Option Bytes) (got : Option MKey) (ml : Option Mod) :
    Pres (Untouched c imp) (loadFinish rev got ml) := by
  unfold loadFinish
  split
  · refine pres_bind ?_ (fun _ => pres_getBind fun s => (pres_bind ?_ (fun _ => pres_pure _)).at s)
    · split
      · exact presU_updM _ _ (fun _ => rfl) (fun _ => rfl)
      · exact pres_pure _
    · split
      · exact presU_updM _ _ (fun _ => rfl) (fun _ => rfl)
      · exact pres_pure _
  · split
    · exact pres_failS _
    · exact pres_bind (presU_updM _ _ (fun _ => rfl) (fun _ => rfl)) (fun _ => pres_pure _)

theorem presU_parse : ∀ fuel,
    (∀ src chk, Pres (Untouched c imp) (parseIn fuel src chk)) ∧
    (∀ name rev, Pres (Untouched c imp) (parseLoad fuel name rev)) := by
  intro fuel
  induction fuel with
  | zero =>
    refine ⟨fun _ _ => ?_, fun _ _ => ?_⟩
    · unfold parseIn; exact pres_failS _
    · unfold parseLoad; exact pres_failS _
  | succ n ih =>
    obtain ⟨ihIn, ihLoad⟩ := ih
    refine ⟨fun src chk => ?_, fun name rev => ?_⟩
    · unfold parseIn
      split
      · exact pres_failS _
      · apply pres_getBind
        intro s
        split
        · exact presAt_failS _ _
        · exact presAt_pure _ _
        · next old lflags hdec =>
          refine presAt_bind (presAt_modS fun hs => hs.enterMod src old lflags (parseDecision_create hdec)) (fun _ => ?_)
          refine pres_bind (pres_forEach (fun x => ?_)) (fun _ => presU_finishParse _ _)
          refine pres_bind (ihLoad _ _) (fun t => pres_bind ?_ (fun _ => ?_))
          · split
            · exact presU_updM _ _ (fun _ => rfl) (fun _ => rfl)
            · exact pres_pure _
          · exact presU_updM _ _ (fun _ => rfl) (fun _ => rfl)
    · unfold parseLoad
      apply pres_getBind
      intro s
      refine (pres_bind ?_ (fun k => ?_)).at s
      · split
        · exact pres_pure _
        · refine pres_bind ?_ (fun got => presU_loadFinish _ _ _)
          split
          · exact pres_pure _
          · split
            · exact pres_attemptLoad _ (ihIn _ _)
            · exact pres_pure _
      · unfold circularCheck
        apply pres_getBind
        intro s1
        split
        · exact presAt_failS _ _
        · exact presAt_pure _ _

/-- after a failure in the parse phase only `removeCreated` happens: the compiled modules are those from before -/
theorem untouched_revert {s₀ s1 : Ctx}
    (h : Untouched (s₀.mods.map fun m => (m.key, m.compiled)) [] s1) :
    (revert s1).mods.map (fun m => (m.key, m.compiled)) = s₀.mods.map (fun m => (m.key, m.compiled)) := by
  obtain ⟨h1, h2, _⟩ := h
  rw [revert_eq]
  simp only [h2, List.isEmpty_nil, if_true]
  unfold revertCore
  simp only [h2, List.foldl_nil]
  obtain ⟨g, hg, e⟩ := fixLatest_spec s1 (removeCreated s1)
  rw [e]
  show ((removeCreated s1).mods.map g).map (fun m => (m.key, m.compiled)) = _
  rw [List.map_map]
  rw [← h1]
  unfold removeCreated
  apply List.map_congr_left
  intro m _
  simp only [Function.comp, (hg m).key, (hg m).compiled]

end LyModel.Ctx
