import LyModel.Base
import LyModel.Ctx.Jenkins
import LyModel.Generated.CtxFacts
/-!
# Component `Ctx` — the module set of a libyang context as a state machine

Mirrors, in the C's order of side effects,

* `tree_schema.c`: `lys_parse`, `lys_parse_in`, `lysp_resolve_import_include`, `_lys_set_implemented`,
  `lys_set_implemented`, `lys_unres_dep_sets_create(+_mod_r, _single)`, `lys_unres_glob_revert`, `lys_unres_glob_erase`
* `tree_schema_common.c`: `lys_parse_load`, `lys_parse_load_from_clb_or_file` (import-callback route), `lysp_load_module_check`,
  `lys_get_module_without_revision`
* `schema_compile.c`: `lys_implement`, `lys_has_compiled_import_r`, `lys_compile_depset_all/_r`, `lys_compile_depset_check_features`,
  `lys_compile_unres_depset_implement` (leafref targets), `lys_compile` (as: counter++, fresh compiled module)
* `schema_compile_amend.c`: `lys_precompile_augments_deviations(+_revert)`
* `schema_features.c`: `lys_set_features`, `lys_check_features`, `lysp_feature_next`
* `context.c`: `ly_ctx_load_module`, `ly_ctx_compile`, `ly_ctx_set_options`, `ly_ctx_get_modules_hash`, `change_count`

A module's *content* is abstract (`ModSrc`: what the bookkeeping looks at — features, imports, has data / groupings,
augment / deviation / leafref / grouping targets).  Errors inside the content (syntax, unresolved typedef, bad leafref, …) are
not computed but *injected*: `ModSrc.faults` lists (stage, LY_ERR) pairs, and the step of that stage concerning that module
fails with that code whenever it is reached — so quantifying over all sources quantifies over all failure points.  Failures the bookkeeping itself decides (unresolved import, unknown feature, unsatisfied if-feature, second implemented
revision, namespace clash) are computed.  Nothing is idealised: `lys_set_features` flips flags in place before anything can
fail (F4), the pending batch of an explicit-compile context is dropped as a whole (F131), recompilation issues fresh compiled
modules (F24).  Behaviour that a repair of the code changed is a parameter (`Cfg`, a field of the context; the hash has its two
parameters as arguments): with `{}` the previous latest revision loses its flag for good (F130), `LYS_MOD_IMPORTED_REV` sticks
(F132), a failed candidate for a dateless import stays in the context (F134), implementing a module / changing features does
not count as a change (F133), augment targets implemented in the unres phase stay uncompiled (F137); `Cfg.code` is what the
code does now (read from the sources on every run, `Generated/CtxFacts.lean`), and the driver starts every context with it.

Core Lean only (linked into `lydrv`).
-/
namespace LyModel.Ctx

abbrev MKey := Bytes × Bytes          -- (name, revision); revision `[]` = none

structure FeatSrc where
  name : Bytes
  iff : Option Bytes                  -- first `if-feature` of the feature (the only one `lys_check_features` evaluates)
deriving DecidableEq, Repr, Inhabited

/-- the processing stage at which an error inside a module's content is detected -/
inductive Stage
  | syntax    -- `yang_parse_module`: nothing has happened yet
  | late      -- rest of `lys_parse_in` after the module was added and its imports resolved (include, name collisions,
              -- if-feature of features, identity bases)
  | impl      -- `lys_precompile_augments_deviations`: target module of an augment / deviation
  | compile   -- `lys_compile` of this module (typedef / grouping resolution, when / must syntax, duplicate nodes, …)
  | unres     -- `lys_compile_unres_depset`: leafref / when / must / default checks of the dependency set
deriving DecidableEq, Repr, Inhabited

structure ModSrc where
  name : Bytes
  rev : Bytes
  ns : Bytes
  hasData : Bool                      -- data / rpcs / notifications / extension instances (`LYSP_HAS_RECOMPILED`), submodules included
  hasGrp : Bool                       -- top-level groupings
  feats : List FeatSrc                -- features of the main module
  subs : List (List FeatSrc)          -- features of each included submodule, in include order
  imports : List (Bytes × Bytes)      -- (name, revision-date or [])
  augments : List Bytes               -- target modules (import names), in statement order
  deviations : List Bytes
  lrefs : List Bytes                  -- modules referenced by leafref paths
  usesGrp : List Bytes                -- imports whose grouping (with if-feature'd nodes) is instantiated
  idBase : List Bytes := []           -- imports an identity of this module is derived from (shown by the base module's print)
  faults : List (Stage × Nat) := []   -- injected failures: the stage fails with this LY_ERR whenever it is reached
  badAmend : List (Bytes × Nat) := [] -- injected: an augment / deviation of this module whose target node does not exist in the
                                      -- named import: `lys_compile` of THAT module fails while this one is in its augmented_by / deviated_by
  subNames : List Bytes := []         -- names of the included submodules, in include order (yang-library `submodule` list)
  nodes : List Bytes := []            -- top-level data nodes of the compiled module, in order (main module, then submodules)
  augTargets : List (Bytes × Bytes) := []   -- per `augment` statement: (import name, top-level node of that module it descends into)
  devTargets : List (Bytes × Bytes) := []   -- per `deviation` statement, likewise
  regRev : Option Bytes := none       -- the revision the import callback / the caller believes this text to have, when it is not
                                      -- the revision the text declares (`rev`): `lysp_load_module_check` refuses the module
deriving DecidableEq, Repr, Inhabited

/-- the revision under which the source is served -/
def ModSrc.repoRev (m : ModSrc) : Bytes := m.regRev.getD m.rev

def ModSrc.fault (m : ModSrc) (st : Stage) : Option Nat := (m.faults.find? (fun f => f.1 == st)).map (·.2)

structure Feat where
  name : Bytes
  on : Bool
  iff : Option Bytes
deriving DecidableEq, Repr, Inhabited

/-- what the compiled print of a module with data is a function of (at the time of its compilation) -/
structure Desc where
  feats : List Bytes                  -- enabled own features (main module, then submodules)
  augBy : List Bytes                  -- names, sorted (the print does not depend on the order of `augmented_by`)
  devBy : List Bytes                  -- names, sorted (each deviation touches a node of its own)
  grp : List (Bytes × List Bytes)     -- enabled features of the modules whose grouping is used
  nodes : List (Bytes × List Bytes × List Bytes) := []
                                      -- the compiled top-level data nodes, in order: (name, modules whose augments were compiled
                                      -- into it, modules whose deviations were applied below it), both sorted
deriving DecidableEq, Repr, Inhabited

/-- `lys_module.latest_revision` bits -/
structure Latest where
  rev : Bool := false                 -- LYS_MOD_LATEST_REV        0x01
  dirs : Bool := false                -- LYS_MOD_LATEST_SEARCHDIRS 0x02
  imp : Bool := false                 -- LYS_MOD_IMPORTED_REV      0x04
  clb : Bool := false                 -- LYS_MOD_LATEST_IMPCLB     0x08
deriving DecidableEq, Repr, Inhabited

def Latest.toNat (l : Latest) : Nat :=
  (if l.rev then 1 else 0) + (if l.dirs then 2 else 0) + (if l.imp then 4 else 0) + (if l.clb then 8 else 0)
def Latest.any (l : Latest) : Bool := l.rev || l.dirs || l.imp || l.clb

structure Mod where
  src : ModSrc
  implemented : Bool := false
  latest : Latest := {}
  feats : List Feat := []
  subFeats : List (List Feat) := []
  impRes : List MKey := []            -- `imports[u].module`, filled while the imports are resolved
  parsing : Bool := false
  broken : Bool := false              -- ghost: added to the context by a `lys_parse_in` that has not (yet) succeeded (F134)
  toCompile : Bool := false
  compiled : Option (Nat × Desc) := none   -- (identity of the compiled nodes, content)
  augBy : List MKey := []
  devBy : List MKey := []
deriving DecidableEq, Repr, Inhabited

def Mod.key (m : Mod) : MKey := (m.src.name, m.src.rev)

/-- which of the repaired behaviours the code has; `{}` = none of them (the tree the findings were recorded on) -/
structure Cfg where
  restoreLatest : Bool := false       -- F130: `lys_unres_glob_revert` gives LYS_MOD_LATEST_REV back to the newest remaining revision
  recomputeImported : Bool := false   -- F132: … and recomputes LYS_MOD_IMPORTED_REV from the imports that remain
  loadPropagates : Bool := false      -- F134: `lys_parse_load_from_clb_or_file` returns the error of a module that failed after it was added
  countsImplement : Bool := false     -- F133: `change_count++` when a module is implemented / features of an implemented module change
  compilesTargets : Bool := false     -- F137: `lys_compile_expr_implement` compiles every module implemented together with the referenced one
deriving DecidableEq, Repr, Inhabited

/-- the code as it is now (`Generated/CtxFacts.lean` is written from the sources on every run) -/
def Cfg.code : Cfg :=
  { restoreLatest := Generated.CtxFacts.revertRestoresLatest, recomputeImported := Generated.CtxFacts.revertRecomputesImported,
    loadPropagates := Generated.CtxFacts.loadPropagatesCreated, countsImplement := Generated.CtxFacts.implementCounts,
    compilesTargets := Generated.CtxFacts.exprImplementCompilesAll }

/-- repairs proposed later (fixes/F380.diff, fixes/F4.diff), kept apart from `Cfg` so that the statements over all values of
    `Cfg` are what they were; `{}` = none of them -/
structure Cfg2 where
  revertMarks : Bool := false         -- F380: `lys_unres_glob_revert` marks the dep set of every module it makes non-implemented
  restoreFeats : Bool := false        -- F4: the API functions with a `features` argument restore the features when they fail
deriving DecidableEq, Repr, Inhabited

def Cfg2.code : Cfg2 :=
  { revertMarks := Generated.CtxFacts.revertMarksDepSet, restoreFeats := Generated.CtxFacts.callersRestoreFeatures }

structure Ctx where
  cfg : Cfg := {}
  cfg2 : Cfg2 := {}
  mods : List Mod := []
  explicit : Bool := false            -- LY_CTX_EXPLICIT_COMPILE
  privParsed : Bool := false          -- LY_CTX_SET_PRIV_PARSED
  changeCount : BitVec 16 := 0        -- `uint16_t change_count` (relative to the value after `ly_ctx_new`)
  ticks : Nat := 0                    -- ghost: the number of increments ever performed (unbounded)
  nextId : Nat := 1
  creating : List MKey := []          -- `ctx->unres.creating`
  implementing : List MKey := []      -- `ctx->unres.implementing`
  depSets : List (List MKey) := []    -- `ctx->unres.dep_sets`
  repo : List ModSrc := []            -- what the import callback serves
deriving Repr, Inhabited

-- LY_ERR values
def EINVAL : Nat := 3
def EEXIST : Nat := 4
def ENOTFOUND : Nat := 5
def EINT : Nat := 6
def EVALID : Nat := 7
def EDENIED : Nat := 8

/-! ## the state-and-error monad (state survives an error, as in C) -/

def M (α : Type) := Ctx → Except Nat α × Ctx

instance : Monad M where
  pure a := fun s => (.ok a, s)
  bind x f := fun s => match x s with
    | (.ok a, s') => f a s'
    | (.error e, s') => (.error e, s')

def getS : M Ctx := fun s => (.ok s, s)
def modS (f : Ctx → Ctx) : M Unit := fun s => (.ok (), f s)
def failS {α : Type} (e : Nat) : M α := fun s => (.error e, s)
/-- the C ignores the return value and looks at the out-parameter -/
def attempt {α : Type} (x : M α) : M (Option α) := fun s => match x s with
  | (.ok a, s') => (.ok (some a), s')
  | (.error _, s') => (.ok none, s')

/-- `lys_parse_load_from_clb_or_file`: the result of `lys_parse_in` is ignored — unless (`prop`: the repaired code, and there
    is an older revision that would be used instead) the set of new modules grew, i.e. the module failed after it was added to
    the context -/
def attemptLoad {α : Type} (prop : Bool) (x : M α) : M (Option α) := fun s => match x s with
  | (.ok a, s') => (.ok (some a), s')
  | (.error e, s') => if prop && s.creating.length < s'.creating.length then (.error e, s') else (.ok none, s')

def forEach {α : Type} : List α → (α → M Unit) → M Unit
  | [], _ => pure ()
  | a :: r, f => do f a; forEach r f

def foldlS {α β : Type} : List α → β → (β → α → M β) → M β
  | [], acc, _ => pure acc
  | a :: r, acc, f => do
    let acc' ← f acc a
    foldlS r acc' f

/-- first element for which the action says `true` (the rest is not run) -/
def anyS {α : Type} : List α → (α → M Bool) → M Bool
  | [], _ => pure false
  | a :: r, f => do
    let x ← f a
    if x then pure true else anyS r f

/-! ## lookups (`ly_ctx_get_module*`) -/

def bytesLt : Bytes → Bytes → Bool
  | [], [] => false
  | [], _ :: _ => true
  | _ :: _, [] => false
  | a :: r, b :: t => if a < b then true else if b < a then false else bytesLt r t

def Ctx.find (s : Ctx) (k : MKey) : Option Mod := s.mods.find? (fun m => m.key == k)
def Ctx.getModule (s : Ctx) (name rev : Bytes) : Option Mod := s.find (name, rev)
def Ctx.getLatest (s : Ctx) (name : Bytes) : Option Mod := s.mods.find? (fun m => m.src.name == name && m.latest.rev)
def Ctx.getLatestNs (s : Ctx) (ns : Bytes) : Option Mod := s.mods.find? (fun m => m.src.ns == ns && m.latest.rev)
def Ctx.getImplemented (s : Ctx) (name : Bytes) : Option Mod := s.mods.find? (fun m => m.src.name == name && m.implemented)

/-- `lys_get_module_without_revision` -/
def Ctx.withoutRevision (s : Ctx) (name : Bytes) : Option Mod :=
  match s.mods.find? (fun m => m.src.name == name && m.latest.imp) with
  | some m => some m
  | none => match s.getImplemented name with
    | some m => some m
    | none => s.getLatest name

def Ctx.upd (s : Ctx) (k : MKey) (f : Mod → Mod) : Ctx :=
  { s with mods := s.mods.map fun m => if m.key == k then f m else m }

def updM (k : MKey) (f : Mod → Mod) : M Unit := modS fun s => s.upd k f

/-- `n` increments of `change_count` -/
def tick (n : Nat) (s : Ctx) : Ctx := { s with changeCount := s.changeCount + BitVec.ofNat 16 n, ticks := s.ticks + n }

/-- the import callback of the harness: the exact revision, or the newest one of that name -/
def repoFind (repo : List ModSrc) (name : Bytes) (rev : Option Bytes) : Option ModSrc :=
  match rev with
  | some r => repo.find? (fun m => m.name == name && m.repoRev == r && !r.isEmpty)
  | none => (repo.filter (fun m => m.name == name)).foldl
      (fun best m => match best with
        | none => some m
        | some b => if bytesLt b.repoRev m.repoRev then some m else some b) none

/-! ## features (`schema_features.c`) -/

/-- all features in `lysp_feature_next` order -/
def Mod.allFeats (m : Mod) : List Feat := m.feats ++ m.subFeats.flatten

def Mod.featOn (m : Mod) (name : Bytes) : Option Bool := (m.allFeats.find? (fun f => f.name == name)).map (·.on)

def Mod.enabledNames (m : Mod) : List Bytes := (m.allFeats.filter (·.on)).map (·.name)

def Mod.mapFeats (m : Mod) (g : Feat → Feat) : Mod :=
  { m with feats := m.feats.map g, subFeats := m.subFeats.map (·.map g) }

/-- the `features` argument: `none` = NULL, `some []` = {NULL}, `some ("*" :: _)` = all -/
abbrev FeatArg := Option (List Bytes)

def star : Bytes := [42]

/-- `lys_set_features`: `none` = LY_EINVAL (unknown feature), `some (m', changed)` -/
def setFeatures (m : Mod) (arg : FeatArg) : Option (Mod × Bool) :=
  match arg with
  | none => some (m, false)
  | some [] => some (m.mapFeats (fun f => { f with on := false }), m.allFeats.any (·.on))
  | some (f0 :: rest) =>
    if f0 == star then some (m.mapFeats (fun f => { f with on := true }), m.allFeats.any (fun f => !f.on))
    else
      let want := f0 :: rest
      if want.all (fun n => m.allFeats.any (fun f => f.name == n)) then
        some (m.mapFeats (fun f => { f with on := want.contains f.name }),
              m.allFeats.any (fun f => f.on != want.contains f.name))
      else none

/-- the in-place effect of `lys_set_features` on module `k` of the context (nothing on LY_EINVAL) -/
def setFeatsPrim (k : MKey) (arg : FeatArg) (s : Ctx) : Ctx :=
  s.upd k fun m => match setFeatures m arg with
    | some (m', _) => m'
    | none => m

/-- `lys_set_features` on an implemented module: the flags are flipped in place and the module is marked `to_compile`
    (this is called only when something changes; the repaired code counts it as a change of the context, F133) -/
def setFeatsFlag (k : MKey) (arg : FeatArg) (s : Ctx) : Ctx :=
  tick (if s.cfg.countsImplement then 1 else 0) (s.upd k fun m => match setFeatures m arg with
    | some (m', _) => { m' with toCompile := true }
    | none => m)

/-- `lys_check_features`: an enabled feature whose (first) if-feature is false -/
def Mod.featuresOk (m : Mod) : Bool :=
  m.allFeats.all fun f => !f.on || match f.iff with
    | none => true
    | some g => (m.featOn g).getD false

/-! ## the compiled module -/

def insertSorted (k : MKey) : List MKey → List MKey
  | [] => [k]
  | a :: r => if bytesLt k.1 a.1 || (k.1 == a.1 && bytesLt k.2 a.2) then k :: a :: r else a :: insertSorted k r

def sortKeys (l : List MKey) : List MKey := l.foldr insertSorted []

def Mod.impKey (m : Mod) (name : Bytes) : Option MKey := m.impRes.find? (fun k => k.1 == name)

/-- the modules of `refs` (an `augmented_by` / `deviated_by` array of `m`) that have a statement descending into the top-level
    node `n` of `m`: what `lys_compile_node` applies while it compiles that node (`lysc_ctx.augs` / `.devs`) -/
def Ctx.amendersOf (s : Ctx) (m : Mod) (refs : List MKey) (isAug : Bool) (n : Bytes) : List Bytes :=
  ((sortKeys refs).filter fun a => match s.find a with
    | some am => (if isAug then am.src.augTargets else am.src.devTargets).any fun t => t.2 == n && am.impKey t.1 == some m.key
    | none => false).map (·.1)

def Ctx.descOf (s : Ctx) (m : Mod) : Desc :=
  if m.src.hasData then
    { feats := m.enabledNames, augBy := (sortKeys m.augBy).map (·.1), devBy := (sortKeys m.devBy).map (·.1),
      grp := m.src.usesGrp.filterMap fun n => match m.impKey n with
        | none => none
        | some k => match s.find k with
          | none => none
          | some t => some (k.1, (t.feats.filter (·.on)).map (·.name)),
      nodes := m.src.nodes.map fun n => (n, s.amendersOf m m.augBy true n, s.amendersOf m m.devBy false n) }
  else { feats := [], augBy := [], devBy := [], grp := [] }

def installCompiled (k : MKey) (s : Ctx) : Ctx :=
  match s.find k with
  | none => s
  | some m => { (s.upd k fun m' => { m' with compiled := some (s.nextId, s.descOf m) }) with nextId := s.nextId + 1 }

/-- `lys_compile`: `++change_count`, a fresh compiled module -/
def compileOne (k : MKey) : M Unit := modS fun s => installCompiled k (tick 1 s)

/-! ## parsing and loading -/

def newMod (src : ModSrc) (l : Latest) : Mod :=
  { src := src, latest := l,
    feats := src.feats.map (fun f => { name := f.name, on := false, iff := f.iff }),
    subFeats := src.subs.map (·.map fun f => { name := f.name, on := false, iff := f.iff }) }

/-- which revision is newer, as `lys_parse_in` decides it: returns (module losing its latest flags, flags of the new one) -/
def latestDecision (s : Ctx) (src : ModSrc) : Option MKey × Latest :=
  match s.getLatest src.name with
  | some l =>
    if !src.rev.isEmpty && (l.src.rev.isEmpty || bytesLt l.src.rev src.rev) then
      (some l.key, { rev := l.latest.rev, dirs := l.latest.dirs })
    else (none, {})
  | none => (none, { rev := true })

/-- the module enters the context and `unres.creating`; `change_count++` -/
def createMod (src : ModSrc) (l : Latest) (s : Ctx) : Ctx :=
  tick 1 { s with mods := s.mods ++ [{ newMod src l with parsing := true, broken := true }],
                  creating := s.creating ++ [(src.name, src.rev)] }

/-- what `lys_parse_in` decides before it changes anything -/
inductive ParseDecision
  | fail (rc : Nat)
  | existing (k : MKey)                          -- "already present in the context": nothing to do
  | create (old : Option MKey) (l : Latest)      -- add the module; `old` loses LATEST_REV / LATEST_SEARCHDIRS

def parseDecision (s : Ctx) (src : ModSrc) (check : Option (Option Bytes)) : ParseDecision :=
  let (old, lflags) := latestDecision s src
  -- lysp_load_module_check
  let chk : Option Nat := match check with
    | none => none
    | some (some r) => if src.rev == r then none else some EINVAL
    | some none => if lflags.any then none else some EEXIST
  match chk with
  | some rc => .fail rc
  | none =>
    match s.getModule src.name src.rev with
    | some d => .existing d.key
    | none =>
      match (match s.getLatestNs src.ns with
             | some d => d.src.rev == src.rev
             | none => false) with
      | true => .fail EINVAL                     -- two modules with one namespace
      | false => .create old lflags

/-- the previous latest revision loses its flags, the new module enters the context -/
def enterMod (src : ModSrc) (old : Option MKey) (l : Latest) (s : Ctx) : Ctx :=
  createMod src l (match old with
    | some ok => s.upd ok fun m => { m with latest := { m.latest with rev := false, dirs := false } }
    | none => s)

/-- the rest of `lys_parse_in` after the imports were resolved -/
def finishParse (src : ModSrc) (k : MKey) : M MKey := do
  updM k fun m => { m with parsing := false }
  match src.fault .late with
  | some rc => failS rc
  | none => do
    updM k fun m => { m with broken := false }
    pure k

/-- where `lys_parse_load` looks first: (module found in the context, older module to be possibly superseded) -/
def loadLookup (s : Ctx) (name : Bytes) (rev : Option Bytes) : Option MKey × Option Mod :=
  match rev with
  | some r => ((s.getModule name r).map (·.key), none)
  | none => match s.withoutRevision name with
    | some m => if !m.implemented && !m.latest.imp then (none, some m) else (some m.key, none)
    | none => (none, none)

/-- the flag updates of `lys_parse_load_from_clb_or_file` / `lys_parse_load` once the callback has (not) delivered -/
def loadFinish (rev : Option Bytes) (got : Option MKey) (modLatest : Option Mod) : M MKey :=
  match got with
  | some g => do
    (if rev.isNone then updM g fun m => { m with latest := { m.latest with clb := true } } else pure ())
    let s' ← getS
    (if rev.isNone && ((s'.find g).map (·.latest.rev)).getD false then
       updM g fun m => { m with latest := { m.latest with dirs := true } } else pure ())
    pure g
  | none =>
    match modLatest with
    | none => failS EVALID                     -- "Loading module failed."
    | some ml => do
      updM ml.key fun m => { m with latest := { m.latest with dirs := true } }
      pure ml.key

/-- "we are not able to find a newer revision": the callback already delivered its latest one -/
def clbSkip (modLatest : Option Mod) : Bool :=
  match modLatest with
  | some ml => ml.latest.clb
  | none => false

/-- `lys_check_circular_dependency` -/
def circularCheck (k : MKey) : M MKey := do
  let s ← getS
  if ((s.find k).map (·.parsing)).getD false then failS EVALID else pure k

mutual
/-- `lys_parse_in` (+ `lysp_resolve_import_include`); `check = some rev?` when called through the import callback
    (`lysp_load_module_check`).  Returns the key of the module now in the context. -/
def parseIn : Nat → ModSrc → Option (Option Bytes) → M MKey
  | 0, _, _ => failS EINT
  | fuel + 1, src, check =>
    match src.fault .syntax with
    | some rc => failS rc
    | none => do
      let s ← getS
      match parseDecision s src check with
      | .fail rc => failS rc
      | .existing k => pure k
      | .create old lflags => do
        let k : MKey := (src.name, src.rev)
        modS (enterMod src old lflags)
        forEach src.imports fun x => do
          let t ← parseLoad fuel x.1 (if x.2.isEmpty then none else some x.2)
          (if x.2.isEmpty then updM t fun m => { m with latest := { m.latest with imp := true } } else pure ())
          updM k fun m => { m with impRes := m.impRes ++ [t] }
        finishParse src k

/-- `lys_parse_load` with `lys_parse_load_from_clb_or_file` on the callback route (search dirs disabled) -/
def parseLoad : Nat → Bytes → Option Bytes → M MKey
  | 0, _, _ => failS EINT
  | fuel + 1, name, rev => do
    let s ← getS
    (match loadLookup s name rev with
     | (some key, _) => (pure key : M MKey)
     | (none, modLatest) =>
       -- lys_parse_load_from_clb_or_file
       (if clbSkip modLatest then (pure none : M (Option MKey))
        else match repoFind s.repo name rev with
          | some src => attemptLoad (s.cfg.loadPropagates && modLatest.isSome) (parseIn fuel src (some rev))
          | none => pure none) >>= fun got => loadFinish rev got modLatest) >>= circularCheck
end

/-! ## implementing (`lys_implement`, `lys_precompile_augments_deviations`, `lys_has_compiled_import_r`) -/

/-- `lys_array_add_mod_ref`: true when added -/
def addRef (k : MKey) (l : List MKey) : List MKey × Bool :=
  if l.contains k then (l, false) else (l ++ [k], true)

def hasCompiledImportR : Nat → MKey → M Bool
  | 0, _ => pure false
  | fuel + 1, k => do
    let s ← getS
    match s.find k with
    | none => pure false
    | some m =>
      anyS m.impRes fun t => do
        let s ← getS
        match s.find t with
        | none => pure false
        | some tm =>
          if !tm.implemented then pure false
          else if !tm.toCompile then do
            updM t fun x => { x with toCompile := true }
            pure true
          else hasCompiledImportR fuel t

/-- `mod->implemented = 1; mod->to_compile = 1; ly_set_add(&unres->implementing, mod)` -/
def markImpl (k : MKey) (s : Ctx) : Ctx :=
  tick (if s.cfg.countsImplement then 1 else 0)
    { (s.upd k fun x => { x with implemented := true, toCompile := true }) with implementing := s.implementing ++ [k] }

/-- one augment / deviation statement: mark the target, return the modules to look at -/
def markTarget (k : MKey) (isAug : Bool) (modSet : List MKey) (tname : Bytes) : M (List MKey) := do
  let s ← getS
  match s.find k with
  | none => pure modSet
  | some m =>
    match m.impKey tname with
    | none => pure modSet
    | some tk =>
      match s.find tk with
      | none => pure modSet
      | some t =>
        let (l', added) := addRef k (if isAug then t.augBy else t.devBy)
        do
          updM tk fun x => if isAug then { x with augBy := l' } else { x with devBy := l' }
          pure (if (added || !t.implemented) && !modSet.contains tk then modSet ++ [tk] else modSet)

def foldTargets (k : MKey) (isAug : Bool) : List Bytes → List MKey → M (List MKey)
  | [], acc => pure acc
  | t :: r, acc => do
    let acc' ← markTarget k isAug acc t
    foldTargets k isAug r acc'

/-- `lys_implement` without the feature part: implemented, to_compile, `implementing`, augment/deviation targets,
    compiled imports.  Returns `true` for LY_ERECOMPILE. -/
def implementCore : Nat → MKey → M Bool
  | 0, _ => failS EINT
  | fuel + 1, k => do
    let s ← getS
    match s.find k with
    | none => failS EINT
    | some m =>
      if m.implemented then pure false else
      match s.getImplemented m.src.name with
      | some _ => failS EDENIED
      | none => do
        modS (markImpl k)
        -- lys_precompile_augments_deviations
        match m.src.fault .impl with
        | some rc => failS rc
        | none =>
          let set1 ← foldTargets k true m.src.augments []
          let set2 ← foldTargets k false m.src.deviations set1
          let rec1 ← foldlS set2 false fun rec t =>
            if t == k then pure rec else do
              let s ← getS
              match s.find t with
              | none => pure rec
              | some tm =>
                if !tm.implemented then do
                  let r ← implementCore fuel t
                  pure (rec || r)
                else if tm.compiled.isSome then do
                  updM t fun x => { x with toCompile := true }
                  pure true
                else pure rec
          if rec1 then pure true else hasCompiledImportR (fuel + 1) k

/-- `lys_implement(mod, features, unres)` for a module that is not implemented -/
def implement (k : MKey) (arg : FeatArg) : M Bool := do
  let s ← getS
  match s.find k with
  | none => failS EINT
  | some m =>
    match s.getImplemented m.src.name with
    | some _ => failS EDENIED
    | none =>
      match setFeatures m arg with
      | none => failS EINVAL
      | some _ => do
        modS (setFeatsPrim k arg)
        implementCore (s.mods.length + 2) k

/-- `_lys_set_implemented` -/
def setImplementedInner (k : MKey) (arg : FeatArg) : M Unit := do
  let s ← getS
  match s.find k with
  | none => failS EINT
  | some m =>
    if m.implemented then
      match setFeatures m arg with
      | none => failS EINVAL
      | some (_, changed) =>
        if changed then modS (setFeatsFlag k arg)                         -- the flags are flipped in place (F4)
        else pure ()
    else do
      let _ ← implement k arg
      pure ()

/-! ## dependency sets (`lys_unres_dep_sets_create`) -/

def ModSrc.hasCompiledStmts (m : ModSrc) : Bool := m.hasData || !m.augments.isEmpty || !m.deviations.isEmpty
/-- `LYS_IS_SINGLE_DEP_SET` -/
def Mod.isSingle (m : Mod) : Bool := m.src.feats.isEmpty && (!m.src.hasCompiledStmts || (m.compiled.isSome && !m.src.hasData))
/-- `lys_has_dep_mods` -/
def Mod.hasDepMods (m : Mod) : Bool := !m.src.feats.isEmpty || m.src.hasGrp || !m.src.augments.isEmpty

private def b (s : String) : Bytes := s.toUTF8.toList

/-- the internal modules every context starts with (positions 0..7 of `ctx->list`): only their shape matters, because
    `ly_set_rm_index` moves the last element into the freed slot while the dependency sets are built -/
def internalMods : List Mod :=
  let mk (name : String) (impl data grp : Bool) (imps : List String) : Mod :=
    { src := { name := b name, rev := b "i", ns := b name, hasData := data, hasGrp := grp, feats := [], subs := [],
               imports := [], augments := [], deviations := [], lrefs := [], usesGrp := [] },
      implemented := impl, compiled := if impl then some (0, { feats := [], augBy := [], devBy := [], grp := [] }) else none,
      impRes := imps.map fun n => (b n, b "i") }
  [ mk "ietf-yang-metadata" false false false [],
    mk "yang" true true false ["ietf-yang-metadata"],
    mk "ietf-inet-types" false false false [],
    mk "ietf-yang-types" false false false [],
    mk "ietf-yang-schema-mount" true true false ["ietf-inet-types", "ietf-yang-types"],
    mk "ietf-yang-structure-ext" false false false [],
    mk "ietf-datastores" true false false [],
    mk "ietf-yang-library" true true true ["ietf-yang-types", "ietf-inet-types", "ietf-datastores"] ]

def Ctx.allMods (s : Ctx) : List Mod := internalMods ++ s.mods
def Ctx.allFind (s : Ctx) (k : MKey) : Option Mod := s.allMods.find? (fun m => m.key == k)

/-- `ly_set_rm_index`: the last element takes the freed slot -/
def rmSwap (l : List MKey) (i : Nat) : List MKey :=
  if i + 1 ≥ l.length then l.take i else (l.set i (l.getLast?.getD default)).dropLast

def idxOf? (l : List MKey) (k : MKey) : Option Nat :=
  let i := l.findIdx (· == k)
  if i < l.length then some i else none

abbrev DS := List MKey × List MKey × List MKey     -- ctx_set, dep_set, aux_set

/-- `lys_unres_dep_sets_create_mod_r` -/
def createModR (s : Ctx) : Nat → MKey → DS → DS
  | 0, _, st => st
  | fuel + 1, k, (cs, ds, aux) =>
    match s.allFind k with
    | none => (cs, ds, aux)
    | some m =>
      let go := fun (st : DS) =>
        let st1 := m.impRes.foldl (fun st t => createModR s fuel t st) st
        s.allMods.foldl (fun st m2 => if m2.impRes.contains k then createModR s fuel m2.key st else st) st1
      if m.isSingle then
        if !m.hasDepMods then (cs, ds, aux)
        else if aux.contains k then (cs, ds, aux)
        else go (cs, ds, aux ++ [k])
      else
        match idxOf? cs k with
        | none => (cs, ds, aux)
        | some i => go (rmSwap cs i, ds ++ [k], aux)

/-- `lys_unres_dep_sets_create_single` -/
def singlesLoop (s : Ctx) : Nat → Nat → List MKey → List (List MKey) → List MKey × List (List MKey)
  | 0, _, cs, acc => (cs, acc)
  | fuel + 1, i, cs, acc =>
    match cs[i]? with
    | none => (cs, acc)
    | some k =>
      if ((s.allFind k).map (·.isSingle)).getD false then singlesLoop s fuel i (rmSwap cs i) (acc ++ [[k]])
      else singlesLoop s fuel (i + 1) cs acc

def allLoop (s : Ctx) (depth : Nat) : Nat → List MKey → List (List MKey) → List (List MKey)
  | 0, _, acc => acc
  | fuel + 1, cs, acc =>
    match cs with
    | [] => acc
    | k :: _ =>
      let (cs', ds, _) := createModR s depth k (cs, [], [])
      allLoop s depth fuel cs' (acc ++ [ds])

def depSetsCreate (s : Ctx) (mod : Option MKey) : List (List MKey) :=
  let all := s.allMods.map (·.key)
  let n := all.length
  let (cs, main) := singlesLoop s (2 * n + 1) 0 all []
  match mod with
  | some k =>
    if cs.contains k then
      let (_, ds, _) := createModR s (2 * n + 2) k (cs, [], [])
      main ++ [ds]
    else main
  | none => allLoop s (2 * n + 2) (n + 1) cs main

/-- "if there is [a module to compile], all the implemented modules need to be recompiled" -/
def markDepSet (s : Ctx) (ds : List MKey) : Ctx :=
  if ds.any (fun k => ((s.find k).map (·.toCompile)).getD false) then
    { s with mods := s.mods.map fun m => if ds.contains m.key && m.implemented then { m with toCompile := true } else m }
  else s

def depSetsM (mod : Option MKey) : M Unit := modS fun s =>
  let dss := depSetsCreate s mod
  { (dss.foldl markDepSet s) with depSets := dss }

/-! ## compiling (`lys_compile_depset_all`) -/

/-- does `lys_compile` of `m` fail?  Its own content, or an augment / deviation of a module listed in
    `augmented_by` / `deviated_by` that does not apply -/
def compileFault (s : Ctx) (m : Mod) : Option Nat :=
  match m.src.fault .compile with
  | some rc => some rc
  | none => (m.augBy ++ m.devBy).findSome? fun a => match s.find a with
    | some am => (am.src.badAmend.find? fun t => am.impKey t.1 == some m.key).map (·.2)
    | none => none

/-- `lys_compile(mod)`: counts, then fails or installs the new compiled module -/
def compileChecked (k : MKey) : M Unit := do
  let s ← getS
  match s.find k with
  | none => pure ()
  | some m =>
    match compileFault s m with
    | some rc => do
      -- `lys_compile` counts before it can fail
      modS (tick 1)
      failS rc
    | none => compileOne k

/-- `if (!mod->compiled) lys_compile(mod)` in `lys_compile_expr_implement`; the module joins the work list of the round -/
def compileIfNot (st : Bool × List MKey) (k : MKey) : M (Bool × List MKey) := do
  let s ← getS
  if ((s.find k).map (·.compiled.isNone)).getD false then do
    compileChecked k
    pure (false, st.2 ++ [k])
  else pure st

/-- `lys_compile_unres_depset_implement`, leafref part, followed by the checks of the unres sets.
    `work` = modules compiled in this round, in order; returns `true` for LY_ERECOMPILE. -/
def unresLoop : Nat → List MKey → List MKey → M Bool
  | 0, _, _ => pure false
  | _ + 1, [], done => do
    -- leafref / when / must / default checks of everything compiled in this round
    let s ← getS
    match done.findSome? (fun k => match s.find k with
        | some m => m.src.fault .unres
        | none => none) with
    | some rc => failS rc
    | none => pure false
  | fuel + 1, k :: rest, done => do
    let s0 ← getS
    let lrefs := match s0.find k with
      | some m => m.src.lrefs
      | none => []
    let (rec, extra) ← foldlS lrefs ((false, []) : Bool × List MKey) fun (st : Bool × List MKey) tn =>
      if st.1 then pure st else do
        let s ← getS
        match s.find k with
        | none => pure st
        | some m =>
          if !m.implemented then pure st else        -- (the C asserts it)
          match m.impKey tn with
          | none => pure st
          | some tk =>
            match s.find tk with
            | none => pure st
            | some t => do
              let r ← (if !t.implemented then implement tk none else pure false)
              if r then pure (true, st.2) else do
                let st1 ← compileIfNot st tk
                -- the repaired code (F137): also the modules implemented together with `tk` (targets of its augments / deviations)
                let s' ← getS
                if s'.cfg.compilesTargets then foldlS (s'.implementing.drop s.implementing.length) st1 compileIfNot
                else pure st1
    if rec then pure true else unresLoop fuel (rest ++ extra) (done ++ [k])

/-- `lys_compile_depset_r` -/
def depsetR : Nat → List MKey → M Unit
  | 0, _ => failS EINT
  | fuel + 1, ds => do
    let work ← foldlS ds ([] : List MKey) fun work k => do
      let s ← getS
      match s.find k with
      | none => pure work
      | some m =>
        if !m.toCompile then pure work else do
          updM k fun x => { x with compiled := none }
          compileChecked k
          pure (work ++ [k])
    let s ← getS
    let rec ← unresLoop (2 * s.mods.length + 2) work []
    if rec then depsetR fuel ds
    else forEach ds fun k => updM k fun x => { x with toCompile := false }

/-- `lys_compile_depset_check_features` -/
def checkFeatures (ds : List MKey) : M Unit := do
  let s ← getS
  if ds.all (fun k => match s.find k with
      | some m => !m.toCompile || m.featuresOk
      | none => true) then pure () else failS EDENIED

def compileAll : M Unit := do
  let s ← getS
  forEach s.depSets fun ds => do
    checkFeatures ds
    let s' ← getS
    depsetR (s'.mods.length + 2) ds

/-! ## revert and erase -/

def eraseOne (k : MKey) : List MKey → List MKey
  | [] => []
  | a :: r => if a == k then r else a :: eraseOne k r

/-- the first loop of `lys_unres_glob_revert`: make the module non-implemented again -/
def unimplement (s : Ctx) (k : MKey) : Ctx :=
  { s with mods := s.mods.map fun m =>
      let m1 := { m with augBy := eraseOne k m.augBy, devBy := eraseOne k m.devBy }
      if m1.key == k then { m1 with implemented := false, compiled := none, toCompile := false } else m1 }

/-- the second loop: remove the created modules from the context and from the dependency sets.
    (`ly_set_rm` moves the last module into the freed slot; the created modules are the tail of the list and all
    of them are removed, which leaves the remaining modules in their order.) -/
def removeCreated (s : Ctx) : Ctx :=
  { s with mods := s.mods.filter (fun m => !s.creating.contains m.key),
           depSets := s.depSets.map (fun ds => ds.filter (fun k => !s.creating.contains k)) }

/-- is revision `a` newer than `b` (a module without revision is older than any other) -/
def newerRev (a b : Bytes) : Bool := !a.isEmpty && (b.isEmpty || bytesLt b a)

/-- the newest revision of module `name` in `l`, as the loop in `lys_unres_glob_revert` finds it -/
def newestRev (l : List Mod) (name : Bytes) : Option MKey :=
  ((l.filter (·.src.name == name)).foldl (fun (best : Option Mod) m => match best with
    | none => some m
    | some b => if newerRev m.src.rev b.src.rev then some m else some b) none).map (·.key)

/-- repaired code (F130): a module that holds LYS_MOD_LATEST_REV is removed — the newest remaining revision is the latest one
    again.  (The C does it module by module; a flag handed to a module that is removed later is handed on, so the outcome is:
    for every name of which a removed module held the flag, the newest module that stays.)  `removed`: the created modules. -/
def restoreLatest (removed : List Mod) (s : Ctx) : Ctx :=
  let names := (removed.filter (·.latest.rev)).map (·.src.name)
  { s with mods := s.mods.map fun m =>
      if names.contains m.src.name && newestRev s.mods m.src.name == some m.key then { m with latest := { m.latest with rev := true } }
      else m }

/-- the modules `m` imports without revision-date, as far as the imports were resolved -/
def Mod.datelessTargets (m : Mod) : List MKey := ((m.src.imports.zip m.impRes).filter (·.1.2.isEmpty)).map (·.2)

/-- repaired code (F132): LYS_MOD_IMPORTED_REV is cleared everywhere and set again from the imports of the modules that stay -/
def recomputeImported (s : Ctx) : Ctx :=
  { s with mods := s.mods.map fun m =>
      { m with latest := { m.latest with imp := s.mods.any fun x => x.datelessTargets.contains m.key } } }

/-- repaired code (F380): every implemented module that shares a dependency set with a module made non-implemented is
    marked for compilation, whether or not its dependency set had been compiled (and its flags unset) before the failure.
    (The C does it inside the first loop, module by module, on the dependency sets as they are before the created modules
    are taken out; a module that is itself made non-implemented ends with the flag unset.) -/
def markReverted (dss : List (List MKey)) (imp : List MKey) (s : Ctx) : Ctx :=
  { s with mods := s.mods.map fun m =>
      if m.implemented && dss.any (fun ds => ds.contains m.key && imp.any ds.contains) then { m with toCompile := true } else m }

/-- what the repaired `lys_unres_glob_revert` does to `latest_revision` (F130, F132) and `to_compile` (F380) while / after it
    removes the created modules (`s1`: before the removal, `s2`: after it) -/
def fixLatest (s1 s2 : Ctx) : Ctx :=
  let s3 := if s1.cfg.restoreLatest then restoreLatest (s1.mods.filter fun m => s1.creating.contains m.key) s2 else s2
  let s4 := if s1.cfg.recomputeImported then recomputeImported s3 else s3
  if s1.cfg2.revertMarks then markReverted s1.depSets s1.implementing s4 else s4

/-- `lys_unres_glob_revert` -/
def revert (s : Ctx) : Ctx :=
  let s1 := s.implementing.foldl unimplement s
  let s2 := fixLatest s1 (removeCreated s1)
  if s.implementing.isEmpty then s2 else (compileAll s2).2

/-- `lys_unres_glob_erase` -/
def erase (s : Ctx) : Ctx := { s with depSets := [], implementing := [], creating := [] }

/-! ## the API operations -/

inductive Op
  | parse (src : ModSrc) (feats : FeatArg)               -- lys_parse
  | load (name : Bytes) (rev : Option Bytes) (feats : FeatArg)   -- ly_ctx_load_module
  | setImpl (k : MKey) (feats : FeatArg)                 -- lys_set_implemented
  | compile                                              -- ly_ctx_compile
  | setOpt (explicit privParsed : Bool)                  -- ly_ctx_set_options
  | unsetOpt (explicit privParsed : Bool)                -- ly_ctx_unset_options
deriving Repr, Inhabited

def parseFuel (s : Ctx) : Nat := 2 * (s.repo.length + s.mods.length) + 4     -- two levels per import hop

/-- implement + (unless explicit compile) dep set of the module + compile + erase -/
def implementAndCompile (k : MKey) (feats : FeatArg) : M Unit := do
  setImplementedInner k feats
  let s ← getS
  if s.explicit then pure () else do
    depSetsM (some k)
    compileAll

/-- `LY_CTX_SET_PRIV_PARSED` is being set: every implemented module is to be recompiled
    (`tick 4`: the four implemented internal modules are recompiled, too) -/
def privMark (s : Ctx) : Ctx :=
  tick 4 { s with privParsed := true,
                  mods := s.mods.map fun m => if m.implemented then { m with toCompile := true } else m }

/-- the part of an operation before the error handling -/
def forward : Op → M Unit
  | .parse src feats => do
    let s ← getS
    let k ← parseIn (parseFuel s) src none
    implementAndCompile k feats
  | .load name rev feats => do
    let s ← getS
    let k ← parseLoad (parseFuel s) name rev
    implementAndCompile k feats
  | .setImpl k feats => implementAndCompile k feats
  | .compile => do
    depSetsM none
    compileAll
  | .setOpt ex pp => do
    let s ← getS
    (if pp && !s.privParsed then do
      modS privMark
      depSetsM none
      compileAll
     else pure ())
    modS fun s => { s with explicit := s.explicit || ex, privParsed := s.privParsed || pp }
  | .unsetOpt ex pp =>
    modS fun s => { s with explicit := s.explicit && !ex, privParsed := s.privParsed && !pp }

/-- the module a `features` argument is applied to: the module the call is about, once it is known -/
def targetKey (s : Ctx) (op : Op) : Option MKey :=
  match op with
  | .setImpl k _ => some k
  | .parse src _ => match parseIn (parseFuel s) src none s with
    | (.ok k, _) => some k
    | (.error _, _) => none
  | .load name rev _ => match parseLoad (parseFuel s) name rev s with
    | (.ok k, _) => some k
    | (.error _, _) => none
  | _ => none

/-- repaired code (F4): `lys_features_restore` on the error path of `lys_set_implemented` / `lys_parse` / `ly_ctx_load_module` —
    the features of the module are those it had when the call began (`s`); nothing for a module the call created -/
def restoreFeats (s : Ctx) (op : Op) (s1 : Ctx) : Ctx :=
  if s.cfg2.restoreFeats then
    match targetKey s op with
    | some k => match s.find k with
      | some m0 => s1.upd k fun m => { m with feats := m0.feats, subFeats := m0.subFeats }
      | none => s1
    | none => s1
  else s1

/-- an API call: forward part, then on error `lys_unres_glob_revert` + `lys_unres_glob_erase` -/
def run (s : Ctx) (op : Op) : Except Nat Unit × Ctx :=
  match (match op with
         | .setImpl k _ => (s.find k).isNone      -- there is no `struct lys_module *` to call the function with
         | _ => false) with
  | true => (.error ENOTFOUND, s)
  | false =>
  match forward op s with
  | (.ok (), s1) =>
    match op with
    | .compile => (.ok (), erase s1)
    | .setOpt _ pp => (.ok (), if pp && !s.privParsed then erase s1 else s1)     -- `ly_ctx_compile` erases
    | .unsetOpt _ _ => (.ok (), s1)
    | _ => (.ok (), if s1.explicit then s1 else erase s1)                        -- "unres resolved"
  | (.error e, s1) =>
    match op with
    | .setOpt _ _ => (.error e, { erase (revert s1) with privParsed := false })
    | .unsetOpt _ _ => (.error e, s1)
    | _ => (.error e, erase (revert (restoreFeats s op s1)))

/-! ## `ly_ctx_get_modules_hash` -/

/-- features of one module that reach the hash when the iterator index arrives with value `fi`;
    returns the new index.  `fi = 0`: main module then all submodules; `fi = j + 1`: submodules from `j` on. -/
def hashFeats (m : Mod) (fi : Nat) : List Feat × Nat :=
  let n := m.subFeats.length
  if fi = 0 then (m.allFeats, n + 1)
  else ((m.subFeats.drop (fi - 1)).flatten, max fi (n + 1))

/-- the byte strings fed to `lyht_hash_multi`, in order.  `reset`: is the iterator index `fi` set back to 0 for every
    module?  In the pinned tree it is not (F23): it is carried across modules. -/
def hashPartsG (reset : Bool) : List Mod → Nat → List Bytes
  | [], _ => []
  | m :: r, fi =>
    let (fs, fi') := hashFeats m (if reset then 0 else fi)
    [m.src.name] ++ (if m.src.rev.isEmpty then [] else [m.src.rev]) ++ (fs.filter (·.on)).map (·.name)
      ++ [[if m.implemented then 1 else 0]] ++ hashPartsG reset r fi'

/-- as the code does it now (`hashFiReset` is read from context.c on every run) -/
def hashParts (l : List Mod) (fi : Nat) : List Bytes := hashPartsG Generated.CtxFacts.hashFiReset l fi

/-- the internal modules as the hash sees them: name, revision, implemented (none of them has a feature; the model's
    histories never implement one of them) -/
def internalHashMods : List Mod :=
  Generated.CtxFacts.internalModules.map fun x =>
    { src := { name := x.1.toUTF8.toList, rev := x.2.1.toUTF8.toList, ns := [], hasData := false, hasGrp := false, feats := [], subs := [],
               imports := [], augments := [], deviations := [], lrefs := [], usesGrp := [] },
      implemented := x.2.2 }

/-- `skip`: does the loop start behind the internal modules?  (In the tree the findings were recorded on it does, F136.) -/
def hashedMods (skip : Bool) (s : Ctx) : List Mod := (if skip then [] else internalHashMods) ++ s.mods

def Ctx.modulesHashG (reset skip : Bool) (s : Ctx) : BitVec 32 :=
  Jenkins.multi ((hashPartsG reset (hashedMods skip s) 0).foldl Jenkins.multi 0) []

def Ctx.modulesHash (s : Ctx) : BitVec 32 := s.modulesHashG Generated.CtxFacts.hashFiReset Generated.CtxFacts.hashSkipsInternal

/-- what the specification of the hash asks for: the iterator restarts for every module -/
def hashPartsSpec : List Mod → List Bytes
  | [] => []
  | m :: r =>
    [m.src.name] ++ (if m.src.rev.isEmpty then [] else [m.src.rev]) ++ m.enabledNames
      ++ [[if m.implemented then 1 else 0]] ++ hashPartsSpec r

end LyModel.Ctx
