import LyModel.Ctx.Model
/-!
A small invariant calculus for the state-and-error monad `M` of the `Ctx` model: `Pres P x` says that `x` keeps `P`
whatever its outcome (the state survives an error, so this is what the rollback theorems need).
-/
namespace LyModel.Ctx

variable {α β : Type} {P : Ctx → Prop}

/-- `x` preserves `P` on every path, successful or not -/
def Pres (P : Ctx → Prop) (x : M α) : Prop := ∀ s, P s → P (x s).2

theorem bind_run (x : M α) (f : α → M β) (s : Ctx) :
    (x >>= f) s = match x s with
      | (.ok a, s') => f a s'
      | (.error e, s') => (.error e, s') := rfl

theorem pure_run (a : α) (s : Ctx) : (pure a : M α) s = (.ok a, s) := rfl
theorem getS_run (s : Ctx) : getS s = (.ok s, s) := rfl
theorem modS_run (f : Ctx → Ctx) (s : Ctx) : modS f s = (.ok (), f s) := rfl
theorem failS_run (e : Nat) (s : Ctx) : (failS e : M α) s = (.error e, s) := rfl

theorem pres_pure (a : α) : Pres P (pure a : M α) := fun _ h => h
theorem pres_failS (e : Nat) : Pres P (failS e : M α) := fun _ h => h
theorem pres_getS : Pres P getS := fun _ h => h
theorem pres_modS {f : Ctx → Ctx} (h : ∀ s, P s → P (f s)) : Pres P (modS f) := fun s hs => h s hs

theorem pres_bind {x : M α} {f : α → M β} (hx : Pres P x) (hf : ∀ a, Pres P (f a)) : Pres P (x >>= f) := by
  intro s hs
  have h1 := hx s hs
  rw [bind_run]
  cases hxs : x s with
  | mk r s' =>
    rw [hxs] at h1
    cases r with
    | ok a => exact hf a s' h1
    | error e => exact h1

/-- preservation at one given state (for continuations that know the state they start from) -/
def PresAt (P : Ctx → Prop) (x : M α) (s : Ctx) : Prop := P s → P (x s).2

theorem Pres.at {x : M α} (h : Pres P x) (s : Ctx) : PresAt P x s := h s

/-- the continuation may use that the value read IS the current state -/
theorem pres_getBind {f : Ctx → M β} (h : ∀ s, PresAt P (f s) s) : Pres P (getS >>= f) := by
  intro s hs
  rw [bind_run, getS_run]
  exact h s hs

theorem presAt_getBind {f : Ctx → M β} {s : Ctx} (h : PresAt P (f s) s) : PresAt P (getS >>= f) s := by
  intro hs
  rw [bind_run, getS_run]
  exact h hs

theorem presAt_pure (a : α) (s : Ctx) : PresAt P (pure a : M α) s := fun h => h
theorem presAt_failS (e : Nat) (s : Ctx) : PresAt P (failS e : M α) s := fun h => h

theorem pres_seq {x : M Unit} {y : M β} (hx : Pres P x) (hy : Pres P y) : Pres P (x >>= fun _ => y) :=
  pres_bind hx (fun _ => hy)

theorem pres_attempt {x : M α} (hx : Pres P x) : Pres P (attempt x) := by
  intro s hs
  have h1 := hx s hs
  unfold attempt
  cases hxs : x s with
  | mk r s' =>
    rw [hxs] at h1
    cases r <;> exact h1

theorem pres_attemptLoad {x : M α} (prop : Bool) (hx : Pres P x) : Pres P (attemptLoad prop x) := by
  intro s hs
  have h1 := hx s hs
  unfold attemptLoad
  cases hxs : x s with
  | mk r s' =>
    rw [hxs] at h1
    cases r with
    | ok a => exact h1
    | error e => dsimp only; split <;> exact h1

theorem pres_forEach {l : List α} {f : α → M Unit} (h : ∀ a, Pres P (f a)) : Pres P (forEach l f) := by
  induction l with
  | nil => exact pres_pure ()
  | cons a r ih => exact pres_bind (h a) (fun _ => ih)

theorem pres_foldlS {l : List α} {f : β → α → M β} (h : ∀ b a, Pres P (f b a)) : ∀ b, Pres P (foldlS l b f) := by
  induction l with
  | nil => intro b; exact pres_pure b
  | cons a r ih => intro b; exact pres_bind (h b a) (fun b' => ih b')

theorem pres_anyS {l : List α} {f : α → M Bool} (h : ∀ a, Pres P (f a)) : Pres P (anyS l f) := by
  induction l with
  | nil => exact pres_pure false
  | cons a r ih =>
    refine pres_bind (h a) (fun x => ?_)
    cases x
    · exact ih
    · exact pres_pure true

theorem pres_ite {c : Prop} [Decidable c] {x y : M α} (hx : Pres P x) (hy : Pres P y) : Pres P (if c then x else y) := by
  split <;> assumption

/-- the first action at a known state, the rest generically -/
theorem presAt_bind {x : M α} {f : α → M β} {s : Ctx} (h1 : PresAt P x s) (hf : ∀ a, Pres P (f a)) : PresAt P (x >>= f) s := by
  intro hs
  have h1 := h1 hs
  rw [bind_run]
  cases hxs : x s with
  | mk r s' =>
    rw [hxs] at h1
    cases r with
    | ok a => exact hf a s' h1
    | error e => exact h1

theorem presAt_modS {f : Ctx → Ctx} {s : Ctx} (h : P s → P (f s)) : PresAt P (modS f) s := h

/-- a step that establishes a (different) invariant `Q` which the rest keeps -/
theorem modS_bind_establish {Q : Ctx → Prop} {g : Ctx → Ctx} {f : Unit → M β} {s : Ctx} (h1 : Q (g s)) (hf : Pres Q (f ())) :
    Q ((modS g >>= f) s).2 := hf (g s) h1

theorem pres_and {Q : Ctx → Prop} {x : M α} (h1 : Pres P x) (h2 : Pres Q x) : Pres (fun s => P s ∧ Q s) x :=
  fun s hs => ⟨h1 s hs.1, h2 s hs.2⟩

end LyModel.Ctx
