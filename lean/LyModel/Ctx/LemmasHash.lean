import LyModel.Ctx.Model
import LyModel.Ctx.JenkinsLemmas
/-!
`ly_ctx_get_modules_hash` on the model: what the hashed byte string consists of, and that flipping `implemented` of
any module changes the 32-bit value.
-/
namespace LyModel.Ctx

variable (rs : Bool)

/-- the index the feature iterator starts a module with -/
def fiIn (rs : Bool) (fi : Nat) : Nat := if rs then 0 else fi

/-- the feature-iterator index after the modules of `l` -/
def fiAfter (rs : Bool) : List Mod → Nat → Nat
  | [], fi => fi
  | m :: r, fi => fiAfter rs r (hashFeats m (fiIn rs fi)).2

/-- the parts one module contributes when the iterator index arrives with value `fi`, without the `implemented` byte -/
def modPartsHead (rs : Bool) (m : Mod) (fi : Nat) : List Bytes :=
  [m.src.name] ++ (if m.src.rev.isEmpty then [] else [m.src.rev]) ++ ((hashFeats m (fiIn rs fi)).1.filter (·.on)).map (·.name)

def implByte (m : Mod) : UInt8 := if m.implemented then 1 else 0

theorem hashParts_cons (m : Mod) (r : List Mod) (fi : Nat) :
    hashPartsG rs (m :: r) fi = modPartsHead rs m fi ++ [[implByte m]] ++ hashPartsG rs r (hashFeats m (fiIn rs fi)).2 := by
  simp [hashPartsG, modPartsHead, implByte, fiIn]

theorem hashParts_append (l1 l2 : List Mod) : ∀ fi, hashPartsG rs (l1 ++ l2) fi = hashPartsG rs l1 fi ++ hashPartsG rs l2 (fiAfter rs l1 fi) := by
  induction l1 with
  | nil => intro fi; simp [hashPartsG, fiAfter]
  | cons m r ih =>
    intro fi
    rw [List.cons_append, hashParts_cons, hashParts_cons, ih, fiAfter]
    simp [List.append_assoc]

theorem multi_eq_absorbAll {p : Bytes} (hp : p ≠ []) (h : Jenkins.H) : Jenkins.multi h p = Jenkins.absorbAll h p := by
  unfold Jenkins.multi Jenkins.absorbAll
  have : p.isEmpty = false := by cases p <;> simp_all
  simp [this]

theorem foldl_multi_eq (parts : List Bytes) (hne : ∀ p ∈ parts, p ≠ []) : ∀ h : Jenkins.H,
    parts.foldl Jenkins.multi h = Jenkins.absorbAll h parts.flatten := by
  induction parts with
  | nil => intro h; rfl
  | cons p r ih =>
    intro h
    simp only [List.foldl_cons, List.flatten_cons]
    rw [ih (fun q hq => hne q (List.mem_cons_of_mem _ hq)), multi_eq_absorbAll (hne p (List.mem_cons_self ..)),
      Jenkins.absorbAll_append]

/-- module and feature names are not empty -/
def WfNames (l : List Mod) : Prop := ∀ m ∈ l, m.src.name ≠ [] ∧ ∀ f ∈ m.allFeats, f.name ≠ []

theorem hashFeats_sub (m : Mod) (fi : Nat) : ∀ f ∈ (hashFeats m fi).1, f ∈ m.allFeats := by
  intro f hf
  unfold hashFeats at hf
  dsimp only at hf
  split at hf
  · exact hf
  · simp only [Mod.allFeats, List.mem_append]
    right
    simp only [List.mem_flatten] at hf ⊢
    obtain ⟨l, hl, hfl⟩ := hf
    exact ⟨l, List.mem_of_mem_drop hl, hfl⟩

theorem hashParts_nonempty (l : List Mod) (hw : WfNames l) : ∀ fi, ∀ p ∈ hashPartsG rs l fi, p ≠ [] := by
  induction l with
  | nil => intro fi p hp; simp [hashPartsG] at hp
  | cons m r ih =>
    intro fi p hp
    rw [hashParts_cons] at hp
    have hm := hw m (List.mem_cons_self ..)
    simp only [List.mem_append, List.mem_singleton] at hp
    rcases hp with (hp | hp) | hp
    · unfold modPartsHead at hp
      simp only [List.mem_append, List.mem_singleton, List.mem_map, List.mem_filter] at hp
      rcases hp with (hp | hp) | hp
      · rw [hp]; exact hm.1
      · split at hp
        · cases hp
        · next hr => simp only [List.mem_singleton] at hp; rw [hp]; intro h; simp [h] at hr
      · obtain ⟨f, ⟨hf, _⟩, rfl⟩ := hp
        exact hm.2 f (hashFeats_sub m _ f hf)
    · rw [hp]; simp
    · exact ih (fun m' hm' => hw m' (List.mem_cons_of_mem _ hm')) _ p hp

/-- the hash of a module list -/
def hashOfList (rs : Bool) (l : List Mod) : BitVec 32 := Jenkins.multi ((hashPartsG rs l 0).foldl Jenkins.multi 0) []

theorem modulesHashG_eq_list (sk : Bool) (s : Ctx) : s.modulesHashG rs sk = hashOfList rs (hashedMods sk s) := rfl

theorem hashOfList_eq (l : List Mod) (hw : WfNames l) :
    hashOfList rs l = Jenkins.finish (Jenkins.absorbAll 0 (hashPartsG rs l 0).flatten) := by
  unfold hashOfList
  rw [foldl_multi_eq _ (hashParts_nonempty rs _ hw 0)]
  rfl

/-- the names in `internal_modules[]` are not empty (whatever the table holds when `Generated/CtxFacts.lean` is written) -/
theorem wfNames_internal : WfNames internalHashMods := by
  intro m hm
  have h : internalHashMods.all (fun m => !m.src.name.isEmpty && m.allFeats.isEmpty) = true := by decide +kernel
  rw [List.all_eq_true] at h
  have h1 := h m hm
  simp only [Bool.and_eq_true, Bool.not_eq_true', List.isEmpty_iff] at h1
  refine ⟨fun h0 => by simp [h0] at h1, fun f hf => ?_⟩
  rw [h1.2] at hf; cases hf

theorem wfNames_hashed {sk : Bool} {s : Ctx} (hw : WfNames s.mods) : WfNames (hashedMods sk s) := by
  intro m hm
  unfold hashedMods at hm
  rcases List.mem_append.mp hm with h | h
  · split at h
    · cases h
    · exact wfNames_internal m h
  · exact hw m h

/-- flipping `implemented` of one module -/
def flipImpl (m : Mod) : Mod := { m with implemented := !m.implemented }

theorem fiAfter_flip (m : Mod) (fi : Nat) : (hashFeats (flipImpl m) fi) = hashFeats m fi := rfl

theorem wfNames_flip {pre suf : List Mod} {m : Mod} (h : WfNames (pre ++ m :: suf)) : WfNames (pre ++ flipImpl m :: suf) := by
  intro x hx
  simp only [List.mem_append, List.mem_cons] at hx
  rcases hx with hx | rfl | hx
  · exact h x (by simp [hx])
  · exact h m (by simp)
  · exact h x (by simp [hx])

theorem hashOfList_flip (pre suf : List Mod) (m : Mod) (hw : WfNames (pre ++ m :: suf)) :
    hashOfList rs (pre ++ m :: suf) ≠ hashOfList rs (pre ++ flipImpl m :: suf) := by
  rw [hashOfList_eq rs _ hw, hashOfList_eq rs _ (wfNames_flip hw)]
  rw [hashParts_append, hashParts_append, hashParts_cons, hashParts_cons]
  have h1 : modPartsHead rs (flipImpl m) (fiAfter rs pre 0) = modPartsHead rs m (fiAfter rs pre 0) := rfl
  rw [h1, fiAfter_flip]
  simp only [List.flatten_append, List.flatten_cons, List.flatten_nil, List.append_nil, List.append_assoc,
    List.singleton_append]
  rw [← List.append_assoc (hashPartsG rs pre 0).flatten, ← List.append_assoc (hashPartsG rs pre 0).flatten]
  apply Jenkins.one_byte_change
  unfold implByte flipImpl
  cases m.implemented <;> simp

/-- **the 32-bit value changes when `implemented` of any one module is flipped** (everything else equal), whether or not
    the internal modules are hashed in front of the others (`sk`) -/
theorem hash_flip_implemented (sk : Bool) (s s' : Ctx) (pre suf : List Mod) (m : Mod) (hs : s.mods = pre ++ m :: suf)
    (hs' : s'.mods = pre ++ flipImpl m :: suf) (hw : WfNames s.mods) : s.modulesHashG rs sk ≠ s'.modulesHashG rs sk := by
  rw [modulesHashG_eq_list, modulesHashG_eq_list]
  have e1 : hashedMods sk s = ((if sk then [] else internalHashMods) ++ pre) ++ m :: suf := by
    unfold hashedMods; rw [hs, List.append_assoc]
  have e2 : hashedMods sk s' = ((if sk then [] else internalHashMods) ++ pre) ++ flipImpl m :: suf := by
    unfold hashedMods; rw [hs', List.append_assoc]
  rw [e2]
  have hw2 := wfNames_hashed (sk := sk) hw
  rw [e1] at hw2 ⊢
  exact hashOfList_flip rs _ _ _ hw2

end LyModel.Ctx
