import LyModel.Ctx.Model
/-!
yang-library data of a context and a context built from it (`context.c`: `ly_ctx_get_yanglib_data`, `ylib_feature`,
`ly_ctx_new_yldata`), on the `Ctx` model.

`ly_ctx_new_yldata` reads `/ietf-yang-library:yang-library/module-set[1]/module` only — name, revision, enabled features
of the IMPLEMENTED modules, in context order — and calls `ly_ctx_load_module(name, revision, features)` for each in an
explicit-compile context, then `ly_ctx_compile`.  Import-only modules come back through the imports (F12).
-/
namespace LyModel.Ctx

structure YlEntry where
  name : Bytes
  rev : Bytes               -- [] = no `revision` leaf
  feats : List Bytes        -- `feature` leaf-list: enabled features of the module and its submodules
deriving DecidableEq, Repr, Inhabited

structure YlData where
  modules : List YlEntry                 -- module-set/module
  importOnly : List (Bytes × Bytes)      -- module-set/import-only-module (not read back)
deriving DecidableEq, Repr, Inhabited

/-- `ly_ctx_get_yanglib_data` (the internal modules are left out on both sides) -/
def ylGen (s : Ctx) : YlData :=
  { modules := (s.mods.filter (·.implemented)).map fun m => { name := m.src.name, rev := m.src.rev, feats := m.enabledNames },
    importOnly := (s.mods.filter (fun m => !m.implemented)).map (·.key) }

def ylLoadLoop : List YlEntry → Ctx → Except Nat Ctx
  | [], s => .ok s
  | e :: r, s =>
    match run s (.load e.name (if e.rev.isEmpty then none else some e.rev) (some e.feats)) with
    | (.ok _, s') => ylLoadLoop r s'
    | (.error _, _) => .error EINVAL       -- "Unable to load module … specified by yang library data."

/-- `ly_ctx_new_yldata` into a fresh context served by `repo` -/
def ylLoad (repo : List ModSrc) (yl : YlData) (cfg : Cfg := {}) (cfg2 : Cfg2 := {}) : Except Nat Ctx :=
  match ylLoadLoop yl.modules { cfg := cfg, cfg2 := cfg2, repo := repo, explicit := true } with
  | .error e => .error e
  | .ok s =>
    match run s .compile with
    | (.ok _, s') => .ok { s' with explicit := false }
    | (.error e, _) => .error e

/-! ## the complete `yang-library` container (`ly_ctx_get_yanglib_data`, revision 2019-01-04 part)

`module-set/module` (implemented modules: name, revision, `submodule` list by `ylib_submodules`, `feature` leaf-list by
`ylib_feature`, `deviation` leaf-list by `ylib_deviation` — the names in `deviated_by`, in array order),
`module-set/import-only-module` (name, revision, submodules; `ylib_feature` / `ylib_deviation` return at once for a module
that is not implemented) and `content-id`.  Lists in context order.  `ly_ctx_new_yldata` reads back name, revision and
features of `module` only (`YlFull.core`). -/

structure YlMod where
  name : Bytes
  rev : Bytes
  subs : List Bytes          -- submodule names
  feats : List Bytes
  devs : List Bytes          -- `deviation`: names of the modules in `deviated_by`
deriving DecidableEq, Repr, Inhabited

structure YlImp where
  name : Bytes
  rev : Bytes
  subs : List Bytes
deriving DecidableEq, Repr, Inhabited

structure YlFull where
  modules : List YlMod
  importOnly : List YlImp
  contentId : Nat            -- the caller's `content_id_format` argument; context.h recommends the change counter
deriving DecidableEq, Repr, Inhabited

def ylMod (m : Mod) : YlMod :=
  { name := m.src.name, rev := m.src.rev, subs := m.src.subNames, feats := m.enabledNames, devs := m.devBy.map (·.1) }

def ylImp (m : Mod) : YlImp := { name := m.src.name, rev := m.src.rev, subs := m.src.subNames }

/-- `ly_ctx_get_yanglib_data(ctx, &root, "%u", ly_ctx_get_change_count(ctx))` -/
def ylExport (s : Ctx) : YlFull :=
  { modules := (s.mods.filter (·.implemented)).map ylMod,
    importOnly := (s.mods.filter (fun m => !m.implemented)).map ylImp,
    contentId := s.changeCount.toNat }

/-- what `ly_ctx_new_yldata` reads -/
def YlFull.core (y : YlFull) : YlData :=
  { modules := y.modules.map fun e => { name := e.name, rev := e.rev, feats := e.feats },
    importOnly := y.importOnly.map fun e => (e.name, e.rev) }

theorem ylExport_core (s : Ctx) : (ylExport s).core = ylGen s := by
  simp [ylExport, YlFull.core, ylGen, ylMod, ylImp, List.map_map, Function.comp_def, Mod.key]

/-- the implemented modules with revision and enabled features, as a yang-library client sees the schema -/
def implView (s : Ctx) : List (Bytes × Bytes × List Bytes) :=
  (s.mods.filter (·.implemented)).map fun m => (m.src.name, m.src.rev, m.enabledNames)

end LyModel.Ctx
