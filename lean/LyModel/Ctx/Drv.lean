import LyModel.Ctx.Model
import LyModel.Ctx.Yl
/-! driver ops of component `ctx` (same script format as `harness/api_ctx.c`, see there) -/
namespace LyModel.Ctx.Drv
open LyModel LyModel.Ctx

def bs (s : String) : Bytes := s.toUTF8.toList
def str (b : Bytes) : String := stringOfBytes b
def dash (s : String) : Bytes := if s == "-" then [] else bs s

def parseFeatArg (t : String) : FeatArg :=
  if t == "~" then none
  else if t == "-" then some []
  else some ((t.splitOn ",").map bs)

/-- `<tag><n>` then n groups of `w` tokens -/
def takeGroups (tag : Char) (w : Nat) (ts : List String) : Option (List (List String) × List String) :=
  match ts with
  | [] => none
  | h :: r =>
    if h.front != tag then none else
    match (h.drop 1).toNat? with
    | none => none
    | some n =>
      let rec go : Nat → List String → List (List String) → Option (List (List String) × List String)
        | 0, r, acc => some (acc.reverse, r)
        | k + 1, r, acc => if r.length < w then none else go k (r.drop w) (r.take w :: acc)
      go n r []

def featSrcs (g : List (List String)) : List FeatSrc :=
  g.map fun x => { name := bs (x.getD 0 ""), iff := if x.getD 1 "-" == "-" then none else some (bs (x.getD 1 "")) }

def parseSubs : Nat → List String → List (List FeatSrc) → Option (List (List FeatSrc) × List String)
  | 0, r, acc => some (acc.reverse, r)
  | k + 1, r, acc =>
    match takeGroups 'N' 2 r with
    | none => none
    | some (g, r') => parseSubs k r' (featSrcs g :: acc)

/-- `M name rev text ns hasData hasGrp F.. U.. I.. A.. V.. R.. G..` -/
def parseModSrc (ts : List String) : Option ModSrc :=
  match ts with
  | name :: rev :: _text :: ns :: hd :: hg :: r0 => do
    let (fg, r1) ← takeGroups 'F' 2 r0
    let (nsub, r2) ← match r1 with
      | h :: r => if h.front == 'U' then (h.drop 1).toNat?.map (fun n => (n, r)) else none
      | [] => none
    let (subs, r3) ← parseSubs nsub r2 []
    let (ig, r4) ← takeGroups 'I' 2 r3
    let (ag, r5) ← takeGroups 'A' 1 r4
    let (vg, r6) ← takeGroups 'V' 1 r5
    let (rg, r7) ← takeGroups 'R' 1 r6
    let (gg, r8) ← takeGroups 'G' 1 r7
    let (bg, r9) ← takeGroups 'B' 1 r8
    let (xg, r10) ← takeGroups 'X' 2 r9
    let (yg, r11) ← takeGroups 'Y' 2 r10
    -- optional trailing groups: submodule names, top-level nodes, (module, node) per augment / deviation statement
    let opt := fun (tag : Char) (w : Nat) (ts : List String) => (takeGroups tag w ts).getD ([], ts)
    let (sg, r12) := opt 'S' 1 r11
    let (tg, r13) := opt 'T' 1 r12
    let (qg, r14) := opt 'Q' 2 r13
    let (dg, r15) := opt 'D' 2 r14
    -- `K1 <rev>`: the revision the text declares, when the source is served under another one (the `rev` token)
    let (kg, _) := opt 'K' 1 r15
    let declared : Option Bytes := (kg.head?).map fun x => dash (x.getD 0 "-")
    let faults : List (Stage × Nat) := xg.filterMap fun x =>
      let stage : Option Stage := match x.getD 0 "" with
        | "syntax" => some .syntax | "late" => some .late | "impl" => some .impl
        | "compile" => some .compile | "unres" => some .unres | _ => none
      match stage, (x.getD 1 "").toNat? with
      | some sg, some n => some (sg, n)
      | _, _ => none
    pure { name := bs name, rev := declared.getD (dash rev), regRev := declared.map (fun _ => dash rev), ns := bs ns, hasData := hd == "1", hasGrp := hg == "1",
           feats := featSrcs fg, subs := subs,
           imports := ig.map (fun x => (bs (x.getD 0 ""), dash (x.getD 1 "-"))),
           augments := ag.map (fun x => bs (x.getD 0 "")), deviations := vg.map (fun x => bs (x.getD 0 "")),
           lrefs := rg.map (fun x => bs (x.getD 0 "")), usesGrp := gg.map (fun x => bs (x.getD 0 "")),
           idBase := bg.map (fun x => bs (x.getD 0 "")), faults := faults,
           badAmend := yg.filterMap fun x => (x.getD 1 "").toNat?.map fun n => (bs (x.getD 0 ""), n),
           subNames := sg.map (fun x => bs (x.getD 0 "")), nodes := tg.map (fun x => bs (x.getD 0 "")),
           augTargets := qg.map (fun x => (bs (x.getD 0 ""), bs (x.getD 1 ""))),
           devTargets := dg.map (fun x => (bs (x.getD 0 ""), bs (x.getD 1 ""))) }
  | _ => none

def hexDigit (n : Nat) : Char := Hex.digit n
def hex32 (v : BitVec 32) : String :=
  String.ofList ((List.range 8).map fun i => hexDigit ((v.toNat >>> (4 * (7 - i))) % 16))

structure St where
  ctx : Ctx := {}
  classes : List (MKey × List (Desc × List Bytes)) := []
  data : List (Bytes × Nat × Bool) := []
  out : List String := []

/-- modules of the context with an identity derived from an identity of `k` (the print of `k` lists them) -/
def derivedOf (c : Ctx) (k : MKey) : List Bytes :=
  (c.mods.filter fun m => m.src.idBase.any fun n => m.impKey n == some k).map (·.src.name)

/-- a value that identifies the content of a compiled print across requests (the harness sends a hash of the text) -/
def descHash (d : Desc × List Bytes) : BitVec 32 :=
  let sep (l : List Bytes) : Bytes := l.foldl (fun acc x => acc ++ x ++ [31]) []
  Jenkins.hash (sep d.1.feats ++ [30] ++ sep d.1.augBy ++ [30] ++ sep d.1.devBy ++ [30]
    ++ (d.1.grp.foldl (fun acc g => acc ++ g.1 ++ [29] ++ sep g.2 ++ [28]) []) ++ [30] ++ sep d.2)

def classOf (st : St) (k : MKey) (d : Desc × List Bytes) : St × Nat :=
  match st.classes.find? (fun e => e.1 == k) with
  | some (_, ds) =>
    let i := ds.findIdx (· == d)
    if i < ds.length then (st, i)
    else ({ st with classes := st.classes.map fun e => if e.1 == k then (e.1, e.2 ++ [d]) else e }, ds.length)
  | none => ({ st with classes := st.classes ++ [(k, [d])] }, 0)

def featStr (m : Mod) : String :=
  ",".intercalate (m.allFeats.map fun f => str f.name ++ (if f.on then "+" else "-"))

def dashIfEmpty (s : String) : String := if s.isEmpty then "-" else s
def keyStr (k : MKey) : String := str k.1 ++ "@" ++ (if k.2.isEmpty then "-" else str k.2)
def namesStr (l : List Bytes) : String := ",".intercalate (l.map str)

/-- `:A<augmented_by>:V<deviated_by>:N<compiled top-level nodes>`: the arrays of `struct lys_module` in array order, and of an
    implemented, compiled module every top-level data node with the modules that augmented / deviated it -/
def amendStr (m : Mod) : String :=
  "A" ++ dashIfEmpty (",".intercalate (m.augBy.map keyStr)) ++ ":V" ++ dashIfEmpty (",".intercalate (m.devBy.map keyStr)) ++ ":N" ++
    (match m.implemented, m.compiled with
     | true, some (_, d) => dashIfEmpty ("+".intercalate (d.nodes.map fun n => str n.1 ++ "(" ++ namesStr n.2.1 ++ "/" ++ namesStr n.2.2 ++ ")"))
     | _, _ => "-")

/-- the token `X…` of `ylhistory`: the yang-library data of the context (`module`, `import-only-module`, `content-id`) -/
def ylStr (y : YlFull) : String :=
  "Xm=" ++ ";".intercalate (y.modules.map fun e => keyStr (e.name, e.rev) ++ "[" ++ namesStr e.feats ++ "]{" ++ namesStr e.subs ++ "}<"
    ++ namesStr e.devs ++ ">") ++ "|i=" ++ ";".intercalate (y.importOnly.map fun e => keyStr (e.name, e.rev) ++ "{" ++ namesStr e.subs ++ "}")
    ++ "|id=" ++ toString y.contentId

def snapshot (st : St) (rc : Nat) : St :=
  let (st1, parts) := st.ctx.mods.foldl (fun (acc : St × List String) m =>
    let (s0, ps) := acc
    let (s1, c) : St × String := match m.implemented, m.compiled with
      | true, some (_, d) =>
        let dd := (d, derivedOf st.ctx m.key)
        let (s1, i) := classOf s0 m.key dd
        (s1, "c" ++ toString i ++ "." ++ hex32 (descHash dd))
      | _, _ => (s0, "c-")
    (s1, ps ++ [str m.src.name ++ "@" ++ (if m.src.rev.isEmpty then "-" else str m.src.rev) ++ ":I" ++ (if m.implemented then "1" else "0")
      ++ ":L" ++ String.singleton (hexDigit m.latest.toNat) ++ ":" ++ featStr m ++ ":" ++ c ++ ":" ++ amendStr m])) (st, [])
  let (data', dstr) := st1.data.foldl (fun (acc : List (Bytes × Nat × Bool) × String) d =>
    let (l, s) := acc
    let (name, id, live) := d
    if !live then (l ++ [d], s ++ "-") else
    let cur := match st1.ctx.getImplemented name with
      | some m => m.compiled.map (·.1)
      | none => none
    if cur == some id then (l ++ [d], s ++ "u") else (l ++ [(name, id, false)], s ++ "s")) ([], "")
  let tok := toString rc ++ "|" ++ ";".intercalate parts ++ "|h=" ++ hex32 st1.ctx.modulesHash ++ "|cc=" ++ toString st1.ctx.changeCount.toNat
    ++ "|d=" ++ dstr ++ "|x=" ++ toString (st1.ctx.mods.filter (·.broken)).length
  { st1 with data := data', out := st1.out ++ [tok] }

def rcOf (r : Except Nat Unit) : Nat := match r with | .ok _ => 0 | .error e => e

def step (st : St) (ts : List String) : Option St :=
  match ts with
  | "P" :: name :: rev :: f :: _ => do
    let src ← st.ctx.repo.find? (fun m => m.name == bs name && m.repoRev == dash rev)
    let (r, c) := run st.ctx (.parse src (parseFeatArg f))
    pure (snapshot { st with ctx := c } (rcOf r))
  | "L" :: name :: rev :: f :: _ =>
    let (r, c) := run st.ctx (.load (bs name) (if rev == "-" then none else some (bs rev)) (parseFeatArg f))
    pure (snapshot { st with ctx := c } (if rcOf r == 0 then 0 else 1))
  | "I" :: name :: rev :: f :: _ =>
    if (st.ctx.find (bs name, dash rev)).isNone then pure (snapshot st 99)      -- no such module: nothing is called
    else
      let (r, c) := run st.ctx (.setImpl (bs name, dash rev) (parseFeatArg f))
      pure (snapshot { st with ctx := c } (rcOf r))
  | "C" :: _ =>
    let (r, c) := run st.ctx .compile
    pure (snapshot { st with ctx := c } (rcOf r))
  | "O" :: pm :: bits :: _ => do
    let n ← bits.toNat?
    let ex := n &&& 128 != 0
    let pp := n &&& 64 != 0
    let (r, c) := run st.ctx (if pm == "+" then .setOpt ex pp else .unsetOpt ex pp)
    pure (snapshot { st with ctx := c } (rcOf r))
  | "D" :: name :: _ =>
    match st.ctx.getImplemented (bs name) with
    | some m =>
      match m.compiled with
      | some (id, _) =>
        if m.src.hasData then pure { st with data := st.data ++ [(bs name, id, true)], out := st.out ++ ["D0"] }
        else pure { st with data := st.data ++ [(bs name, 0, false)], out := st.out ++ ["D1"] }
      | none => pure { st with data := st.data ++ [(bs name, 0, false)], out := st.out ++ ["D1"] }
    | none => pure { st with data := st.data ++ [(bs name, 0, false)], out := st.out ++ ["D1"] }
  | _ => none

def history (spec : String) : String :=
  let lines := (spec.splitOn "\n").filter (· ≠ "")
  let res := lines.foldl (fun (acc : Option St) l =>
    match acc with
    | none => none
    | some st =>
      let ts := (l.splitOn " ").filter (· ≠ "")
      match ts with
      | "F" :: n :: _ => some { st with ctx := { st.ctx with explicit := ((n.toNat?.getD 0) &&& 128) != 0 } }
      | "T" :: _ => some st
      | "M" :: rest =>
        match parseModSrc rest with
        | some src =>
          -- a later source of the same name and revision replaces the earlier one (the file was edited)
          some { st with ctx := { st.ctx with repo := (st.ctx.repo.filter fun m => !(m.name == src.name && m.repoRev == src.repoRev)) ++ [src] } }
        | none => none
      | "S" :: _ => some st
      | _ => step st ts) (some { ctx := { cfg := Cfg.code, cfg2 := Cfg2.code } })
  match res with
  | some st => "ok" ++ String.join (st.out.map (" " ++ ·))
  | none => "err BadSpec"

/-- the history, then the context rebuilt from its yang-library data (`ly_ctx_new_yldata` into a fresh context with the
    same module sources): one more token `Y<rc>|…` -/
def ylhistory (spec : String) : String :=
  let lines := (spec.splitOn "\n").filter (· ≠ "")
  let res := lines.foldl (fun (acc : Option St) l =>
    match acc with
    | none => none
    | some st =>
      let ts := (l.splitOn " ").filter (· ≠ "")
      match ts with
      | "F" :: n :: _ => some { st with ctx := { st.ctx with explicit := ((n.toNat?.getD 0) &&& 128) != 0 } }
      | "T" :: _ => some st
      | "W" :: _ => some st
      | "M" :: rest =>
        match parseModSrc rest with
        | some src =>
          some { st with ctx := { st.ctx with repo := (st.ctx.repo.filter fun m => !(m.name == src.name && m.repoRev == src.repoRev)) ++ [src] } }
        | none => none
      | "S" :: _ => some st
      | _ => step st ts) (some { ctx := { cfg := Cfg.code, cfg2 := Cfg2.code } })
  match res with
  | none => "err BadSpec"
  | some st =>
    let tail : String := match ylLoad st.ctx.repo (ylGen st.ctx) st.ctx.cfg st.ctx.cfg2 with
      | .error _ => "Y1"
      | .ok c2 =>
        let st2 := snapshot { st with ctx := c2, data := [], out := [] } 0
        "Y" ++ ((st2.out.getD 0 "").drop 1)
    "ok" ++ String.join (st.out.map (" " ++ ·)) ++ " " ++ ylStr (ylExport st.ctx) ++ " " ++ tail

def handle (op : String) (args : List String) : String :=
  match op, args with
  | "history", [h] =>
    match Hex.dec h with
    | some b => history (str b)
    | none => "err BadHex"
  | "ylhistory", [h] =>
    match Hex.dec h with
    | some b => ylhistory (str b)
    | none => "err BadHex"
  | "jenkins", [h] =>
    match Hex.dec h with
    | some b => "ok " ++ hex32 (Jenkins.hash b)
    | none => "err BadHex"
  | _, _ => "err BadOp"

end LyModel.Ctx.Drv
