import LyModel.Ctx.LemmasPres
/-!
The change counter: its value is the old value plus the number of increments performed (mod 2^16), and every module
that enters the context is counted.
-/
namespace LyModel.Ctx

/-- relative to a starting point with counter `c`, `t` ticks and `n` modules -/
structure CC (c : BitVec 16) (t n : Nat) (s : Ctx) : Prop where
  value : s.changeCount = c + BitVec.ofNat 16 (s.ticks - t)
  mono : t ≤ s.ticks
  added : s.mods.length + t ≤ n + s.ticks

variable {c : BitVec 16} {t n : Nat}

theorem CC.same {s s' : Ctx} (h : CC c t n s) (hl : s'.mods.length = s.mods.length) (hc : s'.changeCount = s.changeCount)
    (ht : s'.ticks = s.ticks) : CC c t n s' :=
  ⟨by rw [hc, ht]; exact h.value, by rw [ht]; exact h.mono, by rw [hl, ht]; exact h.added⟩

/-- `k` increments, at most `k` more modules -/
theorem CC.step {s s' : Ctx} (h : CC c t n s) (k : Nat) (hc : s'.changeCount = s.changeCount + BitVec.ofNat 16 k)
    (ht : s'.ticks = s.ticks + k) (hl : s'.mods.length ≤ s.mods.length + k) : CC c t n s' := by
  refine ⟨?_, ?_, ?_⟩
  · rw [hc, ht, h.value, BitVec.add_assoc]
    congr 1
    have : s.ticks + k - t = (s.ticks - t) + k := by have := h.mono; omega
    rw [this, BitVec.ofNat_add]
  · rw [ht]; have := h.mono; omega
  · rw [ht]; have := h.added; omega

theorem CC.tick {s : Ctx} (k : Nat) (h : CC c t n s) : CC c t n (tick k s) :=
  h.step k rfl rfl (Nat.le_add_right _ _)

theorem upd_length (s : Ctx) (k : MKey) (f : Mod → Mod) : (s.upd k f).mods.length = s.mods.length := by
  simp [Ctx.upd]

theorem CC.upd {s : Ctx} (h : CC c t n s) (k : MKey) (f : Mod → Mod) : CC c t n (s.upd k f) :=
  h.same (upd_length s k f) rfl rfl

theorem presCC_updM (k : MKey) (f : Mod → Mod) : Pres (CC c t n) (updM k f) := pres_modS fun _ h => h.upd k f

theorem CC.createMod {s : Ctx} (h : CC c t n s) (src : ModSrc) (l : Latest) : CC c t n (createMod src l s) := by
  refine h.step 1 rfl rfl ?_
  simp [LyModel.Ctx.createMod, LyModel.Ctx.tick]

theorem CC.enterMod {s : Ctx} (h : CC c t n s) (src : ModSrc) (old : Option MKey) (l : Latest) :
    CC c t n (enterMod src old l s) := by
  unfold LyModel.Ctx.enterMod
  cases old with
  | none => exact h.createMod src l
  | some ok => exact (h.upd ok _).createMod src l

theorem CC.installCompiled {s : Ctx} (h : CC c t n s) (k : MKey) : CC c t n (installCompiled k s) := by
  unfold LyModel.Ctx.installCompiled
  split
  · exact h
  · exact (h.upd k _).same rfl rfl rfl

theorem markDepSet_fields (s : Ctx) (ds : List MKey) : (markDepSet s ds).mods.length = s.mods.length ∧
    (markDepSet s ds).changeCount = s.changeCount ∧ (markDepSet s ds).ticks = s.ticks := by
  unfold markDepSet; split <;> simp

theorem foldMarkDepSet_fields (dss : List (List MKey)) : ∀ s : Ctx, (dss.foldl markDepSet s).mods.length = s.mods.length ∧
    (dss.foldl markDepSet s).changeCount = s.changeCount ∧ (dss.foldl markDepSet s).ticks = s.ticks := by
  induction dss with
  | nil => intro s; exact ⟨rfl, rfl, rfl⟩
  | cons d r ih =>
    intro s
    obtain ⟨a1, a2, a3⟩ := ih (markDepSet s d)
    obtain ⟨b1, b2, b3⟩ := markDepSet_fields s d
    exact ⟨a1.trans b1, a2.trans b2, a3.trans b3⟩

theorem presCC_depSetsM (mod : Option MKey) : Pres (CC c t n) (depSetsM mod) := by
  unfold depSetsM
  apply pres_modS
  intro s h
  obtain ⟨a1, a2, a3⟩ := foldMarkDepSet_fields (depSetsCreate s mod) s
  exact h.same a1 a2 a3

/-- state-independent version of `pres_getBind` -/
theorem pres_getBind' {β : Type} {P : Ctx → Prop} {f : Ctx → M β} (h : ∀ a, Pres P (f a)) : Pres P (getS >>= f) :=
  pres_getBind fun s => (h s).at s

theorem presCC_compileChecked (k : MKey) : Pres (CC c t n) (compileChecked k) := by
  unfold compileChecked
  refine pres_getBind' fun s => ?_
  split
  · exact pres_pure _
  · split
    · exact pres_bind (pres_modS fun _ h => h.tick 1) (fun _ => pres_failS _)
    · exact pres_modS fun _ h => (h.tick 1).installCompiled k

theorem presCC_hasCompiledImportR : ∀ fuel k, Pres (CC c t n) (hasCompiledImportR fuel k) := by
  intro fuel
  induction fuel with
  | zero => intro k; exact pres_pure false
  | succ m ih =>
    intro k
    unfold hasCompiledImportR
    refine pres_getBind' fun s => ?_
    split
    · exact pres_pure _
    · refine pres_anyS fun x => pres_getBind' fun s1 => ?_
      split
      · exact pres_pure _
      · split
        · exact pres_pure _
        · split
          · exact pres_bind (presCC_updM _ _) (fun _ => pres_pure _)
          · exact ih x

theorem presCC_markTarget (k : MKey) (isAug : Bool) (acc : List MKey) (x : Bytes) : Pres (CC c t n) (markTarget k isAug acc x) := by
  unfold markTarget
  refine pres_getBind' fun s => ?_
  split
  · exact pres_pure _
  · split
    · exact pres_pure _
    · split
      · exact pres_pure _
      · exact pres_bind (presCC_updM _ _) (fun _ => pres_pure _)

theorem presCC_foldTargets (k : MKey) (isAug : Bool) : ∀ (l : List Bytes) (acc : List MKey),
    Pres (CC c t n) (foldTargets k isAug l acc) := by
  intro l
  induction l with
  | nil => intro acc; exact pres_pure acc
  | cons x r ih => intro acc; unfold foldTargets; exact pres_bind (presCC_markTarget k isAug acc x) (fun a => ih a)

theorem CC.markImpl {s : Ctx} (h : CC c t n s) (k : MKey) : CC c t n (markImpl k s) :=
  CC.tick _ ((h.upd k _).same rfl rfl rfl)

theorem presCC_implementCore : ∀ fuel k, Pres (CC c t n) (implementCore fuel k) := by
  intro fuel
  induction fuel with
  | zero => intro k; exact pres_failS _
  | succ m ih =>
    intro k
    unfold implementCore
    refine pres_getBind' fun s => ?_
    split
    · exact pres_failS _
    · split
      · exact pres_pure _
      · split
        · exact pres_failS _
        · refine pres_bind (pres_modS fun _ h => h.markImpl k) (fun _ => ?_)
          split
          · exact pres_failS _
          · refine pres_bind (presCC_foldTargets _ _ _ _) (fun _ => ?_)
            refine pres_bind (presCC_foldTargets _ _ _ _) (fun _ => ?_)
            refine pres_bind (pres_foldlS (fun rec x => ?_) _) (fun _ => ?_)
            · split
              · exact pres_pure _
              · refine pres_getBind' fun s1 => ?_
                split
                · exact pres_pure _
                · split
                  · exact pres_bind (ih x) (fun _ => pres_pure _)
                  · split
                    · exact pres_bind (presCC_updM _ _) (fun _ => pres_pure _)
                    · exact pres_pure _
            · split
              · exact pres_pure _
              · exact presCC_hasCompiledImportR _ _

theorem CC.setFeatsPrim {s : Ctx} (h : CC c t n s) (k : MKey) (arg : FeatArg) : CC c t n (setFeatsPrim k arg s) := h.upd k _
theorem CC.setFeatsFlag {s : Ctx} (h : CC c t n s) (k : MKey) (arg : FeatArg) : CC c t n (setFeatsFlag k arg s) :=
  CC.tick _ (h.upd k _)

theorem presCC_implement (k : MKey) (arg : FeatArg) : Pres (CC c t n) (implement k arg) := by
  unfold implement
  refine pres_getBind' fun s => ?_
  split
  · exact pres_failS _
  · split
    · exact pres_failS _
    · split
      · exact pres_failS _
      · exact pres_bind (pres_modS fun _ h => h.setFeatsPrim k arg) (fun _ => presCC_implementCore _ _)

theorem presCC_setImplementedInner (k : MKey) (arg : FeatArg) : Pres (CC c t n) (setImplementedInner k arg) := by
  unfold setImplementedInner
  refine pres_getBind' fun s => ?_
  split
  · exact pres_failS _
  · split
    · split
      · exact pres_failS _
      · split
        · exact pres_modS fun _ h => h.setFeatsFlag k arg
        · exact pres_pure _
    · exact pres_bind (presCC_implement k arg) (fun _ => pres_pure _)

theorem presCC_compileIfNot (st : Bool × List MKey) (k : MKey) : Pres (CC c t n) (compileIfNot st k) := by
  unfold compileIfNot
  refine pres_getBind' fun s => ?_
  split
  · exact pres_bind (presCC_compileChecked _) (fun _ => pres_pure _)
  · exact pres_pure _

theorem presCC_unresLoop : ∀ fuel work done, Pres (CC c t n) (unresLoop fuel work done) := by
  intro fuel
  induction fuel with
  | zero => intro work done; unfold unresLoop; exact pres_pure false
  | succ m ih =>
    intro work done
    cases work with
    | nil =>
      unfold unresLoop
      refine pres_getBind' fun s => ?_
      split
      · exact pres_failS _
      · exact pres_pure _
    | cons k rest =>
      unfold unresLoop
      refine pres_getBind' fun s0 => ?_
      refine pres_bind (pres_foldlS (fun st tn => ?_) _) (fun r => ?_)
      · split
        · exact pres_pure _
        · refine pres_getBind' fun s => ?_
          split
          · exact pres_pure _
          · split
            · exact pres_pure _
            · split
              · exact pres_pure _
              · split
                · exact pres_pure _
                · refine pres_bind ?_ (fun r => ?_)
                  · split
                    · exact presCC_implement _ _
                    · exact pres_pure _
                  · split
                    · exact pres_pure _
                    · refine pres_bind (presCC_compileIfNot _ _) (fun st1 => pres_getBind' fun s' => ?_)
                      split
                      · exact pres_foldlS (fun st k => presCC_compileIfNot st k) _
                      · exact pres_pure _
      · obtain ⟨rec, extra⟩ := r
        dsimp only
        split
        · exact pres_pure _
        · exact ih _ _

theorem presCC_depsetR : ∀ fuel ds, Pres (CC c t n) (depsetR fuel ds) := by
  intro fuel
  induction fuel with
  | zero => intro ds; exact pres_failS _
  | succ m ih =>
    intro ds
    unfold depsetR
    refine pres_bind (pres_foldlS (fun work k => ?_) _) (fun work => ?_)
    · refine pres_getBind' fun s => ?_
      split
      · exact pres_pure _
      · split
        · exact pres_pure _
        · exact pres_bind (presCC_updM _ _) (fun _ => pres_bind (presCC_compileChecked _) (fun _ => pres_pure _))
    · refine pres_getBind' fun s => ?_
      refine pres_bind (presCC_unresLoop _ _ _) (fun rec => ?_)
      split
      · exact ih ds
      · exact pres_forEach (fun k => presCC_updM _ _)

theorem presCC_compileAll : Pres (CC c t n) compileAll := by
  unfold compileAll
  refine pres_getBind' fun s => ?_
  refine pres_forEach (fun ds => ?_)
  refine pres_bind ?_ (fun _ => pres_getBind' fun s' => presCC_depsetR _ _)
  unfold checkFeatures
  refine pres_getBind' fun s1 => ?_
  split
  · exact pres_pure _
  · exact pres_failS _

theorem presCC_finishParse (src : ModSrc) (k : MKey) : Pres (CC c t n) (finishParse src k) := by
  unfold finishParse
  refine pres_bind (presCC_updM _ _) (fun _ => ?_)
  split
  · exact pres_failS _
  · exact pres_bind (presCC_updM _ _) (fun _ => pres_pure _)

theorem presCC_loadFinish (rev : Option Bytes) (got : Option MKey) (ml : Option Mod) : Pres (CC c t n) (loadFinish rev got ml) := by
  unfold loadFinish
  split
  · refine pres_bind ?_ (fun _ => pres_getBind' fun s => pres_bind ?_ (fun _ => pres_pure _))
    · split
      · exact presCC_updM _ _
      · exact pres_pure _
    · split
      · exact presCC_updM _ _
      · exact pres_pure _
  · split
    · exact pres_failS _
    · exact pres_bind (presCC_updM _ _) (fun _ => pres_pure _)

theorem presCC_parse : ∀ fuel,
    (∀ src chk, Pres (CC c t n) (parseIn fuel src chk)) ∧ (∀ name rev, Pres (CC c t n) (parseLoad fuel name rev)) := by
  intro fuel
  induction fuel with
  | zero =>
    refine ⟨fun _ _ => ?_, fun _ _ => ?_⟩
    · unfold parseIn; exact pres_failS _
    · unfold parseLoad; exact pres_failS _
  | succ m ih =>
    obtain ⟨ihIn, ihLoad⟩ := ih
    refine ⟨fun src chk => ?_, fun name rev => ?_⟩
    · unfold parseIn
      split
      · exact pres_failS _
      · refine pres_getBind' fun s => ?_
        split
        · exact pres_failS _
        · exact pres_pure _
        · refine pres_bind (pres_modS fun _ h => h.enterMod _ _ _) (fun _ => ?_)
          refine pres_bind (pres_forEach (fun x => ?_)) (fun _ => presCC_finishParse _ _)
          refine pres_bind (ihLoad _ _) (fun y => pres_bind ?_ (fun _ => presCC_updM _ _))
          split
          · exact presCC_updM _ _
          · exact pres_pure _
    · unfold parseLoad
      refine pres_getBind' fun s => ?_
      refine pres_bind ?_ (fun k => ?_)
      · split
        · exact pres_pure _
        · refine pres_bind ?_ (fun got => presCC_loadFinish _ _ _)
          split
          · exact pres_pure _
          · split
            · exact pres_attemptLoad _ (ihIn _ _)
            · exact pres_pure _
      · unfold circularCheck
        refine pres_getBind' fun s1 => ?_
        split
        · exact pres_failS _
        · exact pres_pure _

theorem presCC_implementAndCompile (k : MKey) (arg : FeatArg) : Pres (CC c t n) (implementAndCompile k arg) := by
  unfold implementAndCompile
  refine pres_bind (presCC_setImplementedInner k arg) (fun _ => pres_getBind' fun s => ?_)
  split
  · exact pres_pure _
  · exact pres_bind (presCC_depSetsM _) (fun _ => presCC_compileAll)

theorem presCC_forward (op : Op) : Pres (CC c t n) (forward op) := by
  cases op with
  | parse src f =>
    unfold forward
    exact pres_getBind' fun s => pres_bind ((presCC_parse _).1 _ _) (fun k => presCC_implementAndCompile k f)
  | load name rev f =>
    unfold forward
    exact pres_getBind' fun s => pres_bind ((presCC_parse _).2 _ _) (fun k => presCC_implementAndCompile k f)
  | setImpl k f => unfold forward; exact presCC_implementAndCompile k f
  | compile => unfold forward; exact pres_bind (presCC_depSetsM _) (fun _ => presCC_compileAll)
  | setOpt ex pp =>
    unfold forward
    refine pres_getBind' fun s => pres_bind ?_ (fun _ => pres_modS fun _ h => h.same rfl rfl rfl)
    split
    · refine pres_bind (pres_modS fun s h => ?_) (fun _ => pres_bind (presCC_depSetsM _) (fun _ => presCC_compileAll))
      unfold privMark
      exact CC.tick 4 (h.same (by simp) rfl rfl)
    · exact pres_pure _
  | unsetOpt ex pp => unfold forward; exact pres_modS fun _ h => h.same rfl rfl rfl

end LyModel.Ctx
