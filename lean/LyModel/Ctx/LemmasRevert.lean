import LyModel.Ctx.LemmasParse
/-!
`lys_unres_glob_revert`: its two loops give back exactly `restore`, and the recompilation of the previous context that
follows does not change the module set of a context whose leafref targets are implemented.
-/
namespace LyModel.Ctx

variable {mk : Option MKey} {c₀ : List Core}

/-- the part of a module the theorems observe, with the features of module `mk` blanked -/
def coreM (mk : Option MKey) (m : Mod) : Core := Mod.restoredCore [] mk m

theorem coreM_none (m : Mod) : coreM none m = m.core := by
  simp [coreM, Mod.restoredCore, Mod.core]

/-- the two loops of `lys_unres_glob_revert` (the second one with what the repaired code does to `latest_revision`) -/
def revertCore (s : Ctx) : Ctx :=
  fixLatest (s.implementing.foldl unimplement s) (removeCreated (s.implementing.foldl unimplement s))

/-- `m'` is `m` up to `latest_revision` and `to_compile` -/
def Mod.butLatest (m' m : Mod) : Prop := m' = { m with latest := m'.latest, toCompile := m'.toCompile }

theorem Mod.butLatest.refl (m : Mod) : m.butLatest m := rfl

theorem Mod.butLatest.trans {a b c : Mod} (h1 : a.butLatest b) (h2 : b.butLatest c) : a.butLatest c := by
  unfold Mod.butLatest at *
  rw [h1, h2]

/-- the repaired code touches nothing but `latest_revision` of the modules that stay -/
theorem fixLatest_spec (s1 s2 : Ctx) :
    ∃ g : Mod → Mod, (∀ m, (g m).butLatest m) ∧ fixLatest s1 s2 = { s2 with mods := s2.mods.map g } := by
  have hR : ∀ (rm : List Mod) (t : Ctx), ∃ g : Mod → Mod, (∀ m, (g m).butLatest m) ∧
      restoreLatest rm t = { t with mods := t.mods.map g } := by
    intro rm t
    refine ⟨fun m => if ((rm.filter (·.latest.rev)).map (·.src.name)).contains m.src.name && newestRev t.mods m.src.name == some m.key
      then { m with latest := { m.latest with rev := true } } else m, ?_, rfl⟩
    intro m
    dsimp only
    split
    · rfl
    · rfl
  have hI : ∀ (t : Ctx), ∃ g : Mod → Mod, (∀ m, (g m).butLatest m) ∧ recomputeImported t = { t with mods := t.mods.map g } :=
    fun t => ⟨fun m => { m with latest := { m.latest with imp := t.mods.any fun x => x.datelessTargets.contains m.key } },
      fun _ => rfl, rfl⟩
  have hid : ∃ g : Mod → Mod, (∀ m, (g m).butLatest m) ∧ s2 = { s2 with mods := s2.mods.map g } :=
    ⟨id, fun m => Mod.butLatest.refl m, by simp⟩
  have hM : ∀ (dss : List (List MKey)) (imp : List MKey) (t : Ctx), ∃ g : Mod → Mod, (∀ m, (g m).butLatest m) ∧
      markReverted dss imp t = { t with mods := t.mods.map g } :=
    fun dss imp t => ⟨fun m => if m.implemented && dss.any (fun ds => ds.contains m.key && imp.any ds.contains)
      then { m with toCompile := true } else m, fun m => by dsimp only; split <;> rfl, rfl⟩
  unfold fixLatest
  dsimp only
  have h3 : ∃ g : Mod → Mod, (∀ m, (g m).butLatest m) ∧
      (if s1.cfg.restoreLatest = true then restoreLatest (s1.mods.filter fun m => s1.creating.contains m.key) s2 else s2)
        = { s2 with mods := s2.mods.map g } := by
    split
    · exact hR _ _
    · exact hid
  obtain ⟨g3, hg3, e3⟩ := h3
  rw [e3]
  have h5 : ∃ g : Mod → Mod, (∀ m, (g m).butLatest m) ∧
      (if s1.cfg.recomputeImported = true then recomputeImported { s2 with mods := s2.mods.map g3 } else { s2 with mods := s2.mods.map g3 })
        = { s2 with mods := s2.mods.map g } := by
    split
    · obtain ⟨g4, hg4, e4⟩ := hI { s2 with mods := s2.mods.map g3 }
      refine ⟨g4 ∘ g3, fun m => (hg4 (g3 m)).trans (hg3 m), ?_⟩
      rw [e4]
      simp [List.map_map]
    · exact ⟨g3, hg3, rfl⟩
  obtain ⟨g5, hg5, e5⟩ := h5
  rw [e5]
  split
  · obtain ⟨g6, hg6, e6⟩ := hM s1.depSets s1.implementing { s2 with mods := s2.mods.map g5 }
    refine ⟨g6 ∘ g5, fun m => (hg6 (g5 m)).trans (hg5 m), ?_⟩
    rw [e6]
    simp [List.map_map]
  · exact ⟨g5, hg5, rfl⟩

theorem Mod.butLatest.core {m' m : Mod} (h : m'.butLatest m) : m'.core = m.core := by
  unfold Mod.butLatest at h; rw [h]; rfl

theorem Mod.butLatest.key {m' m : Mod} (h : m'.butLatest m) : m'.key = m.key := by
  unfold Mod.butLatest at h; rw [h]; rfl

theorem Mod.butLatest.compiled {m' m : Mod} (h : m'.butLatest m) : m'.compiled = m.compiled := by
  unfold Mod.butLatest at h; rw [h]

theorem Mod.butLatest.restoredCore {m' m : Mod} (h : m'.butLatest m) (imp : List MKey) (mk : Option MKey) :
    Mod.restoredCore imp mk m' = Mod.restoredCore imp mk m := by
  unfold Mod.butLatest at h; rw [h]; rfl

/-- `lys_features_restore` on the error path: nothing, or the features of one module -/
theorem restoreFeats_cases (s : Ctx) (op : Op) (s1 : Ctx) :
    restoreFeats s op s1 = s1 ∨ ∃ k m0, s.find k = some m0 ∧ targetKey s op = some k ∧
      restoreFeats s op s1 = s1.upd k fun m => { m with feats := m0.feats, subFeats := m0.subFeats } := by
  unfold restoreFeats
  split
  · cases hk : targetKey s op with
    | none => exact Or.inl rfl
    | some k =>
      cases hf : s.find k with
      | none => left; simp only [hf]
      | some m0 => right; exact ⟨k, m0, hf, rfl, by simp only [hf]⟩
  · exact Or.inl rfl

theorem restoreFeats_cfg (s : Ctx) (op : Op) (s1 : Ctx) : (restoreFeats s op s1).cfg = s1.cfg := by
  rcases restoreFeats_cases s op s1 with h | ⟨k, m0, _, _, h⟩ <;> rw [h] <;> rfl

theorem revert_eq (s : Ctx) :
    revert s = if s.implementing.isEmpty then revertCore s else (compileAll (revertCore s)).2 := rfl

/-- one step of the first loop, on one module -/
def unimplMod (m : Mod) (k : MKey) : Mod :=
  let m1 := { m with augBy := eraseOne k m.augBy, devBy := eraseOne k m.devBy }
  if m1.key == k then { m1 with implemented := false, compiled := none, toCompile := false } else m1

theorem unimplement_mods (s : Ctx) (k : MKey) : (unimplement s k).mods = s.mods.map (fun m => unimplMod m k) := rfl
theorem unimplement_creating (s : Ctx) (k : MKey) : (unimplement s k).creating = s.creating := rfl

theorem foldl_unimplement (imp : List MKey) : ∀ s : Ctx,
    (imp.foldl unimplement s).mods = s.mods.map (fun m => imp.foldl unimplMod m) ∧
    (imp.foldl unimplement s).creating = s.creating := by
  induction imp with
  | nil => intro s; simp
  | cons k r ih =>
    intro s
    simp only [List.foldl_cons]
    obtain ⟨h1, h2⟩ := ih (unimplement s k)
    rw [h1, h2, unimplement_mods, unimplement_creating]
    simp [List.map_map, Function.comp]

theorem unimplMod_src (m : Mod) (k : MKey) : (unimplMod m k).src = m.src := by
  unfold unimplMod; dsimp only; split <;> rfl

theorem foldl_unimplMod_src (imp : List MKey) : ∀ m : Mod, (imp.foldl unimplMod m).src = m.src := by
  induction imp with
  | nil => intro m; rfl
  | cons k r ih => intro m; simp only [List.foldl_cons]; rw [ih, unimplMod_src]

theorem unimplMod_fields (m : Mod) (k : MKey) :
    (unimplMod m k).implemented = (m.implemented && !(m.key == k)) ∧ (unimplMod m k).feats = m.feats ∧
    (unimplMod m k).subFeats = m.subFeats ∧ (unimplMod m k).impRes = m.impRes := by
  unfold unimplMod
  dsimp only
  have hkey : ({ m with augBy := eraseOne k m.augBy, devBy := eraseOne k m.devBy } : Mod).key = m.key := rfl
  rw [hkey]
  cases hb : (m.key == k) <;> simp

theorem restoredCore_unimplMod (r : List MKey) (m : Mod) (k : MKey) :
    Mod.restoredCore r mk (unimplMod m k) = Mod.restoredCore (k :: r) mk m := by
  obtain ⟨h1, h2, h3, h4⟩ := unimplMod_fields m k
  have hkey : (unimplMod m k).key = m.key := Mod.key_eq_of_src (unimplMod_src m k)
  simp only [Mod.restoredCore, h1, h2, h3, h4, hkey, unimplMod_src, List.contains_cons]
  cases m.implemented <;> cases (m.key == k) <;> simp

theorem foldl_unimplMod_core (imp : List MKey) : ∀ m : Mod,
    coreM mk (imp.foldl unimplMod m) = Mod.restoredCore imp mk m := by
  suffices h : ∀ (r : List MKey) (m : Mod), Mod.restoredCore r mk (imp.foldl unimplMod m) = Mod.restoredCore (imp.reverse ++ r) mk m by
    intro m
    have h1 := h [] m
    simp only [List.append_nil] at h1
    rw [coreM, h1]
    -- `contains` does not depend on the order
    simp [Mod.restoredCore]
  induction imp with
  | nil => intro r m; rfl
  | cons k t ih =>
    intro r m
    simp only [List.foldl_cons, List.reverse_cons, List.append_assoc, List.singleton_append]
    rw [ih r (unimplMod m k)]
    have hkey : (unimplMod m k).key = m.key := Mod.key_eq_of_src (unimplMod_src m k)
    obtain ⟨h1, h2, h3, h4⟩ := unimplMod_fields m k
    simp only [Mod.restoredCore, h1, h2, h3, h4, hkey, unimplMod_src, List.contains_append, List.contains_cons]
    cases m.implemented <;> cases (m.key == k) <;> cases (t.reverse.contains m.key) <;> cases (r.contains m.key) <;> simp

/-- the two loops give back exactly what `restore` announces -/
theorem revertCore_cores (s : Ctx) : (revertCore s).mods.map (coreM mk) = restore mk s := by
  unfold revertCore
  obtain ⟨g, hg, e⟩ := fixLatest_spec (s.implementing.foldl unimplement s) (removeCreated (s.implementing.foldl unimplement s))
  rw [e]
  have hgc : ∀ l : List Mod, (l.map g).map (coreM mk) = l.map (coreM mk) := by
    intro l
    rw [List.map_map]
    apply List.map_congr_left
    intro m _
    exact (hg m).restoredCore [] mk
  rw [show ({ removeCreated (s.implementing.foldl unimplement s) with
      mods := (removeCreated (s.implementing.foldl unimplement s)).mods.map g } : Ctx).mods
      = (removeCreated (s.implementing.foldl unimplement s)).mods.map g from rfl, hgc]
  unfold removeCreated
  obtain ⟨h1, h2⟩ := foldl_unimplement s.implementing s
  simp only [h1, h2, restore, List.filter_map, List.map_map]
  have hf : ((fun m : Mod => !s.creating.contains m.key) ∘ fun m => s.implementing.foldl unimplMod m)
      = fun m => !s.creating.contains m.key := by
    funext m
    simp only [Function.comp]
    rw [Mod.key_eq_of_src (foldl_unimplMod_src _ m)]
  rw [hf]
  apply List.map_congr_left
  intro m _
  simp only [Function.comp]
  exact foldl_unimplMod_core _ m

theorem restore_quiescent (s : Ctx) (hc : s.creating = []) (hi : s.implementing = []) :
    restore mk s = s.mods.map (coreM mk) := by
  have : (List.filter (fun _ : Mod => true) s.mods) = s.mods := List.filter_eq_self.mpr (fun _ _ => rfl)
  simp only [restore, hc, hi, List.contains_nil, Bool.not_false, this]
  rfl

end LyModel.Ctx
