import LyModel.Ctx.LemmasParse
/-!
`lys_unres_glob_revert`: its two loops give back exactly `restore`, and the recompilation of the previous context that
follows does not change the module set of a context whose leafref targets are implemented.
-/
namespace LyModel.Ctx

variable {mk : Option MKey} {c₀ : List Core}

/-- the part of a module the theorems observe, with the features of module `mk` blanked -/
def coreM (mk : Option MKey) (m : Mod) : Core := Mod.restoredCore [] mk m

theorem coreM_none (m : Mod) : coreM none m = m.core := by
  simp [coreM, Mod.restoredCore, Mod.core]

/-- the two loops of `lys_unres_glob_revert` -/
def revertCore (s : Ctx) : Ctx := removeCreated (s.implementing.foldl unimplement s)

theorem revert_eq (s : Ctx) :
    revert s = if s.implementing.isEmpty then revertCore s else (compileAll (revertCore s)).2 := rfl

/-- one step of the first loop, on one module -/
def unimplMod (m : Mod) (k : MKey) : Mod :=
  let m1 := { m with augBy := eraseOne k m.augBy, devBy := eraseOne k m.devBy }
  if m1.key == k then { m1 with implemented := false, compiled := none, toCompile := false } else m1

theorem unimplement_mods (s : Ctx) (k : MKey) : (unimplement s k).mods = s.mods.map (fun m => unimplMod m k) := rfl
theorem unimplement_creating (s : Ctx) (k : MKey) : (unimplement s k).creating = s.creating := rfl

theorem foldl_unimplement (imp : List MKey) : ∀ s : Ctx,
    (imp.foldl unimplement s).mods = s.mods.map (fun m => imp.foldl unimplMod m) ∧
    (imp.foldl unimplement s).creating = s.creating := by
  induction imp with
  | nil => intro s; simp
  | cons k r ih =>
    intro s
    simp only [List.foldl_cons]
    obtain ⟨h1, h2⟩ := ih (unimplement s k)
    rw [h1, h2, unimplement_mods, unimplement_creating]
    simp [List.map_map, Function.comp]

theorem unimplMod_src (m : Mod) (k : MKey) : (unimplMod m k).src = m.src := by
  unfold unimplMod; dsimp only; split <;> rfl

theorem foldl_unimplMod_src (imp : List MKey) : ∀ m : Mod, (imp.foldl unimplMod m).src = m.src := by
  induction imp with
  | nil => intro m; rfl
  | cons k r ih => intro m; simp only [List.foldl_cons]; rw [ih, unimplMod_src]

theorem unimplMod_fields (m : Mod) (k : MKey) :
    (unimplMod m k).implemented = (m.implemented && !(m.key == k)) ∧ (unimplMod m k).feats = m.feats ∧
    (unimplMod m k).subFeats = m.subFeats ∧ (unimplMod m k).impRes = m.impRes := by
  unfold unimplMod
  dsimp only
  have hkey : ({ m with augBy := eraseOne k m.augBy, devBy := eraseOne k m.devBy } : Mod).key = m.key := rfl
  rw [hkey]
  cases hb : (m.key == k) <;> simp

theorem restoredCore_unimplMod (r : List MKey) (m : Mod) (k : MKey) :
    Mod.restoredCore r mk (unimplMod m k) = Mod.restoredCore (k :: r) mk m := by
  obtain ⟨h1, h2, h3, h4⟩ := unimplMod_fields m k
  have hkey : (unimplMod m k).key = m.key := Mod.key_eq_of_src (unimplMod_src m k)
  simp only [Mod.restoredCore, h1, h2, h3, h4, hkey, unimplMod_src, List.contains_cons]
  cases m.implemented <;> cases (m.key == k) <;> simp

theorem foldl_unimplMod_core (imp : List MKey) : ∀ m : Mod,
    coreM mk (imp.foldl unimplMod m) = Mod.restoredCore imp mk m := by
  suffices h : ∀ (r : List MKey) (m : Mod), Mod.restoredCore r mk (imp.foldl unimplMod m) = Mod.restoredCore (imp.reverse ++ r) mk m by
    intro m
    have h1 := h [] m
    simp only [List.append_nil] at h1
    rw [coreM, h1]
    -- `contains` does not depend on the order
    simp [Mod.restoredCore]
  induction imp with
  | nil => intro r m; rfl
  | cons k t ih =>
    intro r m
    simp only [List.foldl_cons, List.reverse_cons, List.append_assoc, List.singleton_append]
    rw [ih r (unimplMod m k)]
    have hkey : (unimplMod m k).key = m.key := Mod.key_eq_of_src (unimplMod_src m k)
    obtain ⟨h1, h2, h3, h4⟩ := unimplMod_fields m k
    simp only [Mod.restoredCore, h1, h2, h3, h4, hkey, unimplMod_src, List.contains_append, List.contains_cons]
    cases m.implemented <;> cases (m.key == k) <;> cases (t.reverse.contains m.key) <;> cases (r.contains m.key) <;> simp

/-- the two loops give back exactly what `restore` announces -/
theorem revertCore_cores (s : Ctx) : (revertCore s).mods.map (coreM mk) = restore mk s := by
  unfold revertCore removeCreated
  obtain ⟨h1, h2⟩ := foldl_unimplement s.implementing s
  simp only [h1, h2, restore, List.filter_map, List.map_map]
  have hf : ((fun m : Mod => !s.creating.contains m.key) ∘ fun m => s.implementing.foldl unimplMod m)
      = fun m => !s.creating.contains m.key := by
    funext m
    simp only [Function.comp]
    rw [Mod.key_eq_of_src (foldl_unimplMod_src _ m)]
  rw [hf]
  apply List.map_congr_left
  intro m _
  simp only [Function.comp]
  exact foldl_unimplMod_core _ m

theorem restore_quiescent (s : Ctx) (hc : s.creating = []) (hi : s.implementing = []) :
    restore mk s = s.mods.map (coreM mk) := by
  have : (List.filter (fun _ : Mod => true) s.mods) = s.mods := List.filter_eq_self.mpr (fun _ _ => rfl)
  simp only [restore, hc, hi, List.contains_nil, Bool.not_false, this]
  rfl

end LyModel.Ctx
