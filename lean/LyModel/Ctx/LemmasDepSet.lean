import LyModel.Ctx.Model
/-!
`lys_unres_dep_sets_create_mod_r`: the dependency set built from a module contains that module's imports — in particular the targets
of its augments and deviations — unless they are "single" (`LYS_IS_SINGLE_DEP_SET`: no feature and nothing compiled that depends on
other modules).  Sets are `ly_set`s: `ly_set_rm_index` moves the last element into the freed slot (`rmSwap`).
-/
namespace LyModel.Ctx

/-- the module exists (internal modules included) and is not `LYS_IS_SINGLE_DEP_SET` -/
def Ctx.nonSingle (s : Ctx) (k : MKey) : Prop := ∃ m, s.allFind k = some m ∧ m.isSingle = false

/-- `ly_set_rm_index` loses nothing but the element at the index -/
theorem mem_rmSwap {l : List MKey} {i : Nat} {x : MKey} (hx : x ∈ l) : x ∈ rmSwap l i ∨ l[i]? = some x := by
  obtain ⟨j, hj⟩ := List.mem_iff_getElem?.mp hx
  by_cases hji : j = i
  · right; rw [← hji]; exact hj
  · left
    have hjl : j < l.length := by
      rcases Nat.lt_or_ge j l.length with h | h
      · exact h
      · rw [List.getElem?_eq_none h] at hj; cases hj
    unfold rmSwap
    split
    · next hge =>
      have : j < i := by omega
      apply List.mem_iff_getElem?.mpr
      exact ⟨j, by rw [List.getElem?_take]; simp [this, hj]⟩
    · next hlt =>
      have hlt' : i + 1 < l.length := by omega
      apply List.mem_iff_getElem?.mpr
      by_cases hlast : j = l.length - 1
      · -- `x` is the last element: it takes the slot `i`
        refine ⟨i, ?_⟩
        rw [List.getElem?_dropLast]
        have h1 : i < (l.set i (l.getLast?.getD default)).length - 1 := by simp; omega
        simp only [h1, if_true]
        rw [List.getElem?_set_self (by omega)]
        have : l.getLast? = some x := by
          rw [List.getLast?_eq_getElem?, ← hlast]; exact hj
        simp [this]
      · refine ⟨j, ?_⟩
        rw [List.getElem?_dropLast]
        have h1 : j < (l.set i (l.getLast?.getD default)).length - 1 := by simp; omega
        simp only [h1, if_true]
        rw [List.getElem?_set_ne (fun e => hji e.symm)]
        exact hj

theorem idxOf?_some {l : List MKey} {k : MKey} {i : Nat} (h : idxOf? l k = some i) : l[i]? = some k := by
  unfold idxOf? at h
  dsimp only at h
  split at h
  · next hlt =>
    simp only [Option.some.injEq] at h
    subst h
    have := List.findIdx_getElem (p := fun x => x == k) (w := hlt)
    rw [List.getElem?_eq_getElem hlt]
    simp only [beq_iff_eq] at this
    rw [this]
  · cases h

theorem idxOf?_none {l : List MKey} {k : MKey} (h : idxOf? l k = none) : k ∉ l := by
  unfold idxOf? at h
  dsimp only at h
  split at h
  · cases h
  · next hge =>
    intro hk
    have := List.findIdx_lt_length_of_exists (p := fun x => x == k) (xs := l) ⟨k, hk, by simp⟩
    exact hge this

/-- the dependency set only grows, and what was waiting in `ctx_set` or already in the dependency set stays in one of them -/
def Keeps (st st' : DS) : Prop :=
  (∀ x ∈ st.2.1, x ∈ st'.2.1) ∧ (∀ x, x ∈ st.1 ∨ x ∈ st.2.1 → x ∈ st'.1 ∨ x ∈ st'.2.1)

theorem Keeps.refl (st : DS) : Keeps st st := ⟨fun _ h => h, fun _ h => h⟩

theorem Keeps.trans {a b c : DS} (h1 : Keeps a b) (h2 : Keeps b c) : Keeps a c :=
  ⟨fun x hx => h2.1 x (h1.1 x hx), fun x hx => h2.2 x (h1.2 x hx)⟩

theorem foldl_keeps {α : Type} {f : DS → α → DS} (hf : ∀ st a, Keeps st (f st a)) : ∀ (l : List α) (st : DS), Keeps st (l.foldl f st) := by
  intro l
  induction l with
  | nil => intro st; exact Keeps.refl st
  | cons a r ih => intro st; exact (hf st a).trans (ih (f st a))

/-- moving `k` from `ctx_set` into the dependency set -/
theorem keeps_move {cs ds aux : List MKey} {k : MKey} {i : Nat} (h : idxOf? cs k = some i) :
    Keeps (cs, ds, aux) (rmSwap cs i, ds ++ [k], aux) := by
  refine ⟨fun x hx => List.mem_append_left _ hx, fun x hx => ?_⟩
  rcases hx with hx | hx
  · rcases mem_rmSwap (i := i) hx with h1 | h1
    · exact Or.inl h1
    · rw [idxOf?_some h] at h1
      right
      simp only [Option.some.injEq] at h1
      show x ∈ ds ++ [k]
      rw [← h1]; simp
  · exact Or.inr (List.mem_append_left _ hx)

/-- every call of `lys_unres_dep_sets_create_mod_r` only moves modules from `ctx_set` into the dependency set -/
theorem createModR_keeps (s : Ctx) : ∀ (fuel : Nat) (k : MKey) (st : DS), Keeps st (createModR s fuel k st) := by
  intro fuel
  induction fuel with
  | zero => intro k st; exact Keeps.refl st
  | succ n ih =>
    intro k st
    obtain ⟨cs, ds, aux⟩ := st
    unfold createModR
    have hgo : ∀ (m : Mod) (st : DS), Keeps st
        (s.allMods.foldl (fun st m2 => if m2.impRes.contains k then createModR s n m2.key st else st)
          (m.impRes.foldl (fun st t => createModR s n t st) st)) := by
      intro m st
      refine (foldl_keeps (fun st t => ih t st) _ st).trans (foldl_keeps (fun st m2 => ?_) _ _)
      split
      · exact ih _ _
      · exact Keeps.refl _
    split
    · exact Keeps.refl _
    · next m _ =>
      dsimp only
      split
      · split
        · exact Keeps.refl _
        · split
          · exact Keeps.refl _
          · refine Keeps.trans ?_ (hgo m _)
            exact ⟨fun _ h => h, fun _ h => h⟩
      · split
        · exact Keeps.refl _
        · next i hi => exact (keeps_move hi).trans (hgo m _)

/-- a module that is not single and is waiting in `ctx_set` (or already collected) is in the dependency set after its call -/
theorem createModR_puts (s : Ctx) (n : Nat) (t : MKey) (st : DS) (ht : s.nonSingle t) (hin : t ∈ st.1 ∨ t ∈ st.2.1) :
    t ∈ (createModR s (n + 1) t st).2.1 := by
  obtain ⟨m, hm, hs⟩ := ht
  obtain ⟨cs, ds, aux⟩ := st
  have hk := createModR_keeps s
  unfold createModR
  simp only [hm, hs, Bool.false_eq_true, if_false]
  cases hi : idxOf? cs t with
  | none =>
    rcases hin with h | h
    · exact absurd h (idxOf?_none hi)
    · exact h
  | some i =>
    dsimp only
    have hgo : Keeps (rmSwap cs i, ds ++ [t], aux)
        (s.allMods.foldl (fun st m2 => if m2.impRes.contains t then createModR s n m2.key st else st)
          (m.impRes.foldl (fun st t' => createModR s n t' st) (rmSwap cs i, ds ++ [t], aux))) := by
      refine (foldl_keeps (fun st t' => hk n t' st) _ _).trans (foldl_keeps (fun st m2 => ?_) _ _)
      split
      · exact hk _ _ _
      · exact Keeps.refl _
    exact hgo.1 t (by simp)

/-- walking over the imports puts every non-single import that is still available into the dependency set -/
theorem foldl_puts (s : Ctx) (n : Nat) (t : MKey) (ht : s.nonSingle t) : ∀ (l : List MKey) (st : DS), t ∈ l →
    (t ∈ st.1 ∨ t ∈ st.2.1) → t ∈ (l.foldl (fun st t' => createModR s (n + 1) t' st) st).2.1 := by
  intro l
  induction l with
  | nil => intro st h _; cases h
  | cons a r ih =>
    intro st hmem hin
    simp only [List.foldl_cons]
    by_cases hat : a = t
    · subst hat
      have h1 := createModR_puts s n a st ht hin
      exact (foldl_keeps (fun st t' => createModR_keeps s (n + 1) t' st) r _).1 a h1
    · have hr : t ∈ r := by
        rcases List.mem_cons.mp hmem with h | h
        · exact absurd h.symm hat
        · exact h
      exact ih _ hr ((createModR_keeps s (n + 1) a st).2 t hin)

/-- **the closure property**: the dependency set created from a module `k` that is not single contains every import of `k`
    that is not single — in particular every target of an augment or a deviation of `k` that has data — as long as that module
    was still in `ctx_set` -/
theorem createModR_imports (s : Ctx) (n : Nat) (k t : MKey) (cs : List MKey) (m : Mod) (hm : s.allFind k = some m)
    (hs : m.isSingle = false) (hk : k ∈ cs) (hti : t ∈ m.impRes) (ht : s.nonSingle t) (htc : t ∈ cs) :
    k ∈ (createModR s (n + 2) k (cs, [], [])).2.1 ∧ t ∈ (createModR s (n + 2) k (cs, [], [])).2.1 := by
  unfold createModR
  simp only [hm, hs, Bool.false_eq_true, if_false]
  cases hi : idxOf? cs k with
  | none => exact absurd hk (idxOf?_none hi)
  | some i =>
    dsimp only
    have h0 := keeps_move (ds := []) (aux := []) hi
    have hin : t ∈ (rmSwap cs i, ([] : List MKey) ++ [k], ([] : List MKey)).1 ∨
        t ∈ (rmSwap cs i, ([] : List MKey) ++ [k], ([] : List MKey)).2.1 := h0.2 t (Or.inl htc)
    have h1 := foldl_puts s n t ht m.impRes _ hti hin
    have h2 : Keeps (rmSwap cs i, ([] : List MKey) ++ [k], ([] : List MKey))
        (m.impRes.foldl (fun st t' => createModR s (n + 1) t' st) (rmSwap cs i, [] ++ [k], [])) :=
      foldl_keeps (fun st t' => createModR_keeps s (n + 1) t' st) _ _
    have h3 : ∀ st : DS, Keeps st
        (s.allMods.foldl (fun st m2 => if m2.impRes.contains k then createModR s (n + 1) m2.key st else st) st) := by
      intro st
      refine foldl_keeps (fun st m2 => ?_) _ _
      split
      · exact createModR_keeps s _ _ _
      · exact Keeps.refl _
    exact ⟨(h3 _).1 k (h2.1 k (by simp)), (h3 _).1 t h1⟩

/-- `lys_unres_dep_sets_create_single` takes only single modules out of `ctx_set` -/
theorem singlesLoop_keeps (s : Ctx) (x : MKey) (hx : s.nonSingle x) : ∀ (fuel i : Nat) (cs : List MKey) (acc : List (List MKey)),
    x ∈ cs → x ∈ (singlesLoop s fuel i cs acc).1 := by
  intro fuel
  induction fuel with
  | zero => intro i cs acc h; exact h
  | succ n ih =>
    intro i cs acc h
    unfold singlesLoop
    split
    · exact h
    · next k' hk' =>
      split
      · next hsingle =>
        apply ih
        rcases mem_rmSwap (i := i) h with h1 | h1
        · exact h1
        · exfalso
          rw [hk'] at h1
          simp only [Option.some.injEq] at h1
          subst h1
          obtain ⟨m, hm, hs⟩ := hx
          rw [hm] at hsingle
          simp [hs] at hsingle
      · exact ih _ _ _ h

theorem allFind_mem_keys {s : Ctx} {k : MKey} {m : Mod} (h : s.allFind k = some m) : k ∈ s.allMods.map (·.key) := by
  unfold Ctx.allFind at h
  have h1 := List.mem_of_find?_eq_some h
  have h2 := List.find?_some h
  simp only [beq_iff_eq] at h2
  exact List.mem_map.mpr ⟨m, h1, h2⟩

/-- **`lys_unres_dep_sets_create(ctx, dep_sets, mod)`: the dependency set of `mod`.**  For a module `k` that is not single, the
    list of dependency sets ends with a set that contains `k` and every import of `k` that is not single. -/
theorem depSetsCreate_closure (s : Ctx) (k t : MKey) (m : Mod) (hm : s.allFind k = some m) (hs : m.isSingle = false)
    (hti : t ∈ m.impRes) (ht : s.nonSingle t) :
    ∃ ds ∈ depSetsCreate s (some k), k ∈ ds ∧ t ∈ ds := by
  have hkn : s.nonSingle k := ⟨m, hm, hs⟩
  obtain ⟨tm, htm, _⟩ := ht
  have ht' : s.nonSingle t := ⟨tm, htm, by assumption⟩
  unfold depSetsCreate
  dsimp only
  have hkc := singlesLoop_keeps s k hkn (2 * (s.allMods.map (·.key)).length + 1) 0 (s.allMods.map (·.key)) [] (allFind_mem_keys hm)
  have htc := singlesLoop_keeps s t ht' (2 * (s.allMods.map (·.key)).length + 1) 0 (s.allMods.map (·.key)) [] (allFind_mem_keys htm)
  cases hsl : singlesLoop s (2 * (s.allMods.map (·.key)).length + 1) 0 (s.allMods.map (·.key)) [] with
  | mk cs main =>
    rw [hsl] at hkc htc
    dsimp only at hkc htc ⊢
    have hcont : cs.contains k = true := by simpa using hkc
    rw [if_pos hcont]
    have h := createModR_imports s (2 * (s.allMods.map (·.key)).length) k t cs m hm hs hkc hti ht' htc
    cases hcr : createModR s (2 * (s.allMods.map (·.key)).length + 2) k (cs, [], []) with
    | mk cs' rest =>
      obtain ⟨ds, aux⟩ := rest
      rw [hcr] at h
      exact ⟨ds, by simp, h.1, h.2⟩

/-! ### marking: "if there is a module to compile, all the implemented modules of the dep set need to be recompiled" -/

def Ctx.flagged (s : Ctx) (k : MKey) : Bool := ((s.find k).map (·.toCompile)).getD false
def Ctx.implAt (s : Ctx) (k : MKey) : Bool := ((s.find k).map (·.implemented)).getD false

theorem find?_map_key (g : Mod → Mod) (hg : ∀ m, (g m).key = m.key) (k : MKey) : ∀ l : List Mod,
    (l.map g).find? (fun m => m.key == k) = (l.find? (fun m => m.key == k)).map g := by
  intro l
  induction l with
  | nil => rfl
  | cons a r ih =>
    simp only [List.map_cons, List.find?_cons, hg]
    split
    · rfl
    · exact ih

/-- one `markDepSet` step, seen through the lookup of a module -/
theorem markDepSet_find (s : Ctx) (ds : List MKey) (x : MKey) :
    (markDepSet s ds).find x = (s.find x).map fun m =>
      if ds.any (fun k => s.flagged k) && (ds.contains m.key && m.implemented) then { m with toCompile := true } else m := by
  unfold markDepSet
  have hflag : (ds.any fun k => ((s.find k).map (·.toCompile)).getD false) = ds.any (fun k => s.flagged k) := rfl
  rw [hflag]
  cases hany : ds.any (fun k => s.flagged k) with
  | true =>
    simp only [if_true, Bool.true_and]
    unfold Ctx.find
    exact find?_map_key _ (fun m => by split <;> rfl) x _
  | false =>
    simp only [Bool.false_eq_true, if_false, Bool.false_and]
    cases s.find x <;> rfl

theorem markDepSet_flagged_mono (s : Ctx) (ds : List MKey) (x : MKey) (h : s.flagged x = true) : (markDepSet s ds).flagged x = true := by
  unfold Ctx.flagged at h ⊢
  rw [markDepSet_find]
  cases hf : s.find x with
  | none => rw [hf] at h; cases h
  | some m =>
    rw [hf] at h
    simp only [Option.map_some, Option.getD_some] at h ⊢
    split
    · rfl
    · exact h

theorem markDepSet_implAt (s : Ctx) (ds : List MKey) (x : MKey) : (markDepSet s ds).implAt x = s.implAt x := by
  unfold Ctx.implAt
  rw [markDepSet_find]
  cases s.find x with
  | none => rfl
  | some m => simp only [Option.map_some, Option.getD_some]; split <;> rfl

theorem markDepSet_hit (s : Ctx) (ds : List MKey) (x : MKey) (hany : ds.any (fun k => s.flagged k) = true) (hx : x ∈ ds)
    (hi : s.implAt x = true) : (markDepSet s ds).flagged x = true := by
  unfold Ctx.flagged
  unfold Ctx.implAt at hi
  rw [markDepSet_find]
  cases hf : s.find x with
  | none => rw [hf] at hi; cases hi
  | some m =>
    rw [hf] at hi
    simp only [Option.map_some, Option.getD_some] at hi ⊢
    have hk : m.key = x := by
      unfold Ctx.find at hf
      have := List.find?_some hf
      simpa using this
    have hc : m.key ∈ ds := by rw [hk]; exact hx
    simp [hany, hc, hi]

theorem foldl_markDepSet_mono (x : MKey) : ∀ (dss : List (List MKey)) (s : Ctx), s.flagged x = true →
    (dss.foldl markDepSet s).flagged x = true := by
  intro dss
  induction dss with
  | nil => intro s h; exact h
  | cons d r ih => intro s h; exact ih _ (markDepSet_flagged_mono s d x h)

/-- every implemented module of a dependency set that holds a flagged module is flagged after the marking -/
theorem foldl_markDepSet_flags (ds : List MKey) (x : MKey) (hx : x ∈ ds) : ∀ (dss : List (List MKey)) (s : Ctx), ds ∈ dss →
    ds.any (fun k => s.flagged k) = true → s.implAt x = true → (dss.foldl markDepSet s).flagged x = true := by
  intro dss
  induction dss with
  | nil => intro s h; cases h
  | cons d r ih =>
    intro s hmem hany hi
    simp only [List.foldl_cons]
    rcases List.mem_cons.mp hmem with h | h
    · subst h
      exact foldl_markDepSet_mono x r _ (markDepSet_hit s ds x hany hx hi)
    · apply ih _ h
      · rw [List.any_eq_true] at hany ⊢
        obtain ⟨k, hk, hfk⟩ := hany
        exact ⟨k, hk, markDepSet_flagged_mono s d k hfk⟩
      · rw [markDepSet_implAt]; exact hi

end LyModel.Ctx
