import LyModel.Ctx.Jenkins
/-!
Every step of libyang's Jenkins one-at-a-time hash is a bijection of the 32-bit state, and the byte enters by an
addition: so two inputs of equal length that differ in exactly one byte have different hashes (algebraic proof:
`h + (h <<< k) = h * (2^k + 1)` with an odd, hence invertible, factor; `h ^^^ (h >>> k)` is inverted bit by bit from the top).
-/
namespace LyModel.Ctx.Jenkins

theorem mul_odd_inj (c inv : H) (hinv : c * inv = 1#32) {x y : H} (h : x * c = y * c) : x = y := by
  have h1 : x * c * inv = y * c * inv := by rw [h]
  rw [BitVec.mul_assoc, BitVec.mul_assoc, hinv, BitVec.mul_one, BitVec.mul_one] at h1
  exact h1

theorem add_shl_eq_mul (h : H) (k : Nat) : h + (h <<< k) = h * (1#32 + BitVec.twoPow 32 k) := by
  rw [BitVec.shiftLeft_eq_mul_twoPow, BitVec.mul_add, BitVec.mul_one]

theorem mix1_inj {x y : H} (h : mix1 x = mix1 y) : x = y := by
  unfold mix1 at h
  rw [add_shl_eq_mul, add_shl_eq_mul] at h
  exact mul_odd_inj _ 3222273025#32 (by decide) h

theorem fin1_inj {x y : H} (h : fin1 x = fin1 y) : x = y := by
  unfold fin1 at h
  rw [add_shl_eq_mul, add_shl_eq_mul] at h
  exact mul_odd_inj _ 954437177#32 (by decide) h

theorem fin3_inj {x y : H} (h : fin3 x = fin3 y) : x = y := by
  unfold fin3 at h
  rw [add_shl_eq_mul, add_shl_eq_mul] at h
  exact mul_odd_inj _ 1073709057#32 (by decide) h

/-- `x ↦ x ^^^ (x >>> k)` with `0 < k` is injective: the top `k` bits are copied, each lower bit is recovered from the
    bit `k` positions above it -/
theorem xorshift_inj (k : Nat) (hk : 0 < k) {x y : H} (h : x ^^^ (x >>> k) = y ^^^ (y >>> k)) : x = y := by
  have hbit : ∀ i, (x.getLsbD i ^^ x.getLsbD (k + i)) = (y.getLsbD i ^^ y.getLsbD (k + i)) := by
    intro i
    have := congrArg (fun v => v.getLsbD i) h
    simpa [BitVec.getLsbD_xor, BitVec.getLsbD_ushiftRight] using this
  have key : ∀ n i, 32 ≤ i + k * n → x.getLsbD i = y.getLsbD i := by
    intro n
    induction n with
    | zero =>
      intro i hi
      rw [BitVec.getLsbD_of_ge x i (by omega), BitVec.getLsbD_of_ge y i (by omega)]
    | succ m ih =>
      intro i hi
      have h1 := ih (k + i) (by rw [Nat.mul_succ] at hi; omega)
      have h2 := hbit i
      rw [h1] at h2
      cases hx : x.getLsbD i <;> cases hy : y.getLsbD i <;> cases hz : y.getLsbD (k + i) <;> simp_all
  apply BitVec.eq_of_getLsbD_eq
  intro i _
  exact key 32 i (by have : 32 ≤ k * 32 := Nat.le_mul_of_pos_left 32 hk; omega)

theorem mix2_inj {x y : H} (h : mix2 x = mix2 y) : x = y := xorshift_inj 6 (by decide) h
theorem fin2_inj {x y : H} (h : fin2 x = fin2 y) : x = y := xorshift_inj 11 (by decide) h

theorem ext_inj {a b : UInt8} (h : ext a = ext b) : a = b := by
  unfold ext at h
  have h1 := congrArg BitVec.toInt h
  rw [BitVec.toInt_signExtend_of_le (by decide), BitVec.toInt_signExtend_of_le (by decide)] at h1
  have h2 := BitVec.eq_of_toInt_eq h1
  have h3 := congrArg BitVec.toNat h2
  simp only [BitVec.toNat_ofNat] at h3
  have ha := a.toNat_lt
  have hb := b.toNat_lt
  rw [Nat.mod_eq_of_lt (by omega), Nat.mod_eq_of_lt (by omega)] at h3
  exact UInt8.toNat_inj.mp h3

/-- one absorbed byte: the new state determines the old state … -/
theorem absorb_state_inj {h h' : H} {b : UInt8} (e : absorb h b = absorb h' b) : h = h' := by
  unfold absorb at e
  exact (BitVec.add_left_inj _).mp (mix1_inj (mix2_inj e))

/-- … and, from the same state, the byte -/
theorem absorb_byte_inj {h : H} {b b' : UInt8} (e : absorb h b = absorb h b') : b = b' := by
  unfold absorb at e
  exact ext_inj ((BitVec.add_right_inj _).mp (mix1_inj (mix2_inj e)))

theorem finish_inj {h h' : H} (e : finish h = finish h') : h = h' := by
  unfold finish at e
  exact fin1_inj (fin2_inj (fin3_inj e))

theorem absorbAll_state_inj (bs : Bytes) : ∀ {h h' : H}, absorbAll h bs = absorbAll h' bs → h = h' := by
  induction bs with
  | nil => intro h h' e; exact e
  | cons b r ih =>
    intro h h' e
    simp only [absorbAll, List.foldl_cons] at e
    exact absorb_state_inj (ih e)

theorem absorbAll_append (h : H) (a b : Bytes) : absorbAll h (a ++ b) = absorbAll (absorbAll h a) b := by
  simp [absorbAll, List.foldl_append]

/-- **one changed byte changes the hash**: same prefix, same suffix, one different byte in between -/
theorem one_byte_change (h : H) (pre suf : Bytes) (b b' : UInt8) (hne : b ≠ b') :
    finish (absorbAll h (pre ++ b :: suf)) ≠ finish (absorbAll h (pre ++ b' :: suf)) := by
  intro e
  have e1 := finish_inj e
  rw [absorbAll_append, absorbAll_append] at e1
  simp only [absorbAll, List.foldl_cons] at e1
  exact hne (absorb_byte_inj (absorbAll_state_inj suf e1))

end LyModel.Ctx.Jenkins
