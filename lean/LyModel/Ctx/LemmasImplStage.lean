import LyModel.Ctx.LemmasAmend
import LyModel.Ctx.LemmasRestore
/-!
Nothing before the compilation stage touches a compiled module: `lys_parse_in` / `lys_parse_load` (at any import depth) and
`_lys_set_implemented` / `lys_implement` (features, augment / deviation targets, implementing the targets, `to_compile` marking)
leave `lys_module.compiled` of every module alone and create no dependency set; the revert of a call that failed there
frees only the compiled modules of the modules it makes non-implemented — which have none — and recompiles nothing.
-/
namespace LyModel.Ctx

abbrev KC := MKey × Option (Nat × Desc)

/-- key and compiled module (identity of the compiled nodes and content) -/
def Mod.kc (m : Mod) : KC := (m.key, m.compiled)

structure UC (c : List KC) (s : Ctx) : Prop where
  deps : s.depSets = []
  mem : ∀ m ∈ s.mods, s.creating.contains m.key = false → m.kc ∈ c

variable {c : List KC}

theorem UC.step {s s' : Ctx} (h : UC c s)
    (hm : ∀ m' ∈ s'.mods, (∃ m ∈ s.mods, m.kc = m'.kc) ∨ s'.creating.contains m'.key = true)
    (hc : ∀ k, s.creating.contains k = true → s'.creating.contains k = true) (hd : s'.depSets = s.depSets) : UC c s' := by
  refine ⟨hd.trans h.deps, ?_⟩
  intro m' hm' hcr
  rcases hm m' hm' with ⟨m, hmm, hkc⟩ | h1
  · have hk : m.key = m'.key := congrArg Prod.fst hkc
    have hcr0 : s.creating.contains m.key = false := by
      cases hb : s.creating.contains m.key with
      | false => rfl
      | true => rw [← hk, hc _ hb] at hcr; cases hcr
    rw [← hkc]; exact h.mem m hmm hcr0
  · rw [h1] at hcr; cases hcr

theorem UC.keep {s s' : Ctx} (h : UC c s) (hm : s'.mods.map Mod.kc = s.mods.map Mod.kc) (hc : s'.creating = s.creating)
    (hd : s'.depSets = s.depSets) : UC c s' := by
  refine h.step (fun m' hm' => Or.inl ?_) (fun k hk => hc ▸ hk) hd
  have : m'.kc ∈ s.mods.map Mod.kc := hm ▸ List.mem_map_of_mem hm'
  obtain ⟨m, hmm, he⟩ := List.mem_map.mp this
  exact ⟨m, hmm, he⟩

theorem upd_kc (s : Ctx) (k : MKey) (f : Mod → Mod) (hf : ∀ m, (f m).kc = m.kc) :
    (s.upd k f).mods.map Mod.kc = s.mods.map Mod.kc := by
  unfold Ctx.upd
  rw [List.map_map]
  exact List.map_congr_left fun m _ => by simp only [Function.comp]; split; exact hf m; rfl

theorem UC.upd {s : Ctx} (h : UC c s) (k : MKey) (f : Mod → Mod) (hf : ∀ m, (f m).kc = m.kc) : UC c (s.upd k f) :=
  h.keep (upd_kc s k f hf) rfl rfl

theorem presUC_updM (k : MKey) (f : Mod → Mod) (hf : ∀ m, (f m).kc = m.kc) : Pres (UC c) (updM k f) :=
  pres_modS fun _ h => h.upd k f hf

theorem UC.tick {s : Ctx} (n : Nat) (h : UC c s) : UC c (tick n s) := h.keep rfl rfl rfl

theorem UC.createMod {s : Ctx} (h : UC c s) (src : ModSrc) (l : Latest) : UC c (createMod src l s) := by
  unfold LyModel.Ctx.createMod
  apply UC.tick
  refine h.step ?_ ?_ rfl
  · intro m' hm'
    simp only [List.mem_append, List.mem_singleton] at hm'
    rcases hm' with hm' | rfl
    · exact Or.inl ⟨m', hm', rfl⟩
    · right; simp [newMod, Mod.key]
  · intro k hk
    simp only [List.contains_append, hk, Bool.true_or]

theorem UC.enterMod {s : Ctx} (h : UC c s) (src : ModSrc) (old : Option MKey) (l : Latest) : UC c (enterMod src old l s) := by
  unfold LyModel.Ctx.enterMod
  cases old with
  | none => exact h.createMod src l
  | some ok => exact (h.upd ok (fun m => { m with latest := { m.latest with rev := false, dirs := false } }) (fun _ => rfl)).createMod src l

theorem UC.markImpl {s : Ctx} (h : UC c s) (k : MKey) : UC c (markImpl k s) := by
  unfold LyModel.Ctx.markImpl
  apply UC.tick
  exact (h.upd k (fun x => { x with implemented := true, toCompile := true }) (fun _ => rfl)).keep rfl rfl rfl

theorem setFeatures_kc {m m' : Mod} {arg : FeatArg} {b : Bool} (h : setFeatures m arg = some (m', b)) : m'.kc = m.kc := by
  unfold setFeatures at h
  split at h
  · simp at h; obtain ⟨rfl, _⟩ := h; rfl
  · simp at h; obtain ⟨rfl, _⟩ := h; rfl
  · split at h
    · simp at h; obtain ⟨rfl, _⟩ := h; rfl
    · dsimp only at h
      split at h
      · simp at h; obtain ⟨rfl, _⟩ := h; rfl
      · simp at h

theorem UC.setFeatsPrim {s : Ctx} (h : UC c s) (k : MKey) (arg : FeatArg) : UC c (setFeatsPrim k arg s) := by
  unfold LyModel.Ctx.setFeatsPrim
  refine h.upd k _ (fun m => ?_)
  split
  · next m' b heq => exact setFeatures_kc heq
  · rfl

theorem UC.setFeatsFlag {s : Ctx} (h : UC c s) (k : MKey) (arg : FeatArg) : UC c (setFeatsFlag k arg s) := by
  unfold LyModel.Ctx.setFeatsFlag
  apply UC.tick
  refine h.upd k _ (fun m => ?_)
  split
  · next m' b heq =>
    have := setFeatures_kc heq
    exact this
  · rfl

theorem presUC_hasCompiledImportR : ∀ fuel k, Pres (UC c) (hasCompiledImportR fuel k) := by
  intro fuel
  induction fuel with
  | zero => intro k; exact pres_pure false
  | succ m ih =>
    intro k
    unfold hasCompiledImportR
    refine pres_getBind' fun s => ?_
    split
    · exact pres_pure _
    · refine pres_anyS fun x => pres_getBind' fun s1 => ?_
      split
      · exact pres_pure _
      · split
        · exact pres_pure _
        · split
          · exact pres_bind (presUC_updM _ _ (by intro m; first | rfl | (split <;> rfl))) (fun _ => pres_pure _)
          · exact ih x

theorem presUC_markTarget (k : MKey) (isAug : Bool) (acc : List MKey) (x : Bytes) : Pres (UC c) (markTarget k isAug acc x) := by
  unfold markTarget
  refine pres_getBind' fun s => ?_
  split
  · exact pres_pure _
  · split
    · exact pres_pure _
    · split
      · exact pres_pure _
      · exact pres_bind (presUC_updM _ _ (by intro m; first | rfl | (split <;> rfl))) (fun _ => pres_pure _)

theorem presUC_foldTargets (k : MKey) (isAug : Bool) : ∀ (l : List Bytes) (acc : List MKey),
    Pres (UC c) (foldTargets k isAug l acc) := by
  intro l
  induction l with
  | nil => intro acc; exact pres_pure acc
  | cons x r ih => intro acc; unfold foldTargets; exact pres_bind (presUC_markTarget k isAug acc x) (fun a => ih a)

theorem presUC_implementCore : ∀ fuel k, Pres (UC c) (implementCore fuel k) := by
  intro fuel
  induction fuel with
  | zero => intro k; exact pres_failS _
  | succ m ih =>
    intro k
    unfold implementCore
    refine pres_getBind' fun s => ?_
    split
    · exact pres_failS _
    · split
      · exact pres_pure _
      · split
        · exact pres_failS _
        · refine pres_bind (pres_modS fun _ h => h.markImpl k) (fun _ => ?_)
          split
          · exact pres_failS _
          · refine pres_bind (presUC_foldTargets _ _ _ _) (fun _ => ?_)
            refine pres_bind (presUC_foldTargets _ _ _ _) (fun _ => ?_)
            refine pres_bind (pres_foldlS (fun rec x => ?_) _) (fun _ => ?_)
            · split
              · exact pres_pure _
              · refine pres_getBind' fun s1 => ?_
                split
                · exact pres_pure _
                · split
                  · exact pres_bind (ih x) (fun _ => pres_pure _)
                  · split
                    · exact pres_bind (presUC_updM _ _ (by intro m; first | rfl | (split <;> rfl))) (fun _ => pres_pure _)
                    · exact pres_pure _
            · split
              · exact pres_pure _
              · exact presUC_hasCompiledImportR _ _

theorem presUC_implement (k : MKey) (arg : FeatArg) : Pres (UC c) (implement k arg) := by
  unfold implement
  refine pres_getBind' fun s => ?_
  split
  · exact pres_failS _
  · split
    · exact pres_failS _
    · split
      · exact pres_failS _
      · exact pres_bind (pres_modS fun _ h => h.setFeatsPrim k arg) (fun _ => presUC_implementCore _ _)

/-- `_lys_set_implemented` -/
theorem presUC_setImplementedInner (k : MKey) (arg : FeatArg) : Pres (UC c) (setImplementedInner k arg) := by
  unfold setImplementedInner
  refine pres_getBind' fun s => ?_
  split
  · exact pres_failS _
  · split
    · split
      · exact pres_failS _
      · split
        · exact pres_modS fun _ h => h.setFeatsFlag k arg
        · exact pres_pure _
    · exact pres_bind (presUC_implement k arg) (fun _ => pres_pure _)

theorem presUC_finishParse (src : ModSrc) (k : MKey) : Pres (UC c) (finishParse src k) := by
  unfold finishParse
  refine pres_bind (presUC_updM _ _ (by intro m; first | rfl | (split <;> rfl))) (fun _ => ?_)
  split
  · exact pres_failS _
  · exact pres_bind (presUC_updM _ _ (by intro m; first | rfl | (split <;> rfl))) (fun _ => pres_pure _)

theorem presUC_loadFinish (rev : Option Bytes) (got : Option MKey) (ml : Option Mod) : Pres (UC c) (loadFinish rev got ml) := by
  unfold loadFinish
  split
  · refine pres_bind ?_ (fun _ => pres_getBind' fun s => pres_bind ?_ (fun _ => pres_pure _))
    · split
      · exact presUC_updM _ _ (by intro m; first | rfl | (split <;> rfl))
      · exact pres_pure _
    · split
      · exact presUC_updM _ _ (by intro m; first | rfl | (split <;> rfl))
      · exact pres_pure _
  · split
    · exact pres_failS _
    · exact pres_bind (presUC_updM _ _ (by intro m; first | rfl | (split <;> rfl))) (fun _ => pres_pure _)

/-- `lys_parse_in` / `lys_parse_load` -/
theorem presUC_parse : ∀ fuel,
    (∀ src chk, Pres (UC c) (parseIn fuel src chk)) ∧ (∀ name rev, Pres (UC c) (parseLoad fuel name rev)) := by
  intro fuel
  induction fuel with
  | zero =>
    refine ⟨fun _ _ => ?_, fun _ _ => ?_⟩
    · unfold parseIn; exact pres_failS _
    · unfold parseLoad; exact pres_failS _
  | succ m ih =>
    obtain ⟨ihIn, ihLoad⟩ := ih
    refine ⟨fun src chk => ?_, fun name rev => ?_⟩
    · unfold parseIn
      split
      · exact pres_failS _
      · refine pres_getBind' fun s => ?_
        split
        · exact pres_failS _
        · exact pres_pure _
        · refine pres_bind (pres_modS fun _ h => h.enterMod _ _ _) (fun _ => ?_)
          refine pres_bind (pres_forEach (fun x => ?_)) (fun _ => presUC_finishParse _ _)
          refine pres_bind (ihLoad _ _) (fun y => pres_bind ?_ (fun _ => presUC_updM _ _ (by intro m; first | rfl | (split <;> rfl))))
          split
          · exact presUC_updM _ _ (by intro m; first | rfl | (split <;> rfl))
          · exact pres_pure _
    · unfold parseLoad
      refine pres_getBind' fun s => ?_
      refine pres_bind ?_ (fun k => ?_)
      · split
        · exact pres_pure _
        · refine pres_bind ?_ (fun got => presUC_loadFinish _ _ _)
          split
          · exact pres_pure _
          · split
            · exact pres_attemptLoad _ (ihIn _ _)
            · exact pres_pure _
      · unfold circularCheck
        refine pres_getBind' fun s1 => ?_
        split
        · exact pres_failS _
        · exact pres_pure _

/-! ### the revert of a call that failed before the compilation stage -/

theorem compileAll_nil {s : Ctx} (h : s.depSets = []) : (compileAll s).2 = s := by
  simp [compileAll, bind_run, getS_run, h, forEach, pure_run]

theorem unimplMod_compiled (m : Mod) (k : MKey) :
    (unimplMod m k).compiled = (if m.key == k then none else m.compiled) ∧ (unimplMod m k).key = m.key := by
  unfold unimplMod
  dsimp only
  have hkey : ({ m with augBy := eraseOne k m.augBy, devBy := eraseOne k m.devBy } : Mod).key = m.key := rfl
  rw [hkey]
  split <;> exact ⟨rfl, rfl⟩

theorem foldl_unimplMod_compiled (imp : List MKey) : ∀ m : Mod,
    (imp.foldl unimplMod m).compiled = if imp.contains m.key then none else m.compiled := by
  induction imp with
  | nil => intro m; rfl
  | cons k r ih =>
    intro m
    simp only [List.foldl_cons]
    obtain ⟨h1, h2⟩ := unimplMod_compiled m k
    rw [ih, h1, h2, List.contains_cons]
    cases hb : (m.key == k) <;> cases hr : r.contains m.key <;> simp

theorem foldl_unimplement_depSets (imp : List MKey) : ∀ s : Ctx, (imp.foldl unimplement s).depSets = s.depSets := by
  induction imp with
  | nil => intro s; rfl
  | cons k r ih => intro s; simp only [List.foldl_cons]; rw [ih]; rfl

theorem revertCore_depSets {s : Ctx} (h : s.depSets = []) : (revertCore s).depSets = [] := by
  unfold revertCore
  obtain ⟨g, _, e⟩ := fixLatest_spec (s.implementing.foldl unimplement s) (removeCreated (s.implementing.foldl unimplement s))
  rw [e]
  simp [removeCreated, foldl_unimplement_depSets, h]

theorem revertCore_compiled (s : Ctx) : ∀ m' ∈ (revertCore s).mods, ∃ m ∈ s.mods, s.creating.contains m.key = false ∧
    m'.key = m.key ∧ m'.compiled = if s.implementing.contains m.key then none else m.compiled := by
  intro m' hm'
  unfold revertCore at hm'
  obtain ⟨g, hg, e⟩ := fixLatest_spec (s.implementing.foldl unimplement s) (removeCreated (s.implementing.foldl unimplement s))
  rw [e] at hm'
  obtain ⟨h1, h2⟩ := foldl_unimplement s.implementing s
  simp only [removeCreated, h1, h2, List.mem_map, List.mem_filter] at hm'
  obtain ⟨m1, ⟨⟨m, hm, rfl⟩, hcr⟩, rfl⟩ := hm'
  have hb := hg (s.implementing.foldl unimplMod m)
  have hkey : (s.implementing.foldl unimplMod m).key = m.key := Mod.key_eq_of_src (foldl_unimplMod_src _ m)
  refine ⟨m, hm, ?_, ?_, ?_⟩
  · rw [hkey] at hcr; simpa using hcr
  · rw [hb.key, hkey]
  · rw [hb.compiled, foldl_unimplMod_compiled]

theorem map_kc_eq : ∀ (l : List Mod) (c : List KC), l.map (·.key) = c.map (·.1) → (c.map (·.1)).Nodup →
    (∀ m' ∈ l, ∃ x ∈ c, x.1 = m'.key ∧ m'.compiled = x.2) → l.map Mod.kc = c := by
  intro l
  induction l with
  | nil => intro c h _ _; cases c with
    | nil => rfl
    | cons _ _ => simp at h
  | cons m r ih =>
    intro c hk hn hx
    cases c with
    | nil => simp at hk
    | cons b t =>
      simp only [List.map_cons, List.cons.injEq] at hk
      obtain ⟨hk1, hk2⟩ := hk
      simp only [List.map_cons, List.nodup_cons] at hn
      obtain ⟨x1, hx1, hx1k, hx1c⟩ := hx m (List.mem_cons_self ..)
      have e1 : x1 = b := by
        rcases List.mem_cons.mp hx1 with rfl | hxt
        · rfl
        · exact absurd ((hx1k.trans hk1) ▸ List.mem_map_of_mem (f := fun y : KC => y.1) hxt) hn.1
      rw [e1] at hx1c
      have hrest := ih t hk2 hn.2 (by
        intro m' hm'
        have hkm : m'.key ∈ t.map (·.1) := hk2 ▸ List.mem_map_of_mem (f := fun y : Mod => y.key) hm'
        obtain ⟨y, hy, hyk, hyc⟩ := hx m' (List.mem_cons_of_mem _ hm')
        rcases List.mem_cons.mp hy with rfl | hyt
        · exact absurd (hyk ▸ hkm) hn.1
        · exact ⟨y, hyt, hyk, hyc⟩)
      simp only [List.map_cons, List.cons.injEq]
      refine ⟨?_, hrest⟩
      show (m.key, m.compiled) = b
      rw [hx1c, hk1]

/-- **the revert of a call that failed before anything was compiled gives back the very compiled modules** -/
theorem revert_kc {mk : Option MKey} {s₀ s1 : Ctx} (hc : s₀.creating = []) (hi : s₀.implementing = [])
    (hnd : (s₀.mods.map (·.key)).Nodup) (h : Inv mk (restore mk s₀) s1) (hu : UC (s₀.mods.map Mod.kc) s1)
    (hnone : ∀ x ∈ s₀.mods.map Mod.kc, s1.implementing.contains x.1 = true → x.2 = none) :
    (revert s1).mods.map Mod.kc = s₀.mods.map Mod.kc := by
  have hj : J mk (s₀.mods.map (coreM mk)) (revertCore s1) := by
    unfold J
    rw [revertCore_cores, h.restore, restore_quiescent s₀ hc hi]
  have hkeys : (revertCore s1).mods.map (·.key) = (s₀.mods.map Mod.kc).map (·.1) := by
    have := congrArg (List.map Core.key) hj
    simp only [List.map_map] at this ⊢
    exact this
  have hcore : (revertCore s1).mods.map Mod.kc = s₀.mods.map Mod.kc := by
    apply map_kc_eq _ _ hkeys
    · simp only [List.map_map]; exact hnd
    · intro m' hm'
      obtain ⟨m, hm, hcr, hk, hcomp⟩ := revertCore_compiled s1 m' hm'
      have hx := hu.mem m hm hcr
      refine ⟨m.kc, hx, hk.symm, ?_⟩
      rw [hcomp]
      split
      · next hin => exact (hnone m.kc hx hin).symm
      · rfl
  rw [revert_eq]
  split
  · exact hcore
  · rw [compileAll_nil (revertCore_depSets hu.deps)]; exact hcore

end LyModel.Ctx
