import LyModel.Ctx.LemmasPres
/-!
The rollback invariant of a schema operation.

`restore mk s` is what the two loops of `lys_unres_glob_revert` will leave of the module list of `s`: the modules
that are not in `creating`, each with `implemented` cleared when it is in `implementing`.  An operation keeps
`restore` constant from its first step to the point of failure (`Inv`), whatever it does to `latest_revision`,
`to_compile`, the compiled modules, `augmented_by` / `deviated_by`, the counter — with one exception, the feature
flags of the module the `features` argument is applied to (`mk` masks that module's features; `mk = none`: no mask).
-/
namespace LyModel.Ctx

/-- the part of a module that a failed operation has to give back unchanged -/
structure Core where
  src : ModSrc
  implemented : Bool
  feats : List Feat
  subFeats : List (List Feat)
  impRes : List MKey
deriving DecidableEq, Repr

def Mod.core (m : Mod) : Core := ⟨m.src, m.implemented, m.feats, m.subFeats, m.impRes⟩

def Mod.restoredCore (imp : List MKey) (mk : Option MKey) (m : Mod) : Core :=
  { src := m.src, implemented := m.implemented && !imp.contains m.key,
    feats := if mk = some m.key then [] else m.feats,
    subFeats := if mk = some m.key then [] else m.subFeats, impRes := m.impRes }

def restore (mk : Option MKey) (s : Ctx) : List Core :=
  (s.mods.filter fun m => !s.creating.contains m.key).map (Mod.restoredCore s.implementing mk)

structure Inv (mk : Option MKey) (c₀ : List Core) (s : Ctx) : Prop where
  restore : restore mk s = c₀
  nodup : (s.mods.map (·.key)).Nodup
  flag : ∀ m ∈ s.mods, m.toCompile = true → m.implemented = true

theorem Mod.key_eq_of_src {m m' : Mod} (h : m'.src = m.src) : m'.key = m.key := by
  simp [Mod.key, h]

/-- only `mods`, `creating`, `implementing` matter -/
theorem Inv.congr {mk c₀} {s s' : Ctx} (h : Inv mk c₀ s) (hm : s'.mods = s.mods) (hc : s'.creating = s.creating)
    (hi : s'.implementing = s.implementing) : Inv mk c₀ s' := by
  refine ⟨?_, ?_, ?_⟩
  · rw [← h.restore]; simp [LyModel.Ctx.restore, hm, hc, hi]
  · rw [hm]; exact h.nodup
  · rw [hm]; exact h.flag

/-- a per-module change that keeps `src` and whatever `restoredCore` looks at (or concerns a module being created) -/
theorem Inv.map {mk c₀} {s : Ctx} (g : Mod → Mod) (h : Inv mk c₀ s)
    (hsrc : ∀ m, (g m).src = m.src)
    (hcore : ∀ m ∈ s.mods, s.creating.contains m.key = false →
        Mod.restoredCore s.implementing mk (g m) = Mod.restoredCore s.implementing mk m)
    (hflag : ∀ m ∈ s.mods, (g m).toCompile = true → (g m).implemented = true) :
    Inv mk c₀ { s with mods := s.mods.map g } := by
  have hkey : ∀ m, (g m).key = m.key := fun m => Mod.key_eq_of_src (hsrc m)
  refine ⟨?_, ?_, ?_⟩
  · rw [← h.restore]
    simp only [LyModel.Ctx.restore, List.filter_map, List.map_map]
    have : (fun m => !s.creating.contains m.key) ∘ g = fun m => !s.creating.contains m.key := by
      funext m; simp [Function.comp, hkey]
    rw [this]
    apply List.map_congr_left
    intro m hm
    have hm' := List.mem_filter.mp hm
    simp only [Function.comp]
    apply hcore m hm'.1
    simpa using hm'.2
  · simp only [List.map_map]
    have : (fun m : Mod => m.key) ∘ g = fun m => m.key := by funext m; simp [Function.comp, hkey]
    rw [this]; exact h.nodup
  · intro m hm
    simp only [List.mem_map] at hm
    obtain ⟨m0, hm0, rfl⟩ := hm
    exact hflag m0 hm0

theorem upd_eq_map (s : Ctx) (k : MKey) (f : Mod → Mod) :
    s.upd k f = { s with mods := s.mods.map fun m => if m.key == k then f m else m } := rfl

/-- `upd` with a function that touches nothing a rollback must restore -/
theorem Inv.upd {mk c₀} {s : Ctx} (k : MKey) (f : Mod → Mod) (h : Inv mk c₀ s)
    (hsrc : ∀ m, (f m).src = m.src)
    (hcore : ∀ m ∈ s.mods, m.key = k → s.creating.contains k = false →
        Mod.restoredCore s.implementing mk (f m) = Mod.restoredCore s.implementing mk m)
    (hflag : ∀ m ∈ s.mods, m.key = k → (f m).toCompile = true → (f m).implemented = true) :
    Inv mk c₀ (s.upd k f) := by
  rw [upd_eq_map]
  apply Inv.map _ h
  · intro m; split <;> simp [hsrc]
  · intro m hm hc
    split
    · next hk => have hk' : m.key = k := by simpa using hk
                 exact hcore m hm hk' (hk' ▸ hc)
    · rfl
  · intro m hm
    split
    · next hk => exact hflag m hm (by simpa using hk)
    · exact h.flag m hm

theorem find_none_iff {s : Ctx} {k : MKey} : s.find k = none ↔ ∀ m ∈ s.mods, m.key ≠ k := by
  simp [Ctx.find, List.find?_eq_none]

theorem find_some_mem {s : Ctx} {k : MKey} {m : Mod} (h : s.find k = some m) : m ∈ s.mods ∧ m.key = k := by
  unfold Ctx.find at h
  have h1 := List.mem_of_find?_eq_some h
  have h2 := List.find?_some h
  exact ⟨h1, by simpa using h2⟩

theorem nodup_map_inj {α β : Type} {f : α → β} : ∀ {l : List α}, (l.map f).Nodup → ∀ {a b : α}, a ∈ l → b ∈ l → f a = f b → a = b
  | [], _, _, _, ha, _, _ => by cases ha
  | x :: r, h, a, b, ha, hb, hab => by
    simp only [List.map_cons, List.nodup_cons, List.mem_map, not_exists, not_and] at h
    simp only [List.mem_cons] at ha hb
    rcases ha with rfl | ha <;> rcases hb with rfl | hb
    · rfl
    · exact absurd hab.symm (h.1 b hb)
    · exact absurd hab (h.1 a ha)
    · exact nodup_map_inj h.2 ha hb hab

/-! ## the primitive steps -/

theorem Inv.tick {mk c₀} {s : Ctx} (n : Nat) (h : Inv mk c₀ s) : Inv mk c₀ (tick n s) := h.congr rfl rfl rfl

theorem Inv.createMod {mk c₀} {s : Ctx} (src : ModSrc) (l : Latest) (h : Inv mk c₀ s)
    (hnew : s.find (src.name, src.rev) = none) : Inv mk c₀ (createMod src l s) := by
  have hne := find_none_iff.mp hnew
  unfold LyModel.Ctx.createMod
  apply Inv.tick
  refine ⟨?_, ?_, ?_⟩
  · rw [← h.restore]
    simp only [LyModel.Ctx.restore, List.filter_append]
    have h1 : (List.filter (fun m => !(s.creating ++ [(src.name, src.rev)]).contains m.key) s.mods)
        = List.filter (fun m => !s.creating.contains m.key) s.mods := by
      apply List.filter_congr
      intro m hm
      have := hne m hm
      simp [List.contains_append, this]
    rw [h1]
    simp [Mod.key, newMod]
  · simp only [List.map_append, List.map_cons, List.map_nil]
    rw [List.nodup_append]
    refine ⟨h.nodup, by simp, ?_⟩
    intro a ha b hb
    simp only [List.mem_map] at ha
    obtain ⟨m, hm, rfl⟩ := ha
    simp only [List.mem_singleton] at hb
    subst hb
    intro heq
    exact hne m hm (by simpa [Mod.key, newMod] using heq)
  · intro m hm
    simp only [List.mem_append, List.mem_singleton] at hm
    rcases hm with hm | rfl
    · exact h.flag m hm
    · simp [newMod]

theorem Inv.markImpl {mk c₀} {s : Ctx} (k : MKey) (m : Mod) (h : Inv mk c₀ s)
    (hf : s.find k = some m) (hni : m.implemented = false) : Inv mk c₀ (markImpl k s) := by
  obtain ⟨hmem, hkey⟩ := find_some_mem hf
  -- every module with key k is m
  have huniq : ∀ m' ∈ s.mods, m'.key = k → m' = m := by
    intro m' hm' hk'
    exact nodup_map_inj h.nodup hm' hmem (by rw [hk', hkey])
  unfold LyModel.Ctx.markImpl
  apply Inv.tick
  refine ⟨?_, ?_, ?_⟩
  · rw [← h.restore]
    simp only [LyModel.Ctx.restore, Ctx.upd, List.filter_map, List.map_map]
    have hfil : ((fun m' : Mod => !s.creating.contains m'.key) ∘ fun m' => if (m'.key == k) = true then
        { m' with implemented := true, toCompile := true } else m') = fun m' => !s.creating.contains m'.key := by
      funext m'; simp only [Function.comp]; split <;> rfl
    rw [hfil]
    apply List.map_congr_left
    intro m' hm'
    have hm'' := (List.mem_filter.mp hm').1
    simp only [Function.comp]
    by_cases hk : m'.key = k
    · have : m' = m := huniq m' hm'' hk
      subst this
      have hb : (m'.key == k) = true := by simpa using hk
      have hkey' : ({ m' with implemented := true, toCompile := true } : Mod).key = m'.key := rfl
      simp only [hb, if_true, Mod.restoredCore, hkey', hni, List.contains_append]
      simp [hk]
    · have hk' : (m'.key == k) = false := by simpa using hk
      simp only [hk', Bool.false_eq_true, if_false]
      simp only [Mod.restoredCore, List.contains_append]
      simp [hk]
  · simp only [Ctx.upd, List.map_map]
    have : ((fun m : Mod => m.key) ∘ fun m' => if (m'.key == k) = true then
        { m' with implemented := true, toCompile := true } else m') = fun m => m.key := by
      funext m'; simp only [Function.comp]; split <;> rfl
    rw [this]; exact h.nodup
  · intro m' hm'
    simp only [Ctx.upd, List.mem_map] at hm'
    obtain ⟨m0, hm0, rfl⟩ := hm'
    split
    · intro _; rfl
    · exact h.flag m0 hm0

theorem setFeatures_src {m m' : Mod} {arg : FeatArg} {c : Bool} (h : setFeatures m arg = some (m', c)) :
    m'.src = m.src ∧ m'.implemented = m.implemented ∧ m'.impRes = m.impRes ∧ m'.toCompile = m.toCompile := by
  unfold setFeatures at h
  split at h
  · simp at h; obtain ⟨rfl, _⟩ := h; simp
  · simp at h; obtain ⟨rfl, _⟩ := h; simp [Mod.mapFeats]
  · split at h
    · simp at h; obtain ⟨rfl, _⟩ := h; simp [Mod.mapFeats]
    · dsimp only at h
      split at h
      · simp at h; obtain ⟨rfl, _⟩ := h; simp [Mod.mapFeats]
      · simp at h

/-- the feature flags of the masked module are free -/
theorem Inv.setFeatsPrim {c₀} {s : Ctx} (k : MKey) (arg : FeatArg) (h : Inv (some k) c₀ s) :
    Inv (some k) c₀ (setFeatsPrim k arg s) := by
  unfold LyModel.Ctx.setFeatsPrim
  apply Inv.upd k _ h
  · intro m
    split
    · next m' c heq => exact (setFeatures_src heq).1
    · rfl
  · intro m _ hk _
    split
    · next m' c heq =>
      obtain ⟨h1, h2, h3, _⟩ := setFeatures_src heq
      have hk' : m'.key = k := by rw [Mod.key_eq_of_src h1, hk]
      simp [Mod.restoredCore, h1, h2, h3, hk, hk']
    · rfl
  · intro m hm _
    split
    · next m' c heq =>
      obtain ⟨_, h2, _, h4⟩ := setFeatures_src heq
      rw [h2, h4]; exact h.flag m hm
    · exact h.flag m hm

theorem setFeatsPrim_none (k : MKey) (s : Ctx) : setFeatsPrim k none s = s := by
  simp [LyModel.Ctx.setFeatsPrim, Ctx.upd, setFeatures]

/-- modules being created may change in any way that keeps their source -/
theorem Inv.updCreating {mk c₀} {s : Ctx} (k : MKey) (f : Mod → Mod) (h : Inv mk c₀ s)
    (hsrc : ∀ m, (f m).src = m.src) (hk : k ∈ s.creating)
    (hflag : ∀ m ∈ s.mods, m.key = k → (f m).toCompile = true → (f m).implemented = true) :
    Inv mk c₀ (s.upd k f) := by
  apply Inv.upd k f h hsrc _ hflag
  intro m _ _ hc
  have : s.creating.contains k = true := by simpa using hk
  rw [this] at hc; cases hc

end LyModel.Ctx
