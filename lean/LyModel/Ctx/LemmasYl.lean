import LyModel.Ctx.LemmasCount
import LyModel.Ctx.LemmasInv
import LyModel.Ctx.Yl
/-!
The repaired change counter (F133): with `change_count++` in `lys_implement` and for a feature change of an implemented module,
the forward part of every operation keeps "the parameters are those the context started with, the number of increments did
not go down, and as long as no increment happened the yang-library data of the context is what it was".
-/
namespace LyModel.Ctx

/-- relative to a starting point with parameters `g`, yang-library data `y` and `t` increments (the last clause is about the
    repaired code only) -/
structure YT (g : Cfg) (y : YlData) (t : Nat) (s : Ctx) : Prop where
  cfg : s.cfg = g
  mono : t ≤ s.ticks
  same : g.countsImplement = true → s.ticks = t → ylGen s = y

variable {g : Cfg} {y : YlData} {t : Nat}

/-- what the yang-library data of a context shows of a module: name, revision, implemented, and for an implemented module its
    enabled features -/
def Mod.yv (m : Mod) : Bytes × Bytes × Bool × List Bytes := (m.src.name, m.src.rev, m.implemented, if m.implemented then m.enabledNames else [])

theorem ylGen_of_cores {s s' : Ctx} (h : s'.mods.map Mod.yv = s.mods.map Mod.yv) : ylGen s' = ylGen s := by
  have key : ∀ u : Ctx, ylGen u =
      { modules := ((u.mods.map Mod.yv).filter (·.2.2.1)).map fun x => { name := x.1, rev := x.2.1, feats := x.2.2.2 },
        importOnly := ((u.mods.map Mod.yv).filter (fun x => !x.2.2.1)).map fun x => (x.1, x.2.1) } := by
    intro u
    simp only [ylGen, List.filter_map, List.map_map, YlData.mk.injEq]
    constructor
    · apply List.map_congr_left
      intro m hm
      have := (List.mem_filter.mp hm).2
      simp only [Function.comp, Mod.yv] at this ⊢
      simp [this]
    · rfl
  rw [key, key, h]

/-- a step that changes nothing the yang-library data or the counter look at -/
theorem YT.keep {s s' : Ctx} (h : YT g y t s) (hc : s'.cfg = s.cfg) (ht : s'.ticks = s.ticks)
    (hm : s'.mods.map Mod.yv = s.mods.map Mod.yv) : YT g y t s' :=
  ⟨hc.trans h.cfg, by rw [ht]; exact h.mono, fun hg h1 => by rw [ylGen_of_cores hm]; exact h.same hg (ht ▸ h1)⟩

/-- once an increment happened only the parameters and the counter matter -/
theorem YT.counted {s s' : Ctx} (h : YT g y t s) (hc : s'.cfg = s.cfg) (ht : s.ticks < s'.ticks) : YT g y t s' :=
  ⟨hc.trans h.cfg, by have := h.mono; omega, fun _ h1 => by have := h.mono; omega⟩

/-- a step of the code before the repair that the repaired code counts -/
theorem YT.countedIf {s s' : Ctx} (h : YT g y t s) (hc : s'.cfg = s.cfg)
    (ht : s'.ticks = s.ticks + (if s.cfg.countsImplement then 1 else 0)) : YT g y t s' := by
  cases hgc : g.countsImplement with
  | true => exact h.counted hc (by rw [ht, h.cfg, hgc]; simp)
  | false =>
    refine ⟨hc.trans h.cfg, ?_, fun hg => by rw [hgc] at hg; cases hg⟩
    rw [ht]; have := h.mono; omega

theorem YT.tick {s : Ctx} (k : Nat) (h : YT g y t s) : YT g y t (tick k s) := by
  cases k with
  | zero => exact h.keep rfl rfl rfl
  | succ k => exact h.counted rfl (by simp [LyModel.Ctx.tick])

theorem upd_cores (s : Ctx) (k : MKey) (f : Mod → Mod) (hf : ∀ m, (f m).yv = m.yv) :
    (s.upd k f).mods.map Mod.yv = s.mods.map Mod.yv := by
  simp only [Ctx.upd, List.map_map]
  apply List.map_congr_left
  intro m _
  simp only [Function.comp]
  split
  · exact hf m
  · rfl

theorem YT.upd {s : Ctx} (h : YT g y t s) (k : MKey) (f : Mod → Mod) (hf : ∀ m, (f m).yv = m.yv) : YT g y t (s.upd k f) :=
  h.keep rfl rfl (upd_cores s k f hf)

theorem presYT_updM (k : MKey) (f : Mod → Mod) (hf : ∀ m, (f m).yv = m.yv) : Pres (YT g y t) (updM k f) :=
  pres_modS fun _ h => h.upd k f hf

theorem YT.createMod {s : Ctx} (h : YT g y t s) (src : ModSrc) (l : Latest) : YT g y t (createMod src l s) :=
  h.counted rfl (by simp [LyModel.Ctx.createMod, LyModel.Ctx.tick])

theorem YT.enterMod {s : Ctx} (h : YT g y t s) (src : ModSrc) (old : Option MKey) (l : Latest) :
    YT g y t (enterMod src old l s) := by
  unfold LyModel.Ctx.enterMod
  cases old with
  | none => exact h.createMod src l
  | some ok =>
    exact (h.upd ok (fun m => { m with latest := { m.latest with rev := false, dirs := false } }) (fun _ => rfl)).createMod src l

theorem YT.installCompiled {s : Ctx} (h : YT g y t s) (k : MKey) : YT g y t (installCompiled k s) := by
  unfold LyModel.Ctx.installCompiled
  split
  · exact h
  · next m _ =>
    exact (h.upd k (fun m' => { m' with compiled := some (s.nextId, s.descOf m) }) (fun _ => rfl)).keep rfl rfl rfl

theorem markDepSet_cores (s : Ctx) (ds : List MKey) : (markDepSet s ds).cfg = s.cfg ∧ (markDepSet s ds).ticks = s.ticks ∧
    (markDepSet s ds).mods.map Mod.yv = s.mods.map Mod.yv := by
  unfold markDepSet
  split
  · refine ⟨rfl, rfl, ?_⟩
    simp only [List.map_map]
    apply List.map_congr_left
    intro m _
    simp only [Function.comp]
    split <;> rfl
  · exact ⟨rfl, rfl, rfl⟩

theorem foldMarkDepSet_cores (dss : List (List MKey)) : ∀ s : Ctx, (dss.foldl markDepSet s).cfg = s.cfg ∧
    (dss.foldl markDepSet s).ticks = s.ticks ∧ (dss.foldl markDepSet s).mods.map Mod.yv = s.mods.map Mod.yv := by
  induction dss with
  | nil => intro s; exact ⟨rfl, rfl, rfl⟩
  | cons d r ih =>
    intro s
    obtain ⟨a1, a2, a3⟩ := ih (markDepSet s d)
    obtain ⟨b1, b2, b3⟩ := markDepSet_cores s d
    exact ⟨a1.trans b1, a2.trans b2, a3.trans b3⟩

theorem presYT_depSetsM (mod : Option MKey) : Pres (YT g y t) (depSetsM mod) := by
  unfold depSetsM
  apply pres_modS
  intro s h
  obtain ⟨a1, a2, a3⟩ := foldMarkDepSet_cores (depSetsCreate s mod) s
  exact h.keep a1 a2 a3

theorem presYT_compileChecked (k : MKey) : Pres (YT g y t) (compileChecked k) := by
  unfold compileChecked
  refine pres_getBind' fun s => ?_
  split
  · exact pres_pure _
  · split
    · exact pres_bind (pres_modS fun _ h => h.tick 1) (fun _ => pres_failS _)
    · exact pres_modS fun _ h => (h.tick 1).installCompiled k

theorem presYT_hasCompiledImportR : ∀ fuel k, Pres (YT g y t) (hasCompiledImportR fuel k) := by
  intro fuel
  induction fuel with
  | zero => intro k; exact pres_pure false
  | succ m ih =>
    intro k
    unfold hasCompiledImportR
    refine pres_getBind' fun s => ?_
    split
    · exact pres_pure _
    · refine pres_anyS fun x => pres_getBind' fun s1 => ?_
      split
      · exact pres_pure _
      · split
        · exact pres_pure _
        · split
          · exact pres_bind (presYT_updM _ _ (by intro m; first | rfl | (split <;> rfl))) (fun _ => pres_pure _)
          · exact ih x

theorem presYT_markTarget (k : MKey) (isAug : Bool) (acc : List MKey) (x : Bytes) : Pres (YT g y t) (markTarget k isAug acc x) := by
  unfold markTarget
  refine pres_getBind' fun s => ?_
  split
  · exact pres_pure _
  · split
    · exact pres_pure _
    · split
      · exact pres_pure _
      · exact pres_bind (presYT_updM _ _ (by intro m; first | rfl | (split <;> rfl))) (fun _ => pres_pure _)

theorem presYT_foldTargets (k : MKey) (isAug : Bool) : ∀ (l : List Bytes) (acc : List MKey),
    Pres (YT g y t) (foldTargets k isAug l acc) := by
  intro l
  induction l with
  | nil => intro acc; exact pres_pure acc
  | cons x r ih => intro acc; unfold foldTargets; exact pres_bind (presYT_markTarget k isAug acc x) (fun a => ih a)

/-- `lys_implement` counts (in the repaired code) -/
theorem YT.markImpl {s : Ctx} (h : YT g y t s) (k : MKey) : YT g y t (markImpl k s) :=
  h.countedIf rfl rfl

theorem presYT_implementCore : ∀ fuel k, Pres (YT g y t) (implementCore fuel k) := by
  intro fuel
  induction fuel with
  | zero => intro k; exact pres_failS _
  | succ m ih =>
    intro k
    unfold implementCore
    refine pres_getBind' fun s => ?_
    split
    · exact pres_failS _
    · split
      · exact pres_pure _
      · split
        · exact pres_failS _
        · refine pres_bind (pres_modS fun _ h => h.markImpl k) (fun _ => ?_)
          split
          · exact pres_failS _
          · refine pres_bind (presYT_foldTargets _ _ _ _) (fun _ => ?_)
            refine pres_bind (presYT_foldTargets _ _ _ _) (fun _ => ?_)
            refine pres_bind (pres_foldlS (fun rec x => ?_) _) (fun _ => ?_)
            · split
              · exact pres_pure _
              · refine pres_getBind' fun s1 => ?_
                split
                · exact pres_pure _
                · split
                  · exact pres_bind (ih x) (fun _ => pres_pure _)
                  · split
                    · exact pres_bind (presYT_updM _ _ (by intro m; first | rfl | (split <;> rfl))) (fun _ => pres_pure _)
                    · exact pres_pure _
            · split
              · exact pres_pure _
              · exact presYT_hasCompiledImportR _ _

/-- `lys_set_features` on a module that is not implemented does not show in the yang-library data -/
theorem YT.setFeatsPrim {s : Ctx} (h : YT g y t s) (k : MKey) (arg : FeatArg)
    (hni : ∀ m ∈ s.mods, m.key = k → m.implemented = false) : YT g y t (setFeatsPrim k arg s) := by
  refine h.keep rfl rfl ?_
  unfold LyModel.Ctx.setFeatsPrim
  simp only [Ctx.upd, List.map_map]
  apply List.map_congr_left
  intro m hm
  simp only [Function.comp]
  split
  · next hk =>
    have hi := hni m hm (by simpa using hk)
    split
    · next m' b heq =>
      obtain ⟨h1, h2, _, _⟩ := setFeatures_src heq
      simp [Mod.yv, h1, h2, hi]
    · rfl
  · rfl

/-- a feature change of an implemented module counts (the repaired code) -/
theorem YT.setFeatsFlag {s : Ctx} (h : YT g y t s) (k : MKey) (arg : FeatArg) : YT g y t (setFeatsFlag k arg s) :=
  h.countedIf rfl rfl

theorem presYT_implement (k : MKey) (arg : FeatArg) : Pres (YT g y t) (implement k arg) := by
  unfold implement
  apply pres_getBind
  intro s
  split
  · exact presAt_failS _ _
  · next m hm =>
    split
    · exact presAt_failS _ _
    · next hnone =>
      split
      · exact presAt_failS _ _
      · refine presAt_bind (presAt_modS fun hs => hs.setFeatsPrim k arg ?_) (fun _ => presYT_implementCore _ _)
        -- no module of that name is implemented, in particular none with key `k`
        intro m' hm' hk'
        obtain ⟨_, hkey⟩ := find_some_mem hm
        unfold Ctx.getImplemented at hnone
        rw [List.find?_eq_none] at hnone
        have h1 := hnone m' hm'
        have hn : m'.src.name = m.src.name := by
          have : m'.key = m.key := by rw [hk', hkey]
          exact congrArg Prod.fst this
        simp only [hn, beq_self_eq_true, Bool.true_and, Bool.not_eq_true] at h1
        exact h1

theorem presYT_setImplementedInner (k : MKey) (arg : FeatArg) :
    Pres (YT g y t) (setImplementedInner k arg) := by
  unfold setImplementedInner
  refine pres_getBind' fun s => ?_
  split
  · exact pres_failS _
  · split
    · split
      · exact pres_failS _
      · split
        · exact pres_modS fun _ h => h.setFeatsFlag k arg
        · exact pres_pure _
    · exact pres_bind (presYT_implement k arg) (fun _ => pres_pure _)

theorem presYT_compileIfNot (st : Bool × List MKey) (k : MKey) : Pres (YT g y t) (compileIfNot st k) := by
  unfold compileIfNot
  refine pres_getBind' fun s => ?_
  split
  · exact pres_bind (presYT_compileChecked _) (fun _ => pres_pure _)
  · exact pres_pure _

theorem presYT_unresLoop : ∀ fuel work done, Pres (YT g y t) (unresLoop fuel work done) := by
  intro fuel
  induction fuel with
  | zero => intro work done; unfold unresLoop; exact pres_pure false
  | succ m ih =>
    intro work done
    cases work with
    | nil =>
      unfold unresLoop
      refine pres_getBind' fun s => ?_
      split
      · exact pres_failS _
      · exact pres_pure _
    | cons k rest =>
      unfold unresLoop
      refine pres_getBind' fun s0 => ?_
      refine pres_bind (pres_foldlS (fun st tn => ?_) _) (fun r => ?_)
      · split
        · exact pres_pure _
        · refine pres_getBind' fun s => ?_
          split
          · exact pres_pure _
          · split
            · exact pres_pure _
            · split
              · exact pres_pure _
              · split
                · exact pres_pure _
                · refine pres_bind ?_ (fun r => ?_)
                  · split
                    · exact presYT_implement _ _
                    · exact pres_pure _
                  · split
                    · exact pres_pure _
                    · refine pres_bind (presYT_compileIfNot _ _) (fun st1 => pres_getBind' fun s' => ?_)
                      split
                      · exact pres_foldlS (fun st k => presYT_compileIfNot st k) _
                      · exact pres_pure _
      · obtain ⟨rec, extra⟩ := r
        dsimp only
        split
        · exact pres_pure _
        · exact ih _ _

theorem presYT_depsetR : ∀ fuel ds, Pres (YT g y t) (depsetR fuel ds) := by
  intro fuel
  induction fuel with
  | zero => intro ds; exact pres_failS _
  | succ m ih =>
    intro ds
    unfold depsetR
    refine pres_bind (pres_foldlS (fun work k => ?_) _) (fun work => ?_)
    · refine pres_getBind' fun s => ?_
      split
      · exact pres_pure _
      · split
        · exact pres_pure _
        · exact pres_bind (presYT_updM _ _ (by intro m; first | rfl | (split <;> rfl))) (fun _ => pres_bind (presYT_compileChecked _) (fun _ => pres_pure _))
    · refine pres_getBind' fun s => ?_
      refine pres_bind (presYT_unresLoop _ _ _) (fun rec => ?_)
      split
      · exact ih ds
      · exact pres_forEach (fun k => presYT_updM _ _ (by intro m; first | rfl | (split <;> rfl)))

theorem presYT_compileAll : Pres (YT g y t) compileAll := by
  unfold compileAll
  refine pres_getBind' fun s => ?_
  refine pres_forEach (fun ds => ?_)
  refine pres_bind ?_ (fun _ => pres_getBind' fun s' => presYT_depsetR _ _)
  unfold checkFeatures
  refine pres_getBind' fun s1 => ?_
  split
  · exact pres_pure _
  · exact pres_failS _

theorem presYT_finishParse (src : ModSrc) (k : MKey) : Pres (YT g y t) (finishParse src k) := by
  unfold finishParse
  refine pres_bind (presYT_updM _ _ (by intro m; first | rfl | (split <;> rfl))) (fun _ => ?_)
  split
  · exact pres_failS _
  · exact pres_bind (presYT_updM _ _ (by intro m; first | rfl | (split <;> rfl))) (fun _ => pres_pure _)

theorem presYT_loadFinish (rev : Option Bytes) (got : Option MKey) (ml : Option Mod) : Pres (YT g y t) (loadFinish rev got ml) := by
  unfold loadFinish
  split
  · refine pres_bind ?_ (fun _ => pres_getBind' fun s => pres_bind ?_ (fun _ => pres_pure _))
    · split
      · exact presYT_updM _ _ (by intro m; first | rfl | (split <;> rfl))
      · exact pres_pure _
    · split
      · exact presYT_updM _ _ (by intro m; first | rfl | (split <;> rfl))
      · exact pres_pure _
  · split
    · exact pres_failS _
    · exact pres_bind (presYT_updM _ _ (by intro m; first | rfl | (split <;> rfl))) (fun _ => pres_pure _)

theorem presYT_parse : ∀ fuel,
    (∀ src chk, Pres (YT g y t) (parseIn fuel src chk)) ∧ (∀ name rev, Pres (YT g y t) (parseLoad fuel name rev)) := by
  intro fuel
  induction fuel with
  | zero =>
    refine ⟨fun _ _ => ?_, fun _ _ => ?_⟩
    · unfold parseIn; exact pres_failS _
    · unfold parseLoad; exact pres_failS _
  | succ m ih =>
    obtain ⟨ihIn, ihLoad⟩ := ih
    refine ⟨fun src chk => ?_, fun name rev => ?_⟩
    · unfold parseIn
      split
      · exact pres_failS _
      · refine pres_getBind' fun s => ?_
        split
        · exact pres_failS _
        · exact pres_pure _
        · refine pres_bind (pres_modS fun _ h => h.enterMod _ _ _) (fun _ => ?_)
          refine pres_bind (pres_forEach (fun x => ?_)) (fun _ => presYT_finishParse _ _)
          refine pres_bind (ihLoad _ _) (fun y => pres_bind ?_ (fun _ => presYT_updM _ _ (by intro m; first | rfl | (split <;> rfl))))
          split
          · exact presYT_updM _ _ (by intro m; first | rfl | (split <;> rfl))
          · exact pres_pure _
    · unfold parseLoad
      refine pres_getBind' fun s => ?_
      refine pres_bind ?_ (fun k => ?_)
      · split
        · exact pres_pure _
        · refine pres_bind ?_ (fun got => presYT_loadFinish _ _ _)
          split
          · exact pres_pure _
          · split
            · exact pres_attemptLoad _ (ihIn _ _)
            · exact pres_pure _
      · unfold circularCheck
        refine pres_getBind' fun s1 => ?_
        split
        · exact pres_failS _
        · exact pres_pure _

theorem presYT_implementAndCompile (k : MKey) (arg : FeatArg) : Pres (YT g y t) (implementAndCompile k arg) := by
  unfold implementAndCompile
  refine pres_bind (presYT_setImplementedInner k arg) (fun _ => pres_getBind' fun s => ?_)
  split
  · exact pres_pure _
  · exact pres_bind (presYT_depSetsM _) (fun _ => presYT_compileAll)

theorem presYT_forward (op : Op) : Pres (YT g y t) (forward op) := by
  cases op with
  | parse src f =>
    unfold forward
    exact pres_getBind' fun s => pres_bind ((presYT_parse _).1 _ _) (fun k => presYT_implementAndCompile k f)
  | load name rev f =>
    unfold forward
    exact pres_getBind' fun s => pres_bind ((presYT_parse _).2 _ _) (fun k => presYT_implementAndCompile k f)
  | setImpl k f => unfold forward; exact presYT_implementAndCompile k f
  | compile => unfold forward; exact pres_bind (presYT_depSetsM _) (fun _ => presYT_compileAll)
  | setOpt ex pp =>
    unfold forward
    refine pres_getBind' fun s => pres_bind ?_ (fun _ => pres_modS fun _ h => h.keep rfl rfl rfl)
    split
    · refine pres_bind (pres_modS fun s h => ?_) (fun _ => pres_bind (presYT_depSetsM _) (fun _ => presYT_compileAll))
      unfold privMark
      refine YT.tick 4 (h.keep rfl rfl ?_)
      simp only [List.map_map]
      apply List.map_congr_left
      intro m _
      simp only [Function.comp]
      split <;> rfl
    · exact pres_pure _
  | unsetOpt ex pp => unfold forward; exact pres_modS fun _ h => h.keep rfl rfl rfl


end LyModel.Ctx
