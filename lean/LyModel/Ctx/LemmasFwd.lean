import LyModel.Ctx.LemmasInv
/-!
Every function of the forward part of an operation keeps the rollback invariant `Inv` (on every path).
-/
namespace LyModel.Ctx

variable {mk : Option MKey} {c₀ : List Core}

theorem Inv.uniq {s : Ctx} (h : Inv mk c₀ s) {k : MKey} {m : Mod} (hf : s.find k = some m) :
    ∀ m' ∈ s.mods, m'.key = k → m' = m := by
  obtain ⟨hmem, hkey⟩ := find_some_mem hf
  intro m' hm' hk'
  exact nodup_map_inj h.nodup hm' hmem (by rw [hk', hkey])

/-- flagging an implemented module for compilation -/
theorem Inv.setToCompile {s : Ctx} (h : Inv mk c₀ s) {t : MKey} {tm : Mod} (hf : s.find t = some tm)
    (hi : tm.implemented = true) : Inv mk c₀ (s.upd t fun x => { x with toCompile := true }) := by
  apply Inv.upd t _ h
  · intro m; rfl
  · intro m _ _ _; rfl
  · intro m hm hk _
    have := h.uniq hf m hm hk
    subst this; exact hi

/-- changes of fields a rollback does not look at -/
theorem Inv.updFree {s : Ctx} (h : Inv mk c₀ s) (k : MKey) (f : Mod → Mod)
    (hc : ∀ m, (f m).core = m.core) (ht : ∀ m, (f m).toCompile = true → m.toCompile = true) :
    Inv mk c₀ (s.upd k f) := by
  have hsrc : ∀ m, (f m).src = m.src := fun m => congrArg Core.src (hc m)
  apply Inv.upd k f h hsrc
  · intro m _ _ _
    have h1 := hc m
    simp only [Mod.core, Core.mk.injEq] at h1
    obtain ⟨h1, h2, h3, h4, h5⟩ := h1
    simp [Mod.restoredCore, h1, h2, h3, h4, h5, Mod.key_eq_of_src h1]
  · intro m hm _ hmt
    have h1 := hc m
    simp only [Mod.core, Core.mk.injEq] at h1
    rw [h1.2.1]
    exact h.flag m hm (ht m hmt)

theorem pres_updFree (k : MKey) (f : Mod → Mod)
    (hc : ∀ m, (f m).core = m.core) (ht : ∀ m, (f m).toCompile = true → m.toCompile = true) :
    Pres (Inv mk c₀) (updM k f) :=
  pres_modS fun _ h => h.updFree k f hc ht

theorem pres_hasCompiledImportR : ∀ fuel k, Pres (Inv mk c₀) (hasCompiledImportR fuel k) := by
  intro fuel
  induction fuel with
  | zero => intro k; exact pres_pure false
  | succ n ih =>
    intro k
    unfold hasCompiledImportR
    apply pres_getBind
    intro s
    split
    · exact presAt_pure _ _
    · next m _ =>
      refine (pres_anyS (fun t => ?_)).at s
      apply pres_getBind
      intro s1
      split
      · exact presAt_pure _ _
      · next tm htm =>
        split
        · exact presAt_pure _ _
        · split
          · next hi hc =>
            refine presAt_bind (presAt_modS fun hs1 => ?_) (fun _ => pres_pure true)
            exact hs1.setToCompile htm (by simpa using hi)
          · exact (ih t).at s1

theorem pres_markTarget (k : MKey) (isAug : Bool) (acc : List MKey) (t : Bytes) :
    Pres (Inv mk c₀) (markTarget k isAug acc t) := by
  unfold markTarget
  apply pres_getBind
  intro s
  split
  · exact presAt_pure _ _
  · split
    · exact presAt_pure _ _
    · split
      · exact presAt_pure _ _
      · next tm _ =>
        refine (pres_bind (pres_updFree _ _ ?_ ?_) (fun _ => pres_pure _)).at s
        · intro m; split <;> rfl
        · intro m; split <;> exact id

theorem pres_foldTargets (k : MKey) (isAug : Bool) : ∀ (l : List Bytes) (acc : List MKey),
    Pres (Inv mk c₀) (foldTargets k isAug l acc) := by
  intro l
  induction l with
  | nil => intro acc; exact pres_pure acc
  | cons t r ih =>
    intro acc
    unfold foldTargets
    exact pres_bind (pres_markTarget k isAug acc t) (fun acc' => ih acc')

theorem pres_implementCore : ∀ fuel k, Pres (Inv mk c₀) (implementCore fuel k) := by
  intro fuel
  induction fuel with
  | zero => intro k; exact pres_failS _
  | succ n ih =>
    intro k
    unfold implementCore
    apply pres_getBind
    intro s
    split
    · exact presAt_failS _ _
    · next m hm =>
      split
      · exact presAt_pure _ _
      · next hni =>
        split
        · exact presAt_failS _ _
        · refine presAt_bind (presAt_modS fun hs => hs.markImpl k m hm (by simpa using hni)) (fun _ => ?_)
          split
          · exact pres_failS _
          · refine pres_bind (pres_foldTargets _ _ _ _) (fun set1 => ?_)
            refine pres_bind (pres_foldTargets _ _ _ _) (fun set2 => ?_)
            refine pres_bind (pres_foldlS (fun rec t => ?_) _) (fun rec1 => ?_)
            · split
              · exact pres_pure _
              · apply pres_getBind
                intro s1
                split
                · exact presAt_pure _ _
                · next tm htm =>
                  split
                  · exact (pres_bind (ih t) (fun _ => pres_pure _)).at s1
                  · next hi =>
                    split
                    · refine presAt_bind (presAt_modS fun hs1 => ?_) (fun _ => pres_pure true)
                      exact hs1.setToCompile htm (by simpa using hi)
                    · exact presAt_pure _ _
            · split
              · exact pres_pure _
              · exact pres_hasCompiledImportR _ _

/-- `lys_implement` on the module whose features may change -/
theorem pres_implement_masked (k : MKey) (arg : FeatArg) : Pres (Inv (some k) c₀) (implement k arg) := by
  unfold implement
  apply pres_getBind
  intro s
  split
  · exact presAt_failS _ _
  · split
    · exact presAt_failS _ _
    · split
      · exact presAt_failS _ _
      · exact (pres_bind (pres_modS fun _ h => h.setFeatsPrim k arg) (fun _ => pres_implementCore _ _)).at s

/-- `lys_implement(mod, NULL)`: no feature is touched -/
theorem pres_implement_none (k : MKey) : Pres (Inv mk c₀) (implement k none) := by
  unfold implement
  apply pres_getBind
  intro s
  split
  · exact presAt_failS _ _
  · split
    · exact presAt_failS _ _
    · split
      · exact presAt_failS _ _
      · refine (pres_bind (pres_modS fun s h => ?_) (fun _ => pres_implementCore _ _)).at s
        rw [setFeatsPrim_none]; exact h

theorem Inv.setFeatsFlag {s : Ctx} (k : MKey) (arg : FeatArg) (h : Inv (some k) c₀ s) {m : Mod}
    (hf : s.find k = some m) (hi : m.implemented = true) : Inv (some k) c₀ (setFeatsFlag k arg s) := by
  unfold LyModel.Ctx.setFeatsFlag
  apply Inv.tick
  apply Inv.upd k _ h
  · intro m
    split
    · next m' c heq => exact (setFeatures_src heq).1
    · rfl
  · intro m _ hk _
    split
    · next m' c heq =>
      obtain ⟨h1, h2, h3, _⟩ := setFeatures_src heq
      have hk' : m'.key = k := by rw [Mod.key_eq_of_src h1, hk]
      show Mod.restoredCore s.implementing (some k) m' = Mod.restoredCore s.implementing (some k) m
      simp [Mod.restoredCore, h1, h2, h3, hk, hk']
    · rfl
  · intro m0 hm0 hk0
    have := h.uniq hf m0 hm0 hk0
    subst this
    split
    · next m' c heq =>
      obtain ⟨_, h2, _, _⟩ := setFeatures_src heq
      intro _; show m'.implemented = true; rw [h2]; exact hi
    · exact h.flag m0 hm0

theorem pres_setImplementedInner_masked (k : MKey) (arg : FeatArg) :
    Pres (Inv (some k) c₀) (setImplementedInner k arg) := by
  unfold setImplementedInner
  apply pres_getBind
  intro s
  split
  · exact presAt_failS _ _
  · next m hm =>
    split
    · next hi =>
      split
      · exact presAt_failS _ _
      · split
        · exact presAt_modS fun hs => hs.setFeatsFlag k arg hm hi
        · exact presAt_pure _ _
    · exact (pres_bind (pres_implement_masked k arg) (fun _ => pres_pure ())).at s

theorem pres_setImplementedInner_none (k : MKey) : Pres (Inv mk c₀) (setImplementedInner k none) := by
  unfold setImplementedInner
  apply pres_getBind
  intro s
  split
  · exact presAt_failS _ _
  · next m hm =>
    split
    · simp only [setFeatures]
      exact presAt_pure _ _
    · exact (pres_bind (pres_implement_none k) (fun _ => pres_pure ())).at s

/-! ### dependency sets and compilation -/

theorem Inv.markDepSet {s : Ctx} (h : Inv mk c₀ s) (ds : List MKey) : Inv mk c₀ (markDepSet s ds) := by
  unfold LyModel.Ctx.markDepSet
  split
  · apply Inv.map _ h
    · intro m; split <;> rfl
    · intro m _ _; split <;> rfl
    · intro m hm
      split
      · next hc => intro _; simp only [Bool.and_eq_true] at hc; exact hc.2
      · exact h.flag m hm
  · exact h

theorem inv_foldMarkDepSet (dss : List (List MKey)) : ∀ {s : Ctx}, Inv mk c₀ s → Inv mk c₀ (dss.foldl markDepSet s) := by
  induction dss with
  | nil => intro s h; exact h
  | cons d r ih => intro s h; exact ih (h.markDepSet d)

theorem pres_depSetsM (mod : Option MKey) : Pres (Inv mk c₀) (depSetsM mod) := by
  unfold depSetsM
  apply pres_modS
  intro s h
  exact (inv_foldMarkDepSet _ h).congr rfl rfl rfl

theorem foldMarkDepSet_creating (dss : List (List MKey)) : ∀ (s : Ctx),
    (dss.foldl markDepSet s).creating = s.creating ∧ (dss.foldl markDepSet s).implementing = s.implementing := by
  induction dss with
  | nil => intro s; exact ⟨rfl, rfl⟩
  | cons d r ih =>
    intro s
    have := ih (markDepSet s d)
    have h2 : (markDepSet s d).creating = s.creating ∧ (markDepSet s d).implementing = s.implementing := by
      unfold LyModel.Ctx.markDepSet; split <;> exact ⟨rfl, rfl⟩
    exact ⟨this.1.trans h2.1, this.2.trans h2.2⟩

theorem Inv.installCompiled {s : Ctx} (h : Inv mk c₀ s) (k : MKey) : Inv mk c₀ (installCompiled k s) := by
  unfold LyModel.Ctx.installCompiled
  split
  · exact h
  · next m _ =>
    have := h.updFree k (fun m' => { m' with compiled := some (s.nextId, s.descOf m) }) (fun _ => rfl) (fun _ => id)
    exact this.congr rfl rfl rfl

theorem pres_compileOne (k : MKey) : Pres (Inv mk c₀) (compileOne k) :=
  pres_modS fun _ h => (h.tick 1).installCompiled k

theorem pres_compileChecked (k : MKey) : Pres (Inv mk c₀) (compileChecked k) := by
  unfold compileChecked
  apply pres_getBind
  intro s
  split
  · exact presAt_pure _ _
  · split
    · exact (pres_bind (pres_modS fun _ h => h.tick 1) (fun _ => pres_failS _)).at s
    · exact (pres_compileOne k).at s

theorem pres_compileIfNot (st : Bool × List MKey) (k : MKey) : Pres (Inv mk c₀) (compileIfNot st k) := by
  unfold compileIfNot
  apply pres_getBind
  intro s
  split
  · exact (pres_bind (pres_compileChecked _) (fun _ => pres_pure _)).at s
  · exact presAt_pure _ _

theorem pres_unresLoop : ∀ fuel work done, Pres (Inv mk c₀) (unresLoop fuel work done) := by
  intro fuel
  induction fuel with
  | zero => intro work done; unfold unresLoop; exact pres_pure false
  | succ n ih =>
    intro work done
    cases work with
    | nil =>
      unfold unresLoop
      apply pres_getBind
      intro s
      split
      · exact presAt_failS _ _
      · exact presAt_pure _ _
    | cons k rest =>
      unfold unresLoop
      apply pres_getBind
      intro s0
      refine (pres_bind (pres_foldlS (fun st tn => ?_) _) (fun r => ?_)).at s0
      · split
        · exact pres_pure _
        · apply pres_getBind
          intro s
          split
          · exact presAt_pure _ _
          · split
            · exact presAt_pure _ _
            · split
              · exact presAt_pure _ _
              · split
                · exact presAt_pure _ _
                · refine (pres_bind ?_ (fun r => ?_)).at s
                  · split
                    · exact pres_implement_none _
                    · exact pres_pure _
                  · split
                    · exact pres_pure _
                    · refine pres_bind (pres_compileIfNot _ _) (fun st1 => ?_)
                      apply pres_getBind
                      intro s'
                      split
                      · exact (pres_foldlS (fun st k => pres_compileIfNot st k) _).at s'
                      · exact presAt_pure _ _
      · obtain ⟨rec, extra⟩ := r
        dsimp only
        split
        · exact pres_pure _
        · exact ih _ _

theorem pres_depsetR : ∀ fuel ds, Pres (Inv mk c₀) (depsetR fuel ds) := by
  intro fuel
  induction fuel with
  | zero => intro ds; exact pres_failS _
  | succ n ih =>
    intro ds
    unfold depsetR
    refine pres_bind (pres_foldlS (fun work k => ?_) _) (fun work => ?_)
    · apply pres_getBind
      intro s
      split
      · exact presAt_pure _ _
      · split
        · exact presAt_pure _ _
        · refine (pres_bind (pres_updFree k (fun x => { x with compiled := none }) (fun _ => rfl) (fun _ => id)) (fun _ => ?_)).at s
          exact pres_bind (pres_compileChecked _) (fun _ => pres_pure _)
    · apply pres_getBind
      intro s
      refine (pres_bind (pres_unresLoop _ _ _) (fun rec => ?_)).at s
      split
      · exact ih ds
      · exact pres_forEach (fun k => pres_updFree k (fun x => { x with toCompile := false }) (fun _ => rfl) (fun _ h => by cases h))

theorem pres_checkFeatures (ds : List MKey) : Pres (Inv mk c₀) (checkFeatures ds) := by
  unfold checkFeatures
  apply pres_getBind
  intro s
  split
  · exact presAt_pure _ _
  · exact presAt_failS _ _

theorem pres_compileAll : Pres (Inv mk c₀) compileAll := by
  unfold compileAll
  apply pres_getBind
  intro s
  refine (pres_forEach (fun ds => ?_)).at s
  refine pres_bind (pres_checkFeatures ds) (fun _ => ?_)
  apply pres_getBind
  intro s'
  exact (pres_depsetR _ _).at s'

theorem pres_implementAndCompile_masked (k : MKey) (arg : FeatArg) :
    Pres (Inv (some k) c₀) (implementAndCompile k arg) := by
  unfold implementAndCompile
  refine pres_bind (pres_setImplementedInner_masked k arg) (fun _ => ?_)
  apply pres_getBind
  intro s
  split
  · exact presAt_pure _ _
  · exact (pres_bind (pres_depSetsM _) (fun _ => pres_compileAll)).at s

theorem pres_implementAndCompile_none (k : MKey) : Pres (Inv mk c₀) (implementAndCompile k none) := by
  unfold implementAndCompile
  refine pres_bind (pres_setImplementedInner_none k) (fun _ => ?_)
  apply pres_getBind
  intro s
  split
  · exact presAt_pure _ _
  · exact (pres_bind (pres_depSetsM _) (fun _ => pres_compileAll)).at s

end LyModel.Ctx
