import LyModel.Ctx.Model
/-!
Concrete module sets used as witnesses and non-vacuity examples (the same sets are replayed on libyang by
`tools/checks/c09.py` / `c19.py`, see `WITNESSES` in `tools/checks/ctxcomp.py`).  Names are written as explicit byte
lists (`bs`) so that the kernel can evaluate the model on them.
-/
namespace LyModel.Ctx.Ex
open LyModel LyModel.Ctx

def bs (s : String) : Bytes := s.toList.map fun c => UInt8.ofNat c.toNat

def src (name rev : String) : ModSrc :=
  { name := bs name, rev := bs rev, ns := bs ("urn:" ++ name), hasData := true, hasGrp := false, feats := [], subs := [],
    imports := [], augments := [], deviations := [], lrefs := [], usesGrp := [] }

/-- `module aaa { feature f1; feature f2 { if-feature f1; } container c {…} }` -/
def A : ModSrc := { src "aaa" "" with feats := [⟨bs "f1", none⟩, ⟨bs "f2", some (bs "f1")⟩] }
def A19 : ModSrc := { src "aaa" "2019-01-01" with feats := [⟨bs "f1", none⟩] }
/-- a newer revision whose identity base does not resolve: fails after it was added to the context -/
def A20late : ModSrc := { A19 with rev := bs "2020-01-01", faults := [(.late, 7)] }
def A20 : ModSrc := { A19 with rev := bs "2020-01-01" }
/-- `module bbb { import aaa; augment /aaa:c {…}  leaf bd { type int8; default 300; } }`: refused by the default check -/
def Bbad : ModSrc := { src "bbb" "" with imports := [(bs "aaa", [])], augments := [bs "aaa"], faults := [(.unres, 7)] }
def Bsyntax : ModSrc := { src "bbb" "" with faults := [(.syntax, 7)] }
/-- `module xxx { import aaa { revision-date 2019-01-01; } }` -/
def X : ModSrc := { src "xxx" "" with imports := [(bs "aaa", bs "2019-01-01")] }
/-- `module ccc { import aaa; augment /aaa:c {…} }` -/
def C : ModSrc := { src "ccc" "" with imports := [(bs "aaa", [])], augments := [bs "aaa"] }
/-- `module top { import aaa; }` -/
def Top : ModSrc := { src "top" "" with imports := [(bs "aaa", [])] }
/-- second module with features (for the hash) -/
def B2 : ModSrc := { src "bbb" "" with feats := [⟨bs "g1", none⟩] }
def E : ModSrc := { src "eee" "" with hasData := true }

/-! the module set of F137: `mdd` → leafref into `mcc` → leafref into `mbb` → augment of `maa` -/
def Ma : ModSrc := { src "maa" "2019-01-01" with feats := [⟨bs "f1", none⟩] }
def Mb : ModSrc := { src "mbb" "2019-01-01" with imports := [(bs "maa", bs "2019-01-01")], augments := [bs "maa"] }
def Mc : ModSrc := { src "mcc" "2020-02-02" with imports := [(bs "maa", bs "2019-01-01"), (bs "mbb", bs "2019-01-01")], lrefs := [bs "mbb"] }
def Md : ModSrc := { src "mdd" "" with imports := [(bs "maa", []), (bs "mcc", [])], lrefs := [bs "mcc"] }
/-- a module that does not compile (unknown typedef) -/
def Mz : ModSrc := { src "mzz" "" with imports := [(bs "maa", [])], faults := [(.compile, 7)] }

def ctx0 (repo : List ModSrc) (explicit : Bool := false) (cfg : Cfg := {}) (cfg2 : Cfg2 := {}) : Ctx :=
  { cfg := cfg, cfg2 := cfg2, repo := repo, explicit := explicit }

/-- every value of `Cfg` -/
def allCfgs : List Cfg :=
  [false, true].flatMap fun a => [false, true].flatMap fun b => [false, true].flatMap fun c => [false, true].flatMap fun d =>
    [false, true].map fun e => ⟨a, b, c, d, e⟩

/-- a decidable statement about all parameter values is checked by evaluating it on each of them -/
theorem forall_cfg {P : Cfg → Prop} [DecidablePred P] (h : (allCfgs.all fun c => decide (P c)) = true) : ∀ c, P c := by
  intro c
  have hm : c ∈ allCfgs := by
    rcases c with ⟨c1, c2, c3, c4, c5⟩
    cases c1 <;> cases c2 <;> cases c3 <;> cases c4 <;> cases c5 <;> decide
  rw [List.all_eq_true] at h
  exact of_decide_eq_true (h c hm)

def runs (s : Ctx) : List Op → Ctx
  | [] => s
  | op :: r => runs (run s op).2 r

def rc (r : Except Nat Unit) : Nat := match r with
  | .ok _ => 0
  | .error e => e

end LyModel.Ctx.Ex
