import LyModel.Path.LemmasCompile
/-!
`lyd_new_path_` on the compiled form of a printed path: nothing is cut off for searching, and what is created in an
empty tree is the chain the path was printed from (content-wise).
-/
namespace LyModel.Path

/-! ### the expected chain -/

/-- a key leaf as `lyd_create_list` makes it -/
def plainKey (m : Bytes) (k : DNode) : DNode := .mk m k.name (.leaf true) k.value []

/-- chain element `l` without its other children: a list keeps its key leaves, an inner node nothing, and below it hangs
    the rest of the chain (`sub`) — unless that is one of the key leaves already there -/
def pruneNode (l : Level) (sub : Option DNode) : DNode :=
  match l.node.kind with
  | .list _ =>
    .mk l.node.mod l.node.name l.node.kind []
      ((keyLeaves l.node.children).map (plainKey l.node.mod) ++ extraChild sub)
  | .leaflist _ => .mk l.node.mod l.node.name l.node.kind l.node.value []
  | .leaf _ => .mk l.node.mod l.node.name l.node.kind l.node.value []
  | _ => .mk l.node.mod l.node.name l.node.kind [] sub.toList

/-- the node and its ancestors as one chain (top-most first) -/
def chainOf : List Level → Option DNode
  | [] => none
  | l :: rest => some (pruneNode l (chainOf rest))

/-! ### nothing is cut, nothing rejected -/

/-- a keyed list instance has at least one key leaf -/
def Level.HasKey (l : Level) : Prop := ∀ c, l.node.kind = .list c → keyLeaves l.node.children ≠ []

theorem checkFind_levels (v : Bytes) : ∀ (ls : List Level) (u : Nat), (∀ l ∈ ls, l.HasKey) →
    checkFind v u (ls.map cstepOf) = .ok (ls.map cstepOf, none) := by
  intro ls
  induction ls with
  | nil => intro u _; rfl
  | cons l rest ih =>
    intro u h
    have hrec := ih (u + 1) (fun x hx => h x (by simp [hx]))
    have hk := h l (by simp)
    simp only [List.map_cons, checkFind, hrec]
    cases hkind : l.node.kind with
    | inner => simp [cstepOf, hkind, Kind.dupInst]
    | leaf k => simp [cstepOf, hkind, Kind.dupInst]
    | keyless => simp [cstepOf, cpredOf, hkind, Kind.dupInst]
    | leaflist c => cases c <;> simp [cstepOf, cpredOf, hkind, Kind.dupInst]
    | list c =>
      cases hks : keyLeaves l.node.children with
      | nil => exact absurd hks (hk c hkind)
      | cons k r => simp [cstepOf, cpredOf, hkind, hks, Kind.dupInst]

theorem firstIdx_nil (p : DNode → Bool) : firstIdx p [] = none := rfl

theorem evalSteps_empty (cs : List CStep) : evalSteps [] cs = ([], 0) := by
  cases cs with
  | nil => rfl
  | cons c r =>
    have : matchStep [] c = none := by
      unfold matchStep
      cases c.pred <;> simp [firstIdx]
    simp [evalSteps, this]

/-! ### what gets created -/

theorem find_self_kv : ∀ (ks : List DNode), (ks.map (·.name)).Nodup → ∀ k ∈ ks,
    (ks.map ckvOf).find? (fun p => p.1 == k.name) = some (k.name, k.value) := by
  intro ks
  induction ks with
  | nil => intro _ k hk; simp at hk
  | cons x t ih =>
    intro hnd k hk
    have hnd' : x.name ∉ t.map (·.name) ∧ (t.map (·.name)).Nodup := by simpa using hnd
    by_cases hx : x.name = k.name
    · have : k = x := by
        simp only [List.mem_cons] at hk
        rcases hk with h | h
        · exact h
        · exact absurd (hx ▸ List.mem_map_of_mem h : x.name ∈ t.map (·.name)) hnd'.1
      subst this
      simp [ckvOf]
    · have hk' : k ∈ t := by
        simp only [List.mem_cons] at hk
        rcases hk with h | h
        · subst h; exact absurd rfl hx
        · exact h
      have hb : (x.name == k.name) = false := by simpa using hx
      simp [ckvOf, hb]
      simpa [ckvOf] using ih hnd'.2 k hk'

theorem createKeys (m : Bytes) (ks : List DNode) (hnd : (ks.map (·.name)).Nodup) :
    ∀ (sub : List DNode), (∀ k ∈ sub, k ∈ ks) →
    (sub.map (·.name)).filterMap (fun k => ((ks.map ckvOf).find? (fun p => p.1 == k)).map
      (fun p => DNode.mk m k (.leaf true) p.2 [])) = sub.map (plainKey m) := by
  intro sub
  induction sub with
  | nil => intro _; rfl
  | cons x t ih =>
    intro h
    have hx := find_self_kv ks hnd x (h x (by simp))
    have := ih (fun k hk => h k (by simp [hk]))
    simp only [List.map_cons, List.filterMap_cons, hx, Option.map_some, this, plainKey]

/-- the value a terminal chain element would receive -/
def valueOK (v : Bytes) (l : Level) : Prop :=
  match l.node.kind with
  | .leaf _ => l.node.value = v
  | .leaflist false => l.node.value = v
  | _ => True

theorem createNode_level (v : Bytes) (l : Level) (sub : Option DNode) (hnd : l.KeysNodup) (hv : valueOK v l) :
    createNode v (cstepOf l) sub = pruneNode l sub := by
  cases hk : l.node.kind with
  | inner => simp [createNode, pruneNode, cstepOf, hk]
  | keyless => simp [createNode, pruneNode, cstepOf, hk]
  | leaf k =>
    simp only [valueOK, hk] at hv
    simp [createNode, pruneNode, cstepOf, hk, hv]
  | leaflist c =>
    cases c with
    | true => simp [createNode, pruneNode, cstepOf, cpredOf, hk]
    | false =>
      simp only [valueOK, hk] at hv
      simp [createNode, pruneNode, cstepOf, cpredOf, hk, hv]
  | list c =>
    cases hks : keyLeaves l.node.children with
    | nil => simp [createNode, pruneNode, cstepOf, cpredOf, hk, hks]
    | cons k r =>
      have hnd' : ((k :: r).map (·.name)).Nodup := by
        have := hnd; unfold Level.KeysNodup at this; rwa [hks] at this
      have hkeys := createKeys l.node.mod (k :: r) hnd' (k :: r) (fun x hx => hx)
      simp only [createNode, pruneNode, cstepOf, cpredOf, hk, hks]
      rw [hkeys]

/-- terminal nodes have no children -/
def Level.TermNoKids (l : Level) : Prop :=
  (l.node.kind.isLeaflist = true ∨ ∃ k, l.node.kind = .leaf k) → l.node.children = []

/-- the value passed to `lyd_new_path` is the value of the last chain element -/
def lastValueIs (v : Bytes) : List Level → Prop
  | [] => True
  | [l] => l.node.value = v
  | _ :: l2 :: rest => lastValueIs v (l2 :: rest)

theorem createChain_levels (v : Bytes) : ∀ (a : Addr) (f : Forest) (pm : Option Bytes) (ls : List Level),
    levelsFrom f pm a = some ls → (∀ l ∈ ls, l.KeysNodup ∧ l.TermNoKids) → lastValueIs v ls →
    createChain v (ls.map cstepOf) = chainOf ls := by
  intro a
  induction a with
  | nil =>
    intro f pm ls h _ _
    simp [levelsFrom] at h
    subst h
    rfl
  | cons i r ih =>
    intro f pm ls h hl hv
    obtain ⟨n, ls', hn, hl', rfl⟩ := levelsFrom_cons h
    have hvl : valueOK v ⟨f, i, n, pm⟩ := by
      cases r with
      | nil =>
        simp [levelsFrom] at hl'
        subst hl'
        simp only [lastValueIs] at hv
        unfold valueOK
        split <;> first | exact hv | trivial
      | cons j r' =>
        obtain ⟨n2, ls2, hn2, _, _⟩ := levelsFrom_cons hl'
        have hkids : n.children ≠ [] := by
          intro e; rw [e] at hn2; simp at hn2
        have hterm := (hl ⟨f, i, n, pm⟩ (by simp)).2
        unfold valueOK
        split
        · next k hk => exact absurd (hterm (Or.inr ⟨k, hk⟩)) hkids
        · next hk => exact absurd (hterm (Or.inl (by simp [hk, Kind.isLeaflist]))) hkids
        · trivial
    have hv' : lastValueIs v ls' := by
      cases ls' with
      | nil => trivial
      | cons l2 rest => simpa [lastValueIs] using hv
    have hrec := ih n.children (some n.mod) ls' hl' (fun l hl'' => hl l (by simp [hl''])) hv'
    simp only [List.map_cons, createChain, chainOf, hrec]
    rw [createNode_level v _ _ (hl _ (by simp)).1 hvl]

end LyModel.Path
