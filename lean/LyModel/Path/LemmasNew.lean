import LyModel.Path.LemmasCompile
/-!
`lyd_new_path_` on the compiled form of a printed path: nothing is cut off for searching, and what is created in an
empty tree is the chain the path was printed from (content-wise).
-/
namespace LyModel.Path

/-! ### the expected chain -/

/-- a key leaf as `lyd_create_list` makes it -/
def plainKey (m : Bytes) (k : DNode) : DNode := .mk m k.name (.leaf true) k.value []

/-- chain element `l` without its other children: a list keeps its key leaves, an inner node nothing, and below it hangs
    the rest of the chain (`sub`) — unless that is one of the key leaves already there -/
def pruneNode (l : Level) (sub : Option DNode) : DNode :=
  match l.node.kind with
  | .list _ =>
    .mk l.node.mod l.node.name l.node.kind []
      ((keyLeaves l.node.children).map (plainKey l.node.mod) ++ extraChild sub)
  | .leaflist _ => .mk l.node.mod l.node.name l.node.kind l.node.value []
  | .leaf _ => .mk l.node.mod l.node.name l.node.kind l.node.value []
  | _ => .mk l.node.mod l.node.name l.node.kind [] sub.toList

/-- the node and its ancestors as one chain (top-most first) -/
def chainOf : List Level → Option DNode
  | [] => none
  | l :: rest => some (pruneNode l (chainOf rest))

/-! ### nothing is cut, nothing rejected -/

/-- a keyed list instance has at least one key leaf -/
def Level.HasKey (l : Level) : Prop := ∀ c, l.node.kind = .list c → keyLeaves l.node.children ≠ []

theorem checkFind_levels (v : Bytes) : ∀ (ls : List Level) (u : Nat), (∀ l ∈ ls, l.HasKey) →
    checkFind v u (ls.map cstepOf) = .ok (ls.map cstepOf, none) := by
  intro ls
  induction ls with
  | nil => intro u _; rfl
  | cons l rest ih =>
    intro u h
    have hrec := ih (u + 1) (fun x hx => h x (by simp [hx]))
    have hk := h l (by simp)
    simp only [List.map_cons, checkFind, hrec]
    cases hkind : l.node.kind with
    | inner => simp [cstepOf, hkind, Kind.dupInst]
    | leaf k => simp [cstepOf, hkind, Kind.dupInst]
    | keyless => simp [cstepOf, cpredOf, hkind, Kind.dupInst]
    | leaflist c => cases c <;> simp [cstepOf, cpredOf, hkind, Kind.dupInst]
    | list c =>
      cases hks : keyLeaves l.node.children with
      | nil => exact absurd hks (hk c hkind)
      | cons k r => simp [cstepOf, cpredOf, hkind, hks, Kind.dupInst]

theorem firstIdx_nil (p : DNode → Bool) : firstIdx p [] = none := rfl

theorem evalSteps_empty (cs : List CStep) : evalSteps [] cs = ([], 0) := by
  cases cs with
  | nil => rfl
  | cons c r =>
    have : matchStep [] c = none := by
      unfold matchStep
      cases c.pred <;> simp [firstIdx]
    simp [evalSteps, this]

/-! ### what gets created -/

theorem find_self_kv : ∀ (ks : List DNode), (ks.map (·.name)).Nodup → ∀ k ∈ ks,
    (ks.map ckvOf).find? (fun p => p.1 == k.name) = some (k.name, k.value) := by
  intro ks
  induction ks with
  | nil => intro _ k hk; simp at hk
  | cons x t ih =>
    intro hnd k hk
    have hnd' : x.name ∉ t.map (·.name) ∧ (t.map (·.name)).Nodup := by simpa using hnd
    by_cases hx : x.name = k.name
    · have : k = x := by
        simp only [List.mem_cons] at hk
        rcases hk with h | h
        · exact h
        · exact absurd (hx ▸ List.mem_map_of_mem h : x.name ∈ t.map (·.name)) hnd'.1
      subst this
      simp [ckvOf]
    · have hk' : k ∈ t := by
        simp only [List.mem_cons] at hk
        rcases hk with h | h
        · subst h; exact absurd rfl hx
        · exact h
      have hb : (x.name == k.name) = false := by simpa using hx
      simp [ckvOf, hb]
      simpa [ckvOf] using ih hnd'.2 k hk'

theorem createKeys (m : Bytes) (ks : List DNode) (hnd : (ks.map (·.name)).Nodup) :
    ∀ (sub : List DNode), (∀ k ∈ sub, k ∈ ks) →
    (sub.map (·.name)).filterMap (fun k => ((ks.map ckvOf).find? (fun p => p.1 == k)).map
      (fun p => DNode.mk m k (.leaf true) p.2 [])) = sub.map (plainKey m) := by
  intro sub
  induction sub with
  | nil => intro _; rfl
  | cons x t ih =>
    intro h
    have hx := find_self_kv ks hnd x (h x (by simp))
    have := ih (fun k hk => h k (by simp [hk]))
    simp only [List.map_cons, List.filterMap_cons, hx, Option.map_some, this, plainKey]

/-- the value a terminal chain element would receive -/
def valueOK (v : Bytes) (l : Level) : Prop :=
  match l.node.kind with
  | .leaf _ => l.node.value = v
  | .leaflist false => l.node.value = v
  | _ => True

theorem createNode_level (v : Bytes) (l : Level) (sub : Option DNode) (hnd : l.KeysNodup) (hv : valueOK v l) :
    createNode v (cstepOf l) sub = pruneNode l sub := by
  cases hk : l.node.kind with
  | inner => simp [createNode, pruneNode, cstepOf, hk]
  | keyless => simp [createNode, pruneNode, cstepOf, hk]
  | leaf k =>
    simp only [valueOK, hk] at hv
    simp [createNode, pruneNode, cstepOf, hk, hv]
  | leaflist c =>
    cases c with
    | true => simp [createNode, pruneNode, cstepOf, cpredOf, hk]
    | false =>
      simp only [valueOK, hk] at hv
      simp [createNode, pruneNode, cstepOf, cpredOf, hk, hv]
  | list c =>
    cases hks : keyLeaves l.node.children with
    | nil => simp [createNode, pruneNode, cstepOf, cpredOf, hk, hks]
    | cons k r =>
      have hnd' : ((k :: r).map (·.name)).Nodup := by
        have := hnd; unfold Level.KeysNodup at this; rwa [hks] at this
      have hkeys := createKeys l.node.mod (k :: r) hnd' (k :: r) (fun x hx => hx)
      simp only [createNode, pruneNode, cstepOf, cpredOf, hk, hks]
      rw [hkeys]

/-- terminal nodes have no children -/
def Level.TermNoKids (l : Level) : Prop :=
  (l.node.kind.isLeaflist = true ∨ ∃ k, l.node.kind = .leaf k) → l.node.children = []

/-- the value passed to `lyd_new_path` is the value of the last chain element -/
def lastValueIs (v : Bytes) : List Level → Prop
  | [] => True
  | [l] => l.node.value = v
  | _ :: l2 :: rest => lastValueIs v (l2 :: rest)

theorem createChain_levels (v : Bytes) : ∀ (a : Addr) (f : Forest) (pm : Option Bytes) (ls : List Level),
    levelsFrom f pm a = some ls → (∀ l ∈ ls, l.KeysNodup ∧ l.TermNoKids) → lastValueIs v ls →
    createChain v (ls.map cstepOf) = chainOf ls := by
  intro a
  induction a with
  | nil =>
    intro f pm ls h _ _
    simp [levelsFrom] at h
    subst h
    rfl
  | cons i r ih =>
    intro f pm ls h hl hv
    obtain ⟨n, ls', hn, hl', rfl⟩ := levelsFrom_cons h
    have hvl : valueOK v ⟨f, i, n, pm⟩ := by
      cases r with
      | nil =>
        simp [levelsFrom] at hl'
        subst hl'
        simp only [lastValueIs] at hv
        unfold valueOK
        split <;> first | exact hv | trivial
      | cons j r' =>
        obtain ⟨n2, ls2, hn2, _, _⟩ := levelsFrom_cons hl'
        have hkids : n.children ≠ [] := by
          intro e; rw [e] at hn2; simp at hn2
        have hterm := (hl ⟨f, i, n, pm⟩ (by simp)).2
        unfold valueOK
        split
        · next k hk => exact absurd (hterm (Or.inr ⟨k, hk⟩)) hkids
        · next hk => exact absurd (hterm (Or.inl (by simp [hk, Kind.isLeaflist]))) hkids
        · trivial
    have hv' : lastValueIs v ls' := by
      cases ls' with
      | nil => trivial
      | cons l2 rest => simpa [lastValueIs] using hv
    have hrec := ih n.children (some n.mod) ls' hl' (fun l hl'' => hl l (by simp [hl''])) hv'
    simp only [List.map_cons, createChain, chainOf, hrec]
    rw [createNode_level v _ _ (hl _ (by simp)).1 hvl]

/-! ### decidable sufficient conditions for the chain hypotheses (audit: used by the non-vacuity witnesses of `Props/C15.lean`) -/

theorem Level.printable_iff (l : Level) : l.Printable ↔
    (IsIdent l.node.name ∧ IsIdent l.node.mod ∧ (∀ k ∈ keyLeaves l.node.children, IsIdent k.name ∧ LitOK k.value) ∧
      (l.node.kind = .leaflist true → LitOK l.node.value) ∧ listPos l.sibs l.idx l.node < 2 ^ 32) :=
  ⟨fun h => ⟨h.name, h.mod, h.keys, h.value, h.pos⟩, fun ⟨a, b, c, d, e⟩ => ⟨a, b, c, d, e⟩⟩

instance (l : Level) : Decidable l.Printable := decidable_of_iff _ (Level.printable_iff l).symm

theorem forall_lt_of_take_all (sibs : List DNode) (idx : Nat) (p : DNode → Bool) (h : (sibs.take idx).all p = true) :
    ∀ j m, j < idx → sibs[j]? = some m → p m = true := by
  intro j m hj hm
  have hmem : m ∈ sibs.take idx := by
    apply List.mem_of_getElem? (i := j)
    rw [List.getElem?_take]
    simp [hj, hm]
  exact List.all_eq_true.mp h m hmem

/-- Boolean form of `Level.Addressable` -/
def Level.addressableB (l : Level) : Bool :=
  decide l.KeysNodup &&
  match cpredOf l with
  | .none => (l.sibs.take l.idx).all fun m => !m.sameSchema l.node
  | .keys _ => (l.sibs.take l.idx).all fun m =>
      !m.sameSchema l.node || (keyLeaves l.node.children).any fun k => keyValue m k.name != some k.value
  | .dot _ => (l.sibs.take l.idx).all fun m => !m.sameSchema l.node || m.value != l.node.value
  | .pos _ =>
    let pre := l.sibs.takeWhile fun x => !x.sameSchema l.node
    let blk := (l.sibs.dropWhile fun x => !x.sameSchema l.node).takeWhile fun x => x.sameSchema l.node
    decide (pre.length ≤ l.idx) && decide (l.idx < pre.length + blk.length)

theorem Level.addressable_of_check (l : Level) (h : l.addressableB = true) : l.Addressable := by
  unfold Level.addressableB at h
  rw [Bool.and_eq_true] at h
  obtain ⟨h1, h2⟩ := h
  refine ⟨of_decide_eq_true h1, ?_⟩
  split <;> rename_i heq <;> simp only [heq] at h2
  · intro j m hj hm
    simpa using forall_lt_of_take_all _ _ _ h2 j m hj hm
  · intro j m hj hm hs
    have := forall_lt_of_take_all _ _ _ h2 j m hj hm
    simp only [hs, Bool.not_true, Bool.false_or, List.any_eq_true] at this
    obtain ⟨k, hk, hne⟩ := this
    exact ⟨k, hk, by simpa using hne⟩
  · intro j m hj hm hs
    have := forall_lt_of_take_all _ _ _ h2 j m hj hm
    simpa [hs] using this
  · simp only [Bool.and_eq_true, decide_eq_true_eq] at h2
    refine ⟨l.sibs.takeWhile fun x => !x.sameSchema l.node,
      (l.sibs.dropWhile fun x => !x.sameSchema l.node).takeWhile fun x => x.sameSchema l.node,
      (l.sibs.dropWhile fun x => !x.sameSchema l.node).dropWhile fun x => x.sameSchema l.node, ?_, ?_, ?_, h2.1, h2.2⟩
    · rw [List.append_assoc, List.takeWhile_append_dropWhile, List.takeWhile_append_dropWhile]
    · intro x hx; simpa using List.all_eq_true.mp List.all_takeWhile x hx
    · intro x hx; exact List.all_eq_true.mp List.all_takeWhile x hx

/-- Boolean form of `SchemaOf` -/
def schemaOfB (s : SNode) (l : Level) : Bool :=
  s.kind == l.node.kind && schemaKeys s == (keyLeaves l.node.children).map (·.name) &&
  ((keyLeaves l.node.children).all fun k =>
    match findSchema s.children s.mod k.name with
    | some ks => ks.kind == .leaf true
    | none => false) &&
  (match l.node.kind with
   | .list _ => !(keyLeaves l.node.children).isEmpty
   | _ => true)

theorem schemaOf_of_check (s : SNode) (l : Level) (h : schemaOfB s l = true) : SchemaOf s l := by
  unfold schemaOfB at h
  simp only [Bool.and_eq_true, beq_iff_eq, List.all_eq_true] at h
  obtain ⟨⟨⟨h1, h2⟩, h3⟩, h4⟩ := h
  refine ⟨h1, h2, ?_, ?_⟩
  · intro k hk
    have := h3 k hk
    split at this
    · next ks hks => exact ⟨ks, hks, by simpa using this⟩
    · cases this
  · intro c hc
    rw [hc] at h4
    intro e
    simp [e] at h4

/-- Boolean form of `Conforms` -/
def conformsB : List SNode → List Level → Bool
  | _, [] => true
  | sch, l :: rest =>
    match findSchema sch l.node.mod l.node.name with
    | some s => schemaOfB s l && conformsB s.children rest
    | none => false

theorem conforms_of_check : ∀ (ls : List Level) (sch : List SNode), conformsB sch ls = true → Conforms sch ls := by
  intro ls
  induction ls with
  | nil => intro _ _; trivial
  | cons l rest ih =>
    intro sch h
    unfold conformsB at h
    split at h
    · next s hs =>
      rw [Bool.and_eq_true] at h
      exact ⟨s, hs, schemaOf_of_check s l h.1, ih s.children h.2⟩
    · cases h

/-- Boolean form of `Level.TermNoKids` -/
def Level.termNoKidsB (l : Level) : Bool :=
  (match l.node.kind with
   | .leaflist _ => false
   | .leaf _ => false
   | _ => true) || l.node.children.isEmpty

theorem Level.termNoKids_of_check (l : Level) (h : l.termNoKidsB = true) : l.TermNoKids := by
  intro hk
  unfold Level.termNoKidsB at h
  have hf : (match l.node.kind with
      | .leaflist _ => false
      | .leaf _ => false
      | _ => true) = false := by
    rcases hk with hk | ⟨k, hk⟩
    · cases hkind : l.node.kind <;> simp [hkind, Kind.isLeaflist] at hk ⊢
    · simp [hk]
  rw [hf, Bool.false_or] at h
  exact List.isEmpty_iff.mp h

end LyModel.Path
