import LyModel.Path.Typed
import LyModel.Path.LemmasNew
import LyModel.Val.LemmasUnion
/-!
Lemmas about the typed predicate layer (`Typed.lean`): the store pass leaves the compiled form of a printed path alone when
every predicate value on the chain is stored as itself; whole-name comparison of key names; order of key predicates.
-/
namespace LyModel.Path
open LyModel

/-! ### canonical idempotence as the path code needs it -/

/-- the value key of a stored value is stored as that value again -/
def KTy.Idem (t : KTy) : Prop := ∀ s k, t.store s = some k → t.store k = some k

theorem KTy.ofPlug_idem {p : Val.Plug} (h : Val.MLaws p) : (KTy.ofPlug p).Idem := by
  intro s k hs
  simp only [KTy.ofPlug] at hs ⊢
  split at hs
  · next v hv =>
    cases hs
    rw [h.canon_idem v ⟨Generated.LYD_HINT_DATA, s, hv⟩]
  · cases hs

/-! ### values on a chain -/

/-- the typed schema nodes the chain instantiates, with `R type value` for every key value of a keyed list entry and the
    value of a configuration leaf-list instance on it — the values that appear in predicates -/
def ValuesOK (R : KTy → Bytes → Prop) : List TSNode → List Level → Prop
  | _, [] => True
  | sch, l :: rest =>
    ∃ s, findTSchema sch l.node.mod l.node.name = some s ∧
      (∀ c, l.node.kind = .list c → ∀ k ∈ keyLeaves l.node.children,
        ∃ ks t, findTSchema s.children s.mod k.name = some ks ∧ ks.ty = some t ∧ R t k.value) ∧
      (l.node.kind = .leaflist true → ∃ t, s.ty = some t ∧ R t l.node.value) ∧
      ValuesOK R s.children rest

theorem ValuesOK.mono {R R' : KTy → Bytes → Prop} (h : ∀ t v, R t v → R' t v) :
    ∀ (ls : List Level) (sch : List TSNode), ValuesOK R sch ls → ValuesOK R' sch ls := by
  intro ls
  induction ls with
  | nil => intro _ _; trivial
  | cons l rest ih =>
    intro sch ⟨s, hf, hk, hv, hr⟩
    refine ⟨s, hf, ?_, ?_, ih _ hr⟩
    · intro c hc k hkm
      obtain ⟨ks, t, h1, h2, h3⟩ := hk c hc k hkm
      exact ⟨ks, t, h1, h2, h _ _ h3⟩
    · intro hl
      obtain ⟨t, h1, h2⟩ := hv hl
      exact ⟨t, h1, h _ _ h2⟩

/-- stored as itself -/
def SelfStored (t : KTy) (v : Bytes) : Prop := t.store v = some v

/-- a stored value of a canonically idempotent type -/
def IdemStored (t : KTy) (v : Bytes) : Prop := t.Idem ∧ ∃ s, t.store s = some v

theorem IdemStored.self {t : KTy} {v : Bytes} (h : IdemStored t v) : SelfStored t v := by
  obtain ⟨hi, s, hs⟩ := h
  exact hi s v hs

theorem storeKeys_self (s : TSNode) : ∀ (ks : List DNode),
    (∀ k ∈ ks, ∃ sk t, findTSchema s.children s.mod k.name = some sk ∧ sk.ty = some t ∧ SelfStored t k.value) →
    storeKeys s (ks.map ckvOf) = .ok (ks.map ckvOf) := by
  intro ks
  induction ks with
  | nil => intro _; rfl
  | cons k r ih =>
    intro h
    obtain ⟨sk, t, hf, hty, hst⟩ := h k (by simp)
    have hr := ih (fun x hx => h x (by simp [hx]))
    have hst' : t.store k.value = some k.value := hst
    show storeKeys s ((k.name, k.value) :: r.map ckvOf) = .ok ((k.name, k.value) :: r.map ckvOf)
    simp only [storeKeys, hf, storeVia, hty, hst', hr]

theorem storePred_level (s : TSNode) (l : Level)
    (hk : ∀ c, l.node.kind = .list c → ∀ k ∈ keyLeaves l.node.children,
      ∃ ks t, findTSchema s.children s.mod k.name = some ks ∧ ks.ty = some t ∧ SelfStored t k.value)
    (hv : l.node.kind = .leaflist true → ∃ t, s.ty = some t ∧ SelfStored t l.node.value) :
    storePred s (cpredOf l) = .ok (cpredOf l) := by
  cases hkind : l.node.kind with
  | inner => simp [cpredOf, hkind, storePred]
  | leaf k => simp [cpredOf, hkind, storePred]
  | keyless => simp [cpredOf, hkind, storePred]
  | leaflist c =>
    cases c with
    | false => simp [cpredOf, hkind, storePred]
    | true =>
      obtain ⟨t, hty, hst⟩ := hv hkind
      have hst' : t.store l.node.value = some l.node.value := hst
      simp [cpredOf, hkind, storePred, storeVia, hty, hst', Except.map]
  | list c =>
    cases hks : keyLeaves l.node.children with
    | nil => simp [cpredOf, hkind, hks, storePred]
    | cons k r =>
      have := storeKeys_self s (k :: r) (fun x hx => hk c hkind x (hks ▸ hx))
      simp only [cpredOf, hkind, hks, storePred, this, Except.map]

/-- the store pass on the compiled form of a printed path whose predicate values are stored as themselves -/
theorem storeSteps_levels : ∀ (ls : List Level) (sch : List TSNode), ValuesOK SelfStored sch ls →
    storeSteps sch (ls.map cstepOf) = .ok (ls.map cstepOf) := by
  intro ls
  induction ls with
  | nil => intro _ _; rfl
  | cons l rest ih =>
    intro sch ⟨s, hf, hk, hv, hr⟩
    have hp := storePred_level s l hk hv
    have hrest := ih _ hr
    have hf' : findTSchema sch (cstepOf l).mod (cstepOf l).name = some s := hf
    have hpc : storePred s (cstepOf l).pred = .ok (cpredOf l) := hp
    simp only [List.map_cons, storeSteps, hf', hpc, hrest]
    rfl

/-- for a printed path the `value` argument of `lyd_new_path` is either not looked at or only stored when the node is created -/
theorem lastUse_levels : ∀ (ls : List Level) (sch : List TSNode), ValuesOK SelfStored sch ls →
    (match lastUse sch (ls.map cstepOf) with | .atCheck _ => False | _ => True) := by
  intro ls
  induction ls with
  | nil => intro _ _; simp [lastUse]
  | cons l rest ih =>
    intro sch ⟨s, hf, _, _, hr⟩
    have hf' : findTSchema sch (cstepOf l).mod (cstepOf l).name = some s := hf
    cases rest with
    | nil =>
      simp only [List.map_cons, List.map_nil, lastUse, hf', valUseOf]
      show match (match (cstepOf l).kind with
        | .leaf true => ValUse.ignored
        | .leaf false => ValUse.atCreate s
        | .leaflist cfg => (match (cstepOf l).pred with
          | .dot _ => ValUse.ignored
          | _ => if cfg then ValUse.atCheck s else ValUse.atCreate s)
        | _ => ValUse.ignored) with | .atCheck _ => False | _ => True
      have hk : (cstepOf l).kind = l.node.kind := rfl
      have hp : (cstepOf l).pred = cpredOf l := rfl
      rw [hk, hp]
      cases hkind : l.node.kind with
      | inner => trivial
      | leaf k => cases k <;> trivial
      | keyless => trivial
      | list c => trivial
      | leaflist c =>
        cases c with
        | true => simp [cpredOf, hkind]
        | false => simp [cpredOf, hkind]
    | cons l2 r2 =>
      have := ih _ hr
      simp only [List.map_cons, lastUse, hf'] at this ⊢
      exact this

/-! ### key names are compared as whole names -/

/-- the "Duplicate predicate key" test of `ly_path_check_predicate` says "duplicate" exactly for EQUAL names (the earlier name
    being a YANG identifier): a name that is a proper prefix of an earlier one is a different key -/
theorem dupKey_iff_eq (earlier name : Bytes) (he : ∀ c ∈ earlier, isIdentByte c = true) :
    dupKey earlier name = true ↔ earlier = name := by
  constructor
  · intro h
    simp only [dupKey, Bool.and_eq_true] at h
    obtain ⟨hp, hrest⟩ := h
    obtain ⟨t, ht⟩ := List.isPrefixOf_iff_prefix.mp hp
    subst ht
    simp only [List.drop_left] at hrest
    cases t with
    | nil => simp
    | cons c r =>
      have := he c (by simp)
      simp [this] at hrest
  · intro h
    subst h
    simp [dupKey]

/-- `ly_path_compile_predicate` resolves a key NameTest to the child of the list with exactly that local name, and it is a key -/
theorem compileKey_exact {s : SNode} {k : Bytes} {v : PVal} {ln b : Bytes} (h : compileKey s k v = .ok (ln, b)) :
    ln = localName k ∧ ∃ ks ∈ s.children, ks.name = ln ∧ ks.kind = .leaf true := by
  unfold compileKey at h
  simp only at h
  split at h
  · cases h
  · next ks hks =>
    split at h
    · cases h
    · next hkind =>
      split at h
      · cases h
      · next bb _ =>
        injection h with h
        injection h with h1 h2
        refine ⟨h1.symm, ks, ?_, ?_, ?_⟩
        · exact List.mem_of_find?_eq_some hks
        · have := (findSchema_some hks).2
          rw [this]; exact h1
        · simpa using hkind

/-! ### the order of key predicates is free -/

theorem matchStep_keys_perm (sibs : List DNode) (c : CStep) (kv kv' : List (Bytes × Bytes)) (hp : kv.Perm kv') :
    matchStep sibs { c with pred := .keys kv } = matchStep sibs { c with pred := .keys kv' } := by
  simp only [matchStep]
  congr 1
  funext n
  have : (kv.all fun x => keyValue n x.1 == some x.2) = (kv'.all fun x => keyValue n x.1 == some x.2) := by
    apply Bool.eq_iff_iff.mpr
    simp only [List.all_eq_true]
    exact ⟨fun h x hx => h x (hp.mem_iff.mpr hx), fun h x hx => h x (hp.mem_iff.mp hx)⟩
  simp only [CStep.sameSchema]
  rw [show (kv.all fun (x : Bytes × Bytes) => match x with | (k, v) => keyValue n k == some v) =
      (kv.all fun x => keyValue n x.1 == some x.2) from rfl,
    show (kv'.all fun (x : Bytes × Bytes) => match x with | (k, v) => keyValue n k == some v) =
      (kv'.all fun x => keyValue n x.1 == some x.2) from rfl, this]

theorem evalSteps_keys_perm (c : CStep) (kv kv' : List (Bytes × Bytes)) (hp : kv.Perm kv') (post : List CStep) :
    ∀ (pre : List CStep) (f : Forest),
    evalSteps f (pre ++ { c with pred := .keys kv } :: post) = evalSteps f (pre ++ { c with pred := .keys kv' } :: post) := by
  intro pre
  induction pre with
  | nil =>
    intro f
    simp only [List.nil_append, evalSteps, matchStep_keys_perm f c kv kv' hp]
  | cons x r ih =>
    intro f
    simp only [List.cons_append, evalSteps]
    split
    · rfl
    · split
      · rfl
      · next n _ => rw [ih n.children]

theorem find_perm_nodup {kv kv' : List (Bytes × Bytes)} (hp : kv.Perm kv') (hnd : (kv.map (·.1)).Nodup) (k : Bytes) :
    kv.find? (fun p => p.1 == k) = kv'.find? (fun p => p.1 == k) := by
  induction hp with
  | nil => rfl
  | cons x _ ih =>
    simp only [List.map_cons, List.nodup_cons] at hnd
    simp only [List.find?_cons]
    split
    · rfl
    · exact ih hnd.2
  | swap x y l =>
    simp only [List.map_cons, List.nodup_cons, List.mem_cons, not_or] at hnd
    simp only [List.find?_cons]
    by_cases hx : x.1 == k <;> by_cases hy : y.1 == k <;> simp only [hx, hy]
    · exfalso
      have h1 : x.1 = k := by simpa using hx
      have h2 : y.1 = k := by simpa using hy
      exact hnd.1.1 (by rw [h1, h2])
    all_goals rfl
  | trans h1 _ ih1 ih2 =>
    have hnd2 := (h1.map (fun (p : Bytes × Bytes) => p.1)).nodup_iff.mp hnd
    rw [ih1 hnd, ih2 hnd2]

/-- `lyd_create_list` makes the key leaves in SCHEMA order whatever the order of the predicates -/
theorem createNode_keys_perm (v : Bytes) (c : CStep) (kv kv' : List (Bytes × Bytes)) (hp : kv.Perm kv')
    (hnd : (kv.map (·.1)).Nodup) (sub : Option DNode) :
    createNode v { c with pred := .keys kv } sub = createNode v { c with pred := .keys kv' } sub := by
  simp only [createNode]
  cases c.kind with
  | list cfg =>
    simp only
    have : (fun k => Option.map (fun p => DNode.mk c.mod k (Kind.leaf true) p.2 []) (List.find? (fun p => p.1 == k) kv)) =
        (fun k => Option.map (fun p => DNode.mk c.mod k (Kind.leaf true) p.2 []) (List.find? (fun p => p.1 == k) kv')) := by
      funext k
      rw [find_perm_nodup hp hnd k]
    rw [this]
  | _ => rfl

end LyModel.Path
