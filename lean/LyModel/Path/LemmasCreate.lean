import LyModel.Path.LemmasTyped
/-!
Create-then-find: the chain `lyd_new_path_` creates in an empty tree from compiled segments is found again by
`ly_path_eval_partial` with the same segments — the lemma about compiled key lists (`stepWF`: predicate key names are
distinct keys of the list) and what may follow what (`follows`) is exactly what the argument needs.
-/
namespace LyModel.Path
open LyModel

/-- names of the key predicates of a segment -/
def kvNames (c : CStep) : List Bytes :=
  match c.pred with
  | .keys kv => kv.map (·.1)
  | _ => []

/-- a compiled segment without duplicate-instance nodes: a keyed list with key predicates whose names are distinct keys of the
    list, a configuration leaf-list with its value predicate, a leaf or an inner node without predicate -/
def stepWF (c : CStep) : Bool :=
  match c.kind, c.pred with
  | .list _, .keys kv => decide (kv.map (·.1)).Nodup && kv.all (fun p => c.keyNames.contains p.1)
  | .leaflist true, .dot _ => true
  | .leaf _, .none => true
  | .inner, .none => true
  | _, _ => false

/-- what may follow `c`: anything below an inner node; below a list one of its predicate keys (as a key leaf), or a node that is not
    one of the list's keys; nothing below a terminal node -/
def follows (c c2 : CStep) : Bool :=
  match c.kind with
  | .inner => true
  | .list _ =>
    if c2.kind == .leaf true then c2.mod == c.mod && (kvNames c).contains c2.name
    else !(c2.mod == c.mod && c.keyNames.contains c2.name)
  | _ => false

def chainWF : List CStep → Bool
  | [] => true
  | [c] => stepWF c
  | c :: c2 :: rest => stepWF c && follows c c2 && chainWF (c2 :: rest)

/-! ### list lemmas -/

theorem find_of_mem_nodup : ∀ (kv : List (Bytes × Bytes)) (k v : Bytes), (kv.map (·.1)).Nodup → (k, v) ∈ kv →
    kv.find? (fun p => p.1 == k) = some (k, v) := by
  intro kv
  induction kv with
  | nil => intro k v _ h; simp at h
  | cons x r ih =>
    intro k v hnd hm
    simp only [List.map_cons, List.nodup_cons] at hnd
    simp only [List.mem_cons] at hm
    rcases hm with rfl | hm
    · simp
    · have hne : x.1 ≠ k := by
        intro e
        exact hnd.1 (by rw [e]; exact List.mem_map.mpr ⟨(k, v), hm, rfl⟩)
      have : (x.1 == k) = false := by simpa using hne
      simp only [List.find?_cons, this]
      exact ih k v hnd.2 hm

theorem keyLeaves_append_keys : ∀ (ks e : List DNode), (∀ x ∈ ks, x.isKeyLeaf = true) → keyLeaves (ks ++ e) = ks ++ keyLeaves e := by
  intro ks
  induction ks with
  | nil => intro e _; rfl
  | cons x r ih =>
    intro e h
    simp only [List.cons_append, keyLeaves, h x (by simp), if_true, ih e (fun y hy => h y (by simp [hy]))]

theorem firstIdx_get {p : DNode → Bool} : ∀ {l : List DNode} {i : Nat}, firstIdx p l = some i → ∃ x, l[i]? = some x ∧ p x = true := by
  intro l
  induction l with
  | nil => intro i h; simp [firstIdx] at h
  | cons y r ih =>
    intro i h
    simp only [firstIdx] at h
    by_cases hy : p y = true
    · simp only [hy, if_true] at h
      cases h
      exact ⟨y, by simp, hy⟩
    · simp only [hy] at h
      cases hr : firstIdx p r with
      | none => simp [hr] at h
      | some j =>
        simp only [hr] at h
        cases h
        obtain ⟨x, hx, hp⟩ := ih hr
        exact ⟨x, by simpa using hx, hp⟩

theorem firstIdx_some_of_mem {p : DNode → Bool} : ∀ {l : List DNode} {x : DNode}, x ∈ l → p x = true → ∃ i, firstIdx p l = some i := by
  intro l
  induction l with
  | nil => intro x h; simp at h
  | cons y r ih =>
    intro x hm hp
    by_cases hy : p y = true
    · exact ⟨0, by simp [firstIdx, hy]⟩
    · simp only [List.mem_cons] at hm
      rcases hm with rfl | hm
      · exact absurd hp hy
      · obtain ⟨i, hi⟩ := ih hm hp
        exact ⟨i + 1, by simp [firstIdx, hy, hi]⟩

/-! ### the key leaves `lyd_create_list` makes -/

/-- the key leaves created for a list segment -/
def createdKeys (c : CStep) (kv : List (Bytes × Bytes)) : List DNode :=
  c.keyNames.filterMap (fun k => (kv.find? (fun p => p.1 == k)).map (fun p => DNode.mk c.mod k (.leaf true) p.2 []))

theorem createdKeys_mem {c : CStep} {kv : List (Bytes × Bytes)} {x : DNode} (h : x ∈ createdKeys c kv) :
    x.isKeyLeaf = true ∧ x.mod = c.mod ∧ x.name ∈ c.keyNames := by
  simp only [createdKeys, List.mem_filterMap] at h
  obtain ⟨k, hk, hx⟩ := h
  cases hf : kv.find? (fun p => p.1 == k) with
  | none => simp [hf] at hx
  | some p =>
    simp only [hf, Option.map_some, Option.some.injEq] at hx
    subst hx
    exact ⟨rfl, rfl, hk⟩

theorem createdKeys_find (m : Bytes) (kv : List (Bytes × Bytes)) (k v : Bytes) (hf : kv.find? (fun p => p.1 == k) = some (k, v)) :
    ∀ (names : List Bytes), k ∈ names →
    (names.filterMap (fun k' => (kv.find? (fun p => p.1 == k')).map (fun p => DNode.mk m k' (.leaf true) p.2 []))).find?
      (fun x => x.name == k) = some (DNode.mk m k (.leaf true) v []) := by
  intro names
  induction names with
  | nil => intro h; simp at h
  | cons k' r ih =>
    intro hm
    by_cases hk : k' = k
    · subst hk
      simp [List.filterMap_cons, hf, DNode.name]
    · have hm' : k ∈ r := by
        simp only [List.mem_cons] at hm
        rcases hm with h | h
        · exact absurd h.symm hk
        · exact h
      cases hf' : kv.find? (fun p => p.1 == k') with
      | none => simp only [List.filterMap_cons, hf', Option.map_none]; exact ih hm'
      | some p =>
        have hne : (k' == k) = false := by simpa using hk
        simp only [List.filterMap_cons, hf', Option.map_some, List.find?_cons, DNode.name, hne]
        exact ih hm'

/-- every predicate of a well-formed list segment is satisfied by the entry created from it -/
theorem created_keys_match (v : Bytes) (c : CStep) (kv : List (Bytes × Bytes)) (sub : Option DNode) (cfg : Bool)
    (hk : c.kind = .list cfg) (hp : c.pred = .keys kv) (hnd : (kv.map (·.1)).Nodup)
    (hin : ∀ p ∈ kv, p.1 ∈ c.keyNames) :
    kv.all (fun p => keyValue (createNode v c sub) p.1 == some p.2) = true := by
  rw [List.all_eq_true]
  intro p hpm
  have hnode : (createNode v c sub).children = createdKeys c kv ++ extraChild sub := by
    simp only [createNode, hk, hp, createdKeys, DNode.children]
  have hfind := find_of_mem_nodup kv p.1 p.2 hnd hpm
  have hcf := createdKeys_find c.mod kv p.1 p.2 hfind c.keyNames (hin p hpm)
  simp only [keyValue, hnode]
  rw [keyLeaves_append_keys _ _ (fun x hx => (createdKeys_mem hx).1), List.find?_append]
  have : (createdKeys c kv).find? (fun x => x.name == p.1) = some (DNode.mk c.mod p.1 (.leaf true) p.2 []) := hcf
  simp [this, DNode.value]

theorem createNode_schema (v : Bytes) (c : CStep) (sub : Option DNode) :
    (createNode v c sub).mod = c.mod ∧ (createNode v c sub).name = c.name ∧ (createNode v c sub).kind = c.kind := by
  simp only [createNode]
  cases c.kind <;> simp [DNode.mod, DNode.name, DNode.kind]

theorem createNode_same (v : Bytes) (c : CStep) (sub : Option DNode) : c.sameSchema (createNode v c sub) = true := by
  obtain ⟨h1, h2, _⟩ := createNode_schema v c sub
  simp [CStep.sameSchema, h1, h2]

/-- the segment selects the node created from it, whatever stands before it as long as that is of another schema node -/
theorem matchStep_created (v : Bytes) (c : CStep) (sub : Option DNode) (hwf : stepWF c = true) (pre post : List DNode)
    (hpre : ∀ x ∈ pre, c.sameSchema x = false) :
    matchStep (pre ++ createNode v c sub :: post) c = some pre.length := by
  have hs := createNode_same v c sub
  have key : ∀ (P : DNode → Bool), (∀ x, P x = true → c.sameSchema x = true) → P (createNode v c sub) = true →
      firstIdx P (pre ++ createNode v c sub :: post) = some pre.length := by
    intro P himp hP
    rw [firstIdx_append_false P pre _ (fun x hx => by
      cases hpx : P x with
      | false => rfl
      | true =>
        have h1 := hpre x hx
        rw [himp x hpx] at h1
        cases h1)]
    simp [firstIdx, hP]
  unfold stepWF at hwf
  cases hk : c.kind with
  | inner =>
    cases hp : c.pred <;> simp only [hk, hp] at hwf <;> try cases hwf
    simp only [matchStep, hp]
    exact key _ (fun _ h => h) hs
  | leaf b =>
    cases hp : c.pred <;> simp only [hk, hp] at hwf <;> try cases hwf
    simp only [matchStep, hp]
    exact key _ (fun _ h => h) hs
  | keyless => simp [hk] at hwf
  | leaflist b =>
    cases b with
    | false => simp [hk] at hwf
    | true =>
      cases hp : c.pred <;> simp only [hk, hp] at hwf <;> try cases hwf
      rename_i pv
      simp only [matchStep, hp]
      refine key _ (fun x h => by simp only [Bool.and_eq_true] at h; exact h.1) ?_
      simp only [hs, Bool.true_and]
      simp [createNode, hk, hp, DNode.value]
  | list cfg =>
    cases hp : c.pred <;> simp only [hk, hp] at hwf <;> try cases hwf
    rename_i kv
    simp only [Bool.and_eq_true, decide_eq_true_eq, List.all_eq_true, List.contains_iff_mem] at hwf
    simp only [matchStep, hp]
    refine key _ (fun x h => by simp only [Bool.and_eq_true] at h; exact h.1) ?_
    simp only [hs, Bool.true_and]
    have := created_keys_match v c kv sub cfg hk hp hwf.1 (fun p hpm => by simpa using hwf.2 p hpm)
    simpa using this

theorem evalSteps_cons_some {f : Forest} {c : CStep} {rest : List CStep} {i : Nat} {n : DNode}
    (hm : matchStep f c = some i) (hg : f[i]? = some n) :
    evalSteps f (c :: rest) = (i :: (evalSteps n.children rest).1, (evalSteps n.children rest).2 + 1) := by
  simp [evalSteps, hm, hg]

/-- **the chain created from well-formed segments is found again by these segments** -/
theorem evalSteps_createChain (v : Bytes) : ∀ (rest : List CStep) (c : CStep) (n : DNode), chainWF (c :: rest) = true →
    createChain v (c :: rest) = some n → ∀ (pre post : List DNode), (∀ x ∈ pre, c.sameSchema x = false) →
    ∃ a, evalSteps (pre ++ n :: post) (c :: rest) = (a, rest.length + 1) := by
  intro rest
  induction rest with
  | nil =>
    intro c n hwf hn pre post hpre
    simp only [createChain, Option.some.injEq] at hn
    subst hn
    have hwf' : stepWF c = true := by simpa [chainWF] using hwf
    refine ⟨[pre.length], ?_⟩
    simp [evalSteps, matchStep_created v c none hwf' pre post hpre]
  | cons c2 r ih =>
    intro c n hwf hn pre post hpre
    simp only [chainWF, Bool.and_eq_true] at hwf
    obtain ⟨⟨hwc, hfol⟩, hwr⟩ := hwf
    cases hsub : createChain v (c2 :: r) with
    | none => simp [createChain] at hsub
    | some sub =>
      have hn' : n = createNode v c (some sub) := by
        simp only [createChain] at hn hsub
        rw [← hsub]
        exact (Option.some.inj hn).symm
      subst hn'
      have hm := matchStep_created v c (some sub) hwc pre post hpre
      have hget : (pre ++ createNode v c (some sub) :: post)[pre.length]? = some (createNode v c (some sub)) := by simp
      have hsubeq : sub = createNode v c2 (createChain v r) := by
        simp only [createChain, Option.some.injEq] at hsub
        exact hsub.symm
      -- the children of the created node and where the next segment finds its node
      have hchild : ∃ a, evalSteps (createNode v c (some sub)).children (c2 :: r) = (a, r.length + 1) := by
        unfold follows at hfol
        unfold stepWF at hwc
        cases hk : c.kind with
        | inner =>
          cases hp : c.pred <;> simp only [hk, hp] at hwc <;> try cases hwc
          have : (createNode v c (some sub)).children = [] ++ sub :: [] := by simp [createNode, hk, DNode.children]
          rw [this]
          exact ih c2 sub hwr hsub [] [] (fun x hx => by simp at hx)
        | leaf b => simp [hk] at hfol
        | keyless => simp [hk] at hfol
        | leaflist b => simp [hk] at hfol
        | list cfg =>
          cases hp : c.pred <;> simp only [hk, hp] at hwc <;> try cases hwc
          rename_i kv
          have hch : (createNode v c (some sub)).children = createdKeys c kv ++ extraChild (some sub) := by
            simp only [createNode, hk, hp, createdKeys, DNode.children]
          simp only [hk] at hfol
          by_cases hkl : c2.kind = .leaf true
          · -- a key leaf: the one `lyd_create_list` made is returned
            simp only [hkl, beq_self_eq_true, if_true, Bool.and_eq_true, beq_iff_eq, List.contains_iff_mem] at hfol
            have hsk : sub.isKeyLeaf = true := by
              rw [hsubeq]
              simp [DNode.isKeyLeaf, (createNode_schema v c2 (createChain v r)).2.2, hkl]
            have hr : r = [] := by
              cases r with
              | nil => rfl
              | cons c3 r3 =>
                simp only [chainWF, Bool.and_eq_true] at hwr
                have := hwr.1.2
                simp [follows, hkl] at this
            subst hr
            have hw2 : stepWF c2 = true := by simpa [chainWF] using hwr
            have hp2 : c2.pred = .none := by
              unfold stepWF at hw2
              cases hp2 : c2.pred <;> simp [hkl, hp2] at hw2 ⊢
            rw [hch]
            simp only [extraChild, hsk, if_true, List.append_nil]
            -- one of the created keys has the schema of c2
            have hname : c2.name ∈ kv.map (·.1) := by simpa [kvNames, hp] using hfol.2
            obtain ⟨p, hpm, hpn⟩ := List.mem_map.mp hname
            simp only [Bool.and_eq_true, decide_eq_true_eq, List.all_eq_true, List.contains_iff_mem] at hwc
            have hfind := find_of_mem_nodup kv p.1 p.2 hwc.1 hpm
            have hcf := createdKeys_find c.mod kv p.1 p.2 hfind c.keyNames (by simpa using hwc.2 p hpm)
            have hmem : DNode.mk c.mod p.1 (.leaf true) p.2 [] ∈ createdKeys c kv := List.mem_of_find?_eq_some hcf
            obtain ⟨i, hi⟩ := firstIdx_some_of_mem (p := c2.sameSchema) hmem (by
              simp [CStep.sameSchema, DNode.mod, DNode.name, hfol.1, hpn])
            obtain ⟨x, hx, _⟩ := firstIdx_get hi
            refine ⟨[i], ?_⟩
            simp [evalSteps, matchStep, hp2, hi, hx]
          · have hkl' : (c2.kind == Kind.leaf true) = false := by simpa using hkl
            simp only [hkl', Bool.false_eq_true, if_false, Bool.not_eq_true', Bool.and_eq_false_iff] at hfol
            have hsk : sub.isKeyLeaf = false := by
              rw [hsubeq]
              simp [DNode.isKeyLeaf, (createNode_schema v c2 (createChain v r)).2.2, hkl]
            rw [hch]
            simp only [extraChild, hsk, Bool.false_eq_true, if_false]
            refine ih c2 sub hwr hsub (createdKeys c kv) [] ?_
            intro x hx
            obtain ⟨_, hxm, hxn⟩ := createdKeys_mem hx
            simp only [CStep.sameSchema, hxm, Bool.and_eq_false_iff]
            rcases hfol with h | h
            · left
              simp only [beq_eq_false_iff_ne, ne_eq] at h ⊢
              exact fun e => h e.symm
            · right
              have : c2.name ∉ c.keyNames := by simpa using h
              have hne : x.name ≠ c2.name := fun e => this (e ▸ hxn)
              simpa using hne
      obtain ⟨a, ha⟩ := hchild
      refine ⟨pre.length :: a, ?_⟩
      rw [evalSteps_cons_some hm hget, ha]
      simp

/-- `lyd_new_path_check_find_lypath` leaves well-formed segments as they are and hides nothing -/
theorem checkFind_chainWF (v : Bytes) : ∀ (cs : List CStep) (u : Nat), (∀ c ∈ cs, stepWF c = true) →
    checkFind v u cs = .ok (cs, none) := by
  intro cs
  induction cs with
  | nil => intro u _; rfl
  | cons c r ih =>
    intro u h
    have hr := ih (u + 1) (fun x hx => h x (by simp [hx]))
    have hc := h c (by simp)
    unfold stepWF at hc
    cases hk : c.kind with
    | keyless => simp [hk] at hc
    | inner =>
      cases hp : c.pred <;> simp only [hk, hp] at hc <;> try cases hc
      simp [checkFind, hk, Kind.dupInst, hr]
    | leaf b =>
      cases hp : c.pred <;> simp only [hk, hp] at hc <;> try cases hc
      simp [checkFind, hk, Kind.dupInst, hr]
    | leaflist b =>
      cases b with
      | false => simp [hk] at hc
      | true =>
        cases hp : c.pred <;> simp only [hk, hp] at hc <;> try cases hc
        simp [checkFind, hk, hp, Kind.dupInst, hr]
    | list cfg =>
      cases hp : c.pred <;> simp only [hk, hp] at hc <;> try cases hc
      simp [checkFind, hk, hp, Kind.dupInst, hr]

theorem chainWF_all : ∀ (cs : List CStep), chainWF cs = true → ∀ c ∈ cs, stepWF c = true := by
  intro cs
  induction cs with
  | nil => intro _ c h; simp at h
  | cons x r ih =>
    intro h c hc
    cases r with
    | nil =>
      simp only [List.mem_singleton] at hc
      subst hc
      simpa [chainWF] using h
    | cons y r2 =>
      simp only [chainWF, Bool.and_eq_true] at h
      simp only [List.mem_cons] at hc
      rcases hc with rfl | hc
      · exact h.1.1
      · exact ih h.2 c (by simpa using hc)

theorem stepWF_not_pos {c : CStep} (h : stepWF c = true) (p : Nat) : c.pred ≠ .pos p := by
  intro hp
  unfold stepWF at h
  rw [hp] at h
  split at h <;> simp_all

theorem posBad_chainWF (sibs : List DNode) (cs : List CStep) (h : ∀ c ∈ cs, stepWF c = true) : posBad sibs cs = false := by
  cases cs with
  | nil => rfl
  | cons c r =>
    have := stepWF_not_pos (h c (by simp))
    cases hp : c.pred with
    | pos p => exact absurd hp (this p)
    | _ => simp [posBad, hp]

/-- `lyd_new_path_` in an empty tree, well-formed segments: the whole chain is created at the top level -/
theorem newPathC_empty (k : Bytes) (cs : List CStep) (hwf : chainWF cs = true) :
    newPathC [] cs k = (match createChain k cs with
      | none => .error .unsupported
      | some n => .ok ⟨[], n⟩) := by
  have hall := chainWF_all cs hwf
  simp only [newPathC, checkFind_chainWF k cs 0 hall, evalSteps_empty]
  cases cs with
  | nil => simp [createChain, childrenAt, posBad]
  | cons c r => simp [createChain, childrenAt, posBad_chainWF _ (c :: r) hall]

/-- … and on the tree that consists of that chain the same segments find its last node: `LY_EEXIST` -/
theorem newPathC_created (k : Bytes) (cs : List CStep) (n : DNode) (hwf : chainWF cs = true) (hn : createChain k cs = some n) :
    newPathC [n] cs k = .error .exists ∧ ∃ a, evalPath [n] cs = .ok a := by
  have hall := chainWF_all cs hwf
  cases cs with
  | nil => simp [createChain] at hn
  | cons c r =>
    obtain ⟨a, ha⟩ := evalSteps_createChain k r c n hwf hn [] [] (fun x hx => by simp at hx)
    simp only [List.nil_append] at ha
    refine ⟨?_, a, ?_⟩
    · simp [newPathC, checkFind_chainWF k (c :: r) 0 hall, ha]
    · simp [evalPath, ha]

end LyModel.Path
