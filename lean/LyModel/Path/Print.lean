import LyModel.Path.Tree
import LyModel.Generated.PathFmt
/-!
# `lyd_path` (tree_data.c) with its buffer arithmetic

The four writers of the path printer — node step, list-key predicates, leaf-list value predicate, position
predicate — each compute `len`, call `lyd_path_str_enlarge(buffer, buflen, bufused + len, is_static)` and then
`sprintf(buffer + bufused, fmt, …)`.  The `len` formulas and the formats are *generated from the source*
(`Generated/PathFmt.lean`); the model keeps the allocation size and a log of every write so that
"every write lies inside the allocation" is a statement about the model state (`Props.C15.path_buffer_in_bounds`).
-/
namespace LyModel.Path
open LyModel.Generated.PathFmt

/-! ### decimal numbers (`asprintf("%" PRIu32)`) -/

def toDecAux : Nat → Nat → Bytes → Bytes
  | 0, _, acc => acc
  | f + 1, n, acc =>
    if n < 10 then UInt8.ofNat (48 + n) :: acc
    else toDecAux f (n / 10) (UInt8.ofNat (48 + n % 10) :: acc)

/-- decimal digits of `n` -/
def toDec (n : Nat) : Bytes := toDecAux (n + 1) n []

/-! ### `sprintf` with `%s` / `%c` -/

inductive Arg where
  | str (b : Bytes)
  | chr (c : UInt8)

def argBytes (args : List Arg) (i : Nat) : Bytes :=
  match args[i]? with
  | some (.str b) => b
  | some (.chr c) => [c]
  | none => []

def renderPiece (args : List Arg) : Piece → Bytes
  | .lit b => b
  | .s i => argBytes args i
  | .c i => argBytes args i

def render (fmt : List Piece) (args : List Arg) : Bytes := fmt.flatMap (renderPiece args)

/-! ### the buffer -/

/-- one `sprintf`: `len` bytes (terminating NUL included) written at `off` into an allocation of `cap` bytes -/
structure Write where
  off : Nat
  len : Nat
  cap : Nat
  deriving Repr, DecidableEq

structure Buf where
  /-- caller-provided buffer (never reallocated) -/
  isStatic : Bool
  /-- `buflen`: size of the allocation -/
  cap : Nat
  /-- the characters written so far; `bufused = data.length` -/
  data : Bytes
  /-- every write so far, newest first -/
  log : List Write
  deriving DecidableEq

/-- `lyd_path_str_enlarge`; `none` = `LY_EINCOMPLETE` (static buffer too small) -/
def Buf.enlarge (b : Buf) (reqlen : Nat) : Option Buf :=
  let req := reqlen + enlargeExtra
  if req > b.cap then
    if b.isStatic then none else some { b with cap := req }
  else some b

/-- `bufused += sprintf(buffer + bufused, …)` producing `s` -/
def Buf.sprintf (b : Buf) (s : Bytes) : Buf :=
  { b with data := b.data ++ s, log := ⟨b.data.length, s.length + 1, b.cap⟩ :: b.log }

/-- `quot = '\''; if (strchr(val, '\'')) quot = '"';` -/
def quoteFor (v : Bytes) : UInt8 := if v.contains quoteTrigger then quoteAlt else quoteDefault

/-- `lyd_path_list_predicate` over the leading key children; `false` = `LY_EINCOMPLETE`
    (the predicates of the keys that still fitted stay in the buffer) -/
def printKeyPreds (b : Buf) : List DNode → Buf × Bool
  | [] => (b, true)
  | k :: r =>
    match b.enlarge (b.data.length + listPredLen k.name.length k.value.length) with
    | none => (b, false)
    | some b1 =>
      let q := quoteFor k.value
      printKeyPreds (b1.sprintf (render listPredFmt [.str k.name, .chr q, .str k.value, .chr q])) r

/-- `lyd_path_leaflist_predicate` -/
def printValuePred (b : Buf) (v : Bytes) : Buf × Bool :=
  match b.enlarge (b.data.length + leaflistPredLen v.length) with
  | none => (b, false)
  | some b1 =>
    let q := quoteFor v
    (b1.sprintf (render leaflistPredFmt [.chr q, .str v, .chr q]), true)

/-- `lyd_path_position_predicate` -/
def printPosPred (b : Buf) (pos : Nat) : Buf × Bool :=
  let val := toDec pos
  match b.enlarge (b.data.length + posPredLen val.length) with
  | none => (b, false)
  | some b1 => (b1.sprintf (render posPredFmt [.str val]), true)

/-- the `switch (iter->schema->nodetype)` of `lyd_path` -/
def printPred (b : Buf) (l : Level) : Buf × Bool :=
  match l.node.kind with
  | .list _ => printKeyPreds b (keyLeaves l.node.children)
  | .keyless => printPosPred b (listPos l.sibs l.idx l.node)
  | .leaflist true => printValuePred b l.node.value
  | .leaflist false => printPosPred b (listPos l.sibs l.idx l.node)
  | _ => (b, true)

/-- module to print: `mod = lyd_node_module(iter); if (prev_mod == mod) mod = NULL;` -/
def stepMod (l : Level) : Option Bytes :=
  if l.pmod == some l.node.mod then none else some l.node.mod

/-- one iteration of the `while (depth)` loop of `lyd_path`; `withPred` = `(depth > 1) || (pathtype == LYD_PATH_STD)` -/
def printStep (b : Buf) (l : Level) (withPred : Bool) : Buf × Bool :=
  let m := stepMod l
  let len := stepLen m.isSome (m.getD []).length l.node.name.length
  match b.enlarge (b.data.length + len) with
  | none => (b, false)
  | some b1 =>
    let b2 := b1.sprintf (render stepFmt [.str (m.getD []), .str (if m.isSome then [58] else []), .str l.node.name])
    if withPred then printPred b2 l else (b2, true)

/-- the loop; `std` = `pathtype == LYD_PATH_STD` -/
def printLevels (std : Bool) (b : Buf) : List Level → Buf × Bool
  | [] => (b, true)
  | l :: rest =>
    match printStep b l (std || !rest.isEmpty) with
    | (b1, true) => printLevels std b1 rest
    | (b1, false) => (b1, false)

inductive PathType where
  | std
  | stdNoLastPred
  deriving DecidableEq, Repr

/-- the buffer state before the first segment: a caller-provided buffer is used as it comes — unless the source has
    the up-front `buffer[0] = '\0'` (`Generated.PathFmt.staticInitNul`, read off the source), which is one write of one
    byte at offset 0 -/
def initBuf (static : Option Nat) : Buf :=
  match static with
  | some n => ⟨true, n, [], if staticInitNul then [⟨0, 1, n⟩] else []⟩
  | none => ⟨false, 0, [], []⟩

/-- `lyd_path(node, pathtype, buffer, buflen)`; `static = some buflen` for a caller-provided buffer.
    `none` = NULL (bad address, or `buflen ≤ 1`). The returned buffer state's `data` is the C string the caller
    finds — except when `isStatic ∧ log = []`: then the function returned the caller's buffer without ever
    writing to it (not even a NUL; finding F66). -/
def lydPath (f : Forest) (a : Addr) (pt : PathType) (static : Option Nat) : Option Buf :=
  match levels f a with
  | none => none
  | some [] => none
  | some ls =>
    match static with
    | some n => if n > 1 then some (printLevels (pt == .std) (initBuf (some n)) ls).1 else none
    | none => some (printLevels (pt == .std) (initBuf none) ls).1

/-- `lyd_path(node, LYD_PATH_STD, NULL, 0)` as a byte string -/
def pathOf (f : Forest) (a : Addr) : Option Bytes := (lydPath f a .std none).map (·.data)

/-! ### the same text without the buffer (what a sufficiently large buffer receives) -/

def keyPredsText : List DNode → Bytes
  | [] => []
  | k :: r =>
    let q := quoteFor k.value
    render listPredFmt [.str k.name, .chr q, .str k.value, .chr q] ++ keyPredsText r

def predText (l : Level) : Bytes :=
  match l.node.kind with
  | .list _ => keyPredsText (keyLeaves l.node.children)
  | .keyless => render posPredFmt [.str (toDec (listPos l.sibs l.idx l.node))]
  | .leaflist true => let q := quoteFor l.node.value; render leaflistPredFmt [.chr q, .str l.node.value, .chr q]
  | .leaflist false => render posPredFmt [.str (toDec (listPos l.sibs l.idx l.node))]
  | _ => []

def stepText (l : Level) (withPred : Bool) : Bytes :=
  let m := stepMod l
  render stepFmt [.str (m.getD []), .str (if m.isSome then [58] else []), .str l.node.name]
    ++ (if withPred then predText l else [])

def levelsText (std : Bool) : List Level → Bytes
  | [] => []
  | l :: rest => stepText l (std || !rest.isEmpty) ++ levelsText std rest

end LyModel.Path
