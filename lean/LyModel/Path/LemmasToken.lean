import LyModel.Path.Token
import LyModel.Path.Print
/-!
Lemmas about the tokenizer on the pieces the path printer emits: identifiers, `prefix:identifier`, literals whose
body does not contain the quote, decimal numbers, and the single-character tokens.
-/
namespace LyModel.Path

/-! ### identifiers -/

/-- first character of a YANG identifier -/
def IsIdentStart (c : UInt8) : Prop :=
  (97 ≤ c.toNat ∧ c.toNat ≤ 122) ∨ (65 ≤ c.toNat ∧ c.toNat ≤ 90) ∨ c.toNat = 95

/-- further characters of a YANG identifier -/
def IsIdentChar (c : UInt8) : Prop :=
  (97 ≤ c.toNat ∧ c.toNat ≤ 122) ∨ (65 ≤ c.toNat ∧ c.toNat ≤ 90) ∨ (48 ≤ c.toNat ∧ c.toNat ≤ 57) ∨
    c.toNat = 95 ∨ c.toNat = 45 ∨ c.toNat = 46

/-- RFC 7950 `identifier` (ASCII): `(ALPHA / "_") *(ALPHA / DIGIT / "_" / "-" / ".")` -/
inductive IsIdent : Bytes → Prop where
  | mk (c : UInt8) (t : Bytes) (hc : IsIdentStart c) (ht : ∀ d ∈ t, IsIdentChar d) : IsIdent (c :: t)

instance (c : UInt8) : Decidable (IsIdentStart c) := by unfold IsIdentStart; infer_instance
instance (c : UInt8) : Decidable (IsIdentChar c) := by unfold IsIdentChar; infer_instance

instance : (n : Bytes) → Decidable (IsIdent n)
  | [] => isFalse (by intro h; cases h)
  | c :: t =>
    if h : IsIdentStart c ∧ ∀ d ∈ t, IsIdentChar d then isTrue (IsIdent.mk c t h.1 h.2)
    else isFalse (by intro hi; cases hi with | mk _ _ hc ht => exact h ⟨hc, ht⟩)

theorem beq_false_of_toNat_ne {c k : UInt8} (h : c.toNat ≠ k.toNat) : (c == k) = false := by
  simp only [beq_eq_false_iff_ne, ne_eq]
  intro heq; exact h (heq ▸ rfl)

theorem beq_true_of_toNat_eq {c k : UInt8} (h : c.toNat = k.toNat) : (c == k) = true := by
  simp only [beq_iff_eq]
  exact UInt8.toNat_inj.mp h

theorem decodeCp_ascii {c : UInt8} (r : Bytes) (h1 : 32 ≤ c.toNat) (h2 : c.toNat < 128) :
    decodeCp (c :: r) = some (c.toNat, 1) := by
  simp only [decodeCp, h2, if_true]
  have : ¬ c.toNat < 32 := by omega
  simp [this]

theorem isNameCp_identChar {c : UInt8} (h : IsIdentChar c) : isNameCp c.toNat = true ∧ c.toNat ≠ 58 ∧
    32 ≤ c.toNat ∧ c.toNat < 128 := by
  unfold IsIdentChar at h
  refine ⟨?_, by omega, by omega, by omega⟩
  simp only [isNameCp, Bool.or_eq_true, Bool.and_eq_true, decide_eq_true_eq, beq_iff_eq]
  omega

theorem isNameStartCp_identStart {c : UInt8} (h : IsIdentStart c) : isNameStartCp c.toNat = true ∧ c.toNat ≠ 58 ∧
    32 ≤ c.toNat ∧ c.toNat < 128 := by
  unfold IsIdentStart at h
  refine ⟨?_, by omega, by omega, by omega⟩
  simp only [isNameStartCp, Bool.or_eq_true, Bool.and_eq_true, decide_eq_true_eq, beq_iff_eq]
  omega

theorem IsIdentStart.identChar {c : UInt8} (h : IsIdentStart c) : IsIdentChar c := by
  unfold IsIdentStart at h; unfold IsIdentChar; omega

/-- what may follow a name in a printed path: end of string, `/`, `[`, `=` (and `:` between prefix and name) -/
def NameStop (rest : Bytes) : Prop :=
  rest = [] ∨ ∃ c r, rest = c :: r ∧ (c = 47 ∨ c = 91 ∨ c = 61 ∨ c = 58)

theorem ncnameRest_ident (rest : Bytes) (hr : NameStop rest) :
    ∀ (t : Bytes), (∀ d ∈ t, IsIdentChar d) → ∀ fuel, t.length ≤ fuel → ncnameRest fuel (t ++ rest) = some t.length := by
  intro t
  induction t with
  | nil =>
    intro _ fuel _
    cases fuel with
    | zero => simp [ncnameRest]
    | succ f =>
      rcases hr with rfl | ⟨c, r, rfl, hc⟩
      · simp [ncnameRest]
      · have hd : decodeCp (c :: r) = some (c.toNat, 1) := by
          apply decodeCp_ascii <;> rcases hc with rfl | rfl | rfl | rfl <;> decide
        have hn : (isNameCp c.toNat && c.toNat != 58) = false := by
          rcases hc with rfl | rfl | rfl | rfl <;> decide
        simp [ncnameRest, hd, hn]
  | cons c t ih =>
    intro ht fuel hf
    cases fuel with
    | zero => simp at hf
    | succ f =>
      obtain ⟨h1, h2, h3, h4⟩ := isNameCp_identChar (ht c (by simp))
      have hd : decodeCp (c :: (t ++ rest)) = some (c.toNat, 1) := decodeCp_ascii _ h3 h4
      have hne : (c.toNat != 58) = true := by simp [h2]
      have := ih (fun d hd => ht d (by simp [hd])) f (by simpa using hf)
      simp [ncnameRest, hd, h1, hne, this]

theorem ncname_ident {nm : Bytes} (hn : IsIdent nm) (rest : Bytes) (hr : NameStop rest) :
    ncname (nm ++ rest) = some nm.length := by
  cases hn with
  | mk c t hc ht =>
    obtain ⟨h1, h2, h3, h4⟩ := isNameStartCp_identStart hc
    have hd : decodeCp (c :: (t ++ rest)) = some (c.toNat, 1) := decodeCp_ascii _ h3 h4
    have hne : (c.toNat == 58) = false := by simp [h2]
    have := ncnameRest_ident rest hr t ht (t.length + rest.length + 1) (by omega)
    simp [ncname, hd, h1, hne, this]

/-! ### names as the printer writes them: `name` or `module:name` -/

theorem identStart_ne {c : UInt8} (h : IsIdentStart c) :
    (c == 40) = false ∧ (c == 41) = false ∧ (c == 91) = false ∧ (c == 93) = false ∧ (c == 46) = false ∧
    (c == 64) = false ∧ (c == 44) = false ∧ (c == 39) = false ∧ (c == 34) = false ∧ isDigit c = false ∧
    (c == 36) = false ∧ (c == 47) = false ∧ (c == 33) = false ∧ (c == 60) = false ∧ (c == 62) = false ∧
    (c == 124) = false ∧ (c == 43) = false ∧ (c == 45) = false ∧ (c == 61) = false ∧ (c == 42) = false := by
  unfold IsIdentStart at h
  have d : isDigit c = false := by simp [isDigit]; omega
  refine ⟨?_, ?_, ?_, ?_, ?_, ?_, ?_, ?_, ?_, d, ?_, ?_, ?_, ?_, ?_, ?_, ?_, ?_, ?_, ?_⟩ <;>
    (apply beq_false_of_toNat_ne; simp; omega)

/-- the lexer on an identifier-initial string in a position where a name may start -/
theorem lexOne_identStart {c : UInt8} (h : IsIdentStart c) (r : Bytes) :
    lexOne true (c :: r) = (match nameTest (c :: r) with
      | none => none
      | some (t, rest) => some (.name t, rest)) := by
  obtain ⟨h1, h2, h3, h4, h5, h6, h7, h8, h9, h10, h11, h12, h13, h14, h15, h16, h17, h18, h19, _⟩ := identStart_ne h
  simp only [lexOne, h1, h2, h3, h4, h5, h6, h7, h8, h9, h10, h11, h12, h13, h14, h15, h16, h17, h18, h19,
    Bool.or_self, Bool.false_and, Bool.false_eq_true, if_false, Bool.not_true]
  cases nameTest (c :: r) with
  | none => rfl
  | some p => cases p; rfl

theorem firstLen_ident {nm : Bytes} (hn : IsIdent nm) (rest : Bytes) (hr : NameStop rest) :
    firstLen (nm ++ rest) = some nm.length := by
  have hnc := ncname_ident hn rest hr
  cases hn with
  | mk c t hc ht =>
    have hstar : (c == 42) = false := (identStart_ne hc).2.2.2.2.2.2.2.2.2.2.2.2.2.2.2.2.2.2.2
    have hne : c ≠ 42 := by simpa using hstar
    simp only [List.cons_append] at hnc ⊢
    unfold firstLen
    split
    · next heq => simp at heq; exact absurd heq.1 hne
    · exact hnc

/-- an identifier does not start with `*`: the `starNoPrefix` branch of `nameTestWith` is never taken for printed names -/
theorem ident_head_not_star {nm : Bytes} (hn : IsIdent nm) (rest : Bytes) : ((nm ++ rest).head? == some 42) = false := by
  cases hn with
  | mk c t hc ht =>
    have hstar : (c == 42) = false := (identStart_ne hc).2.2.2.2.2.2.2.2.2.2.2.2.2.2.2.2.2.2.2
    simpa using hstar

theorem nameTest_ident {nm : Bytes} (hn : IsIdent nm) (rest : Bytes)
    (hr : rest = [] ∨ ∃ c r, rest = c :: r ∧ (c = 47 ∨ c = 91 ∨ c = 61)) :
    nameTest (nm ++ rest) = some (nm, rest) := by
  have hstop : NameStop rest := by
    rcases hr with h | ⟨c, r, h, hc⟩
    · exact Or.inl h
    · exact Or.inr ⟨c, r, h, by rcases hc with h | h | h <;> simp [h]⟩
  simp only [nameTest, nameTestWith, firstLen_ident hn rest hstop, ident_head_not_star hn rest, Bool.and_false, Bool.false_eq_true,
    if_false, nameTestAfter, List.drop_left, List.take_left]
  rcases hr with rfl | ⟨d, r, rfl, hd⟩
  · rfl
  · rcases hd with rfl | rfl | rfl <;> rfl

theorem nameTest_prefixed {m nm : Bytes} (hm : IsIdent m) (hn : IsIdent nm) (rest : Bytes)
    (hr : rest = [] ∨ ∃ c r, rest = c :: r ∧ (c = 47 ∨ c = 91 ∨ c = 61)) :
    nameTest (m ++ (58 :: nm ++ rest)) = some (m ++ 58 :: nm, rest) := by
  have hstop : NameStop rest := by
    rcases hr with h | ⟨c, r, h, hc⟩
    · exact Or.inl h
    · exact Or.inr ⟨c, r, h, by rcases hc with h | h | h <;> simp [h]⟩
  have h1 : firstLen (m ++ (58 :: nm ++ rest)) = some m.length :=
    firstLen_ident hm _ (Or.inr ⟨58, nm ++ rest, rfl, by simp⟩)
  have h2 : ncname (nm ++ rest) = some nm.length := ncname_ident hn rest hstop
  simp only [nameTest, nameTestWith, h1, ident_head_not_star hm (58 :: nm ++ rest), Bool.and_false, Bool.false_eq_true, if_false,
    nameTestAfter, List.drop_left]
  cases hn with
  | mk c2 t2 hc2 ht2 =>
    have hne2 : c2 ≠ 58 := by
      intro h; subst h; unfold IsIdentStart at hc2; simp at hc2
    have hne3 : c2 ≠ 42 := by
      intro h; subst h; unfold IsIdentStart at hc2; simp at hc2
    simp only [List.cons_append] at h2 ⊢
    split
    · next heq => simp at heq; exact absurd heq.1 hne2
    · next heq => simp at heq; exact absurd heq.1 hne3
    · rename_i _ r' _ _ heq
      cases heq
      simp only [h2]
      have e : m ++ 58 :: c2 :: (t2 ++ rest) = (m ++ 58 :: c2 :: t2) ++ rest := by simp
      have hl : m.length + 1 + (c2 :: t2).length = (m ++ 58 :: c2 :: t2).length := by simp; omega
      rw [e, hl, List.take_left]
      have e2 : c2 :: (t2 ++ rest) = (c2 :: t2) ++ rest := by simp
      rw [e2, List.drop_left]
    · next heq => simp at heq

/-! ### literals -/

theorem scanLit_spec (q : UInt8) : ∀ (v rest : Bytes), q ∉ v → scanLit q (v ++ q :: rest) = some (v, rest) := by
  intro v
  induction v with
  | nil => intro rest _; simp [scanLit]
  | cons c t ih =>
    intro rest hq
    have hc : (c == q) = false := by
      simp only [beq_eq_false_iff_ne, ne_eq]; intro h; exact hq (by simp [h])
    have := ih rest (fun h => hq (by simp [h]))
    simp [scanLit, hc, this]

/-- a literal of the printer: quote, body without that quote, quote -/
theorem lexOne_lit (p : Bool) (q : UInt8) (hq : q = 39 ∨ q = 34) (v rest : Bytes) (hv : q ∉ v) :
    lexOne p (q :: (v ++ q :: rest)) = some (.lit q v, rest) := by
  have := scanLit_spec q v rest hv
  rcases hq with rfl | rfl <;> simp [lexOne, this, isDigit]

/-- the quote chosen by the printer does not occur in the value unless the value has both quote characters -/
theorem quoteFor_spec (v : Bytes) (h : ¬ (39 ∈ v ∧ 34 ∈ v)) :
    (quoteFor v = 39 ∨ quoteFor v = 34) ∧ quoteFor v ∉ v := by
  unfold quoteFor
  split
  · next hc =>
    have h39 : (39 : UInt8) ∈ v := by simpa [Generated.PathFmt.quoteTrigger] using hc
    exact ⟨Or.inr rfl, fun h34 => h ⟨h39, h34⟩⟩
  · next hc =>
    have h39 : (39 : UInt8) ∉ v := by simpa [Generated.PathFmt.quoteTrigger] using hc
    exact ⟨Or.inl rfl, h39⟩

/-! ### single-character tokens -/

theorem lexOne_brack1 (p : Bool) (r : Bytes) : lexOne p (91 :: r) = some (.brack1, r) := by simp [lexOne]
theorem lexOne_brack2 (p : Bool) (r : Bytes) : lexOne p (93 :: r) = some (.brack2, r) := by simp [lexOne]
theorem lexOne_eq (p : Bool) (r : Bytes) : lexOne p (61 :: r) = some (.eq, r) := by simp [lexOne, isDigit]
theorem lexOne_dot_eq (p : Bool) (r : Bytes) : lexOne p (46 :: 61 :: r) = some (.dot, 61 :: r) := by
  simp [lexOne, isDigit]

theorem lexOne_path (p : Bool) (r : Bytes) (h : r.head? ≠ some 47) : lexOne p (47 :: r) = some (.path, r) := by
  simp [lexOne, isDigit, h]

/-! ### numbers -/

def AllDigits (d : Bytes) : Prop := ∀ c ∈ d, isDigit c = true

theorem spanDigits_spec : ∀ (d rest : Bytes), AllDigits d → (rest.head?.map isDigit ≠ some true) →
    spanDigits (d ++ rest) = (d, rest) := by
  intro d
  induction d with
  | nil =>
    intro rest _ hr
    cases rest with
    | nil => simp [spanDigits]
    | cons c r =>
      have : isDigit c = false := by
        cases h : isDigit c with
        | false => rfl
        | true => simp [h] at hr
      simp [spanDigits, this]
  | cons c t ih =>
    intro rest hd hr
    have hc : isDigit c = true := hd c (by simp)
    have := ih rest (fun x hx => hd x (by simp [hx])) hr
    simp [spanDigits, hc, this]

/-- a decimal number followed by `]` -/
theorem lexOne_num (p : Bool) (c : UInt8) (t rest : Bytes) (hd : AllDigits (c :: t)) :
    lexOne p (c :: (t ++ 93 :: rest)) = some (.num (c :: t), 93 :: rest) := by
  have hc : isDigit c = true := hd c (by simp)
  have hcn : 48 ≤ c.toNat ∧ c.toNat ≤ 57 := by simpa [isDigit] using hc
  have hsp := spanDigits_spec (c :: t) (93 :: rest) hd (by simp [isDigit])
  have hsn : scanNum (c :: (t ++ 93 :: rest)) = (c :: t, 93 :: rest) := by
    have e : (c :: (t ++ 93 :: rest)) = (c :: t) ++ 93 :: rest := by simp
    unfold scanNum
    rw [e, hsp]
    rfl
  have n1 : (c == 40) = false := beq_false_of_toNat_ne (by simp; omega)
  have n2 : (c == 41) = false := beq_false_of_toNat_ne (by simp; omega)
  have n3 : (c == 91) = false := beq_false_of_toNat_ne (by simp; omega)
  have n4 : (c == 93) = false := beq_false_of_toNat_ne (by simp; omega)
  have n5 : (c == 46) = false := beq_false_of_toNat_ne (by simp; omega)
  have n6 : (c == 64) = false := beq_false_of_toNat_ne (by simp; omega)
  have n7 : (c == 44) = false := beq_false_of_toNat_ne (by simp; omega)
  have n8 : (c == 39) = false := beq_false_of_toNat_ne (by simp; omega)
  have n9 : (c == 34) = false := beq_false_of_toNat_ne (by simp; omega)
  simp only [lexOne, n1, n2, n3, n4, n5, n6, n7, n8, n9, hc, Bool.or_self, Bool.false_and, Bool.false_or, if_true,
    Bool.false_eq_true, if_false, hsn]

/-! ### decimal printing -/

theorem digit_isDigit {d : Nat} (h : d < 10) : isDigit (UInt8.ofNat (48 + d)) = true := by
  simp [isDigit]; omega

theorem toDecAux_digits : ∀ (f n : Nat) (acc : Bytes), AllDigits acc → AllDigits (toDecAux f n acc) := by
  intro f
  induction f with
  | zero => intro n acc h; simpa [toDecAux] using h
  | succ f ih =>
    intro n acc h
    simp only [toDecAux]
    split
    · next hlt =>
      intro c hc
      simp only [List.mem_cons] at hc
      rcases hc with rfl | hc
      · exact digit_isDigit hlt
      · exact h c hc
    · apply ih
      intro c hc
      simp only [List.mem_cons] at hc
      rcases hc with rfl | hc
      · exact digit_isDigit (Nat.mod_lt _ (by omega))
      · exact h c hc

theorem toDec_digits (n : Nat) : AllDigits (toDec n) := toDecAux_digits _ _ _ (by intro c hc; simp at hc)

theorem toDecAux_ne_nil : ∀ (f n : Nat) (acc : Bytes), (f ≠ 0 ∨ acc ≠ []) → toDecAux f n acc ≠ [] := by
  intro f
  induction f with
  | zero => intro n acc h; rcases h with h | h; exact absurd rfl h; simpa [toDecAux] using h
  | succ f ih =>
    intro n acc _
    simp only [toDecAux]
    split
    · simp
    · exact ih _ _ (Or.inr (by simp))

theorem toDec_ne_nil (n : Nat) : toDec n ≠ [] := toDecAux_ne_nil _ _ _ (Or.inl (by omega))

end LyModel.Path
