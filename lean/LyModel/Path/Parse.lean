import LyModel.Path.Token
/-!
# `ly_path_parse` (path.c) for data paths

Options as `lyd_find_path` / `lyd_new_path` pass them: `lref = 0`, `LY_PATH_BEGIN_EITHER`, `LY_PATH_PREFIX_FIRST`,
`LY_PATH_PRED_SIMPLE`.  Result: is the path absolute, and its steps (NameTest text + predicate).  Every failure is
`LY_EVALID` (`none`).
-/
namespace LyModel.Path

/-- right-hand side of a predicate -/
inductive PVal where
  | lit (b : Bytes)
  | num (raw : Bytes)
  | var (name : Bytes)
  deriving DecidableEq, Repr

inductive Pred where
  | none
  /-- `[k1=v1][k2=v2]…` in the order written; key NameTest text as written (may carry a prefix) -/
  | keys (kv : List (Bytes × PVal))
  /-- `[.=v]` -/
  | dot (v : PVal)
  /-- `[N]`: the Number token text -/
  | pos (raw : Bytes)
  deriving DecidableEq, Repr

structure Step where
  /-- NameTest text: `name` or `prefix:name` -/
  name : Bytes
  pred : Pred
  deriving DecidableEq, Repr

/-- `strnstr(tok, ":", len)`: does the NameTest carry a prefix -/
def hasPrefix (raw : Bytes) : Bool := raw.contains 58

/-- split at the first `:`; `none` if there is none -/
def splitAtColon : Bytes → Option (Bytes × Bytes)
  | [] => none
  | c :: r =>
    if c == 58 then some ([], r)
    else
      match splitAtColon r with
      | none => none
      | some (p, n) => some (c :: p, n)

/-- prefix and local name of a NameTest (split at the first `:`) -/
def splitName (raw : Bytes) : Option Bytes × Bytes :=
  match splitAtColon raw with
  | none => (none, raw)
  | some (p, n) => (some p, n)

def localName (raw : Bytes) : Bytes := (splitName raw).2

/-- `is_yangidentchar` on a byte (bytes ≥ 0x80 sign-extend to a huge `uint32_t`: no) -/
def isIdentByte (c : UInt8) : Bool :=
  (97 ≤ c.toNat && c.toNat ≤ 122) || (65 ≤ c.toNat && c.toNat ≤ 90) || (48 ≤ c.toNat && c.toNat ≤ 57) ||
  c == 95 || c == 45 || c == 46

/-- "Duplicate predicate key" test of `ly_path_check_predicate`: `!strncmp(earlier, name, name_len) &&
    lysp_check_identifierchar(NULL, earlier[name_len], 0, NULL)` where `earlier` points at an earlier key name inside
    the expression.  After a successfully lexed NameTest the next byte of the expression is never an identifier
    character, so the test is: `name` is a prefix of the earlier name and the earlier name ends there or goes on
    with a byte that is not a YANG identifier character. -/
def dupKey (earlier name : Bytes) : Bool :=
  name.isPrefixOf earlier &&
    (match earlier.drop name.length with
     | [] => true
     | c :: _ => !isIdentByte c)

def digitsVal : Bytes → Nat → Nat
  | [], acc => acc
  | c :: r, acc => digitsVal r (acc * 10 + (c.toNat - 48))

/-- value of the leading decimal digits of a Number token -/
def leadVal (raw : Bytes) : Nat := digitsVal (spanDigits raw).1 0

/-- `atoi(tok) != 0` as glibc computes it: `(int) strtol(…)`, `strtol` saturating at `LONG_MAX` -/
def atoiNonzero (raw : Bytes) : Bool := (min (leadVal raw) (2 ^ 63 - 1)) % 2 ^ 32 != 0

/-- `strtoull(tok, …, 10)` -/
def posValue (raw : Bytes) : Nat := min (leadVal raw) (2 ^ 64 - 1)

/-- the key-predicate `do … while ('[')` loop; entered with the tokens after a `[` whose next token is a NameTest.
    `seen`: local names of the earlier keys. -/
def parseKeyPreds (seen : List Bytes) : List Tok → Option (List (Bytes × PVal) × List Tok)
  | .name k :: .eq :: v :: .brack2 :: rest =>
    if seen.any (fun e => dupKey e (localName k)) then none
    else
      let pv : Option PVal := match v with
        | .lit _ b => some (.lit b)
        | .num n => some (.num n)
        | .var n => some (.var n)
        | _ => none
      match pv with
      | none => none
      | some pv =>
        match rest with
        | .brack1 :: rest' =>
          match parseKeyPreds (seen ++ [localName k]) rest' with
          | none => none
          | some (kv, r) => some ((k, pv) :: kv, r)
        | _ => some ([(k, pv)], rest)
  | _ => none

/-- `ly_path_check_predicate` (`LY_PATH_PRED_SIMPLE`) -/
def parsePred : List Tok → Option (Pred × List Tok)
  | .brack1 :: .name k :: rest =>
    match parseKeyPreds [] (.name k :: rest) with
    | none => none
    | some (kv, r) => some (.keys kv, r)
  | .brack1 :: .dot :: .eq :: .lit _ b :: .brack2 :: rest => some (.dot (.lit b), rest)
  | .brack1 :: .dot :: .eq :: .num n :: .brack2 :: rest => some (.dot (.num n), rest)
  | .brack1 :: .num n :: .brack2 :: rest => if atoiNonzero n then some (.pos n, rest) else none
  | .brack1 :: _ => none
  | toks => some (.none, toks)

/-- the `do { NameTest Predicate* } while ('/')` loop; `needPrefix` = absolute path and no prefix seen yet -/
def parseSteps : Nat → Bool → List Tok → Option (List Step)
  | 0, _, _ => none
  | f + 1, needPrefix, .name raw :: rest =>
    if needPrefix && !hasPrefix raw then none
    else
      match parsePred rest with
      | none => none
      | some (p, []) => some [⟨raw, p⟩]
      | some (p, .path :: rest') =>
        match parseSteps f false rest' with
        | none => none
        | some ss => some (⟨raw, p⟩ :: ss)
      | some (_, _) => none
  | _ + 1, _, _ => none

def parseToks (toks : List Tok) : Option (Bool × List Step) :=
  match toks with
  | .path :: rest => (parseSteps (rest.length + 1) true rest).map (fun ss => (true, ss))
  | _ => (parseSteps (toks.length + 1) false toks).map (fun ss => (false, ss))

/-- `ly_path_parse(ctx, NULL, s, strlen(s), 0, LY_PATH_BEGIN_EITHER, LY_PATH_PREFIX_FIRST, LY_PATH_PRED_SIMPLE, …)`:
    `none` = `LY_EVALID`, otherwise (absolute?, steps) -/
def parsePath (s : Bytes) : Option (Bool × List Step) :=
  match tokenize s with
  | none => none
  | some toks => parseToks toks

end LyModel.Path
