import LyModel.Path.Tree
import LyModel.Path.Parse
/-!
# `ly_path_compile`, `ly_path_eval_partial`, `lyd_find_path`, `lyd_new_path_` for absolute data paths

Values are compared as canonical strings (the C code stores the predicate value through the type plugin and compares
stored values; for canonical input this is the same — the correspondence runs with string-typed keys, the typed cases
are covered by the laws evaluated on the implementation).  Variable references in key predicates
(`[k=$v]`, `LY_PATH_PREDTYPE_LIST_VAR`) are outside the modelled fragment (`Err.unsupported`), as are relative paths.
-/
namespace LyModel.Path

inductive Err where
  /-- `LY_EVALID` -/
  | invalid
  /-- `LY_ENOTFOUND` -/
  | notFound
  /-- `LY_EINCOMPLETE`: only a prefix of the path exists; address of the deepest existing node -/
  | incomplete (a : Addr)
  /-- `LY_EEXIST` -/
  | exists
  /-- `LY_EINVAL` -/
  | einval
  /-- outside the modelled fragment -/
  | unsupported
  deriving DecidableEq, Repr

/-- compiled predicate (`struct ly_path_predicate[]`) -/
inductive CPred where
  | none
  /-- `LY_PATH_PREDTYPE_LIST`: (key leaf name, value) in the order written -/
  | keys (kv : List (Bytes × Bytes))
  /-- `LY_PATH_PREDTYPE_LEAFLIST` -/
  | dot (v : Bytes)
  /-- `LY_PATH_PREDTYPE_POSITION` -/
  | pos (n : Nat)
  deriving DecidableEq, Repr

/-- one segment of a compiled path (`struct ly_path`): the schema node (module, name, kind, its key names in schema
    order) and the predicate -/
structure CStep where
  mod : Bytes
  name : Bytes
  kind : Kind
  keyNames : List Bytes
  pred : CPred
  deriving DecidableEq, Repr

def findSchema (sibs : List SNode) (mod name : Bytes) : Option SNode :=
  sibs.find? (fun s => s.mod == mod && s.name == name)

/-- names of the keys of a list schema node: its leading `LYS_KEY` children -/
def schemaKeys (s : SNode) : List Bytes :=
  (s.children.takeWhile (fun c => c.kind == .leaf true)).map (·.name)

def PVal.bytes? : PVal → Option Bytes
  | .lit b => some b
  | .num raw => some raw
  | .var _ => Option.none

/-- one `[key=value]` of `ly_path_compile_predicate`: the key NameTest is resolved like a child step (prefix =
    module name, no prefix = the list's module) and must be a key leaf -/
def compileKey (s : SNode) (k : Bytes) (v : PVal) : Except Err (Bytes × Bytes) :=
  let (pfx, ln) := splitName k
  let m := pfx.getD s.mod
  match findSchema s.children m ln with
  | Option.none => .error .invalid
  | some ks =>
    if ks.kind != .leaf true then .error .invalid
    else
      match v.bytes? with
      | Option.none => .error .unsupported
      | some b => .ok (ln, b)

def compileKeys (s : SNode) : List (Bytes × PVal) → Except Err (List (Bytes × Bytes))
  | [] => .ok []
  | (k, v) :: r =>
    match compileKey s k v with
    | .error e => .error e
    | .ok kv =>
      match compileKeys s r with
      | .error e => .error e
      | .ok kvs => .ok (kv :: kvs)

/-- `ly_path_compile_predicate` -/
def compilePred (s : SNode) : Pred → Except Err CPred
  | .none => .ok .none
  | .keys kv =>
    match s.kind with
    | .list _ =>
      match compileKeys s kv with
      | .error e => .error e
      | .ok ckv => if ckv.length != (schemaKeys s).length then .error .invalid else .ok (.keys ckv)
    | _ => .error .invalid
  | .dot v =>
    if s.kind.isLeaflist then
      match v.bytes? with
      | Option.none => .error .unsupported
      | some b => .ok (.dot b)
    else .error .invalid
  | .pos raw =>
    if (s.kind.isList || s.kind.isLeaflist) && !s.kind.cfgW then .ok (.pos (posValue raw)) else .error .invalid

/-- "Predicate missing for list" before going below a list segment without a predicate (`LY_PATH_TARGET_SINGLE`) -/
def prevBad (single : Bool) : Option CStep → Bool
  | some p => single && p.kind.isList && p.pred == .none
  | Option.none => false

/-- "Predicate missing" on the last segment: a list or leaf-list without a predicate (`LY_PATH_TARGET_SINGLE`) -/
def lastBad (single : Bool) : Option CStep → Bool
  | some p => single && (p.kind.isList || p.kind.isLeaflist) && p.pred == .none
  | Option.none => false

/-- module of a segment: its prefix (a module name, `LY_VALUE_JSON`) or, without one, the module of the previous segment -/
def stepModule (pfx pmod : Option Bytes) : Option Bytes :=
  match pfx with
  | some p => some p
  | Option.none => pmod

/-- the `do … while ('/')` loop of `_ly_path_compile` (`lref = 0`, `LY_VALUE_JSON`); `single` =
    `LY_PATH_TARGET_SINGLE`; `prev` = the segment compiled last -/
def compileSteps (single : Bool) : List SNode → Option Bytes → Option CStep → List Step → Except Err (List CStep)
  | _, _, prev, [] => if lastBad single prev then .error .invalid else .ok []
  | cur, pmod, prev, st :: rest =>
    if prevBad single prev then .error .invalid
    else
      match stepModule (splitName st.name).1 pmod with
      | Option.none => .error .invalid
      | some m =>
        match findSchema cur m (splitName st.name).2 with
        | Option.none => .error .invalid
        | some s =>
          match compilePred s st.pred with
          | .error e => .error e
          | .ok cp =>
            match compileSteps single s.children (some s.mod) (some ⟨s.mod, s.name, s.kind, schemaKeys s, cp⟩) rest with
            | .error e => .error e
            | .ok cs => .ok (⟨s.mod, s.name, s.kind, schemaKeys s, cp⟩ :: cs)

/-- parse + compile an absolute path -/
def compilePath (schema : List SNode) (single : Bool) (path : Bytes) : Except Err (List CStep) :=
  match parsePath path with
  | Option.none => .error .invalid
  | some (false, _) => .error .unsupported
  | some (true, steps) => compileSteps single schema Option.none Option.none steps

/-! ### evaluation -/

def CStep.sameSchema (c : CStep) (n : DNode) : Bool := n.mod == c.mod && n.name == c.name

/-- value of the key leaf `k` of a list instance -/
def keyValue (n : DNode) (k : Bytes) : Option Bytes :=
  ((keyLeaves n.children).find? (fun c => c.name == k)).map (·.value)

/-- index of the first sibling satisfying `p` (`lyd_find_sibling_*`: the first instance) -/
def firstIdx (p : DNode → Bool) : List DNode → Option Nat
  | [] => Option.none
  | x :: r =>
    if p x then some 0
    else
      match firstIdx p r with
      | Option.none => Option.none
      | some i => some (i + 1)

/-- one segment of `ly_path_eval_partial`: index of the matching sibling -/
def matchStep (sibs : List DNode) (c : CStep) : Option Nat :=
  match c.pred with
  | .pos p =>
    -- LYD_LIST_FOR_INST from the first instance, counting from 1
    match firstIdx c.sameSchema sibs with
    | Option.none => Option.none
    | some j => if p ≥ 1 && p - 1 < ((sibs.drop j).takeWhile c.sameSchema).length then some (j + (p - 1)) else Option.none
  | .dot v => firstIdx (fun n => c.sameSchema n && n.value == v) sibs
  | .keys kv => firstIdx (fun n => c.sameSchema n && kv.all (fun (k, v) => keyValue n k == some v)) sibs
  | .none => firstIdx c.sameSchema sibs

/-- walk the segments; result: address of the deepest match and the number of matched segments -/
def evalSteps : Forest → List CStep → Addr × Nat
  | _, [] => ([], 0)
  | f, c :: rest =>
    match matchStep f c with
    | Option.none => ([], 0)
    | some i =>
      match f[i]? with
      | Option.none => ([], 0)
      | some n =>
        let (a, k) := evalSteps n.children rest
        (i :: a, k + 1)

/-- `ly_path_eval_partial` verdict -/
def evalPath (f : Forest) (cs : List CStep) : Except Err Addr :=
  let (a, k) := evalSteps f cs
  if k == cs.length && k > 0 then .ok a
  else if k > 0 then .error (.incomplete a)
  else .error .notFound

/-- `lyd_find_path(any node of f, path, output, &match)` for an absolute path -/
def findPath (schema : List SNode) (f : Forest) (path : Bytes) : Except Err Addr :=
  match compilePath schema true path with
  | .error e => .error e
  | .ok cs => evalPath f cs

/-! ### `lyd_new_path_` -/

/-- `lyd_new_path_check_find_lypath`: predicates completed from the value, and how many leading segments are to be
    searched (`none` = all of them; `some k` = the segment `k` is a duplicate-instance node that is always created) -/
def checkFind (v : Bytes) : Nat → List CStep → Except Err (List CStep × Option Nat)
  | _, [] => .ok ([], Option.none)
  | u, c :: rest =>
    let here : Except Err (CStep × Bool) :=
      if c.kind.dupInst then
        match c.pred with
        | .none => .ok (c, true)
        | .dot _ => .ok (c, true)
        | .pos _ => .ok (c, false)
        | .keys _ => .error .einval
      else
        match c.kind with
        | .list _ =>
          match c.pred with
          | .keys _ => .ok (c, false)
          | _ => .error .einval
        | .leaflist _ =>
          match c.pred with
          | .dot _ => .ok (c, false)
          | _ => .ok ({ c with pred := .dot v }, false)
        | _ => .ok (c, false)
    match here with
    | .error e => .error e
    | .ok (c', create) =>
      match checkFind v (u + 1) rest with
      | .error e => .error e
      | .ok (cs, cut) =>
        -- the last duplicate-instance segment wins (`new_count = u` is overwritten while looping)
        .ok (c' :: cs, match cut with | some k => some k | Option.none => if create then some u else Option.none)

/-- what is hung below a freshly created list besides its keys: the rest of the chain — unless that is a key leaf, which
    is not created again (`lyd_find_sibling_schema` finds the one `lyd_create_list` just made) -/
def extraChild (sub : Option DNode) : List DNode :=
  match sub with
  | some s => if s.isKeyLeaf then [] else [s]
  | Option.none => []

/-- the node `lyd_create_*` makes for one segment, with `sub` (the rest of the created chain) below it -/
def createNode (v : Bytes) (c : CStep) (sub : Option DNode) : DNode :=
  match c.kind with
  | .list _ =>
    let kv := match c.pred with | .keys kv => kv | _ => []
    -- lyd_create_list: one key leaf per predicate, inserted in schema order
    let keys := c.keyNames.filterMap (fun k => (kv.find? (fun p => p.1 == k)).map (fun p => DNode.mk c.mod k (.leaf true) p.2 []))
    .mk c.mod c.name c.kind [] (keys ++ extraChild sub)
  | .leaflist _ =>
    let val := match c.pred with | .dot pv => pv | _ => v
    .mk c.mod c.name c.kind val []
  | .leaf _ => .mk c.mod c.name c.kind v []
  | _ => .mk c.mod c.name c.kind [] sub.toList

def createChain (v : Bytes) : List CStep → Option DNode
  | [] => Option.none
  | c :: rest => some (createNode v c (createChain v rest))

/-- number of instances among `sibs` (`LYD_LIST_FOR_INST` count) -/
def instCount (sibs : List DNode) (c : CStep) : Nat :=
  match firstIdx c.sameSchema sibs with
  | Option.none => 0
  | some j => ((sibs.drop j).takeWhile c.sameSchema).length

def childrenAt (f : Forest) : Addr → List DNode
  | [] => f
  | i :: rest =>
    match f[i]? with
    | Option.none => []
    | some n => childrenAt n.children rest

/-- "Cannot create … on position N": the first segment to be created is a duplicate-instance node addressed by a
    position more than one above the number of existing instances -/
def posBad (sibs : List DNode) : List CStep → Bool
  | c :: _ =>
    match c.pred with
    | .pos p => c.kind.dupInst && decide (instCount sibs c + 1 < p)
    | _ => false
  | [] => false

/-- result of a successful `lyd_new_path2`: where the new chain was attached (address of the deepest existing node
    of the path, `[]` = top level) and the created chain (`new_parent` with everything below it) -/
structure Created where
  parent : Addr
  chain : DNode

/-- `lyd_new_path_` after `ly_path_compile`: `lyd_new_path_check_find_lypath`, the search for existing nodes, the position
    check and the creation loop, on the compiled segments `cs0` -/
def newPathC (f : Forest) (cs0 : List CStep) (v : Bytes) : Except Err Created :=
  match checkFind v 0 cs0 with
  | .error e => .error e
  | .ok (cs, cut) =>
    let search := match cut with | some k => cs.take k | Option.none => cs
    let (a, k) := evalSteps f search
    if cut.isNone && k == cs.length && k > 0 then .error .exists
    else
      let todo := cs.drop k
      let sibs := childrenAt f a
      if posBad sibs todo then .error .einval
      else
        match createChain v todo with
        | Option.none => .error .unsupported
        | some n => .ok ⟨a, n⟩

/-- `lyd_new_path_(parent ∈ f or NULL, ctx, NULL, path, value, …, options = 0 | LYD_NEW_VAL_OUTPUT)` for an absolute path
    (trees without default nodes) -/
def newPath (schema : List SNode) (f : Forest) (path : Bytes) (v : Bytes) : Except Err Created :=
  -- `LY_CHECK_ARG_RET(ctx, …, (path[0] == '/') || parent, …, LY_EINVAL)` of lyd_new_path / lyd_new_path2
  if f.isEmpty && path.head? != some 47 then .error .einval else
  match compilePath schema false path with
  | .error e => .error e
  | .ok cs0 => newPathC f cs0 v

end LyModel.Path
