import LyModel.Path.LemmasToken
import LyModel.Path.LemmasPrint
import LyModel.Path.Parse
/-!
Tokenizing and parsing the text `lyd_path` prints: the token sequence of every printed piece, and the steps the
path grammar reads off it.
-/
namespace LyModel.Path
open LyModel.Generated.PathFmt

/-! ### decimal value of printed numbers -/

theorem digitsVal_lin : ∀ (d : Bytes) (a : Nat), digitsVal d a = a * 10 ^ d.length + digitsVal d 0 := by
  intro d
  induction d with
  | nil => intro a; simp [digitsVal]
  | cons c t ih =>
    intro a
    simp only [digitsVal, List.length_cons, Nat.zero_mul, Nat.zero_add]
    rw [ih (a * 10 + (c.toNat - 48)), ih (c.toNat - 48)]
    rw [Nat.pow_succ, Nat.add_mul, Nat.mul_assoc, Nat.mul_comm 10]
    omega

theorem digit_val {d : Nat} (h : d < 10) : (UInt8.ofNat (48 + d)).toNat - 48 = d := by
  simp; omega

theorem toDecAux_val : ∀ (f n : Nat) (acc : Bytes), n < 10 ^ f → 0 < f →
    digitsVal (toDecAux f n acc) 0 = n * 10 ^ acc.length + digitsVal acc 0 := by
  intro f
  induction f with
  | zero => intro n acc _ h; omega
  | succ f ih =>
    intro n acc hn _
    simp only [toDecAux]
    split
    · next hlt =>
      simp only [digitsVal, Nat.zero_mul, Nat.zero_add]
      rw [digitsVal_lin acc, digit_val hlt]
    · next hge =>
      have hf : 0 < f := by
        cases f with
        | zero => simp at hn; omega
        | succ g => omega
      have hn' : n / 10 < 10 ^ f := by
        rw [Nat.pow_succ] at hn
        exact Nat.div_lt_of_lt_mul (by omega)
      rw [ih (n / 10) _ hn' hf]
      simp only [digitsVal, List.length_cons, Nat.zero_mul, Nat.zero_add]
      rw [digitsVal_lin acc (_ - 48), digit_val (Nat.mod_lt n (by omega))]
      have hdm : n = n / 10 * 10 + n % 10 := by omega
      rw [Nat.pow_succ, Nat.mul_comm (10 ^ acc.length) 10, ← Nat.mul_assoc, ← Nat.add_assoc, ← Nat.add_mul, ← hdm]

theorem toDec_val (n : Nat) : digitsVal (toDec n) 0 = n := by
  have h : n < 10 ^ (n + 1) := by
    have := Nat.lt_pow_self (n := n) (a := 10) (by omega)
    calc n < 10 ^ n := this
      _ ≤ 10 ^ (n + 1) := Nat.pow_le_pow_right (by omega) (by omega)
  have := toDecAux_val (n + 1) n [] h (by omega)
  simpa [toDec, digitsVal] using this

theorem leadVal_toDec (n : Nat) : leadVal (toDec n) = n := by
  have hs := spanDigits_spec (toDec n) [] (toDec_digits n) (by simp)
  simp only [List.append_nil] at hs
  simp [leadVal, hs, toDec_val]

theorem atoiNonzero_toDec {n : Nat} (h1 : 1 ≤ n) (h2 : n < 2 ^ 32) : atoiNonzero (toDec n) = true := by
  have e1 : (2 : Nat) ^ 63 - 1 = 9223372036854775807 := by decide
  have e2 : (2 : Nat) ^ 32 = 4294967296 := by decide
  simp only [atoiNonzero, leadVal_toDec, e1, e2] at *
  have : min n 9223372036854775807 = n := by omega
  rw [this]
  simp only [bne_iff_ne, ne_eq]
  omega

theorem posValue_toDec {n : Nat} (h2 : n < 2 ^ 32) : posValue (toDec n) = n := by
  have e1 : (2 : Nat) ^ 64 - 1 = 18446744073709551615 := by decide
  have e2 : (2 : Nat) ^ 32 = 4294967296 := by decide
  simp only [posValue, leadVal_toDec, e1, e2] at *
  omega

/-! ### token sequences -/

def lastOk : Bool → List Tok → Bool
  | p, [] => p
  | _, t :: ts => lastOk (prevOkAfter t) ts

/-- `s` lexes to `toks` (no blanks between them) and `rest` is what remains -/
inductive LexSeq : Bool → Bytes → List Tok → Bytes → Prop where
  | nil (p : Bool) (s : Bytes) : LexSeq p s [] s
  | cons {p : Bool} {s r rest : Bytes} {t : Tok} {ts : List Tok} (h : lexOne p s = some (t, r)) (hw : skipWs r = r)
      (hc : r.length < s.length) (tl : LexSeq (prevOkAfter t) r ts rest) : LexSeq p s (t :: ts) rest

theorem LexSeq.append {p : Bool} {s s1 s2 : Bytes} {t1 t2 : List Tok} (h1 : LexSeq p s t1 s1)
    (h2 : LexSeq (lastOk p t1) s1 t2 s2) : LexSeq p s (t1 ++ t2) s2 := by
  induction h1 with
  | nil p s => simpa [lastOk] using h2
  | cons h hw hc _ ih => exact LexSeq.cons h hw hc (ih (by simpa [lastOk] using h2))

theorem LexSeq.single {p : Bool} {s r : Bytes} {t : Tok} (h : lexOne p s = some (t, r)) (hw : skipWs r = r)
    (hc : r.length < s.length) : LexSeq p s [t] r := LexSeq.cons h hw hc (LexSeq.nil _ _)

theorem LexSeq.nil_inv {p : Bool} {s rest : Bytes} (h : LexSeq p s [] rest) : rest = s := by
  cases h; rfl

theorem lexOne_nil (p : Bool) : lexOne p [] = none := by simp [lexOne]

theorem LexSeq.length_le {p : Bool} {s rest : Bytes} {toks : List Tok} (h : LexSeq p s toks rest) :
    toks.length + rest.length ≤ s.length := by
  induction h with
  | nil => simp
  | cons _ _ hc _ ih => simp only [List.length_cons]; omega

theorem LexSeq.tokAux' {p : Bool} {s rest : Bytes} {toks : List Tok} (h : LexSeq p s toks rest) :
    rest = [] → toks ≠ [] → ∀ fuel, toks.length ≤ fuel → tokAux fuel p s = some toks := by
  induction h with
  | nil p s => intro _ hne; exact absurd rfl hne
  | @cons p s r rest t ts hl hw hc tl ih =>
    intro hr _ fuel hf
    subst hr
    cases fuel with
    | zero => simp at hf
    | succ f =>
      simp only [Path.tokAux, hl, hw]
      cases r with
      | nil =>
        cases tl with
        | nil => rfl
        | cons h' _ _ _ => simp [lexOne_nil] at h'
      | cons c r' =>
        have hts : ts ≠ [] := by
          intro e; subst e
          cases tl
        have := ih rfl hts f (by simpa using hf)
        simp [this]

theorem LexSeq.tokAux {p : Bool} {s : Bytes} {toks : List Tok} (h : LexSeq p s toks []) (hne : toks ≠ []) :
    ∀ fuel, toks.length ≤ fuel → tokAux fuel p s = some toks := LexSeq.tokAux' h rfl hne

theorem LexSeq.tokenize {s : Bytes} {toks : List Tok} (h : LexSeq true s toks []) (hne : toks ≠ [])
    (hw : skipWs s = s) : tokenize s = some toks := by
  have hl := LexSeq.length_le h
  unfold Path.tokenize
  cases s with
  | nil =>
    cases h with
    | nil => exact absurd rfl hne
    | cons h' _ _ _ => simp [lexOne_nil] at h'
  | cons c r => simp only [hw]; exact LexSeq.tokAux h hne _ (by simp at hl ⊢; omega)

end LyModel.Path
