import LyModel.Base
/-!
# Document and schema model of component `Path` (C15)

A data tree as the path functions of libyang see it: an ordered forest of nodes, each with the module and name
of its schema node, the schema node's kind, and (for terminal nodes) the canonical value (`lyd_get_value`).
Nodes are addressed by their child-index path from the top-level sibling list (`Addr`).

`levels f a` is the ancestor-or-self chain of the node at `a`, top-most first, each element with the sibling list
it lives in — exactly the data `lyd_path` walks (`iter`, `lyd_parent(iter)`, `iter->prev`) and
`ly_path_eval_partial` searches.  Core Lean only (linked into `lydrv`).
-/
namespace LyModel.Path

/-- nodetype + the flags the path code looks at -/
inductive Kind where
  /-- container, rpc, action, notification: inner node, never a predicate -/
  | inner
  /-- `LYS_LIST` with keys; `cfgW` = `LYS_CONFIG_W` (false for state data and inside rpc/action/notification) -/
  | list (cfgW : Bool)
  /-- `LYS_LIST` with `LYS_KEYLESS` -/
  | keyless
  /-- `LYS_LEAFLIST`; `cfgW` = `LYS_CONFIG_W` -/
  | leaflist (cfgW : Bool)
  /-- `LYS_LEAF`; `isKey` = `LYS_KEY` -/
  | leaf (isKey : Bool)
  deriving DecidableEq, Repr, Inhabited

/-- `lysc_is_dup_inst_list` -/
def Kind.dupInst : Kind → Bool
  | .keyless => true
  | .leaflist false => true
  | _ => false

def Kind.isList : Kind → Bool
  | .list _ => true
  | .keyless => true
  | _ => false

def Kind.isLeaflist : Kind → Bool
  | .leaflist _ => true
  | _ => false

/-- `flags & LYS_CONFIG_W` as far as a positional predicate cares (lists and leaf-lists only) -/
def Kind.cfgW : Kind → Bool
  | .list c => c
  | .leaflist c => c
  | _ => false

/-- data node -/
inductive DNode where
  | mk (mod name : Bytes) (kind : Kind) (value : Bytes) (children : List DNode)
  deriving Inhabited

namespace DNode
def mod : DNode → Bytes | mk m _ _ _ _ => m
def name : DNode → Bytes | mk _ n _ _ _ => n
def kind : DNode → Kind | mk _ _ k _ _ => k
def value : DNode → Bytes | mk _ _ _ v _ => v
def children : DNode → List DNode | mk _ _ _ _ c => c

/-- `a->schema == b->schema` for two siblings (sibling schema nodes are told apart by module and name) -/
def sameSchema (a b : DNode) : Bool := a.mod == b.mod && a.name == b.name

def isKeyLeaf (n : DNode) : Bool := n.kind == .leaf true
end DNode

/-- one line of the pre-order listing of a subtree -/
structure FlatNode where
  mod : Bytes
  name : Bytes
  kind : Kind
  value : Bytes
  depth : Nat
  deriving DecidableEq, Repr

mutual
/-- pre-order listing of a subtree: a form of the tree with decidable equality -/
def DNode.flat : DNode → Nat → List FlatNode
  | .mk m n k v ch, d => ⟨m, n, k, v, d⟩ :: DNode.flatList ch (d + 1)
def DNode.flatList : List DNode → Nat → List FlatNode
  | [], _ => []
  | x :: r, d => DNode.flat x d ++ DNode.flatList r d
end

/-- schema node (compiled, choice/case already flattened; for an operation the children are those of the
    direction the caller selected: input, or output with `LYD_NEW_VAL_OUTPUT` / `output = 1`) -/
inductive SNode where
  | mk (mod name : Bytes) (kind : Kind) (children : List SNode)
  deriving Inhabited

namespace SNode
def mod : SNode → Bytes | mk m _ _ _ => m
def name : SNode → Bytes | mk _ n _ _ => n
def kind : SNode → Kind | mk _ _ k _ => k
def children : SNode → List SNode | mk _ _ _ c => c
end SNode

abbrev Forest := List DNode
abbrev Addr := List Nat

/-- one element of an ancestor-or-self chain -/
structure Level where
  /-- the sibling list the node is in (first sibling first) -/
  sibs : List DNode
  /-- its index there -/
  idx : Nat
  node : DNode
  /-- module of the parent node (`lyd_node_module(lyd_parent(iter))`), `none` at the top level -/
  pmod : Option Bytes

/-- chain of the node at address `a`, top-most first; `none` if the address leaves the tree -/
def levelsFrom (f : Forest) (pmod : Option Bytes) : Addr → Option (List Level)
  | [] => some []
  | i :: rest =>
    match f[i]? with
    | none => none
    | some n =>
      match levelsFrom n.children (some n.mod) rest with
      | none => none
      | some ls => some (⟨f, i, n, pmod⟩ :: ls)

def levels (f : Forest) (a : Addr) : Option (List Level) := levelsFrom f none a

/-- node at an address -/
def getAt (f : Forest) : Addr → Option DNode
  | [] => none
  | [i] => f[i]?
  | i :: j :: rest =>
    match f[i]? with
    | none => none
    | some n => getAt n.children (j :: rest)

/-- leading children that are key leaves (`for (key = lyd_child(node); key && (key->schema->flags & LYS_KEY); …)`) -/
def keyLeaves : List DNode → List DNode
  | [] => []
  | c :: r => if c.isKeyLeaf then c :: keyLeaves r else []

/-- `lyd_list_pos`: 1 + number of same-schema siblings directly before the node (walking `prev` until another
    schema node, or until the walk would wrap around to the last sibling) -/
def listPos (sibs : List DNode) (idx : Nat) (n : DNode) : Nat :=
  (((sibs.take idx).reverse.takeWhile (fun m => m.sameSchema n)).length) + 1

end LyModel.Path
