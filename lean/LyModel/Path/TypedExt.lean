import LyModel.Path.Typed
import LyModel.Val.HexStr
import LyModel.Val.Binary
import LyModel.Val.DateTime
/-!
# More key types for the typed predicate layer (through the C03 models of this wave)

Pattern strings (`Val.storePStr`), the hex-string family of ietf-yang-types (upper-case input, lower-case canonical value),
date-and-time (canonical = the UTC instant), binary (canonical = the re-encoded base64 text) and `empty`.  For each of them the
plug-in `compare` agrees with equality of canonical strings, so the value key is the canonical string.  Core Lean only.
-/
namespace LyModel.Path
open LyModel

/-- `string` with length and the patterns of the whole typedef chain -/
def KTy.pstr (t : Val.PStrTy) : KTy := KTy.ofPlug (Val.MTy.pstr t).plug

/-- `hex-string`, `mac-address`, `phys-address`, `uuid` (plug-in `hex_string.c`: pattern on the input, lower-cased canonical value) -/
def KTy.hexStr (t : Val.PStrTy) : KTy :=
  ⟨fun s => match Val.HexStr.storeCur t Generated.LYD_HINT_DATA s with
    | .ok v => some (Val.HexStr.canon v)
    | .error _ => none⟩

/-- `date-and-time` -/
def KTy.dateTime : KTy :=
  ⟨fun s => match Val.DateTime.store Generated.LYD_HINT_DATA s with
    | .ok v => some (Val.DateTime.canon v)
    | .error _ => none⟩

/-- `binary` with its length restriction -/
def KTy.binary (len : List (Int × Int)) : KTy :=
  ⟨fun s => match Val.Bin.store len Generated.LYD_HINT_DATA s with
    | .ok v => some (Val.Bin.canon v)
    | .error _ => none⟩

/-- `empty`: the only value is the empty string -/
def KTy.empty : KTy := ⟨fun s => if s.isEmpty then some [] else none⟩

end LyModel.Path
