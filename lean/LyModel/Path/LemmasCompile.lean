import LyModel.Path.LemmasEval
/-!
Compiling the parsed form of a printed path against the schema the tree conforms to gives one compiled segment per
chain element (`cstepOf`), for `LY_PATH_TARGET_SINGLE` (lyd_find_path) and `LY_PATH_TARGET_MANY` (lyd_new_path).
-/
namespace LyModel.Path

/-- chain element `l` is an instance of schema node `s` -/
structure SchemaOf (s : SNode) (l : Level) : Prop where
  kind : s.kind = l.node.kind
  /-- the schema's key leaves are the instance's leading key leaves, in order -/
  keyNames : schemaKeys s = (keyLeaves l.node.children).map (·.name)
  /-- each of them is a key leaf child of the list in the list's module -/
  keys : ∀ k ∈ keyLeaves l.node.children, ∃ ks, findSchema s.children s.mod k.name = some ks ∧ ks.kind = .leaf true
  /-- a keyed list instance has its keys -/
  hasKey : ∀ c, l.node.kind = .list c → keyLeaves l.node.children ≠ []

/-- the chain instantiates a chain of schema nodes found (by module and name) below `sch` -/
def Conforms : List SNode → List Level → Prop
  | _, [] => True
  | sch, l :: rest => ∃ s, findSchema sch l.node.mod l.node.name = some s ∧ SchemaOf s l ∧ Conforms s.children rest

theorem findSchema_some {sch : List SNode} {m n : Bytes} {s : SNode} (h : findSchema sch m n = some s) :
    s.mod = m ∧ s.name = n := by
  unfold findSchema at h
  have := List.find?_some h
  simpa using this

theorem splitAtColon_prefixed : ∀ (m n : Bytes), (∀ c ∈ m, IsIdentChar c) → splitAtColon (m ++ 58 :: n) = some (m, n) := by
  intro m
  induction m with
  | nil => intro n _; simp [splitAtColon]
  | cons c t ih =>
    intro n h
    simp [splitAtColon, identChar_ne_colon (h c (by simp)), ih n (fun d hd => h d (by simp [hd]))]

/-- the NameTest printed for a chain element resolves to the element's module and name -/
theorem splitName_fullName (l : Level) (hl : l.Printable) :
    stepModule (splitName (fullName l)).1 l.pmod = some l.node.mod ∧
      (splitName (fullName l)).2 = l.node.name := by
  unfold fullName
  cases hm : stepMod l with
  | some m =>
    have := stepMod_some hm
    subst this
    simp [splitName, splitAtColon_prefixed _ _ hl.mod.chars, stepModule]
  | none =>
    have hp : l.pmod = some l.node.mod := by
      unfold stepMod at hm
      split at hm
      · next h => simpa using h
      · cases hm
    simp [splitName, splitAtColon_noColon _ hl.name.chars, hp, stepModule]

theorem compileKeys_printed (s : SNode) : ∀ (ks : List DNode), (∀ k ∈ ks, IsIdent k.name) →
    (∀ k ∈ ks, ∃ sk, findSchema s.children s.mod k.name = some sk ∧ sk.kind = .leaf true) →
    compileKeys s (ks.map kvOf) = .ok (ks.map ckvOf) := by
  intro ks
  induction ks with
  | nil => intro _ _; rfl
  | cons k r ih =>
    intro hid hk
    obtain ⟨sk, hf, hkind⟩ := hk k (by simp)
    have hsn : splitName k.name = (none, k.name) := by
      simp [splitName, splitAtColon_noColon _ (hid k (by simp)).chars]
    have h1 : compileKey s k.name (.lit k.value) = .ok (k.name, k.value) := by
      simp [compileKey, hsn, hf, hkind, PVal.bytes?]
    have h2 := ih (fun x hx => hid x (by simp [hx])) (fun x hx => hk x (by simp [hx]))
    simp [compileKeys, kvOf, ckvOf, h1] at h2 ⊢
    simp [h2]

theorem compilePred_level (s : SNode) (l : Level) (hs : SchemaOf s l) (hl : l.Printable) :
    compilePred s (predOf l) = .ok (cpredOf l) := by
  have hkind := hs.kind
  cases hk : l.node.kind with
  | inner => simp [predOf, cpredOf, hk, compilePred]
  | leaf k => simp [predOf, cpredOf, hk, compilePred]
  | keyless =>
    rw [hk] at hkind
    simp [predOf, cpredOf, hk, compilePred, hkind, Kind.isList, Kind.cfgW, posValue_toDec hl.pos]
  | leaflist c =>
    rw [hk] at hkind
    cases c with
    | true => simp [predOf, cpredOf, hk, compilePred, hkind, Kind.isLeaflist, PVal.bytes?]
    | false =>
      simp [predOf, cpredOf, hk, compilePred, hkind, Kind.isLeaflist, Kind.isList, Kind.cfgW, posValue_toDec hl.pos]
  | list c =>
    rw [hk] at hkind
    cases hks : keyLeaves l.node.children with
    | nil => simp [predOf, cpredOf, hk, hks, compilePred]
    | cons k r =>
      have hck := compileKeys_printed s (k :: r) (fun x hx => (hl.keys x (hks ▸ hx)).1) (fun x hx => hs.keys x (hks ▸ hx))
      have hlen : ((k :: r).map ckvOf).length = (schemaKeys s).length := by
        rw [hs.keyNames, hks]; simp
      have hlen' : r.length + 1 = (schemaKeys s).length := by simpa using hlen
      simp only [predOf, cpredOf, hk, hks, compilePred, hkind, hck]
      simp [hlen']

theorem cpredOf_ne_none (s : SNode) (l : Level) (hs : SchemaOf s l) :
    (l.node.kind.isList = true ∨ l.node.kind.isLeaflist = true) → cpredOf l ≠ .none := by
  intro h
  cases hk : l.node.kind with
  | inner => simp [hk, Kind.isList, Kind.isLeaflist] at h
  | leaf k => simp [hk, Kind.isList, Kind.isLeaflist] at h
  | keyless => simp [cpredOf, hk]
  | leaflist c => cases c <;> simp [cpredOf, hk]
  | list c =>
    have := hs.hasKey c hk
    cases hks : keyLeaves l.node.children with
    | nil => exact absurd hks this
    | cons k r => simp [cpredOf, hk, hks]

/-- the previous compiled segment never trips the "predicate missing" checks -/
def PrevOK : Option CStep → Prop
  | none => True
  | some p => (p.kind.isList = true ∨ p.kind.isLeaflist = true) → p.pred ≠ .none

theorem compileSteps_levels (single : Bool) : ∀ (a : Addr) (f : Forest) (pm : Option Bytes) (ls : List Level)
    (sch : List SNode) (prev : Option CStep),
    levelsFrom f pm a = some ls → Conforms sch ls → (∀ l ∈ ls, l.Printable) → PrevOK prev →
    compileSteps single sch pm prev (stepsOf true ls) = .ok (ls.map cstepOf) := by
  intro a
  induction a with
  | nil =>
    intro f pm ls sch prev h _ _ hprev
    simp [levelsFrom] at h
    subst h
    have hlb : lastBad single prev = false := by
      cases prev with
      | none => rfl
      | some p =>
        have hp : PrevOK (some p) := hprev
        simp only [PrevOK] at hp
        cases h1 : (p.kind.isList || p.kind.isLeaflist) with
        | false => simp [lastBad, h1]
        | true =>
          have : p.pred ≠ .none := hp (by simpa using h1)
          simp [lastBad, this]
    simp [stepsOf, compileSteps, hlb]
  | cons i r ih =>
    intro f pm ls sch prev h hc hl hprev
    obtain ⟨n, ls', hn, hl', rfl⟩ := levelsFrom_cons h
    obtain ⟨s, hfs, hso, hrest⟩ := hc
    have hlv : (⟨f, i, n, pm⟩ : Level).Printable := hl _ (by simp)
    obtain ⟨hmod, hname⟩ := splitName_fullName ⟨f, i, n, pm⟩ hlv
    obtain ⟨hsm, hsn⟩ := findSchema_some hfs
    have hpb : prevBad single prev = false := by
      cases prev with
      | none => rfl
      | some p =>
        have hp : PrevOK (some p) := hprev
        simp only [PrevOK] at hp
        cases h1 : p.kind.isList with
        | false => simp [prevBad, h1]
        | true =>
          have : p.pred ≠ .none := hp (Or.inl h1)
          simp [prevBad, this]
    have hcp := compilePred_level s ⟨f, i, n, pm⟩ hso hlv
    have hcs : (⟨s.mod, s.name, s.kind, schemaKeys s, cpredOf ⟨f, i, n, pm⟩⟩ : CStep) = cstepOf ⟨f, i, n, pm⟩ := by
      simp [cstepOf, hsm, hsn, hso.kind, hso.keyNames]
    have hrec := ih n.children (some n.mod) ls' s.children (some (cstepOf ⟨f, i, n, pm⟩)) hl' hrest
      (fun l hl'' => hl l (by simp [hl''])) (by
        show PrevOK (some _)
        simp only [PrevOK, cstepOf]
        exact cpredOf_ne_none s _ hso)
    have hst : stepsOf true (⟨f, i, n, pm⟩ :: ls') = stepOf ⟨f, i, n, pm⟩ true :: stepsOf true ls' := by
      simp [stepsOf]
    have hsm' : s.mod = n.mod := hsm
    rw [hsm'] at hcs
    rw [hst]
    simp only [compileSteps, hpb, stepOf, if_true, Bool.false_eq_true, if_false]
    simp only at hmod hname
    simp only [hmod, hname, hfs, hcp, hsm', hcs, hrec, List.map_cons]

end LyModel.Path
