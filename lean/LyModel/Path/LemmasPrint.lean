import LyModel.Path.Print
/-!
Lemmas about the path printer: what the generated `sprintf` formats render, that the generated `len` formulas are the
lengths of what is rendered, that every write stays inside the allocation, and that a growing buffer receives the
plain concatenation of the segment texts.
-/
namespace LyModel.Path
open LyModel.Generated.PathFmt

/-! ### the generated formats, rendered -/

theorem render_listPred (n v : Bytes) (q : UInt8) :
    render listPredFmt [.str n, .chr q, .str v, .chr q] = [91] ++ n ++ [61, q] ++ v ++ [q, 93] := by
  simp [render, listPredFmt, renderPiece, argBytes]

theorem render_leaflistPred (v : Bytes) (q : UInt8) :
    render leaflistPredFmt [.chr q, .str v, .chr q] = [91, 46, 61, q] ++ v ++ [q, 93] := by
  simp [render, leaflistPredFmt, renderPiece, argBytes]

theorem render_posPred (d : Bytes) : render posPredFmt [.str d] = [91] ++ d ++ [93] := by
  simp [render, posPredFmt, renderPiece, argBytes]

theorem render_step (m c n : Bytes) : render stepFmt [.str m, .str c, .str n] = [47] ++ m ++ c ++ n := by
  simp [render, stepFmt, renderPiece, argBytes]

/-- the `len` each writer passes to `lyd_path_str_enlarge` is the length of what its `sprintf` produces -/
theorem len_listPred (n v : Bytes) (q : UInt8) :
    (render listPredFmt [.str n, .chr q, .str v, .chr q]).length = listPredLen n.length v.length := by
  rw [render_listPred]; simp [listPredLen]; omega

theorem len_leaflistPred (v : Bytes) (q : UInt8) :
    (render leaflistPredFmt [.chr q, .str v, .chr q]).length = leaflistPredLen v.length := by
  rw [render_leaflistPred]; simp [leaflistPredLen]; omega

theorem len_posPred (d : Bytes) : (render posPredFmt [.str d]).length = posPredLen d.length := by
  rw [render_posPred]; simp [posPredLen]; omega

theorem len_step (m : Option Bytes) (n : Bytes) :
    (render stepFmt [.str (m.getD []), .str (if m.isSome then [58] else []), .str n]).length
      = stepLen m.isSome (m.getD []).length n.length := by
  rw [render_step]
  cases m <;> simp [stepLen] <;> omega

/-! ### buffer invariants -/

/-- every recorded write lies inside the allocation it was made into -/
def Buf.LogOK (b : Buf) : Prop := ∀ w ∈ b.log, w.off + w.len ≤ w.cap

/-- once something has been written, the text and its NUL fit in the allocation -/
def Buf.Term (b : Buf) : Prop := b.log ≠ [] → b.data.length + 1 ≤ b.cap

structure Buf.Good (b : Buf) : Prop where
  logOK : b.LogOK
  term : b.Term

theorem Buf.enlarge_spec {b b1 : Buf} {req : Nat} (h : b.enlarge req = some b1) :
    req + enlargeExtra ≤ b1.cap ∧ b.cap ≤ b1.cap ∧ b1.data = b.data ∧ b1.log = b.log ∧ b1.isStatic = b.isStatic := by
  unfold Buf.enlarge at h
  simp only at h
  split at h
  · split at h
    · cases h
    · cases h; simp; omega
  · cases h; simp; omega

/-- `enlarge` + `sprintf` of a string of exactly the announced length keeps the invariants -/
theorem Buf.write_good {b b1 : Buf} {len : Nat} {s : Bytes} (hb : b.Good)
    (he : b.enlarge (b.data.length + len) = some b1) (hs : s.length = len) : (b1.sprintf s).Good := by
  obtain ⟨hcap, _, hdata, hlog, _⟩ := Buf.enlarge_spec he
  have hx : enlargeExtra = 1 := rfl
  constructor
  · intro w hw
    simp only [Buf.sprintf, List.mem_cons] at hw
    rcases hw with rfl | hw
    · simp only [hdata]; omega
    · exact hb.logOK w (hlog ▸ hw)
  · intro _
    simp only [Buf.sprintf, List.length_append, hdata]; omega

theorem Buf.enlarge_none_static {b : Buf} {req : Nat} (h : b.enlarge req = none) : b.isStatic = true := by
  unfold Buf.enlarge at h
  simp only at h
  split at h
  · split at h
    · assumption
    · cases h
  · cases h

theorem Buf.enlarge_dynamic {b : Buf} (hd : b.isStatic = false) (req : Nat) : ∃ b1, b.enlarge req = some b1 := by
  cases h : b.enlarge req with
  | some b1 => exact ⟨b1, rfl⟩
  | none => have := Buf.enlarge_none_static h; simp [hd] at this

/-! ### the writers keep the invariants -/

theorem printKeyPreds_good (ks : List DNode) : ∀ (b : Buf), b.Good → (printKeyPreds b ks).1.Good := by
  induction ks with
  | nil => intro b hb; simpa [printKeyPreds] using hb
  | cons k r ih =>
    intro b hb
    simp only [printKeyPreds]
    split
    · exact hb
    · next b1 he => exact ih _ (Buf.write_good hb he (len_listPred _ _ _))

theorem printValuePred_good (b : Buf) (v : Bytes) (hb : b.Good) : (printValuePred b v).1.Good := by
  simp only [printValuePred]
  split
  · exact hb
  · next b1 he => exact Buf.write_good hb he (len_leaflistPred _ _)

theorem printPosPred_good (b : Buf) (p : Nat) (hb : b.Good) : (printPosPred b p).1.Good := by
  simp only [printPosPred]
  split
  · exact hb
  · next b1 he => exact Buf.write_good hb he (len_posPred _)

theorem printPred_good (b : Buf) (l : Level) (hb : b.Good) : (printPred b l).1.Good := by
  unfold printPred
  split
  · exact printKeyPreds_good _ _ hb
  · exact printPosPred_good _ _ hb
  · exact printValuePred_good _ _ hb
  · exact printPosPred_good _ _ hb
  · exact hb

theorem printStep_good (b : Buf) (l : Level) (wp : Bool) (hb : b.Good) : (printStep b l wp).1.Good := by
  simp only [printStep]
  split
  · exact hb
  · next b1 he =>
    have h2 := Buf.write_good hb he (len_step (stepMod l) l.node.name)
    split
    · exact printPred_good _ _ h2
    · exact h2

theorem printLevels_good (std : Bool) (ls : List Level) : ∀ (b : Buf), b.Good → (printLevels std b ls).1.Good := by
  induction ls with
  | nil => intro b hb; simpa [printLevels] using hb
  | cons l rest ih =>
    intro b hb
    simp only [printLevels]
    have h1 := printStep_good b l (std || !rest.isEmpty) hb
    split
    · next b1 heq => rw [heq] at h1; exact ih _ h1
    · next b1 heq => rw [heq] at h1; exact h1

theorem Buf.init_good (st : Bool) (n : Nat) : (Buf.mk st n [] []).Good := by
  constructor
  · intro w hw; simp at hw
  · intro h; exact absurd rfl h

theorem initBuf_good (st : Option Nat) (h : ∀ n, st = some n → n > 1) : (initBuf st).Good := by
  cases st with
  | none => exact Buf.init_good _ _
  | some n =>
    have hn := h n rfl
    constructor
    · intro w hw
      simp only [initBuf] at hw
      split at hw
      · simp at hw; subst hw; simp; omega
      · simp at hw
    · intro _; simp [initBuf]; omega

theorem lydPath_good {f : Forest} {a : Addr} {pt : PathType} {st : Option Nat} {b : Buf}
    (h : lydPath f a pt st = some b) : b.Good := by
  unfold lydPath at h
  split at h
  · cases h
  · cases h
  · split at h
    · split at h
      · next n hn => cases h; exact printLevels_good _ _ _ (initBuf_good _ (by intro m hm; cases hm; exact hn))
      · cases h
    · cases h; exact printLevels_good _ _ _ (initBuf_good _ (by intro m hm; cases hm))

/-! ### once written, always written -/

theorem Buf.sprintf_log (b : Buf) (s : Bytes) : (b.sprintf s).log ≠ [] := by simp [Buf.sprintf]

theorem printKeyPreds_log (ks : List DNode) : ∀ (b : Buf), b.log ≠ [] → (printKeyPreds b ks).1.log ≠ [] := by
  induction ks with
  | nil => intro b hb; simpa [printKeyPreds] using hb
  | cons k r ih =>
    intro b hb
    simp only [printKeyPreds]
    split
    · exact hb
    · exact ih _ (Buf.sprintf_log _ _)

theorem printPred_log (b : Buf) (l : Level) (hb : b.log ≠ []) : (printPred b l).1.log ≠ [] := by
  unfold printPred
  split
  · exact printKeyPreds_log _ _ hb
  · simp only [printPosPred]; split; exact hb; exact Buf.sprintf_log _ _
  · simp only [printValuePred]; split; exact hb; exact Buf.sprintf_log _ _
  · simp only [printPosPred]; split; exact hb; exact Buf.sprintf_log _ _
  · exact hb

theorem printStep_log (b : Buf) (l : Level) (wp : Bool) (hb : b.log ≠ []) : (printStep b l wp).1.log ≠ [] := by
  simp only [printStep]
  split
  · exact hb
  · split
    · exact printPred_log _ _ (Buf.sprintf_log _ _)
    · exact Buf.sprintf_log _ _

theorem printLevels_log (std : Bool) (ls : List Level) : ∀ (b : Buf), b.log ≠ [] → (printLevels std b ls).1.log ≠ [] := by
  induction ls with
  | nil => intro b hb; simpa [printLevels] using hb
  | cons l rest ih =>
    intro b hb
    simp only [printLevels]
    have h1 := printStep_log b l (std || !rest.isEmpty) hb
    split
    · next b1 heq => rw [heq] at h1; exact ih _ h1
    · next b1 heq => rw [heq] at h1; exact h1

/-- a buffer with room for the first segment does get written -/
theorem printStep_wrote (b : Buf) (l : Level) (wp : Bool)
    (h : b.data.length + stepLen (stepMod l).isSome ((stepMod l).getD []).length l.node.name.length + 1 ≤ b.cap) :
    (printStep b l wp).1.log ≠ [] := by
  have he : b.enlarge (b.data.length + stepLen (stepMod l).isSome ((stepMod l).getD []).length l.node.name.length) = some b := by
    unfold Buf.enlarge
    have : enlargeExtra = 1 := rfl
    simp only [this]
    split
    · omega
    · rfl
  simp only [printStep, he]
  split
  · exact printPred_log _ _ (Buf.sprintf_log _ _)
  · exact Buf.sprintf_log _ _

/-! ### a growing buffer receives the whole text -/

theorem printKeyPreds_dynamic (ks : List DNode) : ∀ (b : Buf), b.isStatic = false →
    (printKeyPreds b ks).2 = true ∧ (printKeyPreds b ks).1.data = b.data ++ keyPredsText ks ∧
      (printKeyPreds b ks).1.isStatic = false := by
  induction ks with
  | nil => intro b hb; simp [printKeyPreds, keyPredsText, hb]
  | cons k r ih =>
    intro b hb
    obtain ⟨b1, he⟩ := Buf.enlarge_dynamic hb (b.data.length + listPredLen k.name.length k.value.length)
    obtain ⟨_, _, hdata, _, hst⟩ := Buf.enlarge_spec he
    simp only [printKeyPreds, he, keyPredsText]
    have := ih (b1.sprintf (render listPredFmt [.str k.name, .chr (quoteFor k.value), .str k.value, .chr (quoteFor k.value)]))
      (by simp [Buf.sprintf, hst, hb])
    refine ⟨this.1, ?_, this.2.2⟩
    rw [this.2.1]; simp [Buf.sprintf, hdata]

theorem printValuePred_dynamic (b : Buf) (v : Bytes) (hb : b.isStatic = false) :
    (printValuePred b v).2 = true ∧
      (printValuePred b v).1.data = b.data ++ render leaflistPredFmt [.chr (quoteFor v), .str v, .chr (quoteFor v)] ∧
      (printValuePred b v).1.isStatic = false := by
  obtain ⟨b1, he⟩ := Buf.enlarge_dynamic hb (b.data.length + leaflistPredLen v.length)
  obtain ⟨_, _, hdata, _, hst⟩ := Buf.enlarge_spec he
  simp [printValuePred, he, Buf.sprintf, hdata, hst, hb]

theorem printPosPred_dynamic (b : Buf) (p : Nat) (hb : b.isStatic = false) :
    (printPosPred b p).2 = true ∧ (printPosPred b p).1.data = b.data ++ render posPredFmt [.str (toDec p)] ∧
      (printPosPred b p).1.isStatic = false := by
  obtain ⟨b1, he⟩ := Buf.enlarge_dynamic hb (b.data.length + posPredLen (toDec p).length)
  obtain ⟨_, _, hdata, _, hst⟩ := Buf.enlarge_spec he
  simp [printPosPred, he, Buf.sprintf, hdata, hst, hb]

theorem printPred_dynamic (b : Buf) (l : Level) (hb : b.isStatic = false) :
    (printPred b l).2 = true ∧ (printPred b l).1.data = b.data ++ predText l ∧ (printPred b l).1.isStatic = false := by
  unfold printPred predText
  split
  · exact printKeyPreds_dynamic _ _ hb
  · exact printPosPred_dynamic _ _ hb
  · exact printValuePred_dynamic _ _ hb
  · exact printPosPred_dynamic _ _ hb
  · simp [hb]

theorem printStep_dynamic (b : Buf) (l : Level) (wp : Bool) (hb : b.isStatic = false) :
    (printStep b l wp).2 = true ∧ (printStep b l wp).1.data = b.data ++ stepText l wp ∧
      (printStep b l wp).1.isStatic = false := by
  obtain ⟨b1, he⟩ := Buf.enlarge_dynamic hb
    (b.data.length + stepLen (stepMod l).isSome ((stepMod l).getD []).length l.node.name.length)
  obtain ⟨_, _, hdata, _, hst⟩ := Buf.enlarge_spec he
  simp only [printStep, he, stepText]
  cases wp with
  | false => simp [Buf.sprintf, hdata, hst, hb]
  | true =>
    have := printPred_dynamic (b1.sprintf (render stepFmt [.str ((stepMod l).getD []),
      .str (if (stepMod l).isSome then [58] else []), .str l.node.name])) l (by simp [Buf.sprintf, hst, hb])
    simp only [if_true]
    refine ⟨this.1, ?_, this.2.2⟩
    rw [this.2.1]; simp [Buf.sprintf, hdata]

theorem printLevels_dynamic (std : Bool) (ls : List Level) : ∀ (b : Buf), b.isStatic = false →
    (printLevels std b ls).2 = true ∧ (printLevels std b ls).1.data = b.data ++ levelsText std ls := by
  induction ls with
  | nil => intro b _; simp [printLevels, levelsText]
  | cons l rest ih =>
    intro b hb
    have h1 := printStep_dynamic b l (std || !rest.isEmpty) hb
    simp only [printLevels, levelsText]
    split
    · next b1 heq =>
      rw [heq] at h1
      have := ih b1 h1.2.2
      refine ⟨this.1, ?_⟩
      rw [this.2, h1.2.1]; simp
    · next b1 heq => rw [heq] at h1; simp at h1

/-- with `buffer = NULL` the result is the concatenation of the segment texts -/
theorem pathOf_eq_text {f : Forest} {a : Addr} {ls : List Level} (h : levels f a = some ls) (hne : ls ≠ []) :
    pathOf f a = some (levelsText true ls) := by
  unfold pathOf lydPath
  rw [h]
  cases ls with
  | nil => exact absurd rfl hne
  | cons l rest =>
    simp only [Option.map]
    have := printLevels_dynamic true (l :: rest) (initBuf none) rfl
    simp [initBuf] at this
    simp [initBuf, this.2]

end LyModel.Path
