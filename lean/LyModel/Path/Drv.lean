import LyModel.Path.Print
import LyModel.Path.Eval
/-!
Driver ops of component `path` (plumbing only: (de)serialisation of trees/schemas and formatting of results).

Serialisations are single protocol tokens (no blanks):
  tree    := node*          node  := '(' hex ',' hex ',' kind ',' hex ',' node* ')'      (module, name, kind, value, children)
  schema  := snode*         snode := '(' hex ',' hex ',' kind ',' snode* ')'
  kind    := i (inner) | L / l (keyed list, config / not) | k (key-less list) | F / f (leaf-list, config / not)
           | K (key leaf) | e (leaf)
  addr    := n ('.' n)*  |  '-'  (top level)
`hex` is lower-case hex, `-` for the empty string.  The harness produces both serialisations from the real
`lysc_node` / `lyd_node` structures, so the model works on what libyang built, not on what the generator meant.

  parse <path>                         -> ok <abs> <step>* | err Invalid
      step := namehex ':' ( 'n' | 'p' rawhex | 'd' val | 'k' (';' keyhex '=' val)+ ),  val := ('l'|'n'|'v') hex
  pathsof <tree> <type>                -> ok <pathhex>*            (every node, pre-order, dynamic buffer; type 0 = STD, 1 = NO_LAST_PRED)
  pathof <tree> <addr> <type> <buflen> -> ok <pathhex> <cap> <nwrites> | ok ~ (returned buffer never written) | err Null
  find <schema> <tree> <path>          -> ok <addr> | err <Enum> [addr]
  newpath <schema> <tree> <path> <val> -> ok <parent-addr> <tree-of-created-chain> | err <Enum>
-/
namespace LyModel.Path.Drv
open LyModel LyModel.Path

def kindOfChar : Char → Option Kind
  | 'i' => some .inner
  | 'L' => some (.list true)
  | 'l' => some (.list false)
  | 'k' => some .keyless
  | 'F' => some (.leaflist true)
  | 'f' => some (.leaflist false)
  | 'K' => some (.leaf true)
  | 'e' => some (.leaf false)
  | _ => none

def charOfKind : Kind → Char
  | .inner => 'i'
  | .list true => 'L'
  | .list false => 'l'
  | .keyless => 'k'
  | .leaflist true => 'F'
  | .leaflist false => 'f'
  | .leaf true => 'K'
  | .leaf false => 'e'

def isHexish (c : Char) : Bool := c.isDigit || ('a' ≤ c && c ≤ 'f') || c == '-'

/-- hex field followed by `,` -/
def hexField (cs : List Char) : Option (Bytes × List Char) :=
  match cs.span isHexish with
  | (h, ',' :: r) => (Hex.dec (String.ofList h)).map (fun b => (b, r))
  | _ => none

def parseDNodes : Nat → List Char → Option (List DNode × List Char)
  | 0, _ => none
  | f + 1, '(' :: r =>
    match hexField r with
    | none => none
    | some (m, r) =>
      match hexField r with
      | none => none
      | some (n, r) =>
        match r with
        | kc :: ',' :: r =>
          match kindOfChar kc, hexField r with
          | some k, some (v, r) =>
            match parseDNodes f r with
            | some (ch, ')' :: r) =>
              match parseDNodes f r with
              | some (sibs, r) => some (DNode.mk m n k v ch :: sibs, r)
              | none => none
            | _ => none
          | _, _ => none
        | _ => none
  | _ + 1, cs => some ([], cs)

def parseSNodes : Nat → List Char → Option (List SNode × List Char)
  | 0, _ => none
  | f + 1, '(' :: r =>
    match hexField r with
    | none => none
    | some (m, r) =>
      match hexField r with
      | none => none
      | some (n, r) =>
        match r with
        | kc :: ',' :: r =>
          match kindOfChar kc with
          | some k =>
            match parseSNodes f r with
            | some (ch, ')' :: r) =>
              match parseSNodes f r with
              | some (sibs, r) => some (SNode.mk m n k ch :: sibs, r)
              | none => none
            | _ => none
          | none => none
        | _ => none
  | _ + 1, cs => some ([], cs)

def readTree (s : String) : Option Forest :=
  if s == "-" then some [] else
  match parseDNodes (s.length + 1) s.toList with
  | some (f, []) => some f
  | _ => none

def readSchema (s : String) : Option (List SNode) :=
  if s == "-" then some [] else
  match parseSNodes (s.length + 1) s.toList with
  | some (f, []) => some f
  | _ => none

def readAddr (s : String) : Option Addr :=
  if s == "-" then some [] else (s.splitOn ".").mapM (·.toNat?)

def showAddr (a : Addr) : String :=
  if a.isEmpty then "-" else ".".intercalate (a.map toString)

/-- serialise a forest; the fuel bounds the depth -/
def showDNodes : Nat → List DNode → String
  | 0, _ => "?"
  | f + 1, ns => String.join (ns.map fun n =>
      "(" ++ Hex.enc n.mod ++ "," ++ Hex.enc n.name ++ "," ++ String.singleton (charOfKind n.kind) ++ "," ++ Hex.enc n.value ++ ","
        ++ showDNodes f n.children ++ ")")

/-- all addresses, pre-order; the fuel bounds the depth -/
def allAddrs : Nat → Forest → List Addr
  | 0, _ => []
  | f + 1, ns => (ns.zipIdx).flatMap fun (n, i) => [i] :: (allAddrs f n.children).map (i :: ·)

def showVal : PVal → String
  | .lit b => "l" ++ Hex.enc b
  | .num r => "n" ++ Hex.enc r
  | .var n => "v" ++ Hex.enc n

def showStep (s : Step) : String :=
  Hex.enc s.name ++ ":" ++
  match s.pred with
  | .none => "n"
  | .pos r => "p" ++ Hex.enc r
  | .dot v => "d" ++ showVal v
  | .keys kv => "k" ++ String.join (kv.map fun (k, v) => ";" ++ Hex.enc k ++ "=" ++ showVal v)

def showErr : Err → String
  | .invalid => "err Invalid"
  | .notFound => "err NotFound"
  | .incomplete a => "err Incomplete " ++ showAddr a
  | .exists => "err Exists"
  | .einval => "err Einval"
  | .unsupported => "err Unsupported"

/-- the C string: bytes before the first NUL -/
def cstr (b : Bytes) : Bytes := b.takeWhile (· != 0)

def handle (op : String) (args : List String) : String :=
  match op, args with
  | "parse", [h] =>
    match Hex.dec h with
    | some s =>
      match parsePath (cstr s) with
      | some (abs, steps) => " ".intercalate (["ok", if abs then "1" else "0"] ++ steps.map showStep)
      | none => "err Invalid"
    | none => "err BadHex"
  | "pathsof", [t, ty] =>
    match readTree t with
    | some f => " ".intercalate ("ok" :: (allAddrs (t.length + 1) f).map fun a =>
        match lydPath f a (if ty == "1" then .stdNoLastPred else .std) none with
        | some b => Hex.enc b.data
        | none => "?")
    | none => "err BadTree"
  | "pathof", [t, a, ty, bl] =>
    match readTree t, readAddr a, bl.toNat? with
    | some f, some a, some n =>
      match lydPath f a (if ty == "1" then .stdNoLastPred else .std) (if n == 0 then none else some n) with
      | some b =>
        if b.isStatic && b.log.isEmpty then "ok ~"
        else "ok " ++ Hex.enc b.data ++ " " ++ toString b.cap ++ " " ++ toString b.log.length
      | none => "err Null"
    | _, _, _ => "err BadArg"
  | "find", [s, t, p] =>
    match readSchema s, readTree t, Hex.dec p with
    | some sc, some f, some path =>
      match findPath sc f (cstr path) with
      | .ok a => "ok " ++ showAddr a
      | .error e => showErr e
    | _, _, _ => "err BadArg"
  | "newpath", [s, t, p, v] =>
    match readSchema s, readTree t, Hex.dec p, Hex.dec v with
    | some sc, some f, some path, some val =>
      match newPath sc f (cstr path) (cstr val) with
      | .ok c => "ok " ++ showAddr c.parent ++ " " ++ showDNodes (p.length + 2) [c.chain]
      | .error e => showErr e
    | _, _, _, _ => "err BadArg"
  | _, _ => "err BadOp"

end LyModel.Path.Drv
