import LyModel.Path.Print
import LyModel.Path.Eval
import LyModel.Path.Typed
import LyModel.Val.DrvU
import LyModel.Path.TypedExt
import LyModel.Val.DrvHex
import LyModel.Val.DrvBin
/-!
Driver ops of component `path` (plumbing only: (de)serialisation of trees/schemas and formatting of results).

Serialisations are single protocol tokens (no blanks):
  tree    := node*          node  := '(' hex ',' hex ',' kind ',' hex ',' node* ')'      (module, name, kind, value, children)
  schema  := snode*         snode := '(' hex ',' hex ',' kind ',' snode* ')'
  kind    := i (inner) | L / l (keyed list, config / not) | k (key-less list) | F / f (leaf-list, config / not)
           | K (key leaf) | e (leaf)
  addr    := n ('.' n)*  |  '-'  (top level)
`hex` is lower-case hex, `-` for the empty string.  The harness produces both serialisations from the real
`lysc_node` / `lyd_node` structures, so the model works on what libyang built, not on what the generator meant.

  parse <path>                         -> ok <abs> <step>* | err Invalid
      step := namehex ':' ( 'n' | 'p' rawhex | 'd' val | 'k' (';' keyhex '=' val)+ ),  val := ('l'|'n'|'v') hex
  pathsof <tree> <type>                -> ok <pathhex>*            (every node, pre-order, dynamic buffer; type 0 = STD, 1 = NO_LAST_PRED)
  pathof <tree> <addr> <type> <buflen> -> ok <pathhex> <cap> <nwrites> | ok ~ (returned buffer never written) | err Null
  find <schema> <tree> <path>          -> ok <addr> | err <Enum> [addr]
  newpath <schema> <tree> <path> <val> -> ok <parent-addr> <tree-of-created-chain> | err <Enum>

Typed variants (`Typed.lean`): the schema serialisation carries, for a leaf / leaf-list, `#<n>` in place of the (empty) child list —
the index of its type in the `~`-separated descriptor list `<types>` (descriptors of component `val`: `i8:1..5`, `d2`, `bool`,
`enum:<hex>=<v>,…`, `bits:<hex>=<pos>,…`, `str:<len>`, `idref:<leafmod>:<bases>@<graph>`, `U(<d>|<d>…)`, `pstr:<len>:<patterns>`,
`t:ietf-yang-types:<hex-string|mac-address|phys-address|uuid|date-and-time>`, `bin:<len>`, `empty`; `?` = a type outside the
model) — and the values of the tree are value keys (canonical string, for a union value that its canonical string does not
identify followed by `00` and the member index).
  tfind <tschema> <types> <tree> <path>          -> as find
  tnewpath <tschema> <types> <tree> <path> <val> -> as newpath
  tpathsof <tree>                                -> ok <pathhex>*   (lyd_path of every node: canonical strings of the value keys)
  tstore <desc> <lit>                            -> ok <keyhex> | err Invalid | err Unsupported
-/
namespace LyModel.Path.Drv
open LyModel LyModel.Path

def kindOfChar : Char → Option Kind
  | 'i' => some .inner
  | 'L' => some (.list true)
  | 'l' => some (.list false)
  | 'k' => some .keyless
  | 'F' => some (.leaflist true)
  | 'f' => some (.leaflist false)
  | 'K' => some (.leaf true)
  | 'e' => some (.leaf false)
  | _ => none

def charOfKind : Kind → Char
  | .inner => 'i'
  | .list true => 'L'
  | .list false => 'l'
  | .keyless => 'k'
  | .leaflist true => 'F'
  | .leaflist false => 'f'
  | .leaf true => 'K'
  | .leaf false => 'e'

def isHexish (c : Char) : Bool := c.isDigit || ('a' ≤ c && c ≤ 'f') || c == '-'

/-- hex field followed by `,` -/
def hexField (cs : List Char) : Option (Bytes × List Char) :=
  match cs.span isHexish with
  | (h, ',' :: r) => (Hex.dec (String.ofList h)).map (fun b => (b, r))
  | _ => none

def parseDNodes : Nat → List Char → Option (List DNode × List Char)
  | 0, _ => none
  | f + 1, '(' :: r =>
    match hexField r with
    | none => none
    | some (m, r) =>
      match hexField r with
      | none => none
      | some (n, r) =>
        match r with
        | kc :: ',' :: r =>
          match kindOfChar kc, hexField r with
          | some k, some (v, r) =>
            match parseDNodes f r with
            | some (ch, ')' :: r) =>
              match parseDNodes f r with
              | some (sibs, r) => some (DNode.mk m n k v ch :: sibs, r)
              | none => none
            | _ => none
          | _, _ => none
        | _ => none
  | _ + 1, cs => some ([], cs)

def parseSNodes : Nat → List Char → Option (List SNode × List Char)
  | 0, _ => none
  | f + 1, '(' :: r =>
    match hexField r with
    | none => none
    | some (m, r) =>
      match hexField r with
      | none => none
      | some (n, r) =>
        match r with
        | kc :: ',' :: r =>
          match kindOfChar kc with
          | some k =>
            match parseSNodes f r with
            | some (ch, ')' :: r) =>
              match parseSNodes f r with
              | some (sibs, r) => some (SNode.mk m n k ch :: sibs, r)
              | none => none
            | _ => none
          | none => none
        | _ => none
  | _ + 1, cs => some ([], cs)

/-- typed schema: a terminal node has `#<n>` (index into the type table) where an inner node has its children -/
def parseTSNodes (tys : Array (Option KTy)) : Nat → List Char → Option (List TSNode × List Char)
  | 0, _ => none
  | f + 1, '(' :: r =>
    match hexField r with
    | none => none
    | some (m, r) =>
      match hexField r with
      | none => none
      | some (n, r) =>
        match r with
        | kc :: ',' :: r =>
          match kindOfChar kc with
          | some k =>
            let (ty, r) : Option KTy × List Char := match r with
              | '#' :: r' =>
                let (ds, r'') := r'.span Char.isDigit
                (((String.ofList ds).toNat?.bind (fun i => tys[i]?)).join, r'')
              | _ => (none, r)
            match parseTSNodes tys f r with
            | some (ch, ')' :: r) =>
              match parseTSNodes tys f r with
              | some (sibs, r) => some (TSNode.mk m n k ty ch :: sibs, r)
              | none => none
            | _ => none
          | none => none
        | _ => none
  | _ + 1, cs => some ([], cs)

/-- a type descriptor of component `val` as a path type; identityref values arrive in the JSON prefix format -/
def ktyOfDesc (d : String) : Option KTy :=
  if d == "?" then none
  else if d.startsWith "U(" then (Val.DrvU.parseUTy .json (d.length + 1) d).map fun u => KTy.ofUnion u.flatten
  else if d.startsWith "pstr:" then (Val.DrvU.parsePStr d).map KTy.pstr
  else if Val.DrvHex.isDesc d then (Val.DrvHex.tyOfDesc d).map KTy.hexStr
  else if d == "t:ietf-yang-types:date-and-time" then some KTy.dateTime
  else if Val.DrvBin.isDesc d then (Val.DrvBin.lengthOfDesc d).map KTy.binary
  else if d == "empty" then some KTy.empty
  else if d.startsWith "idref:" then (Val.DrvU.parseIdTy d).map fun t => KTy.ofPlug (Val.idrefPlug t.ctx t.bases t.pmJson t.pmJson)
  else (Val.Drv.parseTy d).map fun t => KTy.ofPlug (Val.MTy.base t).plug

def readTypes (s : String) : Array (Option KTy) :=
  if s == "-" then #[] else ((s.splitOn "~").map ktyOfDesc).toArray

def readTSchema (s types : String) : Option (List TSNode) :=
  if s == "-" then some [] else
  match parseTSNodes (readTypes types) (s.length + 1) s.toList with
  | some (f, []) => some f
  | _ => none

def readTree (s : String) : Option Forest :=
  if s == "-" then some [] else
  match parseDNodes (s.length + 1) s.toList with
  | some (f, []) => some f
  | _ => none

def readSchema (s : String) : Option (List SNode) :=
  if s == "-" then some [] else
  match parseSNodes (s.length + 1) s.toList with
  | some (f, []) => some f
  | _ => none

def readAddr (s : String) : Option Addr :=
  if s == "-" then some [] else (s.splitOn ".").mapM (·.toNat?)

def showAddr (a : Addr) : String :=
  if a.isEmpty then "-" else ".".intercalate (a.map toString)

/-- serialise a forest; the fuel bounds the depth -/
def showDNodes : Nat → List DNode → String
  | 0, _ => "?"
  | f + 1, ns => String.join (ns.map fun n =>
      "(" ++ Hex.enc n.mod ++ "," ++ Hex.enc n.name ++ "," ++ String.singleton (charOfKind n.kind) ++ "," ++ Hex.enc n.value ++ ","
        ++ showDNodes f n.children ++ ")")

/-- all addresses, pre-order; the fuel bounds the depth -/
def allAddrs : Nat → Forest → List Addr
  | 0, _ => []
  | f + 1, ns => (ns.zipIdx).flatMap fun (n, i) => [i] :: (allAddrs f n.children).map (i :: ·)

def showVal : PVal → String
  | .lit b => "l" ++ Hex.enc b
  | .num r => "n" ++ Hex.enc r
  | .var n => "v" ++ Hex.enc n

def showStep (s : Step) : String :=
  Hex.enc s.name ++ ":" ++
  match s.pred with
  | .none => "n"
  | .pos r => "p" ++ Hex.enc r
  | .dot v => "d" ++ showVal v
  | .keys kv => "k" ++ String.join (kv.map fun (k, v) => ";" ++ Hex.enc k ++ "=" ++ showVal v)

def showErr : Err → String
  | .invalid => "err Invalid"
  | .notFound => "err NotFound"
  | .incomplete a => "err Incomplete " ++ showAddr a
  | .exists => "err Exists"
  | .einval => "err Einval"
  | .unsupported => "err Unsupported"

/-- the C string: bytes before the first NUL -/
def cstr (b : Bytes) : Bytes := b.takeWhile (· != 0)

def handle (op : String) (args : List String) : String :=
  match op, args with
  | "parse", [h] =>
    match Hex.dec h with
    | some s =>
      match parsePath (cstr s) with
      | some (abs, steps) => " ".intercalate (["ok", if abs then "1" else "0"] ++ steps.map showStep)
      | none => "err Invalid"
    | none => "err BadHex"
  | "pathsof", [t, ty] =>
    match readTree t with
    | some f => " ".intercalate ("ok" :: (allAddrs (t.length + 1) f).map fun a =>
        match lydPath f a (if ty == "1" then .stdNoLastPred else .std) none with
        | some b => Hex.enc b.data
        | none => "?")
    | none => "err BadTree"
  | "pathof", [t, a, ty, bl] =>
    match readTree t, readAddr a, bl.toNat? with
    | some f, some a, some n =>
      match lydPath f a (if ty == "1" then .stdNoLastPred else .std) (if n == 0 then none else some n) with
      | some b =>
        if b.isStatic && b.log.isEmpty then "ok ~"
        else "ok " ++ Hex.enc b.data ++ " " ++ toString b.cap ++ " " ++ toString b.log.length
      | none => "err Null"
    | _, _, _ => "err BadArg"
  | "find", [s, t, p] =>
    match readSchema s, readTree t, Hex.dec p with
    | some sc, some f, some path =>
      match findPath sc f (cstr path) with
      | .ok a => "ok " ++ showAddr a
      | .error e => showErr e
    | _, _, _ => "err BadArg"
  | "newpath", [s, t, p, v] =>
    match readSchema s, readTree t, Hex.dec p, Hex.dec v with
    | some sc, some f, some path, some val =>
      match newPath sc f (cstr path) (cstr val) with
      | .ok c => "ok " ++ showAddr c.parent ++ " " ++ showDNodes (p.length + 2) [c.chain]
      | .error e => showErr e
    | _, _, _, _ => "err BadArg"
  | "tfind", [s, tys, t, p] =>
    match readTSchema s tys, readTree t, Hex.dec p with
    | some sc, some f, some path =>
      match findPathT sc f (cstr path) with
      | .ok a => "ok " ++ showAddr a
      | .error e => showErr e
    | _, _, _ => "err BadArg"
  | "tnewpath", [s, tys, t, p, v] =>
    match readTSchema s tys, readTree t, Hex.dec p, Hex.dec v with
    | some sc, some f, some path, some val =>
      match newPathT sc f (cstr path) (cstr val) with
      | .ok c => "ok " ++ showAddr c.parent ++ " " ++ showDNodes (p.length + 2) [c.chain]
      | .error e => showErr e
    | _, _, _, _ => "err BadArg"
  | "tpathsof", [t] =>
    match readTree t with
    | some f => " ".intercalate ("ok" :: (allAddrs (t.length + 1) f).map fun a =>
        match pathOfT f a with
        | some b => Hex.enc b
        | none => "?")
    | none => "err BadTree"
  | "tstore", [d, x] =>
    match Hex.dec x with
    | some lit =>
      match ktyOfDesc d with
      | none => "err Unsupported"
      | some t =>
        match t.store lit with
        | some k => "ok " ++ Hex.enc k
        | none => "err Invalid"
    | none => "err BadArg"
  | _, _ => "err BadOp"

end LyModel.Path.Drv
