import LyModel.Path.Eval
import LyModel.Path.LemmasGrammar
/-!
Evaluation of the compiled form of a printed path on the tree it was printed from: every segment selects the chain
element it was printed for.
-/
namespace LyModel.Path

/-! ### expected compiled steps -/

def ckvOf (k : DNode) : Bytes × Bytes := (k.name, k.value)

def cpredOf (l : Level) : CPred :=
  match l.node.kind with
  | .list _ =>
    match keyLeaves l.node.children with
    | [] => .none
    | k :: r => .keys ((k :: r).map ckvOf)
  | .keyless => .pos (listPos l.sibs l.idx l.node)
  | .leaflist true => .dot l.node.value
  | .leaflist false => .pos (listPos l.sibs l.idx l.node)
  | _ => .none

def cstepOf (l : Level) : CStep :=
  ⟨l.node.mod, l.node.name, l.node.kind, (keyLeaves l.node.children).map (·.name), cpredOf l⟩

/-! ### `firstIdx` -/

theorem firstIdx_eq (p : DNode → Bool) : ∀ (sibs : List DNode) (idx : Nat) (n : DNode), sibs[idx]? = some n →
    p n = true → (∀ j m, j < idx → sibs[j]? = some m → p m = false) → firstIdx p sibs = some idx := by
  intro sibs
  induction sibs with
  | nil => intro idx n h; simp at h
  | cons x r ih =>
    intro idx n h hp hbefore
    cases idx with
    | zero =>
      simp at h; subst h
      simp [firstIdx, hp]
    | succ i =>
      have hx : p x = false := hbefore 0 x (by omega) (by simp)
      have := ih i n (by simpa using h) hp (fun j m hj hm => hbefore (j + 1) m (by omega) (by simpa using hm))
      simp [firstIdx, hx, this]

theorem firstIdx_append_false (p : DNode → Bool) : ∀ (pre r : List DNode), (∀ x ∈ pre, p x = false) →
    firstIdx p (pre ++ r) = (firstIdx p r).map (· + pre.length) := by
  intro pre
  induction pre with
  | nil => intro r _; cases h : firstIdx p r <;> simp [h]
  | cons x t ih =>
    intro r h
    have hx : p x = false := h x (by simp)
    have := ih r (fun y hy => h y (by simp [hy]))
    simp only [List.cons_append, firstIdx, hx, this]
    cases firstIdx p r with
    | none => simp
    | some i => simp; omega

theorem firstIdx_block (p : DNode → Bool) (pre blk post : List DNode) (hpre : ∀ x ∈ pre, p x = false)
    (hne : blk ≠ []) (hblk : ∀ x ∈ blk, p x = true) : firstIdx p (pre ++ blk ++ post) = some pre.length := by
  rw [List.append_assoc, firstIdx_append_false p pre _ hpre]
  cases blk with
  | nil => exact absurd rfl hne
  | cons b t => simp [firstIdx, hblk b (by simp)]

theorem takeWhile_all (p : DNode → Bool) : ∀ (a b : List DNode), (∀ x ∈ a, p x = true) →
    a.length ≤ ((a ++ b).takeWhile p).length := by
  intro a
  induction a with
  | nil => intro b _; simp
  | cons x t ih =>
    intro b h
    have hx : p x = true := h x (by simp)
    have := ih b (fun y hy => h y (by simp [hy]))
    simp [hx]; omega

theorem takeWhile_all_eq (p : DNode → Bool) : ∀ (a b : List DNode), (∀ x ∈ a, p x = true) →
    (a ++ b).takeWhile p = a ++ b.takeWhile p := by
  intro a
  induction a with
  | nil => intro b _; simp
  | cons x t ih =>
    intro b h
    have hx : p x = true := h x (by simp)
    simp [hx, ih b (fun y hy => h y (by simp [hy]))]

theorem takeWhile_none (p : DNode → Bool) (b : List DNode) (h : ∀ x ∈ b, p x = false) : b.takeWhile p = [] := by
  cases b with
  | nil => rfl
  | cons x t => simp [List.takeWhile, h x (by simp)]

theorem take_prefix_block : ∀ (blk post : List DNode) (k : Nat), k ≤ blk.length → (blk ++ post).take k = blk.take k := by
  intro blk
  induction blk with
  | nil => intro post k h; simp at h; subst h; simp
  | cons x t ih =>
    intro post k h
    cases k with
    | zero => simp
    | succ j => simp [ih post j (by simpa using h)]

theorem take_block : ∀ (pre blk post : List DNode) (k : Nat), k ≤ blk.length →
    (pre ++ blk ++ post).take (pre.length + k) = pre ++ blk.take k := by
  intro pre
  induction pre with
  | nil => intro blk post k h; simpa using take_prefix_block blk post k h
  | cons x t ih =>
    intro blk post k h
    have := ih blk post k h
    simp only [List.cons_append, List.length_cons]
    rw [show t.length + 1 + k = (t.length + k) + 1 by omega, List.take_succ_cons, this]

/-- position of an element of a contiguous block, as `lyd_list_pos` counts it -/
theorem listPos_block (n : DNode) (pre blk post : List DNode) (k : Nat)
    (hpre : ∀ x ∈ pre, x.sameSchema n = false) (hblk : ∀ x ∈ blk, x.sameSchema n = true) (hk : k < blk.length) :
    listPos (pre ++ blk ++ post) (pre.length + k) n = k + 1 := by
  unfold listPos
  have e1 : (pre ++ blk ++ post).take (pre.length + k) = pre ++ blk.take k := take_block pre blk post k (by omega)
  rw [e1, List.reverse_append]
  rw [takeWhile_all_eq (fun m => m.sameSchema n) _ _ (by
    intro x hx
    have := List.mem_reverse.mp hx
    exact hblk x (List.mem_of_mem_take this))]
  rw [takeWhile_none _ _ (by intro x hx; exact hpre x (List.mem_reverse.mp hx))]
  simp
  omega

/-! ### what makes a chain element addressable -/

/-- Uniqueness among the siblings, per kind of predicate:
    * no predicate (container, leaf, …): no earlier sibling of the same schema node;
    * key predicates: every earlier instance differs in some key;
    * `[.='v']`: every earlier instance has another value;
    * position: the instances of the schema node form one contiguous block containing the node. -/
structure Level.Addressable (l : Level) : Prop where
  keysNodup : l.KeysNodup
  unique :
    match cpredOf l with
    | .none => ∀ j m, j < l.idx → l.sibs[j]? = some m → m.sameSchema l.node = false
    | .keys _ => ∀ j m, j < l.idx → l.sibs[j]? = some m → m.sameSchema l.node = true →
        ∃ k ∈ keyLeaves l.node.children, keyValue m k.name ≠ some k.value
    | .dot _ => ∀ j m, j < l.idx → l.sibs[j]? = some m → m.sameSchema l.node = true → m.value ≠ l.node.value
    | .pos _ => ∃ pre blk post, l.sibs = pre ++ blk ++ post ∧ (∀ x ∈ pre, x.sameSchema l.node = false) ∧
        (∀ x ∈ blk, x.sameSchema l.node = true) ∧ pre.length ≤ l.idx ∧ l.idx < pre.length + blk.length

theorem find_self_value : ∀ (ks : List DNode), (ks.map (·.name)).Nodup → ∀ k ∈ ks,
    (ks.find? (fun c => c.name == k.name)).map (·.value) = some k.value := by
  intro ks
  induction ks with
  | nil => intro _ k hk; simp at hk
  | cons x t ih =>
    intro hnd k hk
    have hnd' : x.name ∉ t.map (·.name) ∧ (t.map (·.name)).Nodup := by simpa using hnd
    by_cases hx : x.name = k.name
    · have : k = x := by
        simp only [List.mem_cons] at hk
        rcases hk with h | h
        · exact h
        · exact absurd (hx ▸ List.mem_map_of_mem h : x.name ∈ t.map (·.name)) hnd'.1
      subst this
      simp
    · have hk' : k ∈ t := by
        simp only [List.mem_cons] at hk
        rcases hk with h | h
        · subst h; exact absurd rfl hx
        · exact h
      have hb : (x.name == k.name) = false := by simpa using hx
      simp [List.find?, hb, ih hnd'.2 k hk']

theorem keyValue_self (n : DNode) (hnd : ((keyLeaves n.children).map (·.name)).Nodup) :
    ∀ k ∈ keyLeaves n.children, keyValue n k.name = some k.value := by
  intro k hk
  exact find_self_value _ hnd k hk

theorem cstep_sameSchema (l : Level) (m : DNode) : (cstepOf l).sameSchema m = m.sameSchema l.node := by
  simp [CStep.sameSchema, cstepOf, DNode.sameSchema]

theorem sameSchema_self (n : DNode) : n.sameSchema n = true := by simp [DNode.sameSchema]

/-- the segment printed for a chain element selects that element -/
theorem matchStep_level (l : Level) (hh : l.sibs[l.idx]? = some l.node) (ha : l.Addressable) :
    matchStep l.sibs (cstepOf l) = some l.idx := by
  have hu := ha.unique
  have hself : (cstepOf l).sameSchema l.node = true := by rw [cstep_sameSchema]; exact sameSchema_self _
  have hposcase : ∀ (hc : cpredOf l = .pos (listPos l.sibs l.idx l.node)), matchStep l.sibs (cstepOf l) = some l.idx := by
    intro hc
    rw [hc] at hu
    simp only at hu
    obtain ⟨pre, blk, post, hs, hpre, hblk, h1, h2⟩ := hu
    have hk : l.idx - pre.length < blk.length := by omega
    have hne : blk ≠ [] := by intro e; subst e; simp at hk
    have hfi : firstIdx (cstepOf l).sameSchema l.sibs = some pre.length := by
      rw [hs]
      apply firstIdx_block _ pre blk post _ hne
      · intro x hx; rw [cstep_sameSchema]; exact hblk x hx
      · intro x hx; rw [cstep_sameSchema]; exact hpre x hx
    have hlp : listPos l.sibs l.idx l.node = (l.idx - pre.length) + 1 := by
      have := listPos_block l.node pre blk post (l.idx - pre.length) hpre hblk hk
      rw [hs]
      rw [show pre.length + (l.idx - pre.length) = l.idx by omega] at this
      exact this
    have htw : blk.length ≤ ((l.sibs.drop pre.length).takeWhile (cstepOf l).sameSchema).length := by
      rw [hs, List.append_assoc, List.drop_left]
      apply takeWhile_all
      intro x hx; rw [cstep_sameSchema]; exact hblk x hx
    have hpred : (cstepOf l).pred = .pos (l.idx - pre.length + 1) := by simp [cstepOf, hc, hlp]
    simp only [matchStep, hpred, hfi]
    have hcond : (decide (l.idx - pre.length + 1 ≥ 1) &&
        decide (l.idx - pre.length + 1 - 1 < ((l.sibs.drop pre.length).takeWhile (cstepOf l).sameSchema).length)) = true := by
      simp; omega
    simp only [hcond, if_true]
    congr 1
    omega
  cases hk : l.node.kind with
  | inner =>
    simp only [cpredOf, hk] at hu
    have hpred : (cstepOf l).pred = .none := by simp [cstepOf, cpredOf, hk]
    simp only [matchStep, hpred]
    exact firstIdx_eq _ _ _ _ hh hself (fun j m hj hm => by rw [cstep_sameSchema]; exact hu j m hj hm)
  | leaf k =>
    simp only [cpredOf, hk] at hu
    have hpred : (cstepOf l).pred = .none := by simp [cstepOf, cpredOf, hk]
    simp only [matchStep, hpred]
    exact firstIdx_eq _ _ _ _ hh hself (fun j m hj hm => by rw [cstep_sameSchema]; exact hu j m hj hm)
  | keyless => exact hposcase (by simp [cpredOf, hk])
  | leaflist c =>
    cases c with
    | false => exact hposcase (by simp [cpredOf, hk])
    | true =>
      simp only [cpredOf, hk] at hu
      have hpred : (cstepOf l).pred = .dot l.node.value := by simp [cstepOf, cpredOf, hk]
      simp only [matchStep, hpred]
      apply firstIdx_eq _ _ _ _ hh
      · simp [hself]
      · intro j m hj hm
        cases hs : (cstepOf l).sameSchema m with
        | false => simp
        | true =>
          have := hu j m hj hm (by rw [← cstep_sameSchema]; exact hs)
          simp [this]
  | list c =>
    cases hks : keyLeaves l.node.children with
    | nil =>
      simp only [cpredOf, hk, hks] at hu
      have hpred : (cstepOf l).pred = .none := by simp [cstepOf, cpredOf, hk, hks]
      simp only [matchStep, hpred]
      exact firstIdx_eq _ _ _ _ hh hself (fun j m hj hm => by rw [cstep_sameSchema]; exact hu j m hj hm)
    | cons k r =>
      simp only [cpredOf, hk, hks] at hu
      have hpred : (cstepOf l).pred = .keys ((k :: r).map ckvOf) := by simp [cstepOf, cpredOf, hk, hks]
      simp only [matchStep, hpred]
      have hkv := keyValue_self l.node ha.keysNodup
      rw [hks] at hkv
      apply firstIdx_eq _ _ _ _ hh
      · simp only [hself, Bool.true_and, List.all_eq_true]
        intro p hp
        obtain ⟨x, hx, rfl⟩ := List.mem_map.mp hp
        simp [ckvOf, hkv x hx]
      · intro j m hj hm
        cases hs : (cstepOf l).sameSchema m with
        | false => simp
        | true =>
          obtain ⟨x, hx, hne⟩ := hu j m hj hm (by rw [← cstep_sameSchema]; exact hs)
          simp only [Bool.true_and, List.all_eq_false]
          refine ⟨ckvOf x, List.mem_map_of_mem hx, ?_⟩
          simp [ckvOf, hne]

/-! ### the walk -/

theorem levelsFrom_cons {f : Forest} {pm : Option Bytes} {i : Nat} {r : Addr} {ls : List Level}
    (h : levelsFrom f pm (i :: r) = some ls) :
    ∃ n ls', f[i]? = some n ∧ levelsFrom n.children (some n.mod) r = some ls' ∧ ls = ⟨f, i, n, pm⟩ :: ls' := by
  simp only [levelsFrom] at h
  split at h
  · cases h
  · next n hn =>
    split at h
    · cases h
    · next ls' hl => cases h; exact ⟨n, ls', hn, hl, rfl⟩

theorem evalSteps_levels : ∀ (a : Addr) (f : Forest) (pm : Option Bytes) (ls : List Level),
    levelsFrom f pm a = some ls → (∀ l ∈ ls, l.Addressable) → evalSteps f (ls.map cstepOf) = (a, ls.length) := by
  intro a
  induction a with
  | nil =>
    intro f pm ls h _
    simp [levelsFrom] at h
    subst h
    rfl
  | cons i r ih =>
    intro f pm ls h ha
    obtain ⟨n, ls', hn, hl, rfl⟩ := levelsFrom_cons h
    have hm := matchStep_level ⟨f, i, n, pm⟩ hn (ha _ (by simp))
    have hrec := ih n.children (some n.mod) ls' hl (fun l hl' => ha l (by simp [hl']))
    simp only [List.map_cons, evalSteps, hm, hn, hrec, List.length_cons]

end LyModel.Path
