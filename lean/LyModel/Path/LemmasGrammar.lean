import LyModel.Path.LemmasRoundtrip
/-!
The path grammar on the token sequence of a printed path: it reads back one step per chain element, with the
predicate the element's kind calls for.
-/
namespace LyModel.Path

/-! ### expected steps -/

def kvOf (k : DNode) : Bytes × PVal := (k.name, .lit k.value)

def predOf (l : Level) : Pred :=
  match l.node.kind with
  | .list _ =>
    match keyLeaves l.node.children with
    | [] => .none
    | k :: r => .keys ((k :: r).map kvOf)
  | .keyless => .pos (toDec (listPos l.sibs l.idx l.node))
  | .leaflist true => .dot (.lit l.node.value)
  | .leaflist false => .pos (toDec (listPos l.sibs l.idx l.node))
  | _ => .none

def stepOf (l : Level) (wp : Bool) : Step := ⟨fullName l, if wp then predOf l else .none⟩

def stepsOf (std : Bool) : List Level → List Step
  | [] => []
  | l :: rest => stepOf l (std || !rest.isEmpty) :: stepsOf std rest

/-! ### names without a colon -/

theorem identChar_ne_colon {c : UInt8} (h : IsIdentChar c) : (c == 58) = false := by
  unfold IsIdentChar at h
  exact beq_false_of_toNat_ne (by simp; omega)

theorem splitAtColon_noColon : ∀ (n : Bytes), (∀ c ∈ n, IsIdentChar c) → splitAtColon n = none := by
  intro n
  induction n with
  | nil => intro _; rfl
  | cons c t ih =>
    intro h
    simp [splitAtColon, identChar_ne_colon (h c (by simp)), ih (fun d hd => h d (by simp [hd]))]

theorem IsIdent.chars {n : Bytes} (h : IsIdent n) : ∀ c ∈ n, IsIdentChar c := by
  cases h with
  | mk c t hc ht =>
    intro d hd
    simp only [List.mem_cons] at hd
    rcases hd with rfl | hd
    · exact hc.identChar
    · exact ht d hd

theorem localName_ident {n : Bytes} (h : IsIdent n) : localName n = n := by
  simp [localName, splitName, splitAtColon_noColon n h.chars]

theorem hasPrefix_prefixed (m n : Bytes) : hasPrefix (m ++ 58 :: n) = true := by
  simp [hasPrefix]

/-! ### no false "duplicate key" -/

theorem isIdentByte_identChar {c : UInt8} (h : IsIdentChar c) : isIdentByte c = true := by
  unfold IsIdentChar at h
  simp only [isIdentByte, Bool.or_eq_true, Bool.and_eq_true, decide_eq_true_eq, beq_iff_eq]
  rcases h with h | h | h | h | h | h
  · exact Or.inl (Or.inl (Or.inl (Or.inl (Or.inl h))))
  · exact Or.inl (Or.inl (Or.inl (Or.inl (Or.inr h))))
  · exact Or.inl (Or.inl (Or.inl (Or.inr h)))
  · exact Or.inl (Or.inl (Or.inr (UInt8.toNat_inj.mp h)))
  · exact Or.inl (Or.inr (UInt8.toNat_inj.mp h))
  · exact Or.inr (UInt8.toNat_inj.mp h)

theorem dupKey_ne {e k : Bytes} (he : IsIdent e) (hne : e ≠ k) : dupKey e k = false := by
  unfold dupKey
  cases hp : k.isPrefixOf e with
  | false => simp
  | true =>
    have hpre : k <+: e := List.isPrefixOf_iff_prefix.mp hp
    obtain ⟨t, ht⟩ := hpre
    have hd : e.drop k.length = t := by rw [← ht]; simp
    rw [hd]
    cases t with
    | nil => simp at ht; exact absurd ht.symm hne
    | cons c t' =>
      have : c ∈ e := by rw [← ht]; simp
      simp [isIdentByte_identChar (he.chars c this)]

/-! ### key predicates -/

/-- the tokens of `[k1=…][k2=…]…` after the first `[` -/
def keyToksTail (k : DNode) (r : List DNode) : List Tok :=
  [.name k.name, .eq, .lit (quoteFor k.value) k.value, .brack2] ++ keyToks r

theorem keyToks_cons (k : DNode) (r : List DNode) : keyToks (k :: r) = .brack1 :: keyToksTail k r := by
  simp [keyToks, keyToksTail]

/-- what follows the predicates of a segment in the token sequence: nothing or the next `/` -/
def TokStop (tail : List Tok) : Prop := tail = [] ∨ ∃ r, tail = .path :: r

theorem parseKeyPreds_printed (r : List DNode) : ∀ (k : DNode) (seen : List Bytes) (tail : List Tok), TokStop tail →
    (∀ x ∈ k :: r, IsIdent x.name) → ((k :: r).map (·.name)).Nodup →
    (∀ e ∈ seen, IsIdent e ∧ ∀ x ∈ k :: r, e ≠ x.name) →
    parseKeyPreds seen (keyToksTail k r ++ tail) = some ((k :: r).map kvOf, tail) := by
  induction r with
  | nil =>
    intro k seen tail ht hid _ hseen
    have hln : localName k.name = k.name := localName_ident (hid k (by simp))
    have hdup : seen.any (fun e => dupKey e k.name) = false := by
      rw [List.any_eq_false]
      intro e he
      simp [dupKey_ne (hseen e he).1 ((hseen e he).2 k (by simp))]
    simp only [keyToksTail, keyToks, List.append_nil, List.cons_append, List.nil_append, parseKeyPreds, hln, hdup]
    rcases ht with rfl | ⟨r', rfl⟩ <;> simp [kvOf]
  | cons k2 r ih =>
    intro k seen tail ht hid hnd hseen
    have hln : localName k.name = k.name := localName_ident (hid k (by simp))
    have hdup : seen.any (fun e => dupKey e k.name) = false := by
      rw [List.any_eq_false]
      intro e he
      simp [dupKey_ne (hseen e he).1 ((hseen e he).2 k (by simp))]
    have hnd' : k.name ∉ (k2 :: r).map (·.name) ∧ ((k2 :: r).map (·.name)).Nodup := by
      simpa using hnd
    have hrec := ih k2 (seen ++ [k.name]) tail ht (fun x hx => hid x (by simp [hx])) hnd'.2 (by
      intro e he
      simp only [List.mem_append, List.mem_singleton] at he
      rcases he with he | rfl
      · exact ⟨(hseen e he).1, fun x hx => (hseen e he).2 x (by simp [hx])⟩
      · refine ⟨hid k (by simp), fun x hx heq => hnd'.1 ?_⟩
        rw [heq]; exact List.mem_map_of_mem hx)
    have e : keyToksTail k (k2 :: r) ++ tail = .name k.name :: .eq :: .lit (quoteFor k.value) k.value :: .brack2 ::
        .brack1 :: (keyToksTail k2 r ++ tail) := by
      simp [keyToksTail, keyToks]
    rw [e]
    simp only [parseKeyPreds, hln, hdup, hrec]
    simp [kvOf]

theorem parsePred_printed (l : Level) (hl : l.Printable)
    (hnd : ((keyLeaves l.node.children).map (·.name)).Nodup) (tail : List Tok) (ht : TokStop tail) :
    parsePred (predToks l ++ tail) = some (predOf l, tail) := by
  have hnone : parsePred tail = some (.none, tail) := by
    rcases ht with rfl | ⟨r, rfl⟩ <;> rfl
  cases hk : l.node.kind with
  | list c =>
    simp only [predToks, predOf, hk]
    cases hks : keyLeaves l.node.children with
    | nil => simpa [keyToks] using hnone
    | cons k r =>
      rw [hks] at hnd
      have hid : ∀ x ∈ k :: r, IsIdent x.name := fun x hx => (hl.keys x (hks ▸ hx)).1
      have := parseKeyPreds_printed r k [] tail ht hid hnd (by intro e he; simp at he)
      simp only [keyToks_cons, List.cons_append]
      simp only [keyToksTail, List.cons_append, List.nil_append] at this ⊢
      simp only [parsePred, this]
  | keyless =>
    have hpos : 1 ≤ listPos l.sibs l.idx l.node := by simp [listPos]
    simp [predToks, predOf, hk, posToks, parsePred, atoiNonzero_toDec hpos hl.pos]
  | leaflist c =>
    cases c with
    | true => simp [predToks, predOf, hk, parsePred]
    | false =>
      have hpos : 1 ≤ listPos l.sibs l.idx l.node := by simp [listPos]
      simp [predToks, predOf, hk, posToks, parsePred, atoiNonzero_toDec hpos hl.pos]
  | inner => simpa [predToks, predOf, hk] using hnone
  | leaf k => simpa [predToks, predOf, hk] using hnone

/-! ### the step loop -/

/-- the chain's key names are pairwise different (they are different schema nodes) -/
def Level.KeysNodup (l : Level) : Prop := ((keyLeaves l.node.children).map (·.name)).Nodup

instance (l : Level) : Decidable l.KeysNodup := by unfold Level.KeysNodup; infer_instance

/-- token sequence of a chain without its first `/` -/
def levelsToksTail (std : Bool) (l : Level) (rest : List Level) : List Tok :=
  .name (fullName l) :: ((if (std || !rest.isEmpty) = true then predToks l else []) ++ levelsToks std rest)

theorem levelsToks_cons (std : Bool) (l : Level) (rest : List Level) :
    levelsToks std (l :: rest) = .path :: levelsToksTail std l rest := by
  simp [levelsToks, stepToks, levelsToksTail]

theorem levelsToks_stop (std : Bool) (ls : List Level) : TokStop (levelsToks std ls) := by
  cases ls with
  | nil => exact Or.inl rfl
  | cons l rest => rw [levelsToks_cons]; exact Or.inr ⟨_, rfl⟩

theorem parseSteps_printed (std : Bool) (rest : List Level) : ∀ (l : Level) (np : Bool) (fuel : Nat),
    (∀ x ∈ l :: rest, x.Printable ∧ x.KeysNodup) → (np = true → (stepMod l).isSome) → rest.length + 1 ≤ fuel →
    parseSteps fuel np (levelsToksTail std l rest) = some (stepsOf std (l :: rest)) := by
  induction rest with
  | nil =>
    intro l np fuel hl hnp hf
    cases fuel with
    | zero => simp at hf
    | succ f =>
      have hpre : (np && !hasPrefix (fullName l)) = false := by
        cases np with
        | false => rfl
        | true =>
          have := hnp rfl
          cases hm : stepMod l with
          | none => simp [hm] at this
          | some m => simp [fullName, hm, hasPrefix_prefixed]
      have hp : parsePred ((if (std || !([] : List Level).isEmpty) = true then predToks l else []) ++ [])
          = some ((if (std || !([] : List Level).isEmpty) = true then predOf l else .none), []) := by
        cases std with
        | true => simpa using parsePred_printed l (hl l (by simp)).1 (hl l (by simp)).2 [] (Or.inl rfl)
        | false => rfl
      simp only [levelsToksTail, levelsToks, parseSteps, hpre, hp]
      simp [stepsOf, stepOf]
  | cons l2 rest ih =>
    intro l np fuel hl hnp hf
    cases fuel with
    | zero => simp at hf
    | succ f =>
      have hpre : (np && !hasPrefix (fullName l)) = false := by
        cases np with
        | false => rfl
        | true =>
          have := hnp rfl
          cases hm : stepMod l with
          | none => simp [hm] at this
          | some m => simp [fullName, hm, hasPrefix_prefixed]
      have hp := parsePred_printed l (hl l (by simp)).1 (hl l (by simp)).2 (levelsToks std (l2 :: rest))
        (levelsToks_stop std _)
      have hrec := ih l2 false f (fun x hx => hl x (by simp [hx])) (by intro h; cases h) (by simpa using hf)
      simp only [levelsToksTail, List.isEmpty_cons, Bool.not_false, Bool.or_true, if_true, parseSteps, hpre, hp]
      rw [levelsToks_cons]
      simp only [hrec]
      simp [stepsOf, stepOf]

theorem levelsToks_length (std : Bool) (ls : List Level) : ls.length ≤ (levelsToks std ls).length := by
  induction ls with
  | nil => simp
  | cons l rest ih => simp only [levelsToks, stepToks, List.length_append, List.length_cons]; omega

/-- parsing the printed text of a chain whose first element prints its module (top level) -/
theorem parsePath_printed (std : Bool) (l : Level) (rest : List Level)
    (hl : ∀ x ∈ l :: rest, x.Printable ∧ x.KeysNodup) (htop : (stepMod l).isSome) :
    parsePath (levelsText std (l :: rest)) = some (true, stepsOf std (l :: rest)) := by
  have ht := tokenize_levels std (l :: rest) (by simp) (fun x hx => (hl x hx).1)
  have hs := parseSteps_printed std rest l true ((levelsToksTail std l rest).length + 1) hl (fun _ => htop)
    (by have := levelsToks_length std rest; simp only [levelsToksTail, List.length_cons, List.length_append]; omega)
  simp only [parsePath, ht, levelsToks_cons, parseToks, hs, Option.map]

end LyModel.Path
