import LyModel.Path.LemmasParse
/-!
The printed path, tokenized and parsed: `parsePath (levelsText true ls) = some (true, steps of ls)` for every chain whose
names are identifiers and whose predicate values do not contain both quote characters.
-/
namespace LyModel.Path
open LyModel.Generated.PathFmt

/-- a value that has an XPath literal: not both quote characters in it -/
def LitOK (v : Bytes) : Prop := ¬ (39 ∈ v ∧ 34 ∈ v)

instance (v : Bytes) : Decidable (LitOK v) := by unfold LitOK; infer_instance

/-- what `lyd_path` needs of one chain element for its segment to be re-readable -/
structure Level.Printable (l : Level) : Prop where
  name : IsIdent l.node.name
  mod : IsIdent l.node.mod
  /-- the leading key leaves (they exist below keyed lists only): identifier names, values with a literal form -/
  keys : ∀ k ∈ keyLeaves l.node.children, IsIdent k.name ∧ LitOK k.value
  /-- the value of a configuration leaf-list instance has a literal form -/
  value : l.node.kind = .leaflist true → LitOK l.node.value
  /-- `lyd_list_pos` fits its `uint32_t` -/
  pos : listPos l.sibs l.idx l.node < 2 ^ 32

/-! ### expected tokens -/

def fullName (l : Level) : Bytes :=
  match stepMod l with
  | some m => m ++ 58 :: l.node.name
  | none => l.node.name

def keyToks : List DNode → List Tok
  | [] => []
  | k :: r => [.brack1, .name k.name, .eq, .lit (quoteFor k.value) k.value, .brack2] ++ keyToks r

def posToks (n : Nat) : List Tok := [.brack1, .num (toDec n), .brack2]

def predToks (l : Level) : List Tok :=
  match l.node.kind with
  | .list _ => keyToks (keyLeaves l.node.children)
  | .keyless => posToks (listPos l.sibs l.idx l.node)
  | .leaflist true => [.brack1, .dot, .eq, .lit (quoteFor l.node.value) l.node.value, .brack2]
  | .leaflist false => posToks (listPos l.sibs l.idx l.node)
  | _ => []

def stepToks (l : Level) (wp : Bool) : List Tok :=
  [.path, .name (fullName l)] ++ (if wp then predToks l else [])

def levelsToks (std : Bool) : List Level → List Tok
  | [] => []
  | l :: rest => stepToks l (std || !rest.isEmpty) ++ levelsToks std rest

/-! ### what follows a segment -/

/-- nothing, the next segment (`/` + identifier), or a predicate -/
def SegStop (rest : Bytes) : Prop :=
  rest = [] ∨ (∃ c r, rest = 47 :: c :: r ∧ IsIdentStart c) ∨ (∃ r, rest = 91 :: r)

theorem skipWs_cons {c : UInt8} (r : Bytes) (h : isWs c = false) : skipWs (c :: r) = c :: r := by
  simp [skipWs, h]

theorem isWs_identStart {c : UInt8} (h : IsIdentStart c) : isWs c = false := by
  unfold IsIdentStart at h
  have e1 : (c == 0x20) = false := beq_false_of_toNat_ne (by simp; omega)
  have e2 : (c == 0x9) = false := beq_false_of_toNat_ne (by simp; omega)
  have e3 : (c == 0xa) = false := beq_false_of_toNat_ne (by simp; omega)
  have e4 : (c == 0xd) = false := beq_false_of_toNat_ne (by simp; omega)
  simp [isWs, e1, e2, e3, e4]

theorem SegStop.skipWs {rest : Bytes} (h : SegStop rest) : skipWs rest = rest := by
  rcases h with rfl | ⟨c, r, rfl, _⟩ | ⟨r, rfl⟩
  · rfl
  · exact skipWs_cons _ (by decide)
  · exact skipWs_cons _ (by decide)

theorem SegStop.nameStop {rest : Bytes} (h : SegStop rest) :
    rest = [] ∨ ∃ c r, rest = c :: r ∧ (c = 47 ∨ c = 91 ∨ c = 61) := by
  rcases h with rfl | ⟨c, r, rfl, _⟩ | ⟨r, rfl⟩
  · exact Or.inl rfl
  · exact Or.inr ⟨47, _, rfl, Or.inl rfl⟩
  · exact Or.inr ⟨91, _, rfl, Or.inr (Or.inl rfl)⟩

theorem skipWs_ident {n : Bytes} (hn : IsIdent n) (rest : Bytes) : skipWs (n ++ rest) = n ++ rest := by
  cases hn with
  | mk c t hc _ => exact skipWs_cons _ (isWs_identStart hc)

/-! ### lexing the pieces -/

theorem lex_name (n rest : Bytes) (hn : IsIdent n)
    (hr : rest = [] ∨ ∃ c r, rest = c :: r ∧ (c = 47 ∨ c = 91 ∨ c = 61)) (hw : skipWs rest = rest) :
    LexSeq true (n ++ rest) [.name n] rest := by
  have hnt := nameTest_ident hn rest hr
  cases hn with
  | mk c t hc ht =>
    refine LexSeq.single ?_ hw (by simp only [List.length_append, List.length_cons]; omega)
    have := lexOne_identStart hc (t ++ rest)
    simp only [List.cons_append] at hnt ⊢
    rw [this, hnt]

theorem lex_prefixed (m n rest : Bytes) (hm : IsIdent m) (hn : IsIdent n)
    (hr : rest = [] ∨ ∃ c r, rest = c :: r ∧ (c = 47 ∨ c = 91 ∨ c = 61)) (hw : skipWs rest = rest) :
    LexSeq true (m ++ (58 :: n ++ rest)) [.name (m ++ 58 :: n)] rest := by
  have hnt := nameTest_prefixed hm hn rest hr
  cases hm with
  | mk c t hc ht =>
    refine LexSeq.single ?_ hw (by simp only [List.length_append, List.length_cons]; omega)
    have := lexOne_identStart hc (t ++ (58 :: n ++ rest))
    simp only [List.cons_append] at hnt this ⊢
    rw [this, hnt]

theorem isWs_quote {q : UInt8} (hq : q = 39 ∨ q = 34) : isWs q = false := by
  rcases hq with rfl | rfl <;> decide

/-- `[name='value']` -/
theorem lex_keyPred (p : Bool) (n v rest : Bytes) (hn : IsIdent n) (hv : LitOK v) (hw : skipWs rest = rest) :
    LexSeq p (91 :: (n ++ 61 :: quoteFor v :: (v ++ quoteFor v :: 93 :: rest)))
      [.brack1, .name n, .eq, .lit (quoteFor v) v, .brack2] rest := by
  obtain ⟨hq, hqv⟩ := quoteFor_spec v hv
  refine LexSeq.cons (lexOne_brack1 _ _) (skipWs_ident hn _) (by simp) ?_
  have h1 := lex_name n (61 :: quoteFor v :: (v ++ quoteFor v :: 93 :: rest)) hn
    (Or.inr ⟨61, _, rfl, Or.inr (Or.inr rfl)⟩) (skipWs_cons _ (by decide))
  refine LexSeq.append (t1 := [.name n]) h1 ?_
  refine LexSeq.cons (lexOne_eq _ _) (skipWs_cons _ (isWs_quote hq)) (by simp) ?_
  refine LexSeq.cons (lexOne_lit _ _ hq v (93 :: rest) hqv) (skipWs_cons _ (by decide)) (by simp; omega) ?_
  exact LexSeq.single (lexOne_brack2 _ _) hw (by simp)

/-- `[.='value']` -/
theorem lex_valuePred (p : Bool) (v rest : Bytes) (hv : LitOK v) (hw : skipWs rest = rest) :
    LexSeq p (91 :: 46 :: 61 :: quoteFor v :: (v ++ quoteFor v :: 93 :: rest))
      [.brack1, .dot, .eq, .lit (quoteFor v) v, .brack2] rest := by
  obtain ⟨hq, hqv⟩ := quoteFor_spec v hv
  refine LexSeq.cons (lexOne_brack1 _ _) (skipWs_cons _ (by decide)) (by simp) ?_
  refine LexSeq.cons (lexOne_dot_eq _ _) (skipWs_cons _ (by decide)) (by simp) ?_
  refine LexSeq.cons (lexOne_eq _ _) (skipWs_cons _ (isWs_quote hq)) (by simp) ?_
  refine LexSeq.cons (lexOne_lit _ _ hq v (93 :: rest) hqv) (skipWs_cons _ (by decide)) (by simp; omega) ?_
  exact LexSeq.single (lexOne_brack2 _ _) hw (by simp)

theorem isWs_digit {c : UInt8} (h : isDigit c = true) : isWs c = false := by
  have hcn : 48 ≤ c.toNat ∧ c.toNat ≤ 57 := by simpa [isDigit] using h
  have e1 : (c == 0x20) = false := beq_false_of_toNat_ne (by simp; omega)
  have e2 : (c == 0x9) = false := beq_false_of_toNat_ne (by simp; omega)
  have e3 : (c == 0xa) = false := beq_false_of_toNat_ne (by simp; omega)
  have e4 : (c == 0xd) = false := beq_false_of_toNat_ne (by simp; omega)
  simp [isWs, e1, e2, e3, e4]

/-- `[N]` -/
theorem lex_posPred (p : Bool) (n : Nat) (rest : Bytes) (hw : skipWs rest = rest) :
    LexSeq p (91 :: (toDec n ++ 93 :: rest)) (posToks n) rest := by
  have hd := toDec_digits n
  have hne := toDec_ne_nil n
  cases hdec : toDec n with
  | nil => exact absurd hdec hne
  | cons c t =>
    rw [hdec] at hd
    unfold posToks
    rw [hdec]
    refine LexSeq.cons (lexOne_brack1 _ _) (skipWs_cons _ (isWs_digit (hd c (by simp)))) (by simp) ?_
    refine LexSeq.cons (lexOne_num _ c t rest hd) (skipWs_cons _ (by decide))
      (by simp only [List.length_append, List.length_cons]; omega) ?_
    exact LexSeq.single (lexOne_brack2 _ _) hw (by simp)

theorem keyPredsText_cons (k : DNode) (r : List DNode) :
    keyPredsText (k :: r) =
      91 :: (k.name ++ 61 :: quoteFor k.value :: (k.value ++ quoteFor k.value :: 93 :: keyPredsText r)) := by
  simp [keyPredsText, render_listPred]

theorem keyPredsText_stop (ks : List DNode) (rest : Bytes) (h : SegStop rest) : SegStop (keyPredsText ks ++ rest) := by
  cases ks with
  | nil => simpa [keyPredsText] using h
  | cons k r => rw [keyPredsText_cons]; exact Or.inr (Or.inr ⟨_, rfl⟩)

theorem lex_keyPreds (ks : List DNode) (rest : Bytes) (hr : SegStop rest)
    (hk : ∀ k ∈ ks, IsIdent k.name ∧ LitOK k.value) :
    ∀ p, LexSeq p (keyPredsText ks ++ rest) (keyToks ks) rest := by
  induction ks with
  | nil => intro p; simpa [keyPredsText, keyToks] using LexSeq.nil p rest
  | cons k r ih =>
    intro p
    have hk1 := hk k (by simp)
    have hstop := keyPredsText_stop r rest hr
    have h1 := lex_keyPred p k.name k.value (keyPredsText r ++ rest) hk1.1 hk1.2 hstop.skipWs
    have h2 := ih (fun x hx => hk x (by simp [hx])) (lastOk p [.brack1, .name k.name, .eq, .lit (quoteFor k.value) k.value, .brack2])
    have := LexSeq.append h1 h2
    rw [keyPredsText_cons]
    simpa [keyToks] using this

theorem predText_stop (l : Level) (rest : Bytes) (h : SegStop rest) : SegStop (predText l ++ rest) := by
  unfold predText
  split
  · exact keyPredsText_stop _ _ h
  · rw [render_posPred]; exact Or.inr (Or.inr ⟨_, rfl⟩)
  · rw [render_leaflistPred]; exact Or.inr (Or.inr ⟨_, rfl⟩)
  · rw [render_posPred]; exact Or.inr (Or.inr ⟨_, rfl⟩)
  · simpa using h

theorem lex_pred (l : Level) (hl : l.Printable) (rest : Bytes) (hr : SegStop rest) :
    ∀ p, LexSeq p (predText l ++ rest) (predToks l) rest := by
  intro p
  cases hk : l.node.kind with
  | list c =>
    simp only [predText, predToks, hk]
    exact lex_keyPreds _ rest hr hl.keys p
  | keyless =>
    simp only [predText, predToks, hk, render_posPred]
    simpa using lex_posPred p (listPos l.sibs l.idx l.node) rest hr.skipWs
  | leaflist c =>
    cases c with
    | true =>
      simp only [predText, predToks, hk, render_leaflistPred]
      simpa using lex_valuePred p _ rest (hl.value hk) hr.skipWs
    | false =>
      simp only [predText, predToks, hk, render_posPred]
      simpa using lex_posPred p (listPos l.sibs l.idx l.node) rest hr.skipWs
  | inner => simp only [predText, predToks, hk]; simpa using LexSeq.nil p rest
  | leaf k => simp only [predText, predToks, hk]; simpa using LexSeq.nil p rest

theorem stepMod_some {l : Level} {m : Bytes} (h : stepMod l = some m) : m = l.node.mod := by
  unfold stepMod at h
  split at h
  · simp at h
  · simp at h; exact h.symm

theorem stepText_eq (l : Level) (wp : Bool) :
    stepText l wp = 47 :: (fullName l ++ (if wp then predText l else [])) := by
  cases h : stepMod l <;> simp [stepText, fullName, h, render_step]

theorem IsIdent.head {n : Bytes} (h : IsIdent n) : ∃ c t, n = c :: t ∧ IsIdentStart c := by
  cases h with
  | mk c t hc _ => exact ⟨c, t, rfl, hc⟩

theorem fullName_head (l : Level) (hl : l.Printable) : ∃ c t, fullName l = c :: t ∧ IsIdentStart c := by
  unfold fullName
  split
  · next m hm =>
    have := stepMod_some hm
    subst this
    obtain ⟨c, t, e, hc⟩ := hl.mod.head
    exact ⟨c, t ++ 58 :: l.node.name, by rw [e]; rfl, hc⟩
  · obtain ⟨c, t, e, hc⟩ := hl.name.head
    exact ⟨c, t, e, hc⟩

theorem lex_fullName (l : Level) (hl : l.Printable) (rest : Bytes) (hr : SegStop rest) :
    LexSeq true (fullName l ++ rest) [.name (fullName l)] rest := by
  unfold fullName
  split
  · next m hm =>
    have := stepMod_some hm
    subst this
    have := lex_prefixed l.node.mod l.node.name rest hl.mod hl.name hr.nameStop hr.skipWs
    simpa using this
  · exact lex_name _ rest hl.name hr.nameStop hr.skipWs

theorem lex_step (l : Level) (hl : l.Printable) (wp : Bool) (rest : Bytes) (hr : SegStop rest) :
    ∀ p, LexSeq p (stepText l wp ++ rest) (stepToks l wp) rest := by
  intro p
  rw [stepText_eq]
  obtain ⟨c, t, hfn, hc⟩ := fullName_head l hl
  have hstop : SegStop ((if wp then predText l else []) ++ rest) := by
    cases wp with
    | true => simpa using predText_stop l rest hr
    | false => simpa using hr
  have h2 := lex_fullName l hl _ hstop
  have h3 : LexSeq (lastOk true [.name (fullName l)]) ((if wp then predText l else []) ++ rest)
      (if wp then predToks l else []) rest := by
    cases wp with
    | true => simpa using lex_pred l hl rest hr _
    | false => simpa using LexSeq.nil _ rest
  have h23 := LexSeq.append h2 h3
  have hpath : lexOne p (47 :: (fullName l ++ ((if wp then predText l else []) ++ rest)))
      = some (.path, fullName l ++ ((if wp then predText l else []) ++ rest)) := by
    apply lexOne_path
    rw [hfn]
    simp only [List.cons_append, List.head?_cons, ne_eq, Option.some.injEq]
    intro h; subst h; unfold IsIdentStart at hc; simp at hc
  have hws : skipWs (fullName l ++ ((if wp then predText l else []) ++ rest))
      = fullName l ++ ((if wp then predText l else []) ++ rest) := by
    rw [hfn]; exact skipWs_cons _ (isWs_identStart hc)
  have := LexSeq.cons hpath hws (by simp) (by simpa [prevOkAfter] using h23)
  simpa [stepToks] using this

theorem levelsText_stop (std : Bool) (ls : List Level) (hl : ∀ l ∈ ls, l.Printable) : SegStop (levelsText std ls) := by
  cases ls with
  | nil => exact Or.inl rfl
  | cons l rest =>
    obtain ⟨c, t, hfn, hc⟩ := fullName_head l (hl l (by simp))
    simp only [levelsText, stepText_eq, hfn]
    refine Or.inr (Or.inl ⟨c, (t ++ if (std || !rest.isEmpty) = true then predText l else []) ++ levelsText std rest, ?_, hc⟩)
    simp

theorem lex_levels (std : Bool) (ls : List Level) (hl : ∀ l ∈ ls, l.Printable) :
    ∀ p, LexSeq p (levelsText std ls) (levelsToks std ls) [] := by
  induction ls with
  | nil => intro p; exact LexSeq.nil p []
  | cons l rest ih =>
    intro p
    have hrest : ∀ x ∈ rest, x.Printable := fun x hx => hl x (by simp [hx])
    have h1 := lex_step l (hl l (by simp)) (std || !rest.isEmpty) (levelsText std rest) (levelsText_stop std rest hrest) p
    have h2 := ih hrest (lastOk p (stepToks l (std || !rest.isEmpty)))
    simpa [levelsText, levelsToks] using LexSeq.append h1 h2

theorem tokenize_levels (std : Bool) (ls : List Level) (hne : ls ≠ []) (hl : ∀ l ∈ ls, l.Printable) :
    tokenize (levelsText std ls) = some (levelsToks std ls) := by
  apply LexSeq.tokenize (lex_levels std ls hl true)
  · cases ls with
    | nil => exact absurd rfl hne
    | cons l rest => simp [levelsToks, stepToks]
  · exact (levelsText_stop std ls hl).skipWs

end LyModel.Path
