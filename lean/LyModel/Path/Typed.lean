import LyModel.Path.Eval
import LyModel.Path.Print
import LyModel.Val.Union
/-!
# Typed key and leaf-list predicates (`ly_path_compile_predicate`, `lyd_new_path_`, `lyd_path`)

The path code never compares predicate *text* with data: `ly_path_compile_predicate` hands the Literal / Number of a
`[key=…]` or `[.=…]` predicate to `lyd_value_store(type of the key leaf / leaf-list, LY_VALUE_JSON, LYD_HINT_DATA)` and
`ly_path_eval_partial` compares *stored values* (`lyd_find_sibling_first` → `lyd_compare_single` → the type plug-in's
`compare`); `lyd_new_path_` creates the key leaves from those stored values and stores the `value` argument through the
type of the last node; `lyd_path` prints `lyd_get_value`, the canonical string of the stored value.

A stored value is represented by its **value key** (`Bytes`): the canonical string — and, only for a union value whose
canonical string is *not* stored back as the same value (first-match member selection, finding F412), the canonical
string followed by a NUL byte and the decimal index of the member type that stored it.  C strings contain no NUL, so for
types with member-aware equality the key is injective exactly where the plug-in `compare` says "different"
(`Props.C15.unionKey_injective`), and for every other modelled type the key *is* the canonical string (compare ⇔ equal
canonical strings, `Props.C03.eq_iff_canon_eq`).  `DNode.value` of a tree given to the typed functions is the value key
of the node's value; what `lyd_path` prints is `canonOfKey` of it (`sprintf("%s")` stops at the NUL).

The typed functions are the untyped ones of `Eval.lean` with one pass in between: after `ly_path_compile` (structure:
names, kinds, predicate shapes, literal text) every literal is replaced by the value key of the stored value
(`storeSteps`, failure = `LY_EVALID`), and evaluation / creation run on value keys.  Types come from `Val/Model.lean` and
`Val/Union.lean` (integers, decimal64, boolean, enumeration, bits, string with length, identityref in the JSON prefix
format, unions of these).  Core Lean only (linked into `lydrv`).
-/
namespace LyModel.Path
open LyModel

/-- what `lyd_get_value` returns for a value with key `k` -/
def canonOfKey (k : Bytes) : Bytes := k.takeWhile (· != 0)

/-- a compiled leaf / leaf-list type as the path code uses it -/
structure KTy where
  /-- `lyd_value_store(ctx, &val, type, s, strlen(s), 0, 0, NULL, LY_VALUE_JSON, NULL, LYD_HINT_DATA, …)`:
      the value key of the stored value, `none` = `LY_EVALID` -/
  store : Bytes → Option Bytes

/-- a type whose plug-in `compare` agrees with equality of canonical strings (every modelled type but union) -/
def KTy.ofPlug (p : Val.Plug) : KTy :=
  ⟨fun s => match p.store Generated.LYD_HINT_DATA s with
    | .ok v => some (p.canon v)
    | .error _ => none⟩

/-- value key of a union value: the canonical string if storing it gives the value back (`lyd_value_compare(node,
    lyd_get_value(node))` = `LY_SUCCESS`), else canonical string, NUL, member index -/
def unionKey (ms : List Val.Plug) (u : Val.UVal) : Bytes :=
  let c := Val.canonU ms u
  let tagged := c ++ 0 :: toDec u.idx
  match Val.storeU ms Generated.LYD_HINT_DATA c with
  | .ok u' => if Val.cmpEqU ms u' u then c else tagged
  | .error _ => tagged

/-- `union` with the compiled (flattened) member types `ms` -/
def KTy.ofUnion (ms : List Val.Plug) : KTy :=
  ⟨fun s => match Val.storeU ms Generated.LYD_HINT_DATA s with
    | .ok u => some (unionKey ms u)
    | .error _ => none⟩

/-- typed schema node: `SNode` with the type of a leaf / leaf-list.  `ty = none`: an inner node, or a terminal node
    whose type is outside the modelled ones (storing through it is `Err.unsupported`) -/
inductive TSNode where
  | mk (mod name : Bytes) (kind : Kind) (ty : Option KTy) (children : List TSNode)

instance : Inhabited TSNode := ⟨.mk [] [] .inner none []⟩

namespace TSNode
def mod : TSNode → Bytes | mk m _ _ _ _ => m
def name : TSNode → Bytes | mk _ n _ _ _ => n
def kind : TSNode → Kind | mk _ _ k _ _ => k
def ty : TSNode → Option KTy | mk _ _ _ t _ => t
def children : TSNode → List TSNode | mk _ _ _ _ c => c
end TSNode

mutual
/-- the schema without the types -/
def TSNode.erase : TSNode → SNode
  | .mk m n k _ ch => .mk m n k (TSNode.eraseList ch)
def TSNode.eraseList : List TSNode → List SNode
  | [] => []
  | x :: r => TSNode.erase x :: TSNode.eraseList r
end

def findTSchema (sibs : List TSNode) (mod name : Bytes) : Option TSNode :=
  sibs.find? (fun s => s.mod == mod && s.name == name)

/-- store one literal through the type of schema node `s` -/
def storeVia (s : TSNode) (lit : Bytes) : Except Err Bytes :=
  match s.ty with
  | none => .error .unsupported
  | some t =>
    match t.store lit with
    | none => .error .invalid
    | some k => .ok k

/-- the `[key=value]` predicates of one list segment: each literal through the type of its key leaf (a key leaf is a
    child of the list in the list's own module) -/
def storeKeys (s : TSNode) : List (Bytes × Bytes) → Except Err (List (Bytes × Bytes))
  | [] => .ok []
  | (k, lit) :: r =>
    match findTSchema s.children s.mod k with
    | none => .error .invalid
    | some ks =>
      match storeVia ks lit with
      | .error e => .error e
      | .ok key =>
        match storeKeys s r with
        | .error e => .error e
        | .ok kvs => .ok ((k, key) :: kvs)

def storePred (s : TSNode) : CPred → Except Err CPred
  | .keys kv => (storeKeys s kv).map .keys
  | .dot lit => (storeVia s lit).map .dot
  | p => .ok p

/-- the literals of a compiled path replaced by the value keys of the stored values -/
def storeSteps : List TSNode → List CStep → Except Err (List CStep)
  | _, [] => .ok []
  | cur, c :: rest =>
    match findTSchema cur c.mod c.name with
    | none => .error .invalid
    | some s =>
      match storePred s c.pred with
      | .error e => .error e
      | .ok p =>
        match storeSteps s.children rest with
        | .error e => .error e
        | .ok cs => .ok ({ c with pred := p } :: cs)

/-- `ly_path_parse` + `ly_path_compile` with typed predicates -/
def compilePathT (schema : List TSNode) (single : Bool) (path : Bytes) : Except Err (List CStep) :=
  match compilePath (TSNode.eraseList schema) single path with
  | .error e => .error e
  | .ok cs => storeSteps schema cs

/-- `lyd_find_path` on a tree of value keys -/
def findPathT (schema : List TSNode) (f : Forest) (path : Bytes) : Except Err Addr :=
  match compilePathT schema true path with
  | .error e => .error e
  | .ok cs => evalPath f cs

/-! ### `lyd_new_path_`: the `value` argument -/

/-- how `lyd_new_path_` uses its `value` argument for the last segment -/
inductive ValUse where
  /-- inner node; key leaf (the one `lyd_create_list` made is returned); leaf-list with a `[.=…]` predicate -/
  | ignored
  /-- configuration leaf-list without predicate: stored in `lyd_new_path_check_find_lypath`, before the search -/
  | atCheck (s : TSNode)
  /-- leaf, state leaf-list without value predicate: stored by `lyd_create_term` in the creation loop -/
  | atCreate (s : TSNode)

def valUseOf (s : TSNode) (c : CStep) : ValUse :=
  match c.kind with
  | .leaf true => .ignored
  | .leaf false => .atCreate s
  | .leaflist cfg =>
    match c.pred with
    | .dot _ => .ignored
    | _ => if cfg then .atCheck s else .atCreate s
  | _ => .ignored

/-- the schema node of the last segment and what it does with the value -/
def lastUse : List TSNode → List CStep → ValUse
  | _, [] => .ignored
  | cur, c :: rest =>
    match findTSchema cur c.mod c.name with
    | none => .ignored
    | some s =>
      match rest with
      | [] => valUseOf s c
      | _ :: _ => lastUse s.children rest

/-- `lyd_new_path2(parent ∈ f or NULL, ctx, path, value, 0, 0, 0 | LYD_NEW_VAL_OUTPUT, …)` on a tree of value keys -/
def newPathT (schema : List TSNode) (f : Forest) (path : Bytes) (v : Bytes) : Except Err Created :=
  if f.isEmpty && path.head? != some 47 then .error .einval else
  match compilePathT schema false path with
  | .error e => .error e
  | .ok cs =>
    match lastUse schema cs with
    | .ignored => newPathC f cs []
    | .atCheck s =>
      match checkFind [] 0 cs with
      | .error e => .error e
      | .ok _ =>
        match storeVia s v with
        | .error e => .error e
        | .ok key => newPathC f cs key
    | .atCreate s =>
      match storeVia s v with
      | .ok key => newPathC f cs key
      | .error e =>
        -- the store fails only once the node is being created: every earlier verdict comes first
        match newPathC f cs [] with
        | .error e' => .error e'
        | .ok _ => .error e

/-! ### `lyd_path` on a tree of value keys -/

mutual
/-- the tree as `lyd_get_value` shows it -/
def DNode.canonTree : DNode → DNode
  | .mk m n k v ch => .mk m n k (canonOfKey v) (DNode.canonForest ch)
def DNode.canonForest : List DNode → List DNode
  | [] => []
  | x :: r => DNode.canonTree x :: DNode.canonForest r
end

/-- `lyd_path(node, LYD_PATH_STD, NULL, 0)` -/
def pathOfT (f : Forest) (a : Addr) : Option Bytes := pathOf (DNode.canonForest f) a

end LyModel.Path
