import LyModel.Base
import LyModel.Text.Utf8
import LyModel.Generated.XpConsts
/-!
# The XPath tokenizer as `ly_path_parse` uses it (`xpath.c: lyxp_expr_parse`, `reparse = 0`)

`ly_path_parse` tokenizes the *whole* string first and then checks the token sequence against the path grammar; both
stages fail with `LY_EVALID`.  The path grammar (`LY_PATH_PRED_SIMPLE`) only ever accepts the tokens `/`, NameTest,
`[`, `]`, `=`, `.`, Literal, Number and VariableReference, so the model lexes exactly those (with the exact token
boundaries of the C code) and answers `none` — "this string is rejected" — as soon as the C lexer would either fail
or produce any other token (`(` `)` `..` `@` `,` `//` `!=` `<` `<=` `>` `>=` `|` `+` `-`, an operator name in
operator position, an axis).  Literals have no escape: a `'…'` literal ends at the next `'`, a `"…"` literal at
the next `"` (finding F7 lives here).

Input is the C string without its terminating NUL.  Core Lean only.
-/
namespace LyModel.Path

inductive Tok where
  | path
  | brack1
  | brack2
  | eq
  | dot
  /-- NameTest: `*`, `NCName`, `NCName:*`, `NCName:NCName` — the token text -/
  | name (raw : Bytes)
  /-- Literal: the quote character and the text between the quotes -/
  | lit (q : UInt8) (body : Bytes)
  /-- Number: `Digits ('.' Digits?)? | '.' Digits` — the token text -/
  | num (raw : Bytes)
  /-- VariableReference: the name after `$` -/
  | var (name : Bytes)
  deriving DecidableEq, Repr

/-- `is_xmlws` -/
def isWs (c : UInt8) : Bool := c == 0x20 || c == 0x9 || c == 0xa || c == 0xd

/-- `isdigit` in the C locale -/
def isDigit (c : UInt8) : Bool := 48 ≤ c.toNat && c.toNat ≤ 57

def skipWs : Bytes → Bytes
  | [] => []
  | c :: r => if isWs c then skipWs r else c :: r

/-- `is_xmlqnamestartchar` (xml.h) -/
def isNameStartCp (c : Nat) : Bool :=
  (97 ≤ c && c ≤ 122) || c == 95 || (65 ≤ c && c ≤ 90) ||
  (0x370 ≤ c && c ≤ 0x1fff && c != 0x37e) ||
  (0xc0 ≤ c && c ≤ 0x2ff && c != 0xd7 && c != 0xf7) || c == 0x200c || c == 0x200d ||
  (0x2070 ≤ c && c ≤ 0x218f) || (0x2c00 ≤ c && c ≤ 0x2fef) || (0x3001 ≤ c && c ≤ 0xd7ff) ||
  (0xf900 ≤ c && c ≤ 0xfdcf) || (0xfdf0 ≤ c && c ≤ 0xfffd) || (0x10000 ≤ c && c ≤ 0xeffff)

/-- `is_xmlqnamechar` (xml.h) -/
def isNameCp (c : Nat) : Bool :=
  (97 ≤ c && c ≤ 122) || c == 95 || c == 45 || (65 ≤ c && c ≤ 90) || (48 ≤ c && c ≤ 57) ||
  c == 46 || c == 0xb7 || (0x370 ≤ c && c ≤ 0x1fff && c != 0x37e) ||
  (0xc0 ≤ c && c ≤ 0x2ff && c != 0xd7 && c != 0xf7) || c == 0x200c || c == 0x200d ||
  (0x300 ≤ c && c ≤ 0x36f) || (0x2070 ≤ c && c ≤ 0x218f) || (0x203f ≤ c && c ≤ 0x2040) ||
  (0x2c00 ≤ c && c ≤ 0x2fef) || (0x3001 ≤ c && c ≤ 0xd7ff) ||
  (0xf900 ≤ c && c ≤ 0xfdcf) || (0xfdf0 ≤ c && c ≤ 0xfffd) || (0x10000 ≤ c && c ≤ 0xeffff)

/-- `ly_getutf8` at the head of `s`: code point and size.  ASCII bytes are decided here (one byte, control
    characters other than TAB/LF/CR rejected), the rest is `Utf8.getUtf8`. -/
def decodeCp (s : Bytes) : Option (Nat × Nat) :=
  match s with
  | [] => none
  | c :: _ =>
    if c.toNat < 128 then
      if c.toNat < 32 && c.toNat != 9 && c.toNat != 10 && c.toNat != 13 then none else some (c.toNat, 1)
    else Utf8.getUtf8 s

/-- the `do … while (is_xmlqnamechar(uc) && (uc != ':'))` loop of `parse_ncname` after the first character:
    number of further bytes, `none` = a character does not decode (`return -len`) -/
def ncnameRest : Nat → Bytes → Option Nat
  | 0, _ => some 0
  | _ + 1, [] => some 0
  | f + 1, c :: r =>
    match decodeCp (c :: r) with
    | none => none
    | some (cp, sz) =>
      if isNameCp cp && cp != 58 then
        match ncnameRest f ((c :: r).drop sz) with
        | none => none
        | some n => some (n + sz)
      else some 0

/-- `parse_ncname`: length in bytes (≥ 1), `none` when the C function returns a value `< 1` -/
def ncname (s : Bytes) : Option Nat :=
  match decodeCp s with
  | none => none
  | some (cp, sz) =>
    if !isNameStartCp cp || cp == 58 then none
    else
      match ncnameRest s.length (s.drop sz) with
      | none => none
      | some n => some (n + sz)

/-- body of a literal opened with `q`: up to the next `q`; `none` = end of input reached -/
def scanLit (q : UInt8) : Bytes → Option (Bytes × Bytes)
  | [] => none
  | c :: r =>
    if c == q then some ([], r)
    else
      match scanLit q r with
      | none => none
      | some (b, rest) => some (c :: b, rest)

def spanDigits : Bytes → Bytes × Bytes
  | [] => ([], [])
  | c :: r => if isDigit c then let (d, rest) := spanDigits r; (c :: d, rest) else ([], c :: r)

/-- Number token starting at the head of `s` -/
def scanNum (s : Bytes) : Bytes × Bytes :=
  match spanDigits s with
  | (d1, 46 :: r2) => let (d2, r3) := spanDigits r2; (d1 ++ 46 :: d2, r3)
  | (d1, r1) => (d1, r1)

/-- length of the first part of a NameTest: `*` or an NCName -/
def firstLen (s : Bytes) : Option Nat :=
  match s with
  | 42 :: _ => some 1
  | _ => ncname s

/-- the rest of a NameTest after its first part of `len` bytes: `::` (axis) rejects, `:*` / `:NCName` extend it -/
def nameTestAfter (s : Bytes) (len : Nat) : Option (Bytes × Bytes) :=
  match s.drop len with
  | 58 :: 58 :: _ => none
  | 58 :: 42 :: r => some (s.take (len + 2), r)
  | 58 :: r =>
    match ncname r with
    | none => none
    | some n2 => some (s.take (len + 1 + n2), r.drop n2)
  | after => some (s.take len, after)

/-- NameTest at the head of `s` (the final `else` branch of the lexer): token text and rest; both variants of the C code -/
def nameTestWith (starNoPrefix : Bool) (s : Bytes) : Option (Bytes × Bytes) :=
  match firstLen s with
  | none => none
  | some len =>
    -- `if ((expr_str[parsed] != '*') && (expr_str[parsed + tok_len] == ':'))` (repair of F352): a first part `*` is a NameTest on its
    -- own and never a prefix; the pinned lexer read `*:name` and `*:*` as one NameTest
    if starNoPrefix && s.head? == some 42 then some (s.take len, s.drop len) else nameTestAfter s len

/-- the variant of the source at hand: `Generated.XpConsts.starNoPrefix` is read off `lyxp_expr_parse` (xpath.c) -/
def nameTest (s : Bytes) : Option (Bytes × Bytes) := nameTestWith Generated.XpConsts.starNoPrefix s

/-- one token at the head of `s` (no leading whitespace); `prevOk` = a NameTest may start here, i.e. there is no
    previous token or it is one of `[` `=` `/` (the other members of the C condition are rejected tokens). -/
def lexOne (prevOk : Bool) : Bytes → Option (Tok × Bytes)
  | [] => none
  | c :: r =>
    if c == 40 || c == 41 then none
    else if c == 91 then some (.brack1, r)
    else if c == 93 then some (.brack2, r)
    else if c == 46 && r.head? == some 46 then none
    else if c == 46 && !(isDigit (r.headD 0)) then some (.dot, r)
    else if c == 64 || c == 44 then none
    else if c == 39 || c == 34 then
      match scanLit c r with
      | none => none
      | some (b, rest) => some (.lit c b, rest)
    else if c == 46 || isDigit c then
      let (n, rest) := scanNum (c :: r)
      some (.num n, rest)
    else if c == 36 then
      match ncname r with
      | none => none
      | some n => if (r.drop n).head? == some 58 then none else some (.var (r.take n), r.drop n)
    else if c == 47 then
      if r.head? == some 47 then none else some (.path, r)
    else if c == 33 && r.head? == some 61 then none
    else if c == 60 || c == 62 || c == 124 || c == 43 || c == 45 then none
    else if c == 61 then some (.eq, r)
    else if !prevOk then none
    else
      match nameTest (c :: r) with
      | none => none
      | some (t, rest) => some (.name t, rest)

def prevOkAfter : Tok → Bool
  | .path => true
  | .brack1 => true
  | .eq => true
  | _ => false

/-- the `do … while (expr_str[parsed])` loop -/
def tokAux : Nat → Bool → Bytes → Option (List Tok)
  | 0, _, _ => none
  | f + 1, prevOk, s =>
    match lexOne prevOk s with
    | none => none
    | some (t, rest) =>
      match skipWs rest with
      | [] => some [t]
      | c :: r =>
        match tokAux f (prevOkAfter t) (c :: r) with
        | none => none
        | some ts => some (t :: ts)

/-- `lyxp_expr_parse(ctx, s, strlen(s), 0, …)` restricted to path tokens; `none` = the path is rejected -/
def tokenize (s : Bytes) : Option (List Tok) :=
  match s with
  | [] => none
  | _ => tokAux (s.length + 1) true (skipWs s)

end LyModel.Path
