import LyModel.Lyb.ChunkLemmasA
/-! Part B: properties of the full-chunk scan and the termination measure of the `lyb_write` / `lyb_read` loops. -/
namespace LyModel.Lyb

theorem scanW_le (M : Nat) (ws : List Nat) (c : Nat) : (scanW M ws c).1 ≤ c := by
  induction ws with
  | nil => simp [scanW]
  | cons w ws ih =>
    simp only [scanW]
    split
    · simp only; omega
    · exact ih

theorem scanW_bound (M : Nat) (ws : List Nat) (c : Nat) (h : ∀ w ∈ ws, w ≤ M) :
    ∀ w ∈ ws, w + (scanW M ws c).1 ≤ M := by
  induction ws with
  | nil => simp
  | cons w ws ih =>
    have ih' := ih (fun x hx => h x (List.mem_cons_of_mem _ hx))
    have hw := h w List.mem_cons_self
    intro x hx
    simp only [scanW]
    split
    · rename_i hge
      simp only
      rcases List.mem_cons.mp hx with rfl | hx
      · omega
      · have := ih' x hx; omega
    · rename_i hlt
      rcases List.mem_cons.mp hx with rfl | hx
      · simp only; omega
      · exact ih' x hx

theorem scanW_none (M : Nat) (ws : List Nat) (c : Nat) (h : (scanW M ws c).2 = none) :
    (scanW M ws c).1 = c := by
  induction ws with
  | nil => simp [scanW]
  | cons w ws ih =>
    simp only [scanW] at h ⊢
    split at h
    · simp at h
    · rename_i hlt
      simp only [hlt, ↓reduceIte]
      apply ih
      simpa using h

theorem scanW_some (M : Nat) (ws : List Nat) (c u : Nat) (h : (scanW M ws c).2 = some u) :
    ∃ w, ws[u]? = some w ∧ w + (scanW M ws c).1 ≥ M := by
  induction ws generalizing u with
  | nil => simp [scanW] at h
  | cons w ws ih =>
    simp only [scanW] at h ⊢
    split at h
    · rename_i hge
      simp only [hge, ↓reduceIte]
      simp at h; subst h
      exact ⟨w, by simp, by omega⟩
    · rename_i hlt
      simp only [hlt, ↓reduceIte]
      simp only [Option.map_eq_some_iff] at h
      obtain ⟨u', hu', rfl⟩ := h
      obtain ⟨x, hx, hge⟩ := ih u' hu'
      exact ⟨x, by simpa using hx, hge⟩

/-- number of frames standing at (or beyond) `M` -/
def nfull (M : Nat) (ws : List Nat) : Nat := (ws.filter (fun w => decide (M ≤ w))).length

theorem nfull_le (M : Nat) (ws : List Nat) : nfull M ws ≤ ws.length := List.length_filter_le _ _

theorem nfull_set_zero (M : Nat) (hM : 0 < M) (ws : List Nat) (u w : Nat) (h : ws[u]? = some w) (hw : M ≤ w) :
    nfull M (ws.set u 0) + 1 = nfull M ws := by
  induction ws generalizing u with
  | nil => simp at h
  | cons x xs ih =>
    cases u with
    | zero =>
      simp at h; subst h
      have hM' : ¬ M ≤ 0 := by omega
      simp [nfull, hw, hM']
    | succ u =>
      simp at h
      have := ih u h
      simp only [nfull, List.set_cons_succ, List.filter_cons] at this ⊢
      split
      · simp only [List.length_cons]; omega
      · exact this

/-- the loop measure: `count * (n+1) + nfull + 1` -/
def loopMeasure (M : Nat) (ws : List Nat) (count : Nat) : Nat := count * (ws.length + 1) + nfull M ws + 1

theorem loopMeasure_le_fuel (M : Nat) (ws : List Nat) (c : Nat) : loopMeasure M ws c ≤ loopFuel c ws.length := by
  have := nfull_le M ws
  simp only [loopMeasure, loopFuel]; omega

/-- a data-writing iteration lowers the measure -/
theorem loopMeasure_write (M : Nat) (ws ws' : List Nat) (c tw : Nat) (hlen : ws'.length = ws.length)
    (h0 : 0 < tw) (hle : tw ≤ c) : loopMeasure M ws' (c - tw) < loopMeasure M ws c := by
  have h1 := nfull_le M ws'
  simp only [loopMeasure, hlen] at *
  have : (c - tw) * (ws.length + 1) + (ws.length + 1) ≤ c * (ws.length + 1) := by
    rw [← Nat.succ_mul]; apply Nat.mul_le_mul_right; omega
  omega

end LyModel.Lyb
