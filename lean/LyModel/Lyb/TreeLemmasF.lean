import LyModel.Lyb.TreeLemmasC
import LyModel.Lyb.TreeLemmasE
import LyModel.Props.C01Lyb
/-! The parser's fuel from the image length: the reader never returns more bytes than the image has, and every node of
the forest costs the printer at least five payload bytes (metadata count + flags). -/
namespace LyModel.LybTree
open LyModel LyModel.Lyb LyModel.Tree LyModel.Generated LyModel.Generated.LybTree

/-! ### the reader consumes what it returns -/

theorem readMeta_len (P : Params) (inp : Bytes) : (readMeta P inp).2.length ≤ inp.length := by
  simp only [readMeta, List.length_drop]; omega

theorem rloop_len (P : Params) : ∀ (fuel : Nat) (r : R) (count : Nat) (acc : Bytes),
    (rloop P fuel r count acc).2.length + (rloop P fuel r count acc).1.inp.length ≤ acc.length + r.inp.length := by
  intro fuel
  induction fuel with
  | zero => intro r count acc; simp [rloop]
  | succ fuel ih =>
    intro r count acc
    simp only [rloop]
    generalize scanR r.frames count = sc
    obtain ⟨tr, empty⟩ := sc
    simp only
    split
    · simp
    · have hacc : (if tr > 0 then acc ++ r.inp.take tr else acc).length + (rdata r tr).inp.length ≤ acc.length + r.inp.length := by
        by_cases h : tr > 0
        · simp only [h, ↓reduceIte, List.length_append, List.length_take, rdata, List.length_drop]; omega
        · simp only [h, ↓reduceIte, rdata]; omega
      cases empty with
      | none =>
        have := ih (rdata r tr) (count - tr) (if tr > 0 then acc ++ r.inp.take tr else acc)
        simp only at this ⊢
        omega
      | some u =>
        have := ih (rclose P (rdata r tr) u) (count - tr) (if tr > 0 then acc ++ r.inp.take tr else acc)
        have hc : (rclose P (rdata r tr) u).inp.length ≤ (rdata r tr).inp.length := by
          simp only [rclose]; exact readMeta_len P _
        simp only at this ⊢
        omega

def sumLen (l : List Bytes) : Nat := (l.map List.length).sum

theorem rrun_len (P : Params) : ∀ (shape : List ROp) (st st' : R × List Bytes), rrun P st shape = some st' →
    sumLen st'.2 + st'.1.inp.length ≤ sumLen st.2 + st.1.inp.length := by
  intro shape
  induction shape with
  | nil => intro st st' h; simp only [rrun, Option.some.injEq] at h; subst h; omega
  | cons op rest ih =>
    intro st st' h
    simp only [rrun] at h
    split at h
    · simp at h
    · rename_i st1 hst1
      have h2 := ih st1 st' h
      have h1 : sumLen st1.2 + st1.1.inp.length ≤ sumLen st.2 + st.1.inp.length := by
        cases op with
        | start =>
          simp only [rop, Option.some.injEq] at hst1
          subst hst1
          have := readMeta_len P st.1.inp
          simp only [rstart]
          omega
        | stop =>
          simp only [rop] at hst1
          split at hst1
          · simp at hst1
          · rename_i r' hr'
            simp only [Option.some.injEq] at hst1
            subst hst1
            simp only [rstop] at hr'
            split at hr'
            · simp at hr'
            · split at hr'
              · simp at hr'
              · simp only [Option.some.injEq] at hr'; subst hr'; simp
        | read n =>
          simp only [rop, Option.some.injEq] at hst1
          subst hst1
          have := rloop_len P (loopFuel n st.1.frames.length) st.1 n []
          simp only [rread, sumLen, List.map_append, List.sum_append, List.map_cons, List.map_nil, List.sum_cons, List.sum_nil,
            List.length_nil] at this ⊢
          omega
      omega

/-- payload bytes of a call sequence -/
def payLen : List Op → Nat
  | [] => 0
  | .write b :: r => b.length + payLen r
  | _ :: r => payLen r

theorem payLen_eq : ∀ ops : List Op, payLen ops = sumLen (payloads ops)
  | [] => rfl
  | .write b :: r => by simp [payLen, payloads, sumLen, payLen_eq r]
  | .start :: r => by simp [payLen, payloads, payLen_eq r]
  | .stop :: r => by simp [payLen, payloads, payLen_eq r]

theorem payLen_append : ∀ X Y : List Op, payLen (X ++ Y) = payLen X + payLen Y
  | [], Y => by simp [payLen]
  | .write b :: r, Y => by simp [payLen, payLen_append r Y]; omega
  | .start :: r, Y => by simp [payLen, payLen_append r Y]
  | .stop :: r, Y => by simp [payLen, payLen_append r Y]

/-- the image holds at least the payload (from `lyb_chunk_roundtrip`: the reader gets all of it out of the image) -/
theorem payLen_le_image (P : Params) (hP : P.Ok) (ops : List Op) (wf : WellNested ops) (img : Bytes)
    (hw : writeAll P ops = some img) : payLen ops ≤ img.length := by
  have h := Props.C01Lyb.lyb_chunk_roundtrip P hP ops wf img hw
  have := rrun_len P (ops.map Op.shape) ({ inp := img }, []) _ h
  simp only [sumLen, List.map_nil, List.sum_nil, List.length_nil] at this
  rw [payLen_eq]
  simp only [sumLen]
  omega

/-! ### every node costs payload -/

theorem payLen_header {o : POpts} {S : LSchema} {n : DNode} {ops : List Op} (h : headerOps o S n = some ops) : 5 ≤ payLen ops := by
  simp only [headerOps] at h
  split at h
  · simp at h
  · obtain ⟨x1, y1, hx1, hy1, rfl⟩ := cat_eq_some h
    obtain ⟨x2, y2, _, hy2, rfl⟩ := cat_eq_some hy1
    simp only [Option.some.injEq] at hx1 hy2
    subst hx1 hy2
    simp only [payLen_append, payLen, wNum, length_leBytes]
    have : P_METACOUNT = 1 := rfl
    have : P_FLAGS = 4 := rfl
    omega

mutual
theorem payLen_inst (o : POpts) (S : LSchema) : ∀ (n : DNode) (ops : List Op), instOps o S n = some ops → costN n + 2 ≤ payLen ops
  | .term sid f m v, ops, h => by
    simp only [instOps] at h
    obtain ⟨x, y, hx, _, rfl⟩ := cat_eq_some h
    have := payLen_header hx
    simp only [payLen_append, costN]; omega
  | .inner sid f m kids, ops, h => by
    simp only [instOps] at h
    obtain ⟨x, y, hx, hy, rfl⟩ := cat_eq_some h
    obtain ⟨y1, y2, hy1, hy2, rfl⟩ := cat_eq_some hy
    obtain ⟨z1, z2, hz1, hz2, rfl⟩ := cat_eq_some hy2
    simp only [Option.some.injEq] at hy1 hz2
    subst hy1 hz2
    have h1 := payLen_header hx
    have h2 := payLen_sibs o S kids (some sid) (S.frame (some sid)) none z1 hz1
    simp only [payLen_append, payLen, costN]; omega
theorem payLen_sibs (o : POpts) (S : LSchema) : ∀ (nodes : List DNode) (par : Option Nat) (fc : FrameCtx) (grp : Option Nat)
    (ops : List Op), sibOps o S par fc grp nodes = some ops → costL nodes ≤ payLen ops + 1
  | [], par, fc, grp, ops, h => by
    simp only [sibOps, Option.some.injEq] at h
    subst h
    simp [costL]
  | n :: rest, par, fc, grp, ops, h => by
    simp only [sibOps] at h
    split at h
    · obtain ⟨z1, z2, hz1, hz2, rfl⟩ := cat_eq_some h
      have h1 := payLen_inst o S n z1 hz1
      have h2 := payLen_sibs o S rest par fc grp z2 hz2
      simp only [payLen_append, costL]; omega
    · obtain ⟨x0, y0, _, hy0, rfl⟩ := cat_eq_some h
      obtain ⟨x, y, _, hy, rfl⟩ := cat_eq_some hy0
      split at hy
      · obtain ⟨y1, y2, _, hy2, rfl⟩ := cat_eq_some hy
        obtain ⟨z1, z2, hz1, hz2, rfl⟩ := cat_eq_some hy2
        have h1 := payLen_inst o S n z1 hz1
        have h2 := payLen_sibs o S rest par fc (some n.sid) z2 hz2
        simp only [payLen_append, costL]; omega
      · obtain ⟨z1, z2, hz1, hz2, rfl⟩ := cat_eq_some hy
        have h1 := payLen_inst o S n z1 hz1
        have h2 := payLen_sibs o S rest par fc none z2 hz2
        simp only [payLen_append, costL]; omega
end

/-- **the image length bounds the parser's recursion**: `costL t + 1 ≤ |img|` -/
theorem cost_le_image (P : Params) (hP : P.Ok) (o : POpts) (S : LSchema) (t : List DNode) (img : Bytes)
    (hp : printLybW P o S t = some img) : costL t + 1 ≤ img.length := by
  simp only [printLybW] at hp
  split at hp
  · simp at hp
  · rename_i ops hops
    have hnest := docOpsW_wellNested o S t ops hops
    have hle := payLen_le_image P hP ops hnest img hp
    obtain ⟨x1, y1, hx1, hy1, rfl⟩ := cat_eq_some (by simpa only [docOpsW, docAround] using hops)
    obtain ⟨x2, y2, _, hy2, rfl⟩ := cat_eq_some hy1
    obtain ⟨x3, y3, _, hy3, rfl⟩ := cat_eq_some hy2
    obtain ⟨x4, y4, hx4, hy4, rfl⟩ := cat_eq_some hy3
    simp only [Option.some.injEq] at hx1 hy4
    subst hx1 hy4
    have h4 := payLen_sibs o S t none (S.frame none) none x4 hx4
    simp only [payLen_append, payLen, magicOp, List.length_map, List.length_cons, List.length_nil] at hle
    have : P_MAGIC.length = 3 := rfl
    omega

end LyModel.LybTree
