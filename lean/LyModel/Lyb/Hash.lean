import LyModel.Base
import LyModel.Generated.Consts
import LyModel.Generated.LybConsts
/-!
LYB schema-node hashes — model of `hash_table.c: lyht_hash_multi / lyht_hash` (one-at-a-time Jenkins),
`lyb.c: lyb_generate_hash`, `printer_lyb.c: lyb_hash_sequence_check, lyb_hash_siblings, lyb_hash_find,
lyb_print_schema_hash` and `parser_lyb.c: lyb_read_hashes, lyb_is_schema_hash_match, lyb_parse_schema_hash`.
CORE LEAN ONLY.

The sibling functions are parametric in the hash assignment `h : node index → collision id → hash byte`, so that the
correctness theorem can quantify over every collision pattern; `realHash` instantiates it with `lyb_generate_hash`.
The hash table `ly_ht` is abstracted to the list of its records `(node, hash)`: `lyb_hash_sequence_check` walks *all*
records with the given hash (`lyht_find` + `lyht_find_next_with_collision_cb`), so bucket order is unobservable.
-/
namespace LyModel.Lyb
open LyModel.Generated

/-! ### Jenkins one-at-a-time -/

abbrev H32 := BitVec 32

/-- `hash += key_part[i]` — `key_part` is `const char *`, plain `char` is signed on the target: sign extension -/
def charVal (b : UInt8) : H32 := (BitVec.ofNat 8 b.toNat).signExtend 32

/-- `hash += c; hash += (hash << 10); hash ^= (hash >> 6);` -/
def jMix (h : H32) (c : H32) : H32 :=
  let h := h + c
  let h := h + (h <<< JENK_STEP_SHL)
  h ^^^ (h >>> JENK_STEP_SHR)

def jStep (h : H32) (b : UInt8) : H32 := jMix h (charVal b)

/-- `hash += (hash << 3); hash ^= (hash >> 11); hash += (hash << 15);` -/
def jFin (h : H32) : H32 :=
  let h := h + (h <<< JENK_FIN_SHL1)
  let h := h ^^^ (h >>> JENK_FIN_SHR)
  h + (h <<< JENK_FIN_SHL2)

/-- `lyht_hash_multi(hash, key_part, len)`: absorb the bytes, or finish when there is nothing to absorb -/
def hashMulti (h : H32) (key : Bytes) : H32 :=
  if key.isEmpty then jFin h else key.foldl jStep h

/-- `lyht_hash(key, len)` (with `len > 0`; for `len = 0` C finishes twice, as does this) -/
def lyhtHash (key : Bytes) : H32 := hashMulti (hashMulti 0 key) []

/-! ### `lyb_generate_hash` -/

def generateHash (modName nodeName : Bytes) (colId : Nat) : Nat :=
  let h := hashMulti 0 modName
  let h := hashMulti h nodeName
  let h := if colId ≠ 0 then hashMulti h (modName.take (if colId > modName.length then modName.length else colId)) else h
  let h := hashMulti h []
  (((h.toNat &&& (LYB_HASH_MASK >>> colId)) % 256) ||| (LYB_HASH_COLLISION_ID >>> colId)) % 256

/-! ### the printer's sibling hash table -/

/-- records `(node, hash)` -/
abbrev HT := List (Nat × Nat)

/-- the inner loop of `lyb_hash_sequence_check`: hashes `cmp … 0` of the two nodes are all equal -/
def seqCollide (h : Nat → Nat → Nat) (s n cmp : Nat) : Bool :=
  (List.range (cmp + 1)).all fun j => h s j == h n j

/-- `lyb_hash_sequence_check(ht, sibling, ht_col_id, compare_col_id) == LY_EEXIST` -/
def seqCheck (h : Nat → Nat → Nat) (ht : HT) (s htc cmp : Nat) : Bool :=
  ht.any fun rec => rec.2 == h s htc && seqCollide h s rec.1 cmp

/-- the `for (i = 0; i < LYB_HASH_BITS; ++i)` loop of `lyb_hash_siblings` for one sibling, from collision id `i` with
`left` ids to go; `none` = `LY_EINT` ("wow", or the impossible failing `lyht_insert`) -/
def assignFrom (h : Nat → Nat → Nat) (ht : HT) (s : Nat) : Nat → Nat → Option HT
  | 0, _ => none
  | left + 1, i =>
    -- check that we are not colliding with nodes inserted with a lower collision ID than ours
    if (List.range i).any (fun j => seqCheck h ht s j i) then assignFrom h ht s left (i + 1)
    -- try to insert node with the current collision ID (`lyb_hash_equal_cb`: any record with this hash is a collision)
    else if !(ht.any fun rec => rec.2 == h s i) then some (ht ++ [(s, h s i)])
    -- make sure we really cannot insert it with this hash col ID
    else if i ≠ 0 && !(seqCheck h ht s i i) then
      (if ht.contains (s, h s i) then none else some (ht ++ [(s, h s i)]))
    else assignFrom h ht s left (i + 1)

/-- `lyb_hash_siblings` over siblings `from … from+cnt-1` in `lys_getnext` order -/
def hashSiblingsFrom (h : Nat → Nat → Nat) (bits : Nat) (ht : HT) : Nat → Nat → Option HT
  | 0, _ => some ht
  | cnt + 1, s =>
    match assignFrom h ht s bits 0 with
    | none => none
    | some ht' => hashSiblingsFrom h bits ht' cnt (s + 1)

def hashSiblings (h : Nat → Nat → Nat) (n : Nat) : Option HT := hashSiblingsFrom h LYB_HASH_BITS [] n 0

/-- `lyb_hash_find`: first collision id whose hash is recorded for this very node -/
def hashFindFrom (h : Nat → Nat → Nat) (ht : HT) (node : Nat) : Nat → Nat → Option Nat
  | 0, _ => none
  | left + 1, i =>
    if h node i = 0 then none
    else if ht.contains (node, h node i) then some (h node i)
    else hashFindFrom h ht node left (i + 1)

def hashFind (h : Nat → Nat → Nat) (ht : HT) (node : Nat) : Option Nat := hashFindFrom h ht node LYB_HASH_BITS 0

/-- `for (i = 0; !(hash & (LYB_HASH_COLLISION_ID >> i)); ++i) {}` (bounded: C spins forever on `hash = 0`) -/
def firstBitFrom (hash : Nat) : Nat → Nat → Nat
  | 0, i => i
  | left + 1, i => if hash &&& (LYB_HASH_COLLISION_ID >>> i) ≠ 0 then i else firstBitFrom hash left (i + 1)

def firstBit (hash : Nat) : Nat := firstBitFrom hash (LYB_HASH_BITS + 1) 0

/-- `lyb_print_schema_hash` for a schema node: the found hash, then hashes `i-1 … 0` -/
def printSeq (h : Nat → Nat → Nat) (ht : HT) (node : Nat) : Option (List Nat) :=
  match hashFind h ht node with
  | none => none
  | some hash =>
    if hash &&& LYB_HASH_COLLISION_ID ≠ 0 then some [hash]
    else
      let i := firstBit hash
      let prev := (List.range i).reverse.map fun j => h node j      -- i-1, …, 0
      if prev.any (· == 0) then none else some (hash :: prev)

/-! ### the parser's lookup -/

/-- `lyb_read_hashes`: returns `hash[0 … i]` and the rest of the input (`none`: input too short) -/
def readHashes : List Nat → Option (List Nat × List Nat)
  | [] => none
  | b0 :: rest =>
    if b0 = 0 then some ([0], rest)
    else
      let i := firstBit b0
      if rest.length < i then none
      else some ((rest.take i).reverse ++ [b0], rest.drop i)

/-- `lyb_is_schema_hash_match` -/
def hashMatch (h : Nat → Nat → Nat) (s : Nat) (hashes : List Nat) : Bool :=
  (List.range hashes.length).all fun j => h s j == hashes.getD j 0

/-- the sibling loop of `lyb_parse_schema_hash`: first match in `lys_getnext` order -/
def findSibling (h : Nat → Nat → Nat) (hashes : List Nat) : Nat → Nat → Option Nat
  | 0, _ => none
  | cnt + 1, s => if hashMatch h s hashes then some s else findSibling h hashes cnt (s + 1)

/-- `lyb_parse_schema_hash` over `n` siblings: `some (none, rest)` = opaque node / no match -/
def parseSchemaHash (h : Nat → Nat → Nat) (n : Nat) (inp : List Nat) : Option (Option Nat × List Nat) :=
  match readHashes inp with
  | none => none
  | some (hashes, rest) =>
    if hashes.head? = some 0 then some (none, rest)
    else some (findSibling h hashes n 0, rest)

/-! ### the real assignment -/

def realHash (modName : Bytes) (names : List Bytes) : Nat → Nat → Nat :=
  fun s i => generateHash modName (names.getD s []) i

end LyModel.Lyb
