import LyModel.Lyb.TreeLemmasB
/-!
The node walk: the parser's loops (`pLoop`, `pGroup`) over the printer's sibling state machine (`sibOps`) — by structural
induction on the data forest, over the stepwise chunk interface.
-/
namespace LyModel.LybTree
open LyModel LyModel.Lyb LyModel.Tree LyModel.Generated LyModel.Generated.LybTree

mutual
/-- a data node the model covers: the constructor fits the schema node, a term value is the canonical form of a value of
its type, its metadata are instances of known annotations with canonical values -/
def WfNode (S : LSchema) : DNode → Prop
  | .term sid _ m v => S.isTermK sid = true ∧ CanonVal (S.ty sid) v ∧ MetasOk S m
  | .inner sid _ m kids => S.isTermK sid = false ∧ (S.kind sid).isSome = true ∧ WfForest S kids ∧ MetasOk S m
def WfForest (S : LSchema) : List DNode → Prop
  | [] => True
  | n :: l => WfNode S n ∧ WfForest S l
end

mutual
/-- recursion depth the parser needs (its fuel) -/
def costN : DNode → Nat
  | .term .. => 1
  | .inner _ _ _ kids => costL kids + 2
def costL : List DNode → Nat
  | [] => 1
  | n :: l => costN n + costL l + 2
end

theorem costN_pos : ∀ n : DNode, 1 ≤ costN n
  | .term .. => by simp [costN]
  | .inner .. => by simp [costN]

theorem costL_pos : ∀ l : List DNode, 1 ≤ costL l
  | [] => by simp [costL]
  | _ :: _ => by simp [costL]

/-- what `lyb_parse_node` does after the instance loop of a leaf-list / list: close the frame, go on with the siblings -/
def afterGroup (P : Params) (S : LSchema) (fuel : Nat) (par : Option Nat) (fc : FrameCtx) (acc : List DNode) :
    Option (List DNode × R) → Option (List DNode × R)
  | none => none
  | some (g, r2) =>
    match rstop r2 with
    | none => none
    | some r3 => pLoop P S true fuel par fc r3 (acc ++ g)

theorem untagged (o : POpts) (S : LSchema) (n : DNode) (h : (o.tagAll = false ∧ o.tagImpl = false) ∨ o.wdAnnot = false) :
    wdTagged o S n = false := by
  rcases h with h | h
  · simp [wdTagged, h.1, h.2]
  · simp [wdTagged, h]

mutual
theorem viewNode_id (o : POpts) (S : LSchema) (h : ∀ n, wdTagged o S n = false) : ∀ n : DNode, viewNode o S n = n
  | .term sid f m v => by simp [viewNode, h]
  | .inner sid f m kids => by simp only [viewNode, viewL_id o S h kids]
theorem viewL_id (o : POpts) (S : LSchema) (h : ∀ n, wdTagged o S n = false) : ∀ l : List DNode, l.map (viewNode o S) = l
  | [] => rfl
  | n :: l => by simp only [List.map_cons, viewNode_id o S h n, viewL_id o S h l]
end

theorem buc_wNum (k n : Nat) (X : List Op) (hk : 0 < k) : bytesUntilClose 0 (wNum k n :: X) ≠ 0 := by
  simp only [wNum, bytesUntilClose, length_leBytes]; omega

theorem headerOps_head (o : POpts) (S : LSchema) (n : DNode) (ops : List Op) (h : headerOps o S n = some ops) (X : List Op) :
    bytesUntilClose 0 (ops ++ X) ≠ 0 := by
  simp only [headerOps] at h
  split at h
  · simp at h
  · obtain ⟨x, y, hx, _, rfl⟩ := cat_eq_some h
    simp only [Option.some.injEq] at hx
    subst hx
    exact buc_wNum _ _ _ (by decide)

theorem nodeHeadOps_head (S : LSchema) (par : Option Nat) (fc : FrameCtx) (sid : Nat) (ops : List Op)
    (h : nodeHeadOps S par fc sid = some ops) (X : List Op) : bytesUntilClose 0 (ops ++ X) ≠ 0 := by
  cases par with
  | none =>
    obtain ⟨x, y, hx, _, rfl⟩ := cat_eq_some h
    simp only [Option.some.injEq] at hx
    subst hx
    exact buc_wNum _ _ _ (by decide)
  | some p =>
    obtain ⟨x, y, hx, _, rfl⟩ := cat_eq_some h
    simp only [Option.some.injEq] at hx
    subst hx
    exact buc_wNum _ _ _ (by decide)

theorem topWritten_at (P : Params) (d : Nat) (ops : List Op) (r : R) (h : At P (d + 1) ops r) :
    topWritten r = 0 ↔ bytesUntilClose 0 ops = 0 := at_written P d ops r h

/-- the node head: type byte, module record of a top-level node, hash sequence -/
theorem nodeHead_at (P : Params) (hP : P.Ok) (d : Nat) (S : LSchema) (hname : S.modName ≠ [])
    (hrev : unpackRev (packRev S.rev) = S.rev) (par : Option Nat) (sid : Nat) (ops : List Op)
    (ho : nodeHeadOps S par (S.frame par) sid = some ops) (K : List Op) (r : R) (h : At P d (ops ++ K) r) :
    ∃ r', pNodeHead P S true par (S.frame par) r = some (sid, r') ∧ At P d K r' := by
  have c1 : R_NODETYPE = P_NODETYPE := rfl
  cases par with
  | none =>
    obtain ⟨x, y, hx, hy, rfl⟩ := cat_eq_some ho
    obtain ⟨y1, y2, hy1, hy2, rfl⟩ := cat_eq_some hy
    simp only [Option.some.injEq] at hx
    subst hx
    simp only [List.cons_append, List.nil_append, List.append_assoc] at h
    obtain ⟨r1, e1, a1⟩ := rdNum_at P hP d P_NODETYPE LYB_NODE_TOP (by decide) _ r h
    obtain ⟨r2, e2, a2⟩ := model_at P hP d S.modName S.rev false y1 hy1 hname _ r1 a1
    obtain ⟨r3, e3, a3, _⟩ := hash_at P hP d S none sid y2 hy2 K r2 a2
    refine ⟨r3, ?_, a3⟩
    simp only [pNodeHead, c1, e1, ↓reduceIte, e2, hrev, modMatches, beq_self_eq_true, Bool.or_true, Bool.and_self, e3]
  | some p =>
    obtain ⟨x, y, hx, hy, rfl⟩ := cat_eq_some ho
    simp only [Option.some.injEq] at hx
    subst hx
    simp only [List.cons_append, List.nil_append] at h
    obtain ⟨r1, e1, a1⟩ := rdNum_at P hP d P_NODETYPE LYB_NODE_CHILD (by decide) _ r h
    obtain ⟨r3, e3, a3, _⟩ := hash_at P hP d S (some p) sid y hy K r1 a1
    exact ⟨r3, by simp only [pNodeHead, c1, e1, ↓reduceIte, e3], a3⟩

section walk
variable (P : Params) (hP : P.Ok) (o : POpts) (S : LSchema) (hann : AnnotsOk S)
  (hname : S.modName ≠ []) (hrev : unpackRev (packRev S.rev) = S.rev)
include hP hann hname hrev

mutual
theorem inst_rt : ∀ (n : DNode) (ops K : List Op) (d : Nat) (r : R) (fuel : Nat), instOps o S n = some ops → WfNode S n →
    At P d (ops ++ K) r → costN n ≤ fuel → ∃ r', pInst P S true fuel n.sid r = some (viewNode o S n, r') ∧ At P d K r'
  | .term sid f m v, ops, K, d, r, fuel, ho, hwf, hat, hfuel => by
    simp only [instOps] at ho
    obtain ⟨x, y, hx, hy, rfl⟩ := cat_eq_some ho
    simp only [WfNode] at hwf
    rw [List.append_assoc] at hat
    obtain ⟨r1, e1, a1⟩ := header_at P hP d o S hann (.term sid f m v) hwf.2.2 x hx _ r hat
    obtain ⟨r2, e2, a2⟩ := value_at P hP d (S.ty sid) v y hy hwf.2.1 K r1 a1
    cases fuel with
    | zero => simp [costN] at hfuel
    | succ fuel =>
      refine ⟨r2, ?_, a2⟩
      simp only [DNode.sid, pInst, e1, hwf.1, ↓reduceIte, e2, DNode.flags, viewNode, printedMetas, DNode.metas]
      split <;> simp
  | .inner sid f m kids, ops, K, d, r, fuel, ho, hwf, hat, hfuel => by
    simp only [instOps] at ho
    obtain ⟨x, y, hx, hy, rfl⟩ := cat_eq_some ho
    obtain ⟨y1, y2, hy1, hy2, rfl⟩ := cat_eq_some hy
    obtain ⟨z1, z2, hz1, hz2, rfl⟩ := cat_eq_some hy2
    simp only [Option.some.injEq] at hy1 hz2
    subst hy1 hz2
    simp only [WfNode] at hwf
    simp only [List.append_assoc, List.cons_append, List.nil_append] at hat
    obtain ⟨r1, e1, a1⟩ := header_at P hP d o S hann (.inner sid f m []) hwf.2.2.2 x hx _ r hat
    have a2 := at_start P hP d _ r1 a1
    simp only [costN] at hfuel
    cases fuel with
    | zero => omega
    | succ fuel =>
      cases fuel with
      | zero => have := costL_pos kids; omega
      | succ fuel =>
        obtain ⟨r3, e3, a3⟩ := sibs_none kids (some sid) z1 K d (rstart P r1) hz1 hwf.2.2.1 a2 fuel [] (by omega)
        obtain ⟨r4, e4, a4⟩ := at_stop P d K r3 a3
        refine ⟨r4, ?_, a4⟩
        have hnt : wdTagged o S (.inner sid f m []) = false := by simp [wdTagged, DNode.isTerm]
        simp only [DNode.sid, pInst, e1, hnt, hwf.1, Bool.false_eq_true, ↓reduceIte, hwf.2.1, pSibs, e3, e4, List.nil_append, DNode.flags,
          viewNode, printedMetas, DNode.metas]
termination_by n => (sizeOf n, 0)
decreasing_by all_goals (simp_wf; first | (apply Prod.Lex.left; omega) | (apply Prod.Lex.left; simp; omega) | (apply Prod.Lex.right; omega) | (apply Prod.Lex.right; simp))

theorem sibs_none : ∀ (nodes : List DNode) (par : Option Nat) (ops K : List Op) (d : Nat) (r : R),
    sibOps o S par (S.frame par) none nodes = some ops → WfForest S nodes → At P (d + 1) (ops ++ .stop :: K) r →
    ∀ (fuel : Nat) (acc : List DNode), costL nodes ≤ fuel →
      ∃ r', pLoop P S true fuel par (S.frame par) r acc = some (acc ++ nodes.map (viewNode o S), r') ∧ At P (d + 1) (.stop :: K) r'
  | [], par, ops, K, d, r, ho, _, hat, fuel, acc, hfuel => by
    simp only [sibOps, closeOps, Option.some.injEq] at ho
    subst ho
    simp only [List.nil_append] at hat
    have hw : topWritten r = 0 := (topWritten_at P d _ r hat).mpr (by simp [bytesUntilClose])
    cases fuel with
    | zero => simp [costL] at hfuel
    | succ fuel => exact ⟨r, by simp [pLoop, hw], hat⟩
  | n :: rest, par, ops, K, d, r, ho, hwf, hat, fuel, acc, hfuel => by
    simp only [sibOps, reduceCtorEq, ↓reduceIte, closeOps] at ho
    obtain ⟨x0, y0, hx0, hy0, rfl⟩ := cat_eq_some ho
    simp only [Option.some.injEq] at hx0
    subst hx0
    obtain ⟨x, y, hx, hy, rfl⟩ := cat_eq_some hy0
    simp only [WfForest] at hwf
    simp only [List.nil_append, List.append_assoc] at hat
    have hw : topWritten r ≠ 0 := fun e => nodeHeadOps_head S par _ n.sid x hx _ ((topWritten_at P d _ r hat).mp e)
    obtain ⟨r1, e1, a1⟩ := nodeHead_at P hP (d + 1) S hname hrev par n.sid x hx _ r hat
    simp only [costL] at hfuel
    have hcn := costN_pos n
    have hcl := costL_pos rest
    cases fuel with
    | zero => omega
    | succ fuel =>
      cases fuel with
      | zero => omega
      | succ fuel =>
        by_cases hmulti : S.isMulti n.sid = true
        · simp only [hmulti, ↓reduceIte] at hy
          obtain ⟨y1, y2, hy1, hy2, rfl⟩ := cat_eq_some hy
          obtain ⟨z1, z2, hz1, hz2, rfl⟩ := cat_eq_some hy2
          simp only [Option.some.injEq] at hy1
          subst hy1
          simp only [List.cons_append, List.nil_append, List.append_assoc] at a1
          have a2 := at_start P hP (d + 1) _ r1 a1
          have hw2 : topWritten (rstart P r1) ≠ 0 := fun e =>
            (by
              have := (topWritten_at P (d + 1) _ _ a2).mp e
              obtain ⟨q, hq⟩ : ∃ q, instOps o S n = some q := ⟨z1, hz1⟩
              cases n with
              | term sid f m v =>
                simp only [instOps] at hz1
                obtain ⟨u, v', hu, _, rfl⟩ := cat_eq_some hz1
                rw [List.append_assoc] at this
                exact headerOps_head o S _ u hu _ this
              | inner sid f m kids =>
                simp only [instOps] at hz1
                obtain ⟨u, v', hu, _, rfl⟩ := cat_eq_some hz1
                rw [List.append_assoc] at this
                exact headerOps_head o S _ u hu _ this)
          cases fuel with
          | zero => omega
          | succ fuel =>
            obtain ⟨r3, e3, a3⟩ := inst_rt n z1 _ (d + 2) (rstart P r1) fuel hz1 hwf.1 a2 (by omega)
            obtain ⟨r4, e4, a4⟩ := sibs_some rest par n.sid z2 K d r3 hz2 hwf.2 a3 fuel (fuel + 2) acc [viewNode o S n] (by omega) (by omega)
            refine ⟨r4, ?_, a4⟩
            rw [pLoop]
            simp only [hw, ↓reduceIte, pNode, e1, hmulti]
            rw [pGroup]
            simp only [hw2, ↓reduceIte, e3, List.nil_append]
            simp only [afterGroup] at e4
            revert e4
            cases pGroup P S true fuel n.sid r3 [viewNode o S n] with
            | none => simp
            | some gr =>
              obtain ⟨g, r5⟩ := gr
              simp only
              cases rstop r5 with
              | none => simp
              | some r6 => simp only [List.append_assoc, List.cons_append, List.nil_append]; exact fun e => e
        · simp only [hmulti, Bool.false_eq_true, ↓reduceIte] at hy
          obtain ⟨z1, z2, hz1, hz2, rfl⟩ := cat_eq_some hy
          rw [List.append_assoc] at a1
          obtain ⟨r3, e3, a3⟩ := inst_rt n z1 _ (d + 1) r1 fuel hz1 hwf.1 a1 (by omega)
          obtain ⟨r4, e4, a4⟩ := sibs_none rest par z2 K d r3 hz2 hwf.2 a3 (fuel + 1) (acc ++ [viewNode o S n]) (by omega)
          refine ⟨r4, ?_, a4⟩
          rw [pLoop]
          simp only [hw, ↓reduceIte, pNode, e1, hmulti, Bool.false_eq_true, e3, e4, List.append_assoc, List.cons_append,
            List.nil_append, List.map_cons]
termination_by nodes => (sizeOf nodes, 0)
decreasing_by all_goals (simp_wf; first | (apply Prod.Lex.left; omega) | (apply Prod.Lex.left; simp; omega) | (apply Prod.Lex.right; omega) | (apply Prod.Lex.right; simp))

theorem sibs_some : ∀ (nodes : List DNode) (par : Option Nat) (s : Nat) (ops K : List Op) (d : Nat) (r : R),
    sibOps o S par (S.frame par) (some s) nodes = some ops → WfForest S nodes → At P (d + 2) (ops ++ .stop :: K) r →
    ∀ (fg fl : Nat) (acc accG : List DNode), costL nodes ≤ fg → costL nodes ≤ fl →
      ∃ r', afterGroup P S fl par (S.frame par) acc (pGroup P S true fg s r accG) = some (acc ++ accG ++ nodes.map (viewNode o S), r') ∧
        At P (d + 1) (.stop :: K) r'
  | [], par, s, ops, K, d, r, ho, _, hat, fg, fl, acc, accG, hfg, hfl => by
    simp only [sibOps, closeOps, Option.some.injEq] at ho
    subst ho
    simp only [List.cons_append, List.nil_append] at hat
    have hw : topWritten r = 0 := (topWritten_at P (d + 1) _ r hat).mpr (by simp [bytesUntilClose])
    obtain ⟨r1, e1, a1⟩ := at_stop P (d + 1) _ r hat
    have hw1 : topWritten r1 = 0 := (topWritten_at P d _ r1 a1).mpr (by simp [bytesUntilClose])
    cases fg with
    | zero => simp [costL] at hfg
    | succ fg =>
      cases fl with
      | zero => simp [costL] at hfl
      | succ fl => exact ⟨r1, by simp [pGroup, hw, afterGroup, e1, pLoop, hw1], a1⟩
  | n :: rest, par, s, ops, K, d, r, ho, hwf, hat, fg, fl, acc, accG, hfg, hfl => by
    simp only [WfForest] at hwf
    simp only [costL] at hfg hfl
    have hcn := costN_pos n
    have hcl := costL_pos rest
    by_cases hs : s = n.sid
    · subst hs
      simp only [sibOps, ↓reduceIte] at ho
      obtain ⟨z1, z2, hz1, hz2, rfl⟩ := cat_eq_some ho
      rw [List.append_assoc] at hat
      have hw : topWritten r ≠ 0 := fun e => by
        have := (topWritten_at P (d + 1) _ r hat).mp e
        cases n with
        | term sid f m v =>
          simp only [instOps] at hz1
          obtain ⟨u, v', hu, _, rfl⟩ := cat_eq_some hz1
          rw [List.append_assoc] at this
          exact headerOps_head o S _ u hu _ this
        | inner sid f m kids =>
          simp only [instOps] at hz1
          obtain ⟨u, v', hu, _, rfl⟩ := cat_eq_some hz1
          rw [List.append_assoc] at this
          exact headerOps_head o S _ u hu _ this
      cases fg with
      | zero => omega
      | succ fg =>
        obtain ⟨r3, e3, a3⟩ := inst_rt n z1 _ (d + 2) r fg hz1 hwf.1 hat (by omega)
        obtain ⟨r4, e4, a4⟩ := sibs_some rest par n.sid z2 K d r3 hz2 hwf.2 a3 fg fl acc (accG ++ [viewNode o S n]) (by omega) (by omega)
        refine ⟨r4, ?_, a4⟩
        rw [pGroup]
        simp only [hw, ↓reduceIte, e3]
        simpa [List.append_assoc] using e4
    · have hs' : ¬ (some s = some n.sid) := by simpa using hs
      simp only [sibOps, hs', ↓reduceIte, closeOps] at ho
      obtain ⟨x0, y0, hx0, hy0, rfl⟩ := cat_eq_some ho
      simp only [Option.some.injEq] at hx0
      subst hx0
      simp only [List.cons_append, List.nil_append] at hat
      have hw : topWritten r = 0 := (topWritten_at P (d + 1) _ r hat).mpr (by simp [bytesUntilClose])
      obtain ⟨r1, e1, a1⟩ := at_stop P (d + 1) _ r hat
      -- the rest is the sibling loop in the state `none` on the same list
      have hnone : sibOps o S par (S.frame par) none (n :: rest) = some y0 := by
        simp only [sibOps, reduceCtorEq, ↓reduceIte, closeOps]
        rw [hy0]; rfl
      obtain ⟨r4, e4, a4⟩ := sibs_none (n :: rest) par y0 K d r1 hnone (by simpa [WfForest] using hwf) a1 fl (acc ++ accG)
        (by simp only [costL]; omega)
      cases fg with
      | zero => omega
      | succ fg =>
        exact ⟨r4, by simp only [pGroup, hw, ↓reduceIte, afterGroup, e1, e4], a4⟩
termination_by nodes => (sizeOf nodes, 1)
decreasing_by all_goals (simp_wf; first | (apply Prod.Lex.left; omega) | (apply Prod.Lex.left; simp; omega) | (apply Prod.Lex.right; omega) | (apply Prod.Lex.right; simp))
end

end walk

end LyModel.LybTree
