import LyModel.Lyb.Tree
import LyModel.Val.Drv
/-! driver ops of the LYB tree level (`lyb tprint`, `lyb tparse`; see harness/api_lybtree.c, tools/checks/lybtree.py) -/
namespace LyModel.LybTree.Drv
open LyModel LyModel.Lyb LyModel.Tree LyModel.LybTree

/-- type token of a leaf / leaf-list line: `empty` or a `Val` type descriptor (`i16`, `u64:1..5`, `d2`, `bool`, `enum:…`, `bits:…`, `str`) -/
def parseLTy (t : String) : Option LTy :=
  if t == "empty" then some .empty else (Val.Drv.parseTy t).map .val

/-- the line DSL of `Tree.Schema` with `Val` type tokens: the structure is parsed by `Tree.Schema.parse` (type field
replaced by `string`), the types go into the table indexed by schema id -/
def parseSchema (dsl : Bytes) : Option (Schema × List LTy) :=
  match (asciiString dsl).splitOn "\n" with
  | [] => none
  | hd :: rest =>
    let conv : List (String × Option LTy) := rest.map fun line =>
      match line.splitOn " " with
      | d :: k :: nm :: ty :: more =>
        if k == "leaf" || k == "leaflist" then (" ".intercalate (d :: k :: nm :: "string" :: more), parseLTy ty)
        else (line, some .empty)
      | _ => (line, some .empty)
    match conv.mapM (·.2) with
    | none => none
    | some tys =>
      (Schema.parse (bytesOfString ("\n".intercalate (hd :: conv.map (·.1))))).map fun T => (T, tys)

def optBytes (s : String) : Option (Option Bytes) :=
  if s == "-" then some none else (Hex.dec s).map some

/-- `<wd>` or `single:<wd>` (print without LYD_PRINT_WITHSIBLINGS) -/
def parseOpts (wd0 : String) : POpts :=
  let single := wd0.startsWith "single:"
  let wd := if single then (wd0.drop 7).toString else wd0
  { tagAll := wd == "all-tag", tagImpl := wd == "impl-tag", withSiblings := !single }

/-- annotation table: `;`-separated `<module-hex>/<revision-hex | ->/<name-hex>/<type token>`, `-` = none -/
def parseAnnots (s : String) : Option (List Annot) :=
  if s == "-" then some [] else
  (s.splitOn ";").mapM fun t =>
    match t.splitOn "/" with
    | [m, r, n, ty] =>
      match Hex.dec m, optBytes r, Hex.dec n, parseLTy ty with
      | some m, some r, some n, some ty => some { modName := m, rev := r, name := n, ty := ty }
      | _, _, _, _ => none
    | _ => none

def mkSchema (dsl rev wdrev : String) (annots : String := "-") : Option LSchema :=
  match (Hex.dec dsl).bind parseSchema, optBytes rev, optBytes wdrev, parseAnnots annots with
  | some (T, tys), some rev, some w, some an => some (ofTree T tys rev (if wdrev == "none" then none else some w) an)
  | _, _, _, _ => none

def handle (op : String) (args : List String) : Option String :=
  match op, args with
  | "tprint", [dsl, rev, wdrev, annots, wd, dump] =>
    some <|
    match (Hex.dec dsl).bind parseSchema, mkSchema dsl rev wdrev annots with
    | some (T, _), some S =>
      match forestOfHex T dump with
      | none => "err BadTree"
      | some t =>
        match printLyb Params.gen (parseOpts wd) S t with
        | none => "err Eint"
        | some img => "ok " ++ Hex.enc img
    | _, _ => "err BadSchema"
  | "tparse", [dsl, rev, wdrev, annots, img] =>
    some <|
    match mkSchema dsl rev wdrev annots, Hex.dec img with
    | some S, some img =>
      match parseLyb Params.gen S img with
      | none => "err Parse"
      | some t => "ok " ++ dumpTok t
    | _, _ => "err BadArg"
  | "tprint", [dsl, rev, wdrev, wd, dump] =>
    some <|
    match (Hex.dec dsl).bind parseSchema, mkSchema dsl rev wdrev with
    | some (T, _), some S =>
      match forestOfHex T dump with
      | none => "err BadTree"
      | some t =>
        match printLyb Params.gen (parseOpts wd) S t with
        | none => "err Eint"
        | some img => "ok " ++ Hex.enc img
    | _, _ => "err BadSchema"
  | "tparse", [dsl, rev, wdrev, img] =>
    some <|
    match mkSchema dsl rev wdrev, Hex.dec img with
    | some S, some img =>
      match parseLyb Params.gen S img with
      | none => "err Parse"
      | some t => "ok " ++ dumpTok t
    | _, _ => "err BadArg"
  | "trt", [dsl, rev, wdrev, wd, dump] =>
    some <|
    match (Hex.dec dsl).bind parseSchema, mkSchema dsl rev wdrev with
    | some (T, _), some S =>
      match forestOfHex T dump with
      | none => "err BadTree"
      | some t =>
        match printLyb Params.gen (parseOpts wd) S t with
        | none => "err Eint"
        | some img =>
          match parseLyb Params.gen S img with
          | none => "err Parse"
          | some t' => "ok " ++ toString img.length ++ " " ++ dumpTok t'
    | _, _ => "err BadSchema"
  | _, _ => none

end LyModel.LybTree.Drv
