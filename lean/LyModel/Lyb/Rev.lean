import LyModel.Base
import LyModel.Generated.LybConsts
/-!
Revision date packing — model of the `revision` computation in `printer_lyb.c: lyb_print_model` and of the `sprintf` in
`parser_lyb.c: lyb_read_model` (`YYYY YYYM MMMD DDDD`, year as offset from 2000 in 7 bits).  CORE LEAN ONLY.
-/
namespace LyModel.Lyb
open LyModel.Generated

/-- `atoi` on a string that starts with digits (revision dates are checked by the schema parser: `YYYY-MM-DD`) -/
def atoiAux : Bytes → Nat → Nat
  | [], acc => acc
  | b :: r, acc => if 48 ≤ b.toNat ∧ b.toNat ≤ 57 then atoiAux r (acc * 10 + (b.toNat - 48)) else acc

def atoi (s : Bytes) : Nat := atoiAux s 0

/-- the `uint16_t revision` written by `lyb_print_model` (`none`: module without revision) -/
def packRev : Option Bytes → Nat
  | none => 0
  | some s =>
    -- r = atoi(rev); r -= LYB_REV_YEAR_OFFSET; r <<= LYB_REV_YEAR_SHIFT; revision |= r;   (int → uint16_t truncation)
    let a : Nat := ((((atoi s : Int) - LYB_REV_YEAR_OFFSET) * (2 ^ LYB_REV_YEAR_SHIFT : Nat)) % 65536).toNat
    -- r = atoi(rev + 5); r <<= LYB_REV_MONTH_SHIFT; revision |= r;
    let b := (a ||| (atoi (s.drop 5) <<< LYB_REV_MONTH_SHIFT)) % 65536
    -- r = atoi(rev + 8); revision |= r;
    (b ||| atoi (s.drop 8)) % 65536

def digit (n : Nat) : UInt8 := UInt8.ofNat (48 + n % 10)

/-- `%04u` for values below 10000 (the year field is at most 2127) -/
def dec4 (n : Nat) : Bytes := [digit (n / 1000), digit (n / 100), digit (n / 10), digit n]
/-- `%02u` for values below 100 (month field ≤ 15, day field ≤ 31) -/
def dec2 (n : Nat) : Bytes := [digit (n / 10), digit n]

def dateStr (y m d : Nat) : Bytes := dec4 y ++ [45] ++ dec2 m ++ [45] ++ dec2 d

/-- the revision string `lyb_read_model` rebuilds (`none`: `rev == 0`, no revision) -/
def unpackRev (rev : Nat) : Option Bytes :=
  if rev = 0 then none
  else some (dateStr (((rev &&& LYB_REV_YEAR_MASK) >>> LYB_REV_YEAR_SHIFT) + LYB_REV_YEAR_OFFSET)
              ((rev &&& LYB_REV_MONTH_MASK) >>> LYB_REV_MONTH_SHIFT) (rev &&& LYB_REV_DAY_MASK))

end LyModel.Lyb
