import LyModel.Lyb.ChunkSkip
/-!
Writer side of `lyb_skip_siblings`: the records of a **top-level** frame carry the right counts — `size` = data bytes
of the chunk, `inner_chunks` = number of meta records of deeper frames inside the chunk.  (For a frame that has an
enclosing frame this is false: the enclosing frame's continuation records lie inside the chunk but are not counted.)
Part 1: counting lemmas.
-/
namespace LyModel.Lyb

def segBytes : List Item → Nat
  | [] => 0
  | .seg bs :: r => bs.length + segBytes r
  | .hdr _ _ :: r => segBytes r

def hdrCount : List Item → Nat
  | [] => 0
  | .seg _ :: r => hdrCount r
  | .hdr _ _ :: r => hdrCount r + 1

theorem segBytes_append (a b : List Item) : segBytes (a ++ b) = segBytes a + segBytes b := by
  induction a with
  | nil => simp [segBytes]
  | cons x xs ih => cases x <;> simp [segBytes, ih] <;> omega

theorem hdrCount_append (a b : List Item) : hdrCount (a ++ b) = hdrCount a + hdrCount b := by
  induction a with
  | nil => simp [hdrCount]
  | cons x xs ih => cases x <;> simp [hdrCount, ih] <;> omega

theorem length_serialize (P : Params) (l : List Item) :
    (serialize P l).length = hdrCount l * P.metaBytes + segBytes l := by
  induction l with
  | nil => simp [serialize, segBytes, hdrCount]
  | cons x xs ih =>
    cases x with
    | seg bs =>
      simp only [serialize, List.flatMap_cons, List.length_append, Item.ser, segBytes, hdrCount] at ih ⊢
      omega
    | hdr s i =>
      have := length_ser_hdr P s i
      simp only [serialize, List.flatMap_cons, List.length_append, segBytes, hdrCount, this] at ih ⊢
      rw [Nat.add_mul]; omega

/-- replacing a record by a record changes neither count -/
theorem counts_set_hdr (l : List Item) (p a b c d : Nat) (h : l[p]? = some (.hdr a b)) :
    segBytes (l.set p (.hdr c d)) = segBytes l ∧ hdrCount (l.set p (.hdr c d)) = hdrCount l := by
  induction l generalizing p with
  | nil => simp at h
  | cons x xs ih =>
    cases p with
    | zero =>
      simp only [List.getElem?_cons_zero, Option.some.injEq] at h
      subst h
      simp [segBytes, hdrCount]
    | succ p =>
      simp only [List.getElem?_cons_succ] at h
      have := ih p h
      cases x <;> simp [segBytes, hdrCount, this.1, this.2]

/-- items of a list of chunks `(size, inner, body)` -/
def itemsOf : List (Nat × Nat × List Item) → List Item
  | [] => []
  | (s, i, body) :: r => .hdr s i :: body ++ itemsOf r

theorem itemsOf_append (a b : List (Nat × Nat × List Item)) : itemsOf (a ++ b) = itemsOf a ++ itemsOf b := by
  induction a with
  | nil => rfl
  | cons x xs ih => obtain ⟨s, i, body⟩ := x; simp [itemsOf, ih]

/-- every chunk is full and its record counts its body -/
def ClosedOk (P : Params) (cs : List (Nat × Nat × List Item)) : Prop :=
  ∀ c ∈ cs, c.1 = P.sizeMax ∧ c.2.1 ≤ P.inMax ∧ segBytes c.2.2 = c.1 ∧ hdrCount c.2.2 = c.2.1

def bump1 (f : WFrame) : WFrame := { f with inner := f.inner + 1 }

theorem bumpInner_eq_map (inMax : Nat) :
    ∀ (fs res : List WFrame), bumpInner inMax fs = some res → res = fs.map bump1 ∧ ∀ f ∈ fs, f.inner ≠ inMax := by
  intro fs
  induction fs with
  | nil => intro res h; simp only [bumpInner, Option.some.injEq] at h; subst h; simp
  | cons f fs ih =>
    intro res h
    simp only [bumpInner] at h
    split at h
    · simp at h
    · rename_i hne
      split at h
      · simp at h
      · rename_i fs' hb
        simp only [Option.some.injEq] at h
        subst h
        obtain ⟨e, hall⟩ := ih fs' hb
        refine ⟨by simp [e, bump1], ?_⟩
        intro g hg
        rcases List.mem_cons.mp hg with rfl | hg
        · exact hne
        · exact hall g hg

end LyModel.Lyb
