import LyModel.Lyb.HashLemmas
/-! The invariant of the printer's sibling hash table and its consequences. -/
namespace LyModel.Lyb
open LyModel.Generated

/-- the shape `lyb_generate_hash` gives to a hash with collision id `i`: non-zero, and bit `0x80 >> i` is the highest
set bit (so the byte itself tells the collision id) -/
def Shape (h : Nat → Nat → Nat) : Prop :=
  ∀ s i, i < LYB_HASH_BITS → h s i ≠ 0 ∧ firstBit (h s i) = i

theorem shape_inj {h : Nat → Nat → Nat} (sh : Shape h) {s m i j : Nat} (hi : i < LYB_HASH_BITS) (hj : j < LYB_HASH_BITS)
    (e : h s i = h m j) : i = j := by
  have a := (sh s i hi).2
  have b := (sh m j hj).2
  rw [e] at a
  omega

structure TInv (h : Nat → Nat → Nat) (ht : HT) (s : Nat) : Prop where
  nodes : ht.map (·.1) = List.range s
  recs : ∀ r ∈ ht, ∃ c, c < LYB_HASH_BITS ∧ r.2 = h r.1 c
  /-- a node that uses collision id `c` was refused every lower id `i` by an *earlier* node with id ≤ `i` whose
  hashes `0 … i` are the same -/
  block : ∀ m c, (m, h m c) ∈ ht → c < LYB_HASH_BITS → ∀ i, i < c →
    ∃ p cp, (p, h p cp) ∈ ht ∧ p < m ∧ cp ≤ i ∧ ∀ j, j ≤ i → h p j = h m j
  /-- a node with id `c` differs in one of the hashes `0 … c` from every earlier node with an id ≤ `c` -/
  dist : ∀ m c p cp, (m, h m c) ∈ ht → (p, h p cp) ∈ ht → c < LYB_HASH_BITS → cp < LYB_HASH_BITS → p < m → cp ≤ c →
    ¬ (∀ j, j ≤ c → h p j = h m j)

theorem TInv.lt {h : Nat → Nat → Nat} {ht : HT} {s : Nat} (inv : TInv h ht s) {r : Nat × Nat} (hr : r ∈ ht) : r.1 < s := by
  have : r.1 ∈ ht.map (·.1) := List.mem_map_of_mem hr
  rw [inv.nodes] at this
  simpa using this

theorem tinv_nil (h : Nat → Nat → Nat) : TInv h [] 0 :=
  ⟨rfl, by simp, by simp, by simp⟩

theorem tinv_step {h : Nat → Nat → Nat} (sh : Shape h) {ht ht' : HT} {s : Nat} (inv : TInv h ht s)
    (ha : assignFrom h ht s LYB_HASH_BITS 0 = some ht') : TInv h ht' (s + 1) := by
  obtain ⟨c, _, hc, rfl, hblocked, hfree⟩ := assignFrom_spec h ht s _ _ _ ha
  have hc : c < LYB_HASH_BITS := by omega
  -- a record whose hash equals `h s j` carries collision id `j`
  have recid : ∀ r ∈ ht, ∀ j, j < LYB_HASH_BITS → r.2 = h s j → r = (r.1, h r.1 j) := by
    intro r hr j hj e
    obtain ⟨cr, hcr, er⟩ := inv.recs r hr
    have : cr = j := shape_inj sh hcr hj (er ▸ e)
    subst this
    rw [← er]
  refine ⟨?_, ?_, ?_, ?_⟩
  · simp [List.range_succ, inv.nodes]
  · intro r hr
    rcases List.mem_append.mp hr with hr | hr
    · exact inv.recs r hr
    · simp only [List.mem_singleton] at hr; subst hr; exact ⟨c, hc, rfl⟩
  · intro m cm hm hcm i hi
    rcases List.mem_append.mp hm with hm | hm
    · obtain ⟨p, cp, h1, h2, h3, h4⟩ := inv.block m cm hm hcm i hi
      exact ⟨p, cp, List.mem_append_left _ h1, h2, h3, h4⟩
    · simp only [List.mem_singleton, Prod.mk.injEq] at hm
      obtain ⟨rfl, e⟩ := hm
      have : cm = c := shape_inj sh hcm hc e
      subst this
      have hi' : i < LYB_HASH_BITS := by omega
      rcases hblocked i (Nat.zero_le _) hi with ⟨j, hj, hsc⟩ | ⟨hany, hor⟩
      · obtain ⟨r, hr, e1, e2⟩ := (seqCheck_iff h ht m j i).mp hsc
        have hrr := recid r hr j (by omega) e1
        refine ⟨r.1, j, ?_, inv.lt hr, by omega, fun j' hj' => (e2 j' hj').symm⟩
        rw [← hrr]; exact List.mem_append_left _ hr
      · rcases hor with h0 | hsc
        · subst h0
          simp only [List.any_eq_true, beq_iff_eq] at hany
          obtain ⟨r, hr, e1⟩ := hany
          have hrr := recid r hr 0 hi' e1
          refine ⟨r.1, 0, ?_, inv.lt hr, Nat.le_refl _, ?_⟩
          · rw [← hrr]; exact List.mem_append_left _ hr
          · intro j' hj'
            have : j' = 0 := by omega
            subst this
            rw [hrr] at e1; exact e1
        · obtain ⟨r, hr, e1, e2⟩ := (seqCheck_iff h ht m i i).mp hsc
          have hrr := recid r hr i hi' e1
          refine ⟨r.1, i, ?_, inv.lt hr, Nat.le_refl _, fun j' hj' => (e2 j' hj').symm⟩
          rw [← hrr]; exact List.mem_append_left _ hr
  · intro m cm p cp hm hp hcm hcp hpm hle hcol
    have hp_old : (p, h p cp) ∈ ht ∨ p = s := by
      rcases List.mem_append.mp hp with hp | hp
      · exact Or.inl hp
      · simp only [List.mem_singleton, Prod.mk.injEq] at hp; exact Or.inr hp.1
    rcases List.mem_append.mp hm with hm | hm
    · have hms := inv.lt hm
      rcases hp_old with hp | hp
      · exact inv.dist m cm p cp hm hp hcm hcp hpm hle hcol
      · simp only at hms; omega
    · simp only [List.mem_singleton, Prod.mk.injEq] at hm
      obtain ⟨rfl, e⟩ := hm
      have : cm = c := shape_inj sh hcm hc e
      subst this
      rcases hp_old with hp' | hp'
      · have hsc : seqCheck h ht m cp cm = true :=
          (seqCheck_iff h ht m cp cm).mpr ⟨(p, h p cp), hp', hcol cp hle, fun j hj => (hcol j hj).symm⟩
        rcases Nat.lt_or_ge cp cm with hlt | hge
        · have := hfree.1 cp hlt
          rw [this] at hsc; exact Bool.noConfusion hsc
        · have hcc : cp = cm := by omega
          rcases hfree.2 with hno | ⟨_, hno⟩
          · have : (ht.any fun rec => rec.2 == h m cm) = true := by
              simp only [List.any_eq_true, beq_iff_eq]
              exact ⟨(p, h p cp), hp', by rw [hcc]; exact hcol cm (Nat.le_refl _)⟩
            rw [hno] at this; exact Bool.noConfusion this
          · rw [hcc] at hsc; rw [hno] at hsc; exact Bool.noConfusion hsc
      · omega

theorem tinv_run {h : Nat → Nat → Nat} (sh : Shape h) :
    ∀ (cnt s : Nat) (ht ht' : HT), TInv h ht s → hashSiblingsFrom h LYB_HASH_BITS ht cnt s = some ht' →
      TInv h ht' (s + cnt) := by
  intro cnt
  induction cnt with
  | zero =>
    intro s ht ht' inv hh
    simp only [hashSiblingsFrom, Option.some.injEq] at hh
    subst hh; exact inv
  | succ cnt ih =>
    intro s ht ht' inv hh
    simp only [hashSiblingsFrom] at hh
    split at hh
    · simp at hh
    · rename_i ht1 ha
      have := ih (s + 1) ht1 ht' (tinv_step sh inv ha) hh
      rw [show s + (cnt + 1) = s + 1 + cnt by omega]
      exact this

/-- **first match**: no earlier sibling has the same hashes `0 … ck` as a node that was given collision id `ck` -/
theorem tinv_first_match {h : Nat → Nat → Nat} {ht : HT} {n : Nat} (inv : TInv h ht n)
    {k ck m cm : Nat} (hk : (k, h k ck) ∈ ht) (hm : (m, h m cm) ∈ ht) (hck : ck < LYB_HASH_BITS)
    (hcm : cm < LYB_HASH_BITS) (hmk : m < k) : ¬ (∀ j, j ≤ ck → h m j = h k j) := by
  intro hcol
  rcases Nat.lt_or_ge ck cm with hlt | hge
  · obtain ⟨p, cp, hp, hpm, hcp, hpcol⟩ := inv.block m cm hm hcm ck hlt
    exact inv.dist k ck p cp hk hp hck (by omega) (by omega) hcp (fun j hj => (hpcol j hj).trans (hcol j hj))
  · exact inv.dist k ck m cm hk hm hck hcm hmk hge hcol

end LyModel.Lyb
