import LyModel.Lyb.ChunkCounts7
/-! Part 8: a whole top-level frame `start :: body ++ [stop]` — the image is a list of counted chunks; it is a
`GoodFrame` unless it has the shape of finding F69 (a). -/
namespace LyModel.Lyb

theorem wrun_append (P : Params) : ∀ (a b : List Op) (w : W),
    wrun P w (a ++ b) = match wrun P w a with
      | none => none
      | some w1 => wrun P w1 b := by
  intro a
  induction a with
  | nil => intro b w; rfl
  | cons op r ih =>
    intro b w
    simp only [List.cons_append, wrun]
    cases wop P w op with
    | none => rfl
    | some w1 => exact ih b w1

/-- the equation alone, without any condition on the last chunk -/
theorem hist_image_eq (P : Params) (out : List Item) (e s i : Nat) (he : out[e]? = some (.hdr s i)) :
    ∀ (bs : List Nat), Hist P out bs e →
      ∃ cs, serialize P (out.drop (histHead bs e)) = chunkBytes P (cs ++ [(s, i, serialize P (out.drop (e + 1)))]) ∧
        cs.length = bs.length := by
  intro bs
  induction bs with
  | nil =>
    intro _
    obtain ⟨hlt, hget⟩ := List.getElem?_eq_some_iff.mp he
    refine ⟨[], ?_, rfl⟩
    simp only [histHead, List.nil_append]
    rw [List.drop_eq_getElem_cons hlt, hget]
    simp [serialize_cons', chunkBytes]
  | cons b r ih =>
    intro h
    have step : ∀ nxt, ChunkAt P out b nxt →
        (∃ cs, serialize P (out.drop nxt) = chunkBytes P (cs ++ [(s, i, serialize P (out.drop (e + 1)))]) ∧
          cs.length = r.length) →
        ∃ cs, serialize P (out.drop b) = chunkBytes P (cs ++ [(s, i, serialize P (out.drop (e + 1)))]) ∧
          cs.length = (b :: r).length := by
      intro nxt hc ⟨cs, e1, e3⟩
      obtain ⟨c1, c2, c3, _, _⟩ := hc
      refine ⟨(P.sizeMax, hdrCount (rng out (b + 1) nxt), serialize P (rng out (b + 1) nxt)) :: cs, ?_, by simp [e3]⟩
      rw [drop_split out b nxt _ c1 c2 c3]
      simp [serialize_cons', serialize_append, chunkBytes, e1]
    cases r with
    | nil => exact step e h (ih trivial)
    | cons b' r' => exact step b' h.1 (ih h.2)

/-- what the writer leaves behind for `start :: body ++ [stop]` -/
theorem writer_top_frame (P : Params) (hM : 0 < P.sizeMax) (body : List Op) (hb : wellNestedFrom 0 body = true) (w' : W)
    (hrun : wrun P {} (.start :: body ++ [.stop]) = some w') :
    ∃ (bs : List Nat) (e s i : Nat), w'.out[e]? = some (.hdr s i) ∧ s < P.sizeMax ∧ i ≤ P.inMax ∧
      segBytes (w'.out.drop (e + 1)) = s ∧ hdrCount (w'.out.drop (e + 1)) = i ∧ Hist P w'.out bs e ∧
      histHead bs e = 0 := by
  simp only [wrun, wop, wstart, bumpInner, List.cons_append] at hrun
  rw [wrun_append] at hrun
  split at hrun
  · simp at hrun
  · rename_i w1 hbody
    -- the state after `start`
    have t0 : TopW P 0 { out := [] ++ [Item.hdr 0 0], frames := [{ written := 0, pos := ([] : List Item).length, inner := 0 }] } [] := by
      refine ⟨[], { written := 0, pos := 0, inner := 0 }, rfl, ?_⟩
      exact ⟨trivial, by simp, ⟨0, 0, rfl⟩, rfl, rfl, by simp, by simp, rfl⟩
    obtain ⟨bs, tw1, hlt1, hlen1⟩ := topW_run P hM 0 body _ w1 [] hbody t0
      (by intro f hf; simp only [List.mem_singleton] at hf; subst hf; exact hM) (by simpa using hb)
    obtain ⟨fs, f0, hfr, inv⟩ := tw1
    have hfs : fs = [] := by
      rw [hfr] at hlen1
      simp only [List.length_append, List.length_singleton] at hlen1
      exact List.eq_nil_of_length_eq_zero (by omega)
    subst hfs
    simp only [wrun, wop, wstop, hfr, List.nil_append, Option.some.injEq] at hrun
    subst hrun
    obtain ⟨a, b, hab⟩ := inv.hdr0
    obtain ⟨e1, e2⟩ := drop_counts_set w1.out f0.pos a b f0.written f0.inner (f0.pos + 1) hab
    refine ⟨bs, f0.pos, f0.written, f0.inner, ?_, hlt1 f0 (by rw [hfr]; simp), inv.inner_le f0 (by simp), ?_, ?_, ?_,
      inv.head⟩
    · simp only [patch]
      rw [List.getElem?_set_self (lt_length_of_getElem? hab)]
    · simp only [patch]; rw [e1]; exact inv.seg
    · simp only [patch]; rw [e2]; exact inv.cnt
    · simp only [patch]
      exact hist_set _ _ hab (fun x hx => Nat.ne_of_lt (inv.bounds_lt x hx)) inv.hist

end LyModel.Lyb
