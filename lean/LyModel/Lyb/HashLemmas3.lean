import LyModel.Lyb.HashLemmas2
/-! Printer sequence and parser lookup on a table that satisfies the invariant. -/
namespace LyModel.Lyb
open LyModel.Generated

theorem fst_inj_of_nodup : ∀ (l : List (Nat × Nat)), (l.map (·.1)).Nodup →
    ∀ a b c, (a, b) ∈ l → (a, c) ∈ l → b = c := by
  intro l
  induction l with
  | nil => intro _ a b c h; simp at h
  | cons x xs ih =>
    intro hnd a b c hb hc
    simp only [List.map_cons, List.nodup_cons] at hnd
    rcases List.mem_cons.mp hb with hb | hb <;> rcases List.mem_cons.mp hc with hc | hc
    · rw [← hb] at hc; exact (Prod.mk.inj hc).2.symm
    · exfalso; apply hnd.1; rw [← hb]; exact List.mem_map_of_mem (f := (·.1)) hc
    · exfalso; apply hnd.1; rw [← hc]; exact List.mem_map_of_mem (f := (·.1)) hb
    · exact ih hnd.2 a b c hb hc

theorem firstBitFrom_ge (x : Nat) : ∀ left i, i ≤ firstBitFrom x left i := by
  intro left
  induction left with
  | zero => intro i; simp [firstBitFrom]
  | succ left ih =>
    intro i
    simp only [firstBitFrom]
    split
    · exact Nat.le_refl _
    · have := ih (i + 1); omega

theorem firstBit_eq_zero_iff (x : Nat) : firstBit x = 0 ↔ x &&& LYB_HASH_COLLISION_ID ≠ 0 := by
  simp only [firstBit, firstBitFrom, Nat.shiftRight_zero]
  constructor
  · intro h
    split at h
    · assumption
    · have := firstBitFrom_ge x LYB_HASH_BITS (0 + 1); omega
  · intro h; simp [h]

/-- every node below `n` has exactly one record, with a collision id below `LYB_HASH_BITS` -/
theorem tinv_record {h : Nat → Nat → Nat} {ht : HT} {n : Nat} (inv : TInv h ht n) {k : Nat} (hk : k < n) :
    ∃ ck, ck < LYB_HASH_BITS ∧ (k, h k ck) ∈ ht ∧ ∀ v, (k, v) ∈ ht → v = h k ck := by
  have : k ∈ ht.map (·.1) := by rw [inv.nodes]; simpa using hk
  obtain ⟨r, hr, e⟩ := List.mem_map.mp this
  obtain ⟨ck, hck, er⟩ := inv.recs r hr
  have hrk : r = (k, h k ck) := by
    cases r with
    | mk a b => simp only at e er; subst e; rw [er]
  refine ⟨ck, hck, hrk ▸ hr, ?_⟩
  intro v hv
  have hnd : (ht.map (·.1)).Nodup := by rw [inv.nodes]; exact List.nodup_range
  exact fst_inj_of_nodup ht hnd k v (h k ck) hv (hrk ▸ hr)

theorem hashFindFrom_spec {h : Nat → Nat → Nat} (sh : Shape h) {ht : HT} {k ck : Nat} (hck : ck < LYB_HASH_BITS)
    (hmem : (k, h k ck) ∈ ht) (huniq : ∀ v, (k, v) ∈ ht → v = h k ck) :
    ∀ left i, i ≤ ck → ck < i + left → hashFindFrom h ht k left i = some (h k ck) := by
  intro left
  induction left with
  | zero => intro i h1 h2; omega
  | succ left ih =>
    intro i h1 h2
    simp only [hashFindFrom]
    have hnz := (sh k i (by omega)).1
    simp only [hnz, ↓reduceIte]
    by_cases e : i = ck
    · subst e
      simp [hmem]
    · have : ¬ (ht.contains (k, h k i) = true) := by
        intro hc
        simp only [List.contains_iff_mem] at hc
        have := huniq _ hc
        exact e (shape_inj sh (by omega) hck this)
      simp only [this, Bool.false_eq_true, ↓reduceIte]
      exact ih (i + 1) (by omega) (by omega)

/-- what the printer emits for a node with collision id `ck` -/
def seqOf (h : Nat → Nat → Nat) (k ck : Nat) : List Nat := h k ck :: (List.range ck).reverse.map (fun j => h k j)

theorem printSeq_spec {h : Nat → Nat → Nat} (sh : Shape h) {ht : HT} {k ck : Nat} (hck : ck < LYB_HASH_BITS)
    (hmem : (k, h k ck) ∈ ht) (huniq : ∀ v, (k, v) ∈ ht → v = h k ck) :
    printSeq h ht k = some (seqOf h k ck) := by
  have hf : hashFind h ht k = some (h k ck) :=
    hashFindFrom_spec sh hck hmem huniq LYB_HASH_BITS 0 (Nat.zero_le _) (by omega)
  have hfb := (sh k ck hck).2
  simp only [printSeq, hf, seqOf]
  by_cases h0 : h k ck &&& LYB_HASH_COLLISION_ID ≠ 0
  · have : ck = 0 := by rw [← hfb]; exact (firstBit_eq_zero_iff _).mpr h0
    subst this
    simp [h0]
  · simp only [h0, ↓reduceIte, hfb]
    have : ((List.range ck).reverse.map fun j => h k j).any (· == 0) = false := by
      simp only [List.any_eq_false, List.mem_map, List.mem_reverse, List.mem_range, beq_iff_eq]
      rintro x ⟨j, hj, rfl⟩
      exact (sh k j (by omega)).1
    rw [if_neg (by rw [this]; exact Bool.false_ne_true)]

theorem readHashes_seqOf {h : Nat → Nat → Nat} (sh : Shape h) {k ck : Nat} (hck : ck < LYB_HASH_BITS) (rest : List Nat) :
    readHashes (seqOf h k ck ++ rest) = some ((List.range (ck + 1)).map (fun j => h k j), rest) := by
  have hnz := (sh k ck hck).1
  have hfb := (sh k ck hck).2
  have hlen : ((List.range ck).reverse.map fun j => h k j).length = ck := by simp
  simp only [seqOf, List.cons_append, readHashes, hnz, ↓reduceIte, hfb]
  have : ¬ (((List.range ck).reverse.map fun j => h k j) ++ rest).length < ck := by
    simp
  simp only [this, ↓reduceIte]
  rw [List.take_left' hlen, List.drop_left' hlen]
  simp [List.range_succ, List.map_reverse]

theorem hashMatch_iff (h : Nat → Nat → Nat) (s k ck : Nat) :
    hashMatch h s ((List.range (ck + 1)).map (fun j => h k j)) = true ↔ ∀ j, j ≤ ck → h s j = h k j := by
  simp only [hashMatch, List.length_map, List.length_range, List.all_eq_true, List.mem_range, beq_iff_eq]
  constructor
  · intro H j hj
    have := H j (by omega)
    rw [this]
    simp [List.getD_eq_getElem?_getD, show j < ck + 1 by omega]
  · intro H j hj
    rw [H j (by omega)]
    simp [List.getD_eq_getElem?_getD, hj]

theorem findSibling_spec (h : Nat → Nat → Nat) (hashes : List Nat) (k : Nat) (hk : hashMatch h k hashes = true) :
    ∀ cnt s, s ≤ k → k < s + cnt → (∀ m, s ≤ m → m < k → hashMatch h m hashes = false) →
      findSibling h hashes cnt s = some k := by
  intro cnt
  induction cnt with
  | zero => intro s h1 h2; omega
  | succ cnt ih =>
    intro s h1 h2 hno
    simp only [findSibling]
    by_cases e : s = k
    · subst e; simp [hk]
    · have := hno s (Nat.le_refl _) (by omega)
      simp only [this, Bool.false_eq_true, ↓reduceIte]
      exact ih (s + 1) (by omega) (by omega) (fun m a b => hno m (by omega) b)

end LyModel.Lyb
