import LyModel.Lyb.Hash
/-! Helper lemmas for `lyb_hash_lookup_correct`: what `assignFrom` guarantees, and the table invariant. -/
namespace LyModel.Lyb
open LyModel.Generated

theorem seqCollide_iff (h : Nat → Nat → Nat) (s n cmp : Nat) :
    seqCollide h s n cmp = true ↔ ∀ j, j ≤ cmp → h s j = h n j := by
  simp only [seqCollide, List.all_eq_true, List.mem_range, beq_iff_eq]
  constructor
  · intro H j hj; exact H j (by omega)
  · intro H j hj; exact H j (by omega)

theorem seqCheck_iff (h : Nat → Nat → Nat) (ht : HT) (s htc cmp : Nat) :
    seqCheck h ht s htc cmp = true ↔ ∃ r ∈ ht, r.2 = h s htc ∧ ∀ j, j ≤ cmp → h s j = h r.1 j := by
  simp only [seqCheck, List.any_eq_true, Bool.and_eq_true, beq_iff_eq, seqCollide_iff]

/-- collision id `i` is refused for sibling `s` -/
def Blocked (h : Nat → Nat → Nat) (ht : HT) (s i : Nat) : Prop :=
  (∃ j, j < i ∧ seqCheck h ht s j i = true) ∨
  ((ht.any fun rec => rec.2 == h s i) = true ∧ (i = 0 ∨ seqCheck h ht s i i = true))

/-- collision id `c` is accepted for sibling `s` -/
def Free (h : Nat → Nat → Nat) (ht : HT) (s c : Nat) : Prop :=
  (∀ j, j < c → seqCheck h ht s j c = false) ∧
  ((ht.any fun rec => rec.2 == h s c) = false ∨ (c ≠ 0 ∧ seqCheck h ht s c c = false))

theorem assignFrom_spec (h : Nat → Nat → Nat) (ht : HT) (s : Nat) :
    ∀ (left i : Nat) (ht' : HT), assignFrom h ht s left i = some ht' →
      ∃ c, i ≤ c ∧ c < i + left ∧ ht' = ht ++ [(s, h s c)] ∧
        (∀ i', i ≤ i' → i' < c → Blocked h ht s i') ∧ Free h ht s c := by
  intro left
  induction left with
  | zero => intro i ht' hh; simp [assignFrom] at hh
  | succ left ih =>
    intro i ht' hh
    simp only [assignFrom] at hh
    have next : ∀ (hb : Blocked h ht s i), assignFrom h ht s left (i + 1) = some ht' →
        ∃ c, i ≤ c ∧ c < i + (left + 1) ∧ ht' = ht ++ [(s, h s c)] ∧
          (∀ i', i ≤ i' → i' < c → Blocked h ht s i') ∧ Free h ht s c := by
      intro hb hrec
      obtain ⟨c, h1, h2, h3, h4, h5⟩ := ih (i + 1) ht' hrec
      refine ⟨c, by omega, by omega, h3, ?_, h5⟩
      intro i' hi1 hi2
      rcases Nat.eq_or_lt_of_le hi1 with e | l
      · subst e; exact hb
      · exact h4 i' (by omega) hi2
    split at hh
    · rename_i hany
      apply next _ hh
      left
      simp only [List.any_eq_true, List.mem_range] at hany
      exact hany
    · rename_i hnolow
      have hlow : ∀ j, j < i → seqCheck h ht s j i = false := by
        intro j hj
        simp only [List.any_eq_true, List.mem_range, not_exists, not_and, Bool.not_eq_true] at hnolow
        exact hnolow j hj
      split at hh
      · rename_i hins
        simp only [Option.some.injEq] at hh
        refine ⟨i, Nat.le_refl _, by omega, hh.symm, fun i' a b => by omega, hlow, ?_⟩
        left; simpa using hins
      · rename_i hins
        split at hh
        · rename_i hseq
          split at hh
          · simp at hh
          · simp only [Option.some.injEq] at hh
            refine ⟨i, Nat.le_refl _, by omega, hh.symm, fun i' a b => by omega, hlow, ?_⟩
            right
            simp only [ne_eq, Bool.and_eq_true, decide_eq_true_eq, Bool.not_eq_eq_eq_not, Bool.not_true] at hseq
            exact hseq
        · rename_i hseq
          apply next _ hh
          right
          refine ⟨by simpa using hins, ?_⟩
          simp only [ne_eq, Bool.and_eq_true, decide_eq_true_eq, Bool.not_eq_eq_eq_not, Bool.not_true, not_and,
            Bool.not_eq_false] at hseq
          by_cases h0 : i = 0
          · left; exact h0
          · right; exact hseq h0

end LyModel.Lyb
