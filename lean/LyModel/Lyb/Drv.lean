import LyModel.Lyb.Chunk
import LyModel.Lyb.Hash
import LyModel.Lyb.Rev
import LyModel.Lyb.TreeDrv
/-! driver ops of component `lyb` (line protocol, see tools/README-dev.md and harness/wb_lyb.c) -/
namespace LyModel.Lyb.Drv
open LyModel LyModel.Lyb

/-- deterministic payload shared with the harness: byte `i` of payload `(len, seed)` -/
def genPayload (len seed : Nat) : Bytes :=
  (List.range len).map fun i => UInt8.ofNat (seed + i * 167 + i / 251)

/-- op list syntax: comma separated `s` (start) | `e` (stop) | `w:<len>:<seed>` | `x:<n>` (n times start,stop) -/
def parseTok (t : String) : Option (List Op) :=
  match t.splitOn ":" with
  | ["s"] => some [.start]
  | ["e"] => some [.stop]
  | ["w", l, sd] => match l.toNat?, sd.toNat? with
    | some l, some sd => some [.write (genPayload l sd)]
    | _, _ => none
  | ["x", n] => match n.toNat? with
    | some n => some ((List.replicate n [Op.start, Op.stop]).flatten)
    | none => none
  | _ => none

def parseOps (s : String) : Option (List Op) :=
  if s == "-" then some [] else
  (s.splitOn ",").foldr (fun t acc => match parseTok t, acc with
    | some a, some b => some (a ++ b)
    | _, _ => none) (some [])

/-- FNV-1a 64 -/
def fnv (bs : Bytes) : UInt64 :=
  bs.foldl (fun h b => (h ^^^ b.toUInt64) * 1099511628211) 14695981039346656037

def digest (bs : Bytes) : String :=
  if bs.length ≤ 48 then Hex.enc bs else "h:" ++ toString (fnv bs).toNat

def hexList (l : List Nat) : String := Hex.enc (l.map UInt8.ofNat)

def handle (op : String) (args : List String) : String :=
  let P := Params.gen
  match LyModel.LybTree.Drv.handle op args with
  | some r => r
  | none =>
  match op, args with
  | "chunk", [o] =>
    match parseOps o with
    | none => "err BadArg"
    | some ops =>
      if !wellNestedFrom 0 ops then "err BadOps" else
      match writeAll P ops with
      | none => "err EINT"
      | some img =>
        let rt := match readAll P (ops.map Op.shape) img with
          | none => false
          | some (r, got) => r.inp.isEmpty && r.frames.isEmpty && got == payloads ops
        "ok " ++ toString img.length ++ " " ++ digest img ++ " rt=" ++ (if rt then "1" else "0")
  | "skip", [k, o] =>
    match parseOps o, k.toNat? with
    | some ops, some k =>
      if !wellNestedFrom 0 ops then "err BadOps" else
      match writeAll P ops with
      | none => "err EINT"
      | some img =>
        let rt := match readSkipping P ops k ({ inp := img }, []) with
          | none => false
          | some (r, got) => r.inp.isEmpty && r.frames.isEmpty && got == payloadsSkipping ops k
        "ok rt=" ++ (if rt then "1" else "0")
    | _, _ => "err BadArg"
  | "hash", [m, n, c] =>
    match Hex.dec m, Hex.dec n, c.toNat? with
    | some m, some n, some c => "ok " ++ toString (generateHash m n c)
    | _, _, _ => "err BadArg"
  | "jenkins", [k] =>
    match Hex.dec k with
    | some k => "ok " ++ toString (lyhtHash k).toNat
    | none => "err BadHex"
  | "rev", [d] =>
    match Hex.dec d with
    | some d =>
      let w := packRev (if d.isEmpty then none else some d)
      "ok " ++ toString w ++ " " ++ Hex.enc ((unpackRev w).getD [])
    | none => "err BadHex"
  | "sibs", [m, ns] =>
    match Hex.dec m, (ns.splitOn ",").mapM Hex.dec with
    | some m, some names =>
      let h := realHash m names
      match hashSiblings h names.length with
      | none => "err EINT"
      | some ht =>
        let one (k : Nat) : String :=
          match printSeq h ht k with
          | none => "EINT"
          | some seq =>
            let found := match parseSchemaHash h names.length (seq ++ [255]) with
              | some (some s, [255]) => toString s
              | some (none, [255]) => "none"
              | _ => "bad"
            hexList seq ++ ":" ++ found
        "ok " ++ " ".intercalate ((List.range names.length).map one)
    | _, _ => "err BadArg"
  | "leakcheck", _ => "ok"
  | _, _ => "err BadOp"

end LyModel.Lyb.Drv
