import LyModel.Lyb.ChunkCounts4
import LyModel.Lyb.ChunkWriter
/-! Part 5: a generic induction principle for the `lyb_write` loop, and the invariant along whole operation sequences. -/
namespace LyModel.Lyb

theorem scanW_none_lt (M : Nat) (ws : List Nat) (c : Nat) (h : (scanW M ws c).2 = none) :
    ∀ w ∈ ws, w + c < M := by
  induction ws with
  | nil => simp
  | cons w ws ih =>
    simp only [scanW] at h
    split at h
    · simp at h
    · rename_i hlt
      have hnone : (scanW M ws c).2 = none := by simpa using h
      have htw := scanW_none M ws c hnone
      intro x hx
      rcases List.mem_cons.mp hx with rfl | hx
      · omega
      · exact ih hnone x hx

theorem wdata_written (w : W) (buf : Bytes) (tw : Nat) :
    (wdata w buf tw).frames.map (·.written) = (w.frames.map (·.written)).map (· + tw) := by
  by_cases h0 : tw > 0
  · simp [wdata, h0, addWritten, List.map_map, Function.comp_def]
  · have : tw = 0 := by omega
    subst this
    simp [wdata]

theorem wclose_written (P : Params) (w1 w2 : W) (u : Nat) (h : wclose P w1 u = some w2) :
    w2.frames.map (·.written) = (w1.frames.map (·.written)).set u 0 := by
  simp only [wclose] at h
  split at h
  · simp at h
  · rename_i f hu
    split at h
    · simp at h
    · rename_i outer hb
      simp only [Option.some.injEq] at h
      subst h
      obtain ⟨hsplit, hlen⟩ := frames_split w1.frames u f hu
      obtain ⟨hw, _, _⟩ := map_written_of_map _ _ (bumpInner_map P.inMax _ _ hb)
      obtain ⟨A, hA⟩ : ∃ A, A = w1.frames.take u := ⟨_, rfl⟩
      obtain ⟨B, hB⟩ : ∃ B, B = w1.frames.drop (u + 1) := ⟨_, rfl⟩
      rw [← hA, ← hB] at hsplit
      rw [← hA] at hlen
      rw [← hB] at hw
      simp only [← hA]
      rw [hsplit]
      simp only [List.map_append, List.map_cons, hw]
      rw [List.set_append_right _ _ (by simp [hlen])]
      simp [hlen]

theorem wloop_preserves (P : Params) (hM : 0 < P.sizeMax) (Q : W → Prop)
    (hdata : ∀ w buf tw, tw ≤ buf.length → Q w → Q (wdata w buf tw))
    (hclose : ∀ w1 w2 u, Q w1 → (∀ f, w1.frames[u]? = some f → f.written = P.sizeMax) → wclose P w1 u = some w2 → Q w2) :
    ∀ (fuel : Nat) (w : W) (buf : Bytes) (w' : W), wloop P fuel w buf = some w' →
      (∀ f ∈ w.frames, f.written ≤ P.sizeMax) →
      loopMeasure P.sizeMax (w.frames.map (·.written)) buf.length ≤ fuel → Q w →
      Q w' ∧ ∀ f ∈ w'.frames, f.written < P.sizeMax := by
  intro fuel
  induction fuel with
  | zero =>
    intro w buf w' _ _ hfuel
    simp [loopMeasure] at hfuel
  | succ fuel ih =>
    intro w buf w' h hle hfuel hq
    have hws : ∀ x ∈ w.frames.map (·.written), x ≤ P.sizeMax := by
      intro x hx; obtain ⟨f, hf, rfl⟩ := List.mem_map.mp hx; exact hle f hf
    have hle' := scanW_le P.sizeMax (w.frames.map (·.written)) buf.length
    have hbound := scanW_bound P.sizeMax (w.frames.map (·.written)) buf.length hws
    have hnone := scanW_none P.sizeMax (w.frames.map (·.written)) buf.length
    have hnonelt := scanW_none_lt P.sizeMax (w.frames.map (·.written)) buf.length
    have hsome := scanW_some P.sizeMax (w.frames.map (·.written)) buf.length
    simp only [wloop] at h
    generalize scanW P.sizeMax (w.frames.map (·.written)) buf.length = sc at *
    obtain ⟨tw, full⟩ := sc
    simp only at h hle' hbound hnone hnonelt hsome
    have hlenD : (wdata w buf tw).frames.length = w.frames.length := by
      have := congrArg List.length (wdata_written w buf tw)
      simpa using this
    have hleD : ∀ f ∈ (wdata w buf tw).frames, f.written ≤ P.sizeMax := by
      intro f hf
      have : f.written ∈ (wdata w buf tw).frames.map (·.written) := List.mem_map_of_mem hf
      rw [wdata_written] at this
      obtain ⟨x, hx, e⟩ := List.mem_map.mp this
      have := hbound x hx
      omega
    split at h
    · rename_i hexit
      simp only [Option.some.injEq] at h
      subst h
      simp only [Bool.and_eq_true, Option.isNone_iff_eq_none, List.isEmpty_iff] at hexit
      refine ⟨hq, ?_⟩
      intro f hf
      have := hnonelt hexit.1 f.written (List.mem_map_of_mem hf)
      omega
    · rename_i hexit
      cases full with
      | none =>
        simp only at h
        have htw : tw = buf.length := hnone rfl
        have hpos : 0 < tw := by
          rcases Nat.eq_zero_or_pos tw with h0 | h0
          · exfalso; apply hexit
            have : buf = [] := List.eq_nil_of_length_eq_zero (by omega)
            simp [this]
          · exact h0
        have hmeas : loopMeasure P.sizeMax ((wdata w buf tw).frames.map (·.written)) (buf.drop tw).length ≤ fuel := by
          have := loopMeasure_write P.sizeMax (w.frames.map (·.written)) ((wdata w buf tw).frames.map (·.written))
            buf.length tw (by simp [hlenD]) hpos hle'
          simp only [List.length_drop]; omega
        exact ih _ _ w' h hleD hmeas (hdata w buf tw hle' hq)
      | some u =>
        simp only at h
        obtain ⟨x, hx, hxge⟩ := hsome u rfl
        split at h
        · simp at h
        · rename_i w2 hclose'
          have hfull : ∀ f, (wdata w buf tw).frames[u]? = some f → f.written = P.sizeMax := by
            intro f hf
            have h1 : ((wdata w buf tw).frames.map (·.written))[u]? = some f.written := by
              simp [List.getElem?_map, hf]
            have h2 := hleD f (List.mem_of_getElem? hf)
            rw [wdata_written] at h1
            simp only [List.getElem?_map, hx, Option.map_some, Option.some.injEq] at h1
            omega
          have hq2 := hclose _ w2 u (hdata w buf tw hle' hq) hfull hclose'
          have hwr2 := wclose_written P _ w2 u hclose'
          have hle2 : ∀ f ∈ w2.frames, f.written ≤ P.sizeMax := by
            intro f hf
            have : f.written ∈ w2.frames.map (·.written) := List.mem_map_of_mem hf
            rw [hwr2] at this
            rcases List.mem_or_eq_of_mem_set this with hm | hm
            · obtain ⟨g, hg, e⟩ := List.mem_map.mp hm
              rw [← e]; exact hleD g hg
            · omega
          have hmeas : loopMeasure P.sizeMax (w2.frames.map (·.written)) (buf.drop tw).length ≤ fuel := by
            rw [hwr2, wdata_written]
            rcases Nat.eq_zero_or_pos tw with h0 | h0
            · subst h0
              have := nfull_set_zero P.sizeMax hM (w.frames.map (·.written)) u x hx (by omega)
              simp only [loopMeasure, List.length_set, List.drop_zero, Nat.add_zero, List.map_id'] at hfuel ⊢
              omega
            · have := loopMeasure_write P.sizeMax (w.frames.map (·.written))
                (((w.frames.map (·.written)).map (· + tw)).set u 0) buf.length tw (by simp) h0 hle'
              simp only [List.length_drop]; omega
          exact ih w2 _ w' h hle2 hmeas hq2

end LyModel.Lyb
