import LyModel.Lyb.ChunkLemmasB
/-!
Part C: the *event specification* of the chunk stream (DESIGN §5 C01, proof plan step 1).

`spec M ws ops` is the stream the printer must end up with, computed without patching: every meta record carries its
final size at the moment it is emitted, obtained by looking ahead in the operation sequence
(`bytesUntilClose k rest` = payload bytes still to come before the frame with `k` deeper open frames is closed).
Inner-chunk counts are erased (`Item.erase`): the data path of the reader never looks at them.

`fill pend out` is the writer's current output with the reserved records of the open frames filled with their final
sizes (`pendOf`).
-/
namespace LyModel.Lyb

def Item.erase : Item → Item
  | .seg bs => .seg bs
  | .hdr s _ => .hdr s 0

/-- payload bytes in `ops` before the stop that closes the frame which has `k` deeper frames open -/
def bytesUntilClose : Nat → List Op → Nat
  | _, [] => 0
  | k, .write bs :: r => bs.length + bytesUntilClose k r
  | k, .start :: r => bytesUntilClose (k + 1) r
  | 0, .stop :: _ => 0
  | k + 1, .stop :: r => bytesUntilClose k r

/-- one `lyb_write` call on the counters alone, emitting final record values; `fut k` = bytes to come after this call -/
def sloop (M : Nat) (fut : Nat → Nat) : Nat → List Nat → Bytes → List Item × List Nat
  | 0, ws, _ => ([], ws)
  | fuel + 1, ws, buf =>
    match scanW M ws buf.length with
    | (tw, full) =>
      if full.isNone && buf.isEmpty then ([], ws)
      else
        let sg : List Item := if tw > 0 then [.seg (buf.take tw)] else []
        let ws1 := if tw > 0 then ws.map (· + tw) else ws
        match full with
        | none => (sg ++ (sloop M fut fuel ws1 (buf.drop tw)).1, (sloop M fut fuel ws1 (buf.drop tw)).2)
        | some u =>
          (sg ++ .hdr (min M ((buf.drop tw).length + fut u)) 0 :: (sloop M fut fuel (ws1.set u 0) (buf.drop tw)).1,
           (sloop M fut fuel (ws1.set u 0) (buf.drop tw)).2)

def spec (M : Nat) : List Nat → List Op → List Item
  | _, [] => []
  | ws, .start :: r => .hdr (min M (bytesUntilClose 0 r)) 0 :: spec M (0 :: ws) r
  | ws, .stop :: r => spec M ws.tail r
  | ws, .write bs :: r =>
    (sloop M (fun k => bytesUntilClose k r) (loopFuel bs.length ws.length) ws bs).1
      ++ spec M (sloop M (fun k => bytesUntilClose k r) (loopFuel bs.length ws.length) ws bs).2 r

/-- final sizes of the reserved records of the open frames; `rem k` = bytes still to come for the frame at depth `k` -/
def pendOf (M : Nat) (rem : Nat → Nat) : Nat → List WFrame → List (Nat × Nat)
  | _, [] => []
  | k, f :: fs => (f.pos, min M (f.written + rem k)) :: pendOf M rem (k + 1) fs

def fill (pend : List (Nat × Nat)) (out : List Item) : List Item :=
  pend.foldr (fun ps acc => acc.set ps.1 (.hdr ps.2 0)) (out.map Item.erase)

@[simp] theorem fill_nil (out : List Item) : fill [] out = out.map Item.erase := rfl

@[simp] theorem fill_cons (ps : Nat × Nat) (pend : List (Nat × Nat)) (out : List Item) :
    fill (ps :: pend) out = (fill pend out).set ps.1 (.hdr ps.2 0) := rfl

@[simp] theorem length_fill (pend : List (Nat × Nat)) (out : List Item) : (fill pend out).length = out.length := by
  induction pend with
  | nil => simp
  | cons ps pend ih => simp [ih]

theorem fill_append_single (pend : List (Nat × Nat)) (out : List Item) (y : Item)
    (h : ∀ ps ∈ pend, ps.1 < out.length) : fill pend (out ++ [y]) = fill pend out ++ [y.erase] := by
  induction pend with
  | nil => simp
  | cons ps pend ih =>
    have h1 := ih (fun q hq => h q (List.mem_cons_of_mem _ hq))
    have h2 := h ps List.mem_cons_self
    simp only [fill_cons, h1]
    rw [List.set_append_left]
    simpa using h2

theorem fill_set_notin (pend : List (Nat × Nat)) (out : List Item) (p : Nat) (y : Item)
    (h : ∀ ps ∈ pend, ps.1 ≠ p) : fill pend (out.set p y) = (fill pend out).set p y.erase := by
  induction pend with
  | nil => simp [List.map_set]
  | cons ps pend ih =>
    have h1 := ih (fun q hq => h q (List.mem_cons_of_mem _ hq))
    have h2 := h ps List.mem_cons_self
    simp only [fill_cons, h1]
    rw [List.set_comm _ _ (Ne.symm h2)]

theorem fill_middle (A B : List (Nat × Nat)) (p s : Nat) (out : List Item)
    (h : ∀ ps ∈ A, ps.1 ≠ p) : fill (A ++ (p, s) :: B) out = (fill (A ++ B) out).set p (.hdr s 0) := by
  induction A with
  | nil => simp
  | cons a A ih =>
    have h1 := ih (fun q hq => h q (List.mem_cons_of_mem _ hq))
    have h2 := h a List.mem_cons_self
    simp only [List.cons_append, fill_cons, h1]
    rw [List.set_comm _ _ (Ne.symm h2)]

end LyModel.Lyb
