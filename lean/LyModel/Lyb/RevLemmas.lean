import LyModel.Lyb.Rev
namespace LyModel.Lyb
open LyModel.Generated

theorem digit_toNat (n : Nat) : (digit n).toNat = 48 + n % 10 := by
  simp only [digit, UInt8.toNat_ofNat']
  omega

theorem atoiAux_dec2 (n acc : Nat) (rest : Bytes) (hn : n < 100)
    (hr : ∀ b r, rest = b :: r → ¬ (48 ≤ b.toNat ∧ b.toNat ≤ 57)) :
    atoiAux (dec2 n ++ rest) acc = acc * 100 + n := by
  simp only [dec2, List.cons_append, List.nil_append, atoiAux, digit_toNat]
  have h1 : 48 ≤ 48 + n / 10 % 10 ∧ 48 + n / 10 % 10 ≤ 57 := by omega
  have h2 : 48 ≤ 48 + n % 10 ∧ 48 + n % 10 ≤ 57 := by omega
  simp only [h1, h2, and_self, ↓reduceIte]
  cases rest with
  | nil => simp only [atoiAux]; omega
  | cons b r =>
    have := hr b r rfl
    simp only [atoiAux, this, ↓reduceIte]; omega

theorem atoiAux_dec4 (n acc : Nat) (rest : Bytes) (hn : n < 10000)
    (hr : ∀ b r, rest = b :: r → ¬ (48 ≤ b.toNat ∧ b.toNat ≤ 57)) :
    atoiAux (dec4 n ++ rest) acc = acc * 10000 + n := by
  simp only [dec4, List.cons_append, List.nil_append, atoiAux, digit_toNat]
  have h1 : 48 ≤ 48 + n / 1000 % 10 ∧ 48 + n / 1000 % 10 ≤ 57 := by omega
  have h2 : 48 ≤ 48 + n / 100 % 10 ∧ 48 + n / 100 % 10 ≤ 57 := by omega
  have h3 : 48 ≤ 48 + n / 10 % 10 ∧ 48 + n / 10 % 10 ≤ 57 := by omega
  have h4 : 48 ≤ 48 + n % 10 ∧ 48 + n % 10 ≤ 57 := by omega
  simp only [h1, h2, h3, h4, and_self, ↓reduceIte]
  cases rest with
  | nil => simp only [atoiAux]; omega
  | cons b r =>
    have := hr b r rfl
    simp only [atoiAux, this, ↓reduceIte]; omega

theorem atoi_date (y m d : Nat) (hy : y < 10000) (hm : m < 100) (hd : d < 100) :
    atoi (dateStr y m d) = y ∧ atoi ((dateStr y m d).drop 5) = m ∧ atoi ((dateStr y m d).drop 8) = d := by
  have dash : ∀ (t : Bytes) b r, (45 : UInt8) :: t = b :: r → ¬ (48 ≤ b.toNat ∧ b.toNat ≤ 57) := by
    intro t b r e
    simp only [List.cons.injEq] at e
    rw [← e.1]; decide
  refine ⟨?_, ?_, ?_⟩
  · have := atoiAux_dec4 y 0 ([45] ++ dec2 m ++ [45] ++ dec2 d) hy (by
      intro b r e; exact dash _ b r (by simpa using e))
    simpa [atoi, dateStr, List.append_assoc] using this
  · have e : (dateStr y m d).drop 5 = dec2 m ++ ([45] ++ dec2 d) := by
      simp [dateStr, dec4, dec2]
    rw [e]
    have := atoiAux_dec2 m 0 ([45] ++ dec2 d) hm (by intro b r e; exact dash _ b r (by simpa using e))
    simpa [atoi] using this
  · have e : (dateStr y m d).drop 8 = dec2 d ++ [] := by
      simp [dateStr, dec4, dec2]
    rw [e]
    have := atoiAux_dec2 d 0 [] hd (by intro b r e; simp at e)
    simpa [atoi] using this

/-- the three fields come back from the packed word -/
theorem unpack_fields (y m d : Nat) (hy : y < 128) (hm : m < 16) (hd : d < 32) :
    let w := ((y * 2 ^ LYB_REV_YEAR_SHIFT) ||| (m <<< LYB_REV_MONTH_SHIFT)) % 65536
    let v := (w ||| d) % 65536
    v = y * 512 + m * 32 + d ∧
    (v &&& LYB_REV_YEAR_MASK) >>> LYB_REV_YEAR_SHIFT = y ∧
    (v &&& LYB_REV_MONTH_MASK) >>> LYB_REV_MONTH_SHIFT = m ∧ v &&& LYB_REV_DAY_MASK = d := by
  intro w v
  have hsy : LYB_REV_YEAR_SHIFT = 9 := rfl
  have hsm : LYB_REV_MONTH_SHIFT = 5 := rfl
  have e1 : (y * 2 ^ 9) ||| (m <<< 5) = y * 512 + m * 32 := by
    have : y * 2 ^ 9 = (y * 16) <<< 5 := by rw [Nat.shiftLeft_eq]; omega
    rw [this, ← Nat.shiftLeft_or_distrib]
    have : (y * 16) ||| m = y * 16 + m := by
      have := Nat.shiftLeft_add_eq_or_of_lt (show m < 2 ^ 4 by omega) y
      rw [Nat.shiftLeft_eq] at this
      rw [← this]
    rw [this, Nat.shiftLeft_eq]; omega
  have hw : w = y * 512 + m * 32 := by
    simp only [w, hsy, hsm, e1]; omega
  have hv : v = y * 512 + m * 32 + d := by
    have : (y * 512 + m * 32) ||| d = y * 512 + m * 32 + d := by
      have := Nat.shiftLeft_add_eq_or_of_lt (show d < 2 ^ 5 by omega) (y * 16 + m)
      rw [Nat.shiftLeft_eq] at this
      have e : (y * 16 + m) * 2 ^ 5 = y * 512 + m * 32 := by omega
      rw [e] at this
      exact this.symm
    simp only [v, hw, this]; omega
  refine ⟨hv, ?_, ?_, ?_⟩
  · rw [Nat.shiftRight_and_distrib, hsy]
    have : LYB_REV_YEAR_MASK >>> 9 = 2 ^ 7 - 1 := by decide
    rw [this, Nat.and_two_pow_sub_one_eq_mod, Nat.shiftRight_eq_div_pow, hv]; omega
  · rw [Nat.shiftRight_and_distrib, hsm]
    have : LYB_REV_MONTH_MASK >>> 5 = 2 ^ 4 - 1 := by decide
    rw [this, Nat.and_two_pow_sub_one_eq_mod, Nat.shiftRight_eq_div_pow, hv]; omega
  · have : LYB_REV_DAY_MASK = 2 ^ 5 - 1 := by decide
    rw [this, Nat.and_two_pow_sub_one_eq_mod, hv]; omega

end LyModel.Lyb
