import LyModel.Lyb.ChunkWriter2
import LyModel.Lyb.ChunkReader2
/-!
The chunk layer as a *stepwise* interface for the tree-level parser (which is driven by the data it reads, not by a given
shape): `At P ops r` — the reader state `r` stands in the image at the point where the printer calls `ops` remain.
Each primitive (`rstart`, `rstop`, `rread`) moves it over one call, and `LYB_LAST_SIBLING.written = 0` holds exactly when no
payload byte is left in the innermost frame.  Built from the lemmas behind `lyb_chunk_roundtrip`
(`wrun_spec_init`, `rloop_spec`, `RelR`): nothing of the chunk proof is repeated.
-/
namespace LyModel.Lyb

theorem scanW_none_lt (M : Nat) (ws : List Nat) (c : Nat) (h : (scanW M ws c).2 = none) : ∀ w ∈ ws, w + c < M := by
  induction ws with
  | nil => intro w hw; simp at hw
  | cons w ws ih =>
    simp only [scanW] at h
    split at h
    · simp at h
    · rename_i hlt
      have h1 : (scanW M ws c).2 = none := by simpa using h
      have h2 := scanW_none M ws c h1
      intro x hx
      rcases List.mem_cons.mp hx with rfl | hx
      · omega
      · exact ih h1 x hx

/-- after a `lyb_write` call no frame stands at `LYB_SIZE_MAX`: full chunks are closed eagerly -/
theorem sloop_lt (M : Nat) (hM : 0 < M) (fut : Nat → Nat) :
    ∀ (fuel : Nat) (ws : List Nat) (buf : Bytes), (∀ w ∈ ws, w ≤ M) → loopMeasure M ws buf.length ≤ fuel →
      ∀ w ∈ (sloop M fut fuel ws buf).2, w < M := by
  intro fuel
  induction fuel with
  | zero => intro ws buf _ hf; simp [loopMeasure] at hf
  | succ fuel ih =>
    intro ws buf hws hfuel
    have hle := scanW_le M ws buf.length
    have hbound := scanW_bound M ws buf.length hws
    have hnone := scanW_none M ws buf.length
    have hnlt := scanW_none_lt M ws buf.length
    have hsome := scanW_some M ws buf.length
    simp only [sloop]
    generalize scanW M ws buf.length = sc at *
    obtain ⟨tw, full⟩ := sc
    simp only at hle hbound hnone hsome hnlt ⊢
    by_cases hexit : (full.isNone && buf.isEmpty) = true
    · simp only [hexit, ↓reduceIte]
      simp only [Bool.and_eq_true, List.isEmpty_iff] at hexit
      obtain ⟨hf, hb⟩ := hexit
      have : full = none := by cases full <;> simp_all
      intro w hw
      have := hnlt this w hw
      omega
    · simp only [hexit, Bool.false_eq_true, ↓reduceIte]
      cases full with
      | none =>
        simp only
        have htw : tw = buf.length := hnone rfl
        have hpos : 0 < tw := by
          rcases Nat.eq_zero_or_pos tw with h0 | h0
          · exfalso; apply hexit
            have : buf = [] := List.eq_nil_of_length_eq_zero (by omega)
            simp [this]
          · exact h0
        have hlen1 : (if tw > 0 then ws.map (· + tw) else ws).length = ws.length := by split <;> simp
        apply ih
        · simp only [hpos, ↓reduceIte, List.mem_map]
          rintro w ⟨x, hx, rfl⟩
          exact hbound x hx
        · have := loopMeasure_write M ws (if tw > 0 then ws.map (· + tw) else ws) buf.length tw hlen1 hpos hle
          simp only [List.length_drop]; omega
      | some u =>
        simp only
        obtain ⟨x, hx, hxge⟩ := hsome u rfl
        have hlen1 : (if tw > 0 then ws.map (· + tw) else ws).length = ws.length := by split <;> simp
        have hws1 : ∀ w ∈ (if tw > 0 then ws.map (· + tw) else ws), w ≤ M := by
          split
          · simp only [List.mem_map]
            rintro w ⟨y, hy, rfl⟩
            exact hbound y hy
          · exact hws
        apply ih
        · intro w hw
          rcases List.mem_or_eq_of_mem_set hw with h | h
          · exact hws1 w h
          · omega
        · rcases Nat.eq_zero_or_pos tw with h0 | h0
          · subst h0
            have := nfull_set_zero M hM ws u x hx (by omega)
            simp only [Nat.lt_irrefl, ↓reduceIte, loopMeasure, List.length_set, List.drop_zero] at hfuel ⊢
            omega
          · have := loopMeasure_write M ws ((if tw > 0 then ws.map (· + tw) else ws).set u 0) buf.length tw
              (by simp [hlen1]) h0 hle
            simp only [List.length_drop]; omega

/-- the reader stands where the printer calls `ops` remain, with `d` frames open -/
def At (P : Params) (d : Nat) (ops : List Op) (r : R) : Prop :=
  ∃ (ws : List Nat) (items : List Item), r.frames.length = d ∧ r.inp = serialize P items ∧
    RelR P.sizeMax (fun k => bytesUntilClose k ops) 0 r.frames ws ∧ (∀ w ∈ ws, w < P.sizeMax) ∧
    wellNestedFrom ws.length ops = true ∧ items.map Item.erase = spec P.sizeMax ws ops

theorem at_init (P : Params) (hP : P.Ok) (ops : List Op) (wf : WellNested ops) (img : Bytes)
    (hw : writeAll P ops = some img) : At P 0 ops { inp := img, frames := [] } := by
  simp only [writeAll] at hw
  split at hw
  · simp at hw
  · rename_i w' hrun
    simp only [Option.some.injEq] at hw
    subst hw
    exact ⟨[], w'.out, rfl, rfl, by simp [RelR], by simp, wf, wrun_spec_init P hP.size_pos ops w' hrun wf⟩

theorem at_start (P : Params) (hP : P.Ok) (d : Nat) (ops : List Op) (r : R) (h : At P d (.start :: ops) r) :
    At P (d + 1) ops (rstart P r) := by
  obtain ⟨ws, items, hd, hinp, hrel, hws, wf, hitems⟩ := h
  simp only [spec] at hitems
  cases items with
  | nil => simp at hitems
  | cons it items1 =>
    simp only [List.map_cons, List.cons.injEq] at hitems
    obtain ⟨i, hit⟩ := erase_eq_hdr hitems.1
    subst hit
    have hmeta := readMeta_ser P hP (min P.sizeMax (bytesUntilClose 0 ops)) i (Nat.min_le_left _ _) (serialize P items1)
    have e : rstart P r = R.mk (serialize P items1)
        (RFrame.mk (min P.sizeMax (bytesUntilClose 0 ops)) (min P.sizeMax (bytesUntilClose 0 ops) == P.sizeMax)
          (i % (P.inMax + 1)) :: r.frames) := by
      simp only [rstart, hinp, serialize_cons, hmeta]
    rw [e]
    refine ⟨0 :: ws, items1, by simp [hd], rfl, ?_, ?_, by simpa [wellNestedFrom] using wf, hitems.2⟩
    · simp only [RelR, Nat.zero_add, Nat.sub_zero, true_and]
      refine ⟨by simp [BEq.beq], ?_⟩
      rw [RelR_shift]
      exact hrel
    · intro w hw
      rcases List.mem_cons.mp hw with rfl | hw
      · exact hP.size_pos
      · exact hws w hw

theorem at_stop (P : Params) (d : Nat) (ops : List Op) (r : R) (h : At P (d + 1) (.stop :: ops) r) :
    ∃ r', rstop r = some r' ∧ At P d ops r' := by
  obtain ⟨ws, items, hd, hinp, hrel, hws, wf, hitems⟩ := h
  cases ws with
  | nil => simp [wellNestedFrom] at wf
  | cons w ws' =>
    cases hfr : r.frames with
    | nil => rw [hfr] at hrel; simp [RelR] at hrel
    | cons f fs =>
      rw [hfr] at hrel
      simp only [RelR] at hrel
      obtain ⟨h1, _, h3⟩ := hrel
      have hw := hws w List.mem_cons_self
      have hf0 : f.written = 0 := by
        rw [h1]; simp only [bytesUntilClose]; omega
      refine ⟨{ r with frames := fs }, by simp [rstop, hfr, hf0], ws', items, by simpa [hfr] using hd, hinp, ?_,
        fun x hx => hws x (List.mem_cons_of_mem _ hx), by simpa [wellNestedFrom] using wf, by simpa [spec] using hitems⟩
      rw [Nat.zero_add, RelR_shift] at h3
      exact h3

theorem at_read (P : Params) (hP : P.Ok) (d : Nat) (bs : Bytes) (ops : List Op) (r : R) (h : At P d (.write bs :: ops) r) :
    ∃ r', rread P r bs.length = (r', bs) ∧ At P d ops r' := by
  obtain ⟨ws, items, hd, hinp, hrel, hws, wf, hitems⟩ := h
  simp only [spec] at hitems
  have hws' : ∀ w ∈ ws, w ≤ P.sizeMax := fun w hw => Nat.le_of_lt (hws w hw)
  have hlen := RelR_length hrel
  have hmeas : loopMeasure P.sizeMax ws bs.length ≤ loopFuel bs.length ws.length := loopMeasure_le_fuel P.sizeMax ws bs.length
  obtain ⟨items', rs', g1, g2, g3, _, g5⟩ :=
    rloop_spec P hP (fun k => bytesUntilClose k ops) (loopFuel bs.length ws.length) r.frames ws bs [] items _
      hrel hws' hmeas hitems
  have hlt := sloop_lt P.sizeMax hP.size_pos (fun k => bytesUntilClose k ops) (loopFuel bs.length ws.length) ws bs hws' hmeas
  refine ⟨{ inp := serialize P items', frames := rs' }, ?_, _, items', by rw [← hd, hlen, ← g5]; exact RelR_length g3, rfl, g3, hlt,
    by simpa [wellNestedFrom, g5] using wf, g2⟩
  have : r = { inp := serialize P items, frames := r.frames } := by cases r; simp_all
  rw [this]
  simp only [rread, hlen]
  simpa using g1

/-- `LYB_LAST_SIBLING(lybctx).written` is zero exactly when the innermost frame has no payload byte left -/
theorem at_written (P : Params) (d : Nat) (ops : List Op) (r : R) (h : At P (d + 1) ops r) :
    (match r.frames with | f :: _ => f.written | [] => 0) = 0 ↔ bytesUntilClose 0 ops = 0 := by
  obtain ⟨ws, items, hd, hinp, hrel, hws, wf, hitems⟩ := h
  cases hfr : r.frames with
  | nil => rw [hfr] at hd; simp at hd
  | cons f fs =>
  rw [hfr] at hrel
  simp only
  cases ws with
  | nil => simp [RelR] at hrel
  | cons w ws' =>
    simp only [RelR] at hrel
    have hw := hws w List.mem_cons_self
    rw [hrel.1]
    omega

end LyModel.Lyb
