import LyModel.Lyb.ChunkCounts3
/-! Part 4: the invariant along the writer's operations. -/
namespace LyModel.Lyb

/-- the invariant depends on the deeper frames only through their positions and inner counts -/
theorem top_frames {P : Params} {n0 : Nat} {out : List Item} {fs : List WFrame} {f0 : WFrame} {bs : List Nat}
    (h : TopInv P n0 out fs f0 bs) (fs' : List WFrame)
    (hd : ∀ f ∈ fs', f.inner ≤ P.inMax ∧ f.pos ≠ f0.pos ∧ (∀ b ∈ bs, b ≠ f.pos) ∧ ∃ a b, out[f.pos]? = some (.hdr a b)) :
    TopInv P n0 out fs' f0 bs := by
  refine ⟨h.hist, h.bounds_lt, h.hdr0, h.seg, h.cnt, ?_, fun f hf => (hd f hf).2, h.head⟩
  intro f hf
  rcases List.mem_append.mp hf with hf | hf
  · exact (hd f hf).1
  · exact h.inner_le f (List.mem_append_right _ hf)

/-- the state-level form: the frame stack is `fs ++ [f0]` -/
def TopW (P : Params) (n0 : Nat) (w : W) (bs : List Nat) : Prop :=
  ∃ fs f0, w.frames = fs ++ [f0] ∧ TopInv P n0 w.out fs f0 bs

theorem topW_wdata {P : Params} {n0 : Nat} {w : W} {bs : List Nat} (buf : Bytes) (tw : Nat) (htw : tw ≤ buf.length)
    (h : TopW P n0 w bs) : TopW P n0 (wdata w buf tw) bs := by
  obtain ⟨fs, f0, hfr, inv⟩ := h
  by_cases h0 : tw > 0
  · simp only [wdata, h0, ↓reduceIte]
    refine ⟨addWritten tw fs, { f0 with written := f0.written + tw }, by simp [hfr, addWritten], ?_⟩
    apply top_append _ inv
    · rfl
    · simp [addWritten, List.map_map, Function.comp_def]
    · simp [segBytes]; omega
    · simp [hdrCount]
    · intro f hf
      rcases List.mem_append.mp hf with hf | hf
      · simp only [addWritten, List.mem_map] at hf
        obtain ⟨g, hg, rfl⟩ := hf
        exact inv.inner_le g (List.mem_append_left _ hg)
      · simp only [List.mem_singleton] at hf; subst hf
        exact inv.inner_le f0 (by simp)
  · simp only [wdata, h0, ↓reduceIte]
    exact ⟨fs, f0, hfr, inv⟩

theorem bump1_le {P : Params} {f : WFrame} (h1 : f.inner ≤ P.inMax) (h2 : f.inner ≠ P.inMax) :
    (bump1 f).inner ≤ P.inMax := by
  simp only [bump1]; omega

/-- a meta record is appended for a new or continued deeper frame `g` (at the end of the output); the frames `keep`
stay as they are, the frames `outer` and `f0` count it -/
theorem top_new_record {P : Params} {n0 : Nat} {out : List Item} {fs : List WFrame} {f0 : WFrame} {bs : List Nat}
    (inv : TopInv P n0 out fs f0 bs) (keep outer : List WFrame) (hk : ∀ f ∈ keep, f ∈ fs) (ho : ∀ f ∈ outer, f ∈ fs)
    (hne : ∀ f ∈ outer ++ [f0], f.inner ≠ P.inMax) (g : WFrame) (hg : g.pos = out.length) (hgi : g.inner = 0) :
    TopInv P n0 (out ++ [.hdr 0 0]) (keep ++ g :: outer.map bump1) (bump1 f0) bs := by
  obtain ⟨a, b, hab⟩ := inv.hdr0
  have hlt := lt_length_of_getElem? hab
  have h1 : TopInv P n0 (out ++ [.hdr 0 0]) fs (bump1 f0) bs := by
    apply top_append _ inv fs (bump1 f0) rfl rfl
    · simp [bump1, segBytes]
    · simp [bump1, hdrCount]
    · intro f hf
      rcases List.mem_append.mp hf with hf | hf
      · exact inv.inner_le f (List.mem_append_left _ hf)
      · simp only [List.mem_singleton] at hf; subst hf
        exact bump1_le (inv.inner_le f0 (by simp)) (hne f0 (by simp))
  apply top_frames h1
  intro f hf
  have old : ∀ x ∈ fs, x.pos ≠ f0.pos ∧ (∀ b ∈ bs, b ≠ x.pos) ∧ ∃ a b, (out ++ [Item.hdr 0 0])[x.pos]? = some (.hdr a b) :=
    fun x hx => h1.deeper x hx
  rcases List.mem_append.mp hf with hf | hf
  · exact ⟨inv.inner_le f (List.mem_append_left _ (hk f hf)), old f (hk f hf)⟩
  · rcases List.mem_cons.mp hf with rfl | hf
    · refine ⟨by rw [hgi]; exact Nat.zero_le _, ?_, ?_, 0, 0, ?_⟩
      · simp only [bump1]; omega
      · intro x hx; have := inv.bounds_lt x hx; omega
      · rw [hg]; simp
    · obtain ⟨x, hx, rfl⟩ := List.mem_map.mp hf
      refine ⟨bump1_le (inv.inner_le x (List.mem_append_left _ (ho x hx))) (hne x (List.mem_append_left _ hx)), ?_⟩
      exact old x (ho x hx)

theorem topW_wstart {P : Params} {n0 : Nat} {w w' : W} {bs : List Nat} (h : TopW P n0 w bs) (hs : wstart P w = some w') :
    TopW P n0 w' bs := by
  obtain ⟨fs, f0, hfr, inv⟩ := h
  simp only [wstart] at hs
  split at hs
  · simp at hs
  · rename_i res hb
    simp only [Option.some.injEq] at hs
    subst hs
    obtain ⟨e, hne⟩ := bumpInner_eq_map P.inMax _ _ hb
    rw [hfr] at e hne
    refine ⟨{ written := 0, pos := w.out.length, inner := 0 } :: fs.map bump1, bump1 f0, by simp [e], ?_⟩
    have := top_new_record inv [] fs (by simp) (fun f hf => hf) hne
      { written := 0, pos := w.out.length, inner := 0 } rfl rfl
    simpa using this

theorem topW_wstop_deeper {P : Params} {n0 : Nat} {w w' : W} {bs : List Nat} (h : TopW P n0 w bs) (hs : wstop w = some w')
    (hdeep : 2 ≤ w.frames.length) : TopW P n0 w' bs := by
  obtain ⟨fs, f0, hfr, inv⟩ := h
  cases fs with
  | nil => simp [hfr] at hdeep
  | cons g fs' =>
    simp only [wstop, hfr, List.cons_append, Option.some.injEq] at hs
    subst hs
    obtain ⟨d1, d2, a, b, d3⟩ := inv.deeper g (by simp)
    refine ⟨fs', f0, rfl, ?_⟩
    have := top_set g.pos a b g.written g.inner inv d3 d1 d2
    apply top_frames this
    intro f hf
    exact ⟨this.inner_le f (by simp [hf]), this.deeper f (by simp [hf])⟩

/-- closing a full chunk: of a deeper frame (`bs` stays) or of `f0` itself (`f0.pos` joins the history) -/
theorem topW_wclose {P : Params} {n0 : Nat} {w1 w2 : W} {bs : List Nat} (u : Nat) (h : TopW P n0 w1 bs)
    (hfull : ∀ f, w1.frames[u]? = some f → f.written = P.sizeMax) (hc : wclose P w1 u = some w2) :
    ∃ bs', TopW P n0 w2 bs' := by
  obtain ⟨fs, f0, hfr, inv⟩ := h
  simp only [wclose] at hc
  split at hc
  · simp at hc
  · rename_i f hu
    split at hc
    · simp at hc
    · rename_i outer hb
      simp only [Option.some.injEq] at hc
      subst hc
      obtain ⟨e, hne⟩ := bumpInner_eq_map P.inMax _ _ hb
      have hulen : u < w1.frames.length := lt_length_of_getElem? hu
      rw [hfr] at hu hulen e hne ⊢
      simp only [List.length_append, List.length_singleton] at hulen
      by_cases hlt : u < fs.length
      · -- a deeper frame
        have hf : fs[u]? = some f := by rw [← hu, List.getElem?_append_left hlt]
        have hfmem : f ∈ fs := List.mem_of_getElem? hf
        obtain ⟨d1, d2, a, b, d3⟩ := inv.deeper f hfmem
        have hdrop : (fs ++ [f0]).drop (u + 1) = fs.drop (u + 1) ++ [f0] :=
          List.drop_append_of_le_length (by omega)
        have htake : (fs ++ [f0]).take u = fs.take u := List.take_append_of_le_length (by omega)
        rw [hdrop] at e hne
        refine ⟨bs, fs.take u ++ { written := 0, pos := (patch w1.out f).length, inner := 0 } :: (fs.drop (u + 1)).map bump1,
          bump1 f0, by simp [e, htake], ?_⟩
        have hset := top_set f.pos a b f.written f.inner inv d3 d1 d2
        exact top_new_record hset (fs.take u) (fs.drop (u + 1)) (fun x hx => List.mem_of_mem_take hx)
          (fun x hx => List.mem_of_mem_drop hx) hne _ rfl rfl
      · -- the outermost frame itself
        have hueq : u = fs.length := by omega
        subst hueq
        have hf : f = f0 := by
          rw [List.getElem?_append_right (Nat.le_refl _)] at hu
          simpa using hu.symm
        subst hf
        have hdrop : (fs ++ [f]).drop (fs.length + 1) = [] := by simp
        rw [hdrop] at e
        simp only [List.map_nil] at e
        subst e
        refine ⟨bs ++ [f.pos], fs, { written := 0, pos := (patch w1.out f).length, inner := 0 }, by simp, ?_⟩
        exact top_rollover inv (hfull f (by rw [hfr]; exact hu))

end LyModel.Lyb
