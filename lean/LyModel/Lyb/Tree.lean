import LyModel.Lyb.Chunk
import LyModel.Lyb.Hash
import LyModel.Lyb.Rev
import LyModel.Tree.DTree
import LyModel.Val.Model
import LyModel.Generated.LybTree
/-!
# LYB, tree level — model of the node walk of `printer_lyb.c` and `parser_lyb.c`

Printer: `lyb_print_data`, `lyb_print_magic_number`, `lyb_print_header`, `lyb_print_data_models`, `lyb_print_model`,
`lyb_print_siblings`, `lyb_print_node`, `lyb_print_lyb_type`, `lyb_print_schema_hash`, `lyb_print_node_header`,
`lyb_print_metadata` (count byte and the with-defaults annotation), `lyb_print_node_inner|leaf|list|leaflist`,
`lyb_print_term_value`, `lyb_write_string`, `lyb_write_number`.
Parser: `lyd_parse_lyb`, `lyb_parse_magic_number`, `lyb_parse_header`, `lyb_parse_data_models`, `lyb_parse_model`,
`lyb_read_model`, `lyb_parse_siblings`, `lyb_parse_node`, `lyb_parse_schema_hash` + `lyb_read_hashes`,
`lyb_parse_node_header`, `lyb_parse_metadata`, `lyb_parse_node_inner|leaf|list|leaflist`, `lyb_create_term`,
`lyb_read_term_value`, `lyb_read_number`, `lyb_read_string` — with `LYD_PARSE_ONLY | LYD_PARSE_STRICT | LYD_PARSE_ORDERED`
(nodes are linked in stream order, `LYD_INSERT_NODE_LAST`).

The printer model produces the sequence of `lyb_write_start_siblings` / `lyb_write` / `lyb_write_stop_siblings` calls
(`Lyb.Op`); the byte image is `Lyb.writeAll` of it (the chunk layer, `Lyb/Chunk.lean`).  The parser model works on
the byte image through `Lyb.rread / rstart / rstop` and decides every loop the way the C code does, by the `written`
counter of the innermost frame.  Schema hashes are `Lyb/Hash.lean` (`hashSiblings`, `printSeq`, `parseSchemaHash`),
term values `Val.lyb` / `Val.unlyb`, the revision word `Lyb/Rev.lean`.  Field widths, node types and the
fixed/variable decision per type come from `Generated/LybTree.lean` (read off the C source, printer and parser separately).

Outside the model (the functions return `none`): opaque nodes, anydata/anyxml, extension data, metadata other than the
with-defaults annotation the printer adds itself, modules with features, more than one data module.  CORE LEAN ONLY.
-/
namespace LyModel.LybTree
open LyModel LyModel.Lyb LyModel.Tree LyModel.Generated LyModel.Generated.LybTree

/-! ## schema view -/

/-- type of a term node: one of the types `Val` models, or `empty` -/
inductive LTy where
  | val (t : Val.Ty)
  | empty
  deriving Repr

inductive LKind where
  | container | list | leaflist | leaf
  deriving Repr, DecidableEq

/-- an annotation (`md:annotation`) of a module in the context -/
structure Annot where
  modName : Bytes
  rev : Option Bytes
  name : Bytes
  ty : LTy
  deriving Repr

/-- how the dump names an instance of the annotation: `module:name` -/
def Annot.key (a : Annot) : String := stringOfBytes (a.modName ++ [58] ++ a.name)

/-- what the LYB walk reads from the compiled schema of one module -/
structure LSchema where
  modName : Bytes
  /-- `mod->revision` -/
  rev : Option Bytes
  /-- node type by schema id (`none`: not a data node — choice, case, unknown id) -/
  kind : Nat → Option LKind
  name : Nat → Bytes
  ty : Nat → LTy
  /-- `lysc_node_leaf.dflt` / `lysc_node_leaflist.dflts`, canonical -/
  dflts : Nat → List Bytes
  /-- `lys_getnext` order of the data children of a node (`none`: the top level of the module); choices and cases transparent -/
  sibs : Option Nat → List Nat
  /-- revision of `ietf-netconf-with-defaults` when the context has it (`ly_ctx_get_module_latest`) -/
  wd : Option (Option Bytes)
  /-- the annotations metadata instances of the forest may use -/
  annots : List Annot := []

/-- "ietf-netconf-with-defaults" -/
def wdModName : Bytes := [105, 101, 116, 102, 45, 110, 101, 116, 99, 111, 110, 102, 45, 119, 105, 116, 104, 45, 100, 101, 102, 97, 117, 108, 116, 115]
/-- "default" -/
def wdAnnotName : Bytes := [100, 101, 102, 97, 117, 108, 116]
/-- "true" -/
def wdAnnotVal : Bytes := [116, 114, 117, 101]
/-- "false" -/
def wdAnnotFalse : Bytes := [102, 97, 108, 115, 101]
/-- `ietf-netconf-with-defaults:default` (boolean) -/
def wdAnnot (w : Option Bytes) : Annot := { modName := wdModName, rev := w, name := wdAnnotName, ty := .val .bool }
/-- the instance `default = true` as the dump shows it -/
def wdMeta : Meta := ((wdAnnot none).key, wdAnnotVal)

/-- every annotation the context can create: the module's own and, when loaded, with-defaults' -/
def LSchema.annotsEff (S : LSchema) : List Annot :=
  match S.wd with
  | some w => wdAnnot w :: S.annots
  | none => S.annots

/-- the plug-in that serves the type (`.name` in the plug-in record) -/
def LTy.plugin : LTy → String
  | .val (.int t _) => t.name
  | .val (.dec64 _ _) => "decimal64"
  | .val .bool => "boolean"
  | .val (.enum _) => "enumeration"
  | .val (.bits _) => "bits"
  | .val (.str _) => "string"
  | .empty => "empty"

/-- `plugin->lyb_data_len`: `some n` fixed size, `none` variable (negative) -/
def LTy.lybLen (ty : LTy) : Option Nat :=
  match pluginLybDataLen.lookup ty.plugin with
  | some n => if n < 0 then none else some n.toNat
  | none => none

/-- `plugin->print(…, LY_VALUE_LYB, …)` of the value whose canonical form is `canon` -/
def encVal (ty : LTy) (canon : Bytes) : Option Bytes :=
  match ty with
  | .empty => if canon.isEmpty then some [] else none
  | .val t => match Val.store t LYD_HINT_DATA canon with
    | .ok v => some (Val.lyb t v)
    | .error _ => none

/-- `lyd_parser_create_term(…, LY_VALUE_LYB, …)`: store the LYB bytes, canonical form of the result -/
def decVal (ty : LTy) (b : Bytes) : Option Bytes :=
  match ty with
  | .empty => if b.isEmpty then some [] else none
  | .val t => match Val.unlyb t b with
    | .ok v => some (Val.canon t v)
    | .error _ => none

/-- the cached hashes of one sibling set (`lyb_cache_module_hash` fills `lysc_node.hash[]`): row `s` holds
`lyb_get_hash(sibling s, 0 … LYB_HASH_BITS-1)` -/
def hashTable (modName : Bytes) (names : List Bytes) : List (List Nat) :=
  names.map fun nm => (List.range LYB_HASH_BITS).map fun i => generateHash modName nm i

/-- `lyb_get_hash` through the cache (equal to `realHash`, lemma `tabHash_eq`) -/
def tabHash (tab : List (List Nat)) (modName : Bytes) (names : List Bytes) : Nat → Nat → Nat :=
  fun s i =>
    match tab[s]? with
    | some row =>
      match row[i]? with
      | some v => v
      | none => realHash modName names s i
    | none => realHash modName names s i

/-- what the walk keeps per sibling level: the schema siblings in `lys_getnext` order, their names and cached hashes, and the
sibling hash table of `lyb_hash_siblings` (`none`: `LY_EINT`; C builds it at the first node of the level and keeps it in
`lybctx->sib_hts`) -/
structure FrameCtx where
  modName : Bytes
  sibs : List Nat
  names : List Bytes
  tab : List (List Nat)
  ht : Option HT

def FrameCtx.h (fc : FrameCtx) : Nat → Nat → Nat := tabHash fc.tab fc.modName fc.names

namespace LSchema

def frame (S : LSchema) (par : Option Nat) : FrameCtx :=
  let sibs := S.sibs par
  let names := sibs.map S.name
  let tab := hashTable S.modName names
  { modName := S.modName, sibs := sibs, names := names, tab := tab
    ht := hashSiblings (tabHash tab S.modName names) sibs.length }

def isMulti (S : LSchema) (sid : Nat) : Bool := S.kind sid == some .leaflist || S.kind sid == some .list
def isTermK (S : LSchema) (sid : Nat) : Bool := S.kind sid == some .leaflist || S.kind sid == some .leaf

end LSchema

/-- print options the LYB printer looks at: `LYD_PRINT_WD_ALL_TAG`, `LYD_PRINT_WD_IMPL_TAG` (explicit / trim / all print the
same bytes) and `LYD_PRINT_WITHSIBLINGS` -/
structure POpts where
  tagAll : Bool := false
  tagImpl : Bool := false
  /-- source variant, not an API option: `lyb_print_metadata` has the with-defaults annotation block (read off the source:
  `Generated.LybTree.lybWdAnnot`; `false` once the repair of finding F330 is applied) -/
  wdAnnot : Bool := lybWdAnnot
  /-- `LYD_PRINT_WITHSIBLINGS` (`lyd_print_all`); `false`: `lyd_print_tree` — exactly one top-level tree, and of a top-level
  list / leaf-list exactly one instance (the `break`s of `lyb_print_siblings`, `lyb_print_node_list`, `lyb_print_node_leaflist`) -/
  withSiblings : Bool := true
  deriving Repr, DecidableEq

/-! ## printer -/

/-- both succeed: concatenation -/
def cat (a b : Option (List Op)) : Option (List Op) :=
  match a, b with
  | some x, some y => some (x ++ y)
  | _, _ => none

infixr:65 " +++ " => cat

/-- `lyb_write_number(num, bytes, …)` -/
def wNum (k n : Nat) : Op := .write (leBytes k n)

/-- `lyb_write_string(str, 0, len_size, …)`: `LY_EINT` when the length does not fit -/
def strOps (k : Nat) (s : Bytes) : Option (List Op) :=
  if s.length < 256 ^ k then some [wNum k s.length, .write s] else none

/-- `lyb_print_model(out, mod, with_features, …)` for a module without features -/
def modelOps (name : Bytes) (rev : Option Bytes) (withFeat : Bool) : Option (List Op) :=
  strOps P_MODNAME name +++ some (wNum P_REV (packRev rev) :: (if withFeat then [wNum P_FEATCOUNT 0] else []))

/-- `lyd_is_default` -/
def isDefaultVal (S : LSchema) (n : DNode) : Bool := (S.dflts n.sid).contains n.val

/-- `wd_mod != NULL` in `lyb_print_metadata` -/
def wdTagged (o : POpts) (S : LSchema) (n : DNode) : Bool :=
  o.wdAnnot && n.isTerm && S.wd.isSome && ((n.flags.dflt && (o.tagAll || o.tagImpl)) || (o.tagAll && isDefaultVal S n))

/-- the loop of `lyb_print_metadata`: module of the annotation (no features), annotation name, canonical value -/
def metasOps (S : LSchema) : List Meta → Option (List Op)
  | [] => some []
  | m :: ms =>
    match S.annotsEff.find? (fun a => a.key == m.1) with
    | none => none
    | some a => modelOps a.modName a.rev false +++ strOps P_METANAME a.name +++ strOps P_METAVAL m.2 +++ metasOps S ms

/-- the metadata instances `lyb_print_metadata` writes for a node: the with-defaults annotation first (source variant
`wdAnnot`), then `node->meta` -/
def printedMetas (o : POpts) (S : LSchema) (n : DNode) : List Meta :=
  (if wdTagged o S n then [wdMeta] else []) ++ n.metas

/-- `lyb_print_node_header`: metadata count (one byte, `LY_EINT` beyond 255), the metadata, node flags -/
def headerOps (o : POpts) (S : LSchema) (n : DNode) : Option (List Op) :=
  if (printedMetas o S n).length > 255 then none
  else some [wNum P_METACOUNT (printedMetas o S n).length] +++ metasOps S (printedMetas o S n) +++ some [wNum P_FLAGS n.flags.toNat]

def UINT32_MAX : Nat := 4294967295

/-- `lyb_print_term_value` -/
def valueOps (ty : LTy) (canon : Bytes) : Option (List Op) :=
  match encVal ty canon with
  | none => none
  | some b =>
    match ty.lybLen with
    | none =>
      if b.length > UINT32_MAX then none
      else some (wNum P_TERMLEN b.length :: (if b.length > 0 then [.write b] else []))
    | some n => some (if n > 0 then [.write b] else [])

/-- `lyb_print_schema_hash` for the node `sid` among the siblings of the level -/
def hashOps (fc : FrameCtx) (sid : Nat) : Option (List Op) :=
  match fc.ht with
  | none => none
  | some ht =>
    let k := fc.sibs.idxOf sid
    if k < fc.sibs.length then
      match printSeq fc.h ht k with
      | none => none
      | some seq => some (seq.map fun b => .write [UInt8.ofNat b])
    else none

/-- `lyb_print_lyb_type`, `lyb_print_model` for a top-level node, `lyb_print_schema_hash` -/
def nodeHeadOps (S : LSchema) (par : Option Nat) (fc : FrameCtx) (sid : Nat) : Option (List Op) :=
  match par with
  | none => some [wNum P_NODETYPE LYB_NODE_TOP] +++ modelOps S.modName S.rev false +++ hashOps fc sid
  | some _ => some [wNum P_NODETYPE LYB_NODE_CHILD] +++ hashOps fc sid

def closeOps : Option Nat → List Op
  | none => []
  | some _ => [.stop]

mutual
/-- one instance: header, then the value (`lyb_print_node_leaf`) or the children (`lyb_print_node_inner`, the body of the
loop of `lyb_print_node_list`) -/
def instOps (o : POpts) (S : LSchema) : DNode → Option (List Op)
  | .term sid f m v => headerOps o S (.term sid f m v) +++ valueOps (S.ty sid) v
  | .inner sid f m kids =>
    headerOps o S (.inner sid f m []) +++ some [.start] +++ sibOps o S (some sid) (S.frame (some sid)) none kids +++ some [.stop]
/-- the loop of `lyb_print_siblings` over the siblings below `par` (`fc`: the level's cached hashes).  `grp = some s`: inside
the frame `lyb_print_node_leaflist` / `lyb_print_node_list` opened for the instances of `s`; it is closed at the first
sibling of another schema node or at the end -/
def sibOps (o : POpts) (S : LSchema) (par : Option Nat) (fc : FrameCtx) : Option Nat → List DNode → Option (List Op)
  | grp, [] => some (closeOps grp)
  | grp, n :: rest =>
    if grp = some n.sid then instOps o S n +++ sibOps o S par fc grp rest
    else
      some (closeOps grp) +++ nodeHeadOps S par fc n.sid +++
        (if S.isMulti n.sid then some [.start] +++ instOps o S n +++ sibOps o S par fc (some n.sid) rest
         else instOps o S n +++ sibOps o S par fc none rest)
end

/-- `lyb_print_siblings` on the top level without `LYD_PRINT_WITHSIBLINGS`: the first node only; the instance loop of a list /
leaf-list stops after that instance (`!lyd_parent(node) && !(print_options & LYD_PRINT_WITHSIBLINGS)`) -/
def topSingleOps (o : POpts) (S : LSchema) (fc : FrameCtx) : List DNode → Option (List Op)
  | [] => some []
  | n :: _ =>
    nodeHeadOps S none fc n.sid +++
      (if S.isMulti n.sid then some [.start] +++ instOps o S n +++ some [.stop] else instOps o S n)

def magicOp : Op := .write (P_MAGIC.map UInt8.ofNat)

/-- the document around the top-level frame content `top`: magic number, header byte, module table (the modules of ALL top-level
siblings of `root`, also without `LYD_PRINT_WITHSIBLINGS`: one module here), the frame, the ending zero -/
def docAround (S : LSchema) (t : List DNode) (top : Option (List Op)) : Option (List Op) :=
  some [magicOp, .write [UInt8.ofNat LYB_VERSION_NUM]] +++
    (if t.isEmpty then some [wNum P_MODCOUNT 0] else some [wNum P_MODCOUNT 1] +++ modelOps S.modName S.rev true) +++
    some [.start] +++ top +++ some [.stop, .write [0]]

/-- `lyb_print_data(out, root, LYD_PRINT_WITHSIBLINGS | wd)` -/
def docOpsW (o : POpts) (S : LSchema) (t : List DNode) : Option (List Op) :=
  docAround S t (sibOps o S none (S.frame none) none t)

/-- `lyb_print_data(out, root, options)`: the calls of the chunk layer -/
def docOps (o : POpts) (S : LSchema) (t : List DNode) : Option (List Op) :=
  if o.withSiblings then docOpsW o S t else docAround S t (topSingleOps o S (S.frame none) t)

/-- the LYB image of a forest printed with all its siblings (`none`: the printer fails — `LY_EINT`) -/
def printLybW (P : Params) (o : POpts) (S : LSchema) (t : List DNode) : Option Bytes :=
  match docOpsW o S t with
  | none => none
  | some ops => writeAll P ops

/-- the LYB image of a forest under the print options -/
def printLyb (P : Params) (o : POpts) (S : LSchema) (t : List DNode) : Option Bytes :=
  match docOps o S t with
  | none => none
  | some ops => writeAll P ops

/-! ## parser -/

/-- `lyb_read_number(&x, …, bytes, …)` -/
def rdNum (P : Params) (r : R) (k : Nat) : R × Nat :=
  match rread P r k with
  | (r1, b) => (r1, leVal b)

/-- `LYB_LAST_SIBLING(lybctx).written` -/
def topWritten (r : R) : Nat :=
  match r.frames with
  | f :: _ => f.written
  | [] => 0

/-- `n` one-byte reads (`lyb_read_hashes`) -/
def rdBytes1 (P : Params) : Nat → R → R × List Nat
  | 0, r => (r, [])
  | n + 1, r =>
    match rread P r 1 with
    | (r1, b) =>
      match rdBytes1 P n r1 with
      | (r2, l) => (r2, (b.headD 0).toNat :: l)

/-- `lyb_read_string` `n` times, results dropped (feature names of a module without features are ignored by
`lyb_parse_model`: it walks the features of the module) -/
def skipStrings (P : Params) (k : Nat) : Nat → R → R
  | 0, r => r
  | n + 1, r =>
    match rdNum P r k with
    | (r1, len) => skipStrings P k n (rread P r1 len).1

/-- `lyb_read_model`: name and revision (`none`: revision word 0) -/
def pModel (P : Params) (r : R) (withFeat : Bool) : R × Bytes × Option Bytes :=
  match rdNum P r R_MODNAME with
  | (r1, len) =>
    if len = 0 then (r1, [], none)
    else
      match rread P r1 len with
      | (r2, name) =>
        match rdNum P r2 R_REV with
        | (r3, rev) =>
          if withFeat then
            match rdNum P r3 R_FEATCOUNT with
            | (r4, fc) => (skipStrings P R_FEATNAME fc r4, name, unpackRev rev)
          else (r3, name, unpackRev rev)

/-- `lyb_parse_model` finds the module in the context: `ly_ctx_get_module(name, rev)`, or the latest when no revision was printed -/
def modMatches (name : Bytes) (rev : Option Bytes) (mname : Bytes) (mrev : Option Bytes) : Bool :=
  name == mname && (rev.isNone || rev == mrev)

/-- `lyd_parser_create_meta(…, LY_VALUE_JSON, …)`: the value text stored with the annotation's type, canonical form -/
def textVal (ty : LTy) (v : Bytes) : Option Bytes :=
  match ty with
  | .empty => if v.isEmpty then some [] else none
  | .val t => match Val.store t LYD_HINT_DATA v with
    | .ok x => some (Val.canon t x)
    | .error _ => none

/-- `lyb_parse_metadata` (`LYD_PARSE_STRICT`: the module must be in the context, the annotation in the module) -/
def pMetas (P : Params) (S : LSchema) : Nat → R → Option (R × List Meta)
  | 0, r => some (r, [])
  | n + 1, r =>
    match pModel P r false with
    | (r1, mname, mrev) =>
      match rdNum P r1 R_METANAME with
      | (r2, nl) =>
        match rread P r2 nl with
        | (r3, aname) =>
          match rdNum P r3 R_METAVAL with
          | (r4, vl) =>
            match rread P r4 vl with
            | (r5, aval) =>
              match S.annotsEff.find? (fun a => modMatches mname mrev a.modName a.rev && a.name == aname) with
              | none => none
              | some a =>
                match textVal a.ty aval with
                | none => none
                | some v =>
                  match pMetas P S n r5 with
                  | none => none
                  | some (r6, ms) => some (r6, (a.key, v) :: ms)

/-- the branch of `lyb_parse_metadata` for an annotation whose module is not in the context (no `LYD_PARSE_STRICT`):
`lyb_skip_string` for the name and for the value, with length fields of `kn` / `kv` bytes.  The source has
`kn = R_METASKIPNAME`, `kv = R_METASKIPVAL` (finding F331: 2 on the pinned tree, while the value is printed with `P_METAVAL = 8`) -/
def pMetaSkipW (P : Params) (kn kv : Nat) (r : R) : R :=
  match rdNum P r kn with
  | (r1, nl) =>
    match rdNum P (rread P r1 nl).1 kv with
    | (r2, vl) => (rread P r2 vl).1

def pMetaSkip (P : Params) (r : R) : R := pMetaSkipW P R_METASKIPNAME R_METASKIPVAL r

def pHeader (P : Params) (S : LSchema) (r : R) : Option (R × List Meta × Flags) :=
  match rdNum P r R_METACOUNT with
  | (r1, cnt) =>
    match pMetas P S cnt r1 with
    | none => none
    | some (r2, ms) =>
      match rdNum P r2 R_FLAGS with
      | (r3, fl) => some (r3, ms, Flags.ofNat fl)

/-- `lyb_read_term_value` + `lyd_parser_create_term` -/
def pValue (P : Params) (ty : LTy) (r : R) : Option (R × Bytes) :=
  match ty.lybLen with
  | none =>
    match rdNum P r R_TERMLEN with
    | (r1, len) =>
      if len > UINT32_MAX then none
      else
        match (if len > 0 then rread P r1 len else (r1, [])) with
        | (r2, b) => (decVal ty b).map fun v => (r2, v)
  | some n =>
    match (if n > 0 then rread P r n else (r, [])) with
    | (r2, b) => (decVal ty b).map fun v => (r2, v)

/-- `lyb_parse_schema_hash`: `lyb_read_hashes`, then the first sibling (in `lys_getnext` order) whose hashes match.
`modsOk`: the module is among the ones listed in the header (`lyb_has_schema_model`) -/
def pHash (P : Params) (modsOk : Bool) (fc : FrameCtx) (r : R) : Option (Nat × R) :=
  match rread P r 1 with
  | (r3, b0) =>
    let h0 := (b0.headD 0).toNat
    if h0 = 0 then none                         -- opaque node: outside the model
    else
      match rdBytes1 P (firstBit h0) r3 with
      | (r4, more) =>
        if !modsOk then none
        else
          match parseSchemaHash fc.h fc.sibs.length (h0 :: more) with
          | some (some k, []) => (fc.sibs[k]?).map fun sid => (sid, r4)
          | _ => none

/-- `lyb_parse_node` up to the schema node: node type, module of a top-level node, `lyb_parse_schema_hash` -/
def pNodeHead (P : Params) (S : LSchema) (modsOk : Bool) (par : Option Nat) (fc : FrameCtx) (r : R) : Option (Nat × R) :=
  match rdNum P r R_NODETYPE with
  | (r1, nt) =>
    match par with
    | none =>
      if nt = LYB_NODE_TOP then
        match pModel P r1 false with
        | (r2, name, rev) => if modMatches name rev S.modName S.rev then pHash P modsOk fc r2 else none
      else none
    | some _ => if nt = LYB_NODE_CHILD then pHash P modsOk fc r1 else none

mutual
/-- one instance of the schema node `sid`: `lyb_parse_node_leaf`, `lyb_parse_node_inner`, the loop body of `lyb_parse_node_list` -/
def pInst (P : Params) (S : LSchema) (ok : Bool) : Nat → Nat → R → Option (DNode × R)
  | 0, _, _ => none
  | fuel + 1, sid, r =>
    match pHeader P S r with
    | none => none
    | some (r1, ms, fl) =>
      if S.isTermK sid then
        match pValue P (S.ty sid) r1 with
        | none => none
        | some (r2, v) => some (.term sid fl ms v, r2)
      else if (S.kind sid).isSome then
        match pSibs P S ok fuel (some sid) r1 with
        | none => none
        | some (kids, r2) => some (.inner sid fl ms kids, r2)
      else none
/-- `lyb_parse_siblings` -/
def pSibs (P : Params) (S : LSchema) (ok : Bool) : Nat → Option Nat → R → Option (List DNode × R)
  | 0, _, _ => none
  | fuel + 1, par, r =>
    match pLoop P S ok fuel par (S.frame par) (rstart P r) [] with
    | none => none
    | some (ns, r2) =>
      match rstop r2 with
      | none => none
      | some r3 => some (ns, r3)
/-- `while (LYB_LAST_SIBLING(lybctx).written) lyb_parse_node(…)` -/
def pLoop (P : Params) (S : LSchema) (ok : Bool) : Nat → Option Nat → FrameCtx → R → List DNode → Option (List DNode × R)
  | 0, _, _, _, _ => none
  | fuel + 1, par, fc, r, acc =>
    if topWritten r = 0 then some (acc, r)
    else
      match pNode P S ok fuel par fc r with
      | none => none
      | some (ns, r1) => pLoop P S ok fuel par fc r1 (acc ++ ns)
/-- `lyb_parse_node` -/
def pNode (P : Params) (S : LSchema) (ok : Bool) : Nat → Option Nat → FrameCtx → R → Option (List DNode × R)
  | 0, _, _, _ => none
  | fuel + 1, par, fc, r =>
    match pNodeHead P S ok par fc r with
    | none => none
    | some (sid, r1) =>
      if S.isMulti sid then
        match pGroup P S ok fuel sid (rstart P r1) [] with
        | none => none
        | some (ns, r2) =>
          match rstop r2 with
          | none => none
          | some r3 => some (ns, r3)
      else
        match pInst P S ok fuel sid r1 with
        | none => none
        | some (n, r2) => some ([n], r2)
/-- the `while (LYB_LAST_SIBLING(lybctx).written)` loops of `lyb_parse_node_leaflist` / `lyb_parse_node_list` -/
def pGroup (P : Params) (S : LSchema) (ok : Bool) : Nat → Nat → R → List DNode → Option (List DNode × R)
  | 0, _, _, _ => none
  | fuel + 1, sid, r, acc =>
    if topWritten r = 0 then some (acc, r)
    else
      match pInst P S ok fuel sid r with
      | none => none
      | some (n, r1) => pGroup P S ok fuel sid r1 (acc ++ [n])
end

/-- `lyb_parse_data_models`: every listed module must be in the context (`LYD_PARSE_STRICT`) -/
def pModels (P : Params) (S : LSchema) : Nat → R → Option R
  | 0, r => some r
  | n + 1, r =>
    match pModel P r true with
    | (r1, name, rev) =>
      if modMatches name rev S.modName S.rev || (match S.wd with | some w => modMatches name rev wdModName w | none => false)
      then pModels P S n r1 else none

/-- `lyd_parse_lyb` with `LYD_PARSE_ONLY | LYD_PARSE_STRICT | LYD_PARSE_ORDERED`, `LYD_INTOPT_WITH_SIBLINGS` -/
def parseLybF (P : Params) (S : LSchema) (fuel : Nat) (img : Bytes) : Option (List DNode) :=
  match rread P { inp := img } R_MAGIC.length with
  | (r1, m) =>
    if m != R_MAGIC.map UInt8.ofNat then none
    else
      match rread P r1 1 with
      | (r2, v) =>
        if (v.headD 0).toNat &&& LYB_VERSION_MASK != LYB_VERSION_NUM then none
        else
          match rdNum P r2 R_MODCOUNT with
          | (r3, cnt) =>
            match pModels P S cnt r3 with
            | none => none
            | some r4 => (pSibs P S (cnt != 0) fuel none r4).map (·.1)

/-- fuel for the driver: every loop iteration and every level of nesting consumes input -/
def parseLyb (P : Params) (S : LSchema) (img : Bytes) : Option (List DNode) := parseLybF P S (8 * img.length + 16) img

/-- what a print → parse round trip returns: under the tagged with-defaults modes the parsed node carries the
annotation as ordinary metadata (the LYB parser does not turn it back into the flag the way XML/JSON do) -/
def viewNode (o : POpts) (S : LSchema) : DNode → DNode
  | .term sid f m v => if wdTagged o S (.term sid f m v) then .term sid f (wdMeta :: m) v else .term sid f m v
  | .inner sid f m kids => .inner sid f m (kids.map (viewNode o S))

/-! ## the view of a `Tree.Schema` (line DSL) plus a type table -/

def kindOf : SKind → Option LKind
  | .container => some .container
  | .list => some .list
  | .leaflist => some .leaflist
  | .leaf => some .leaf
  | _ => none

def ofTree (T : Schema) (tys : List LTy) (rev : Option Bytes) (wd : Option (Option Bytes)) (annots : List Annot := []) : LSchema :=
  let n := T.nodes.length
  let dps : List (Option Nat × Bool) := (List.range n).map fun i => (T.dataParent i, ((T.kind? i).bind kindOf).isSome)
  { modName := bytesOfString T.modName
    rev := rev
    kind := fun sid => (T.kind? sid).bind kindOf
    name := fun sid => bytesOfString (T.name sid)
    ty := fun sid => tys.getD sid .empty
    dflts := fun sid => match T.get? sid with | some n => n.dflts | none => []
    sibs := fun par => (List.range n).filter fun i => match dps[i]? with | some (dp, isData) => isData && dp == par | none => false
    wd := wd
    annots := annots }

end LyModel.LybTree
