import LyModel.Lyb.ChunkReader
/-! Part E2: the reader loop and the whole shape on the specification stream. -/
namespace LyModel.Lyb

theorem rloop_spec (P : Params) (hP : P.Ok) (fut : Nat → Nat) :
    ∀ (fuel : Nat) (rs : List RFrame) (ws : List Nat) (buf acc : Bytes) (items srest : List Item),
      RelR P.sizeMax (fun j => buf.length + fut j) 0 rs ws → (∀ w ∈ ws, w ≤ P.sizeMax) →
      loopMeasure P.sizeMax ws buf.length ≤ fuel →
      items.map Item.erase = (sloop P.sizeMax fut fuel ws buf).1 ++ srest →
      ∃ items' rs',
        rloop P fuel { inp := serialize P items, frames := rs } buf.length acc
          = ({ inp := serialize P items', frames := rs' }, acc ++ buf) ∧
        items'.map Item.erase = srest ∧
        RelR P.sizeMax fut 0 rs' (sloop P.sizeMax fut fuel ws buf).2 ∧
        (∀ w ∈ (sloop P.sizeMax fut fuel ws buf).2, w ≤ P.sizeMax) ∧
        (sloop P.sizeMax fut fuel ws buf).2.length = ws.length := by
  intro fuel
  induction fuel with
  | zero =>
    intro rs ws buf acc items srest _ _ hfuel
    simp [loopMeasure] at hfuel
  | succ fuel ih =>
    intro rs ws buf acc items srest hrel hws hfuel hitems
    have hM := hP.size_pos
    have hle := scanW_le P.sizeMax ws buf.length
    have hbound := scanW_bound P.sizeMax ws buf.length hws
    have hnone := scanW_none P.sizeMax ws buf.length
    have hsome := scanW_some P.sizeMax ws buf.length
    have hscan := scanR_eq P.sizeMax buf.length fut 0 rs ws hrel
    simp only [rloop, hscan]
    simp only [sloop] at hitems ⊢
    generalize scanW P.sizeMax ws buf.length = sc at *
    obtain ⟨tw, full⟩ := sc
    simp only at hitems hle hbound hnone hsome ⊢
    by_cases hexit : (full.isNone && buf.isEmpty) = true
    · simp only [hexit, ↓reduceIte, List.nil_append] at hitems ⊢
      simp only [Bool.and_eq_true, List.isEmpty_iff] at hexit
      obtain ⟨hf, hb⟩ := hexit
      subst hb
      simp only [hf, List.length_nil, BEq.rfl, Bool.and_self, ↓reduceIte, List.append_nil]
      exact ⟨items, rs, rfl, hitems, by simpa using hrel, hws, trivial⟩
    · have hexit' : (full.isNone && buf.length == 0) = false := by
        cases hf : full.isNone
        · simp
        · simp only [hf, Bool.true_and, Bool.not_eq_true] at hexit
          cases buf with
          | nil => simp at hexit
          | cons b bs => simp
      simp only [hexit, hexit', Bool.false_eq_true, ↓reduceIte] at hitems ⊢
      have hlenrel := RelR_length hrel
      cases full with
      | none =>
        simp only [List.append_assoc] at hitems ⊢
        have htw : tw = buf.length := hnone rfl
        have hpos : 0 < tw := by
          rcases Nat.eq_zero_or_pos tw with h0 | h0
          · exfalso; apply hexit
            have : buf = [] := List.eq_nil_of_length_eq_zero (by omega)
            simp [this]
          · exact h0
        obtain ⟨items1, rs1, hd1, hd2, hd3, hd4⟩ :=
          rdata_spec P P.sizeMax buf.length tw fut buf acc rfl hle rs ws items _ hrel hbound hitems
        have hws1 : ∀ w ∈ (if tw > 0 then ws.map (· + tw) else ws), w ≤ P.sizeMax := by
          simp only [hpos, ↓reduceIte, List.mem_map]
          rintro w ⟨x, hx, rfl⟩
          exact hbound x hx
        have hlen1 : (if tw > 0 then ws.map (· + tw) else ws).length = ws.length := by
          split <;> simp
        have hmeas : loopMeasure P.sizeMax (if tw > 0 then ws.map (· + tw) else ws) (buf.drop tw).length ≤ fuel := by
          have := loopMeasure_write P.sizeMax ws (if tw > 0 then ws.map (· + tw) else ws) buf.length tw hlen1 hpos hle
          simp only [List.length_drop]; omega
        have hrel1 : RelR P.sizeMax (fun j => (buf.drop tw).length + fut j) 0 rs1 (if tw > 0 then ws.map (· + tw) else ws) := by
          simpa using hd4
        obtain ⟨items', rs', g1, g2, g3, g4, g5⟩ :=
          ih rs1 _ (buf.drop tw) (acc ++ buf.take tw) items1 srest hrel1 hws1 hmeas hd2
        refine ⟨items', rs', ?_, g2, g3, g4, by omega⟩
        rw [hd1, hd3]
        simp only [List.length_drop] at g1
        rw [g1]
        simp
      | some u =>
        simp only [List.append_assoc, List.cons_append] at hitems ⊢
        obtain ⟨x, hx, hxge⟩ := hsome u rfl
        have hu : u < ws.length := (List.getElem?_eq_some_iff.mp hx).1
        obtain ⟨items1, rs1, hd1, hd2, hd3, hd4⟩ :=
          rdata_spec P P.sizeMax buf.length tw fut buf acc rfl hle rs ws items _ hrel hbound hitems
        have hlen1 : (if tw > 0 then ws.map (· + tw) else ws).length = ws.length := by
          split <;> simp
        have hws1 : ∀ w ∈ (if tw > 0 then ws.map (· + tw) else ws), w ≤ P.sizeMax := by
          split
          · simp only [List.mem_map]
            rintro w ⟨y, hy, rfl⟩
            exact hbound y hy
          · exact hws
        have hrel1 : RelR P.sizeMax (fun j => (buf.drop tw).length + fut j) 0 rs1 (if tw > 0 then ws.map (· + tw) else ws) := by
          simpa using hd4
        have hu1 : u < rs1.length := by rw [RelR_length hrel1, hlen1]; exact hu
        obtain ⟨items2, rs2, hc1, hc2, hc3⟩ :=
          rclose_spec P hP (fun j => (buf.drop tw).length + fut j) u rs1 _ items1 _ hrel1 hu1 hd2
        have hws2 : ∀ w ∈ (if tw > 0 then ws.map (· + tw) else ws).set u 0, w ≤ P.sizeMax := by
          intro w hw
          rcases List.mem_or_eq_of_mem_set hw with h | h
          · exact hws1 w h
          · omega
        have hmeas : loopMeasure P.sizeMax ((if tw > 0 then ws.map (· + tw) else ws).set u 0) (buf.drop tw).length ≤ fuel := by
          rcases Nat.eq_zero_or_pos tw with h0 | h0
          · subst h0
            have := nfull_set_zero P.sizeMax hM ws u x hx (by omega)
            simp only [Nat.lt_irrefl, ↓reduceIte, loopMeasure, List.length_set, List.drop_zero] at hfuel ⊢
            omega
          · have := loopMeasure_write P.sizeMax ws ((if tw > 0 then ws.map (· + tw) else ws).set u 0) buf.length tw
              (by simp [hlen1]) h0 hle
            simp only [List.length_drop]; omega
        obtain ⟨items', rs', g1, g2, g3, g4, g5⟩ :=
          ih rs2 _ (buf.drop tw) (acc ++ buf.take tw) items2 srest hc3 hws2 hmeas hc2
        refine ⟨items', rs', ?_, g2, g3, g4, by rw [g5]; simp [hlen1]⟩
        rw [hd1, hd3, hc1]
        simp only [List.length_drop] at g1
        rw [g1]
        simp

theorem RelR_shift (M : Nat) (rem : Nat → Nat) :
    ∀ (k : Nat) (rs : List RFrame) (ws : List Nat),
      RelR M rem (k + 1) rs ws ↔ RelR M (fun j => rem (j + 1)) k rs ws := by
  intro k rs
  induction rs generalizing k with
  | nil => intro ws; cases ws <;> simp [RelR]
  | cons f fs ih =>
    intro ws
    cases ws with
    | nil => simp [RelR]
    | cons w ws => simp only [RelR, ih (k + 1) ws]

theorem payloads_cons_write (bs : Bytes) (r : List Op) : payloads (.write bs :: r) = bs :: payloads r := rfl

theorem rrun_spec (P : Params) (hP : P.Ok) :
    ∀ (ops : List Op) (rs : List RFrame) (ws : List Nat) (items : List Item) (got : List Bytes),
      RelR P.sizeMax (fun k => bytesUntilClose k ops) 0 rs ws → (∀ w ∈ ws, w ≤ P.sizeMax) →
      wellNestedFrom ws.length ops = true →
      items.map Item.erase = spec P.sizeMax ws ops →
      rrun P ({ inp := serialize P items, frames := rs }, got) (ops.map Op.shape)
        = some ({ inp := [], frames := [] }, got ++ payloads ops) := by
  intro ops
  induction ops with
  | nil =>
    intro rs ws items got hrel _ wf hitems
    simp only [wellNestedFrom, beq_iff_eq, List.length_eq_zero_iff] at wf
    subst wf
    have := RelR_length hrel
    simp only [List.length_nil, List.length_eq_zero_iff] at this
    subst this
    simp only [spec, List.map_eq_nil_iff] at hitems
    subst hitems
    simp [rrun, serialize, payloads]
  | cons op r ih =>
    intro rs ws items got hrel hws wf hitems
    cases op with
    | start =>
      simp only [spec] at hitems
      cases items with
      | nil => simp at hitems
      | cons it items1 =>
        simp only [List.map_cons, List.cons.injEq] at hitems
        obtain ⟨i, hit⟩ := erase_eq_hdr hitems.1
        subst hit
        have hmeta := readMeta_ser P hP (min P.sizeMax (bytesUntilClose 0 r)) i (Nat.min_le_left _ _) (serialize P items1)
        simp only [List.map_cons, Op.shape, rrun, rop, rstart, serialize_cons, hmeta]
        have hrel1 : RelR P.sizeMax (fun k => bytesUntilClose k r) 0
            ({ written := min P.sizeMax (bytesUntilClose 0 r), more := min P.sizeMax (bytesUntilClose 0 r) == P.sizeMax,
               inner := i % (P.inMax + 1) } :: rs) (0 :: ws) := by
          simp only [RelR, Nat.zero_add, Nat.sub_zero, true_and]
          refine ⟨by simp [BEq.beq], ?_⟩
          rw [RelR_shift]
          exact hrel
        have := ih _ (0 :: ws) items1 got hrel1
          (by intro w hw; rcases List.mem_cons.mp hw with rfl | hw; exact Nat.zero_le _; exact hws w hw)
          (by simpa [wellNestedFrom] using wf) hitems.2
        rw [this]
        rfl
    | stop =>
      cases ws with
      | nil => simp [wellNestedFrom] at wf
      | cons w ws' =>
        cases rs with
        | nil => simp [RelR] at hrel
        | cons f fs =>
          simp only [RelR] at hrel
          obtain ⟨h1, _, h3⟩ := hrel
          have hw := hws w List.mem_cons_self
          have hf0 : f.written = 0 := by
            rw [h1]; simp only [bytesUntilClose]; omega
          simp only [List.map_cons, Op.shape, rrun, rop, rstop, hf0, ne_eq, not_true_eq_false, ↓reduceIte]
          have hrel1 : RelR P.sizeMax (fun k => bytesUntilClose k r) 0 fs ws' := by
            rw [Nat.zero_add, RelR_shift] at h3
            exact h3
          have := ih fs ws' items got hrel1 (fun x hx => hws x (List.mem_cons_of_mem _ hx))
            (by simpa [wellNestedFrom] using wf) (by simpa [spec] using hitems)
          rw [this]
          rfl
    | write bs =>
      simp only [spec] at hitems
      have hlen := RelR_length hrel
      have hmeas : loopMeasure P.sizeMax ws bs.length ≤ loopFuel bs.length ws.length :=
        loopMeasure_le_fuel P.sizeMax ws bs.length
      obtain ⟨items', rs', g1, g2, g3, g4, g5⟩ :=
        rloop_spec P hP (fun k => bytesUntilClose k r) (loopFuel bs.length ws.length) rs ws bs [] items _
          hrel hws hmeas hitems
      simp only [List.map_cons, Op.shape, rrun, rop, rread, hlen, g1, List.nil_append]
      have := ih rs' _ items' (got ++ [bs]) g3 g4 (by simpa [wellNestedFrom, g5] using wf) g2
      rw [this]
      simp [payloads_cons_write]

end LyModel.Lyb
