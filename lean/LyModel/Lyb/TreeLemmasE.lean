import LyModel.Lyb.TreeLemmasB
/-! The call sequence the printer model emits is well nested: every `lyb_write_start_siblings` has its
`lyb_write_stop_siblings` (so `writeAll` is applied inside the domain of `lyb_chunk_roundtrip`). -/
namespace LyModel.LybTree
open LyModel LyModel.Lyb LyModel.Tree LyModel.Generated LyModel.Generated.LybTree

/-- neutral for the frame depth -/
def Bal (X : List Op) : Prop := ∀ d K, wellNestedFrom d (X ++ K) = wellNestedFrom d K

theorem bal_nil : Bal [] := fun _ _ => rfl

theorem bal_write (b : Bytes) {X : List Op} (h : Bal X) : Bal (.write b :: X) := by
  intro d K
  simp only [List.cons_append, wellNestedFrom]
  exact h d K

theorem bal_append {X Y : List Op} (h1 : Bal X) (h2 : Bal Y) : Bal (X ++ Y) := by
  intro d K
  rw [List.append_assoc, h1, h2]

theorem bal_frame {X : List Op} (h : Bal X) : Bal (.start :: X ++ [.stop]) := by
  intro d K
  simp only [List.cons_append, List.append_assoc, wellNestedFrom, List.nil_append]
  rw [h]
  rfl

def AllW (X : List Op) : Prop := ∀ op ∈ X, ∃ b, op = Op.write b

theorem bal_allw : ∀ {X : List Op}, AllW X → Bal X
  | [], _ => bal_nil
  | op :: X, h => by
    obtain ⟨b, rfl⟩ := h op List.mem_cons_self
    exact bal_write b (bal_allw fun o ho => h o (List.mem_cons_of_mem _ ho))

theorem allw_append {X Y : List Op} (h1 : AllW X) (h2 : AllW Y) : AllW (X ++ Y) := by
  intro op hop
  rcases List.mem_append.mp hop with h | h
  · exact h1 op h
  · exact h2 op h

theorem allw_cat {a b : Option (List Op)} {c : List Op} (h : (a +++ b) = some c) (ha : ∀ x, a = some x → AllW x)
    (hb : ∀ y, b = some y → AllW y) : AllW c := by
  obtain ⟨x, y, hx, hy, rfl⟩ := cat_eq_some h
  exact allw_append (ha x hx) (hb y hy)

theorem allw_wNum (k n : Nat) : AllW [wNum k n] := by
  intro op hop; simp only [List.mem_singleton] at hop; exact ⟨_, hop⟩

theorem allw_some {l c : List Op} (h : some l = some c) (hl : AllW l) : AllW c := by
  simp only [Option.some.injEq] at h; subst h; exact hl

theorem allw_str {k : Nat} {s : Bytes} {o : List Op} (h : strOps k s = some o) : AllW o := by
  simp only [strOps] at h
  split at h
  · simp only [Option.some.injEq] at h
    subst h
    intro op hop
    simp only [List.mem_cons, List.not_mem_nil, or_false] at hop
    rcases hop with rfl | rfl <;> exact ⟨_, rfl⟩
  · simp at h

theorem allw_model {name : Bytes} {rev : Option Bytes} {wf : Bool} {o : List Op} (h : modelOps name rev wf = some o) : AllW o := by
  refine allw_cat h (fun x hx => allw_str hx) (fun y hy => allw_some hy ?_)
  intro op hop
  simp only [List.mem_cons] at hop
  rcases hop with rfl | hop
  · exact ⟨_, rfl⟩
  · split at hop
    · simp only [List.mem_singleton] at hop; exact ⟨_, hop⟩
    · simp at hop

theorem allw_hash {fc : FrameCtx} {sid : Nat} {o : List Op} (h : hashOps fc sid = some o) : AllW o := by
  simp only [hashOps] at h
  split at h
  · simp at h
  · split at h
    · split at h
      · simp at h
      · simp only [Option.some.injEq] at h
        subst h
        intro op hop
        simp only [List.mem_map] at hop
        obtain ⟨b, _, rfl⟩ := hop
        exact ⟨_, rfl⟩
    · simp at h

theorem allw_nodeHead {S : LSchema} {par : Option Nat} {fc : FrameCtx} {sid : Nat} {o : List Op}
    (h : nodeHeadOps S par fc sid = some o) : AllW o := by
  cases par with
  | none =>
    exact allw_cat h (fun x hx => allw_some hx (allw_wNum _ _))
      (fun y hy => allw_cat hy (fun x hx => allw_model hx) (fun z hz => allw_hash hz))
  | some p => exact allw_cat h (fun x hx => allw_some hx (allw_wNum _ _)) (fun z hz => allw_hash hz)

theorem allw_metas {S : LSchema} : ∀ {ms : List Meta} {ops : List Op}, metasOps S ms = some ops → AllW ops
  | [], ops, h => by
    simp only [metasOps, Option.some.injEq] at h
    subst h
    intro op hop; simp at hop
  | m :: ms, ops, h => by
    simp only [metasOps] at h
    split at h
    · simp at h
    · exact allw_cat h (fun x hx => allw_model hx) (fun y hy =>
        allw_cat hy (fun x hx => allw_str hx) (fun y hy =>
          allw_cat hy (fun x hx => allw_str hx) (fun y hy => allw_metas hy)))

theorem allw_header {o : POpts} {S : LSchema} {n : DNode} {ops : List Op} (h : headerOps o S n = some ops) : AllW ops := by
  simp only [headerOps] at h
  split at h
  · simp at h
  · exact allw_cat h (fun x hx => allw_some hx (allw_wNum _ _)) (fun y hy =>
      allw_cat hy (fun x hx => allw_metas hx) (fun y hy => allw_some hy (allw_wNum _ _)))

theorem allw_value {ty : LTy} {v : Bytes} {ops : List Op} (h : valueOps ty v = some ops) : AllW ops := by
  simp only [valueOps] at h
  split at h
  · simp at h
  · split at h
    · split at h
      · simp at h
      · refine allw_some h ?_
        intro op hop
        simp only [List.mem_cons] at hop
        rcases hop with rfl | hop
        · exact ⟨_, rfl⟩
        · split at hop
          · simp only [List.mem_singleton] at hop; exact ⟨_, hop⟩
          · simp at hop
    · refine allw_some h ?_
      intro op hop
      split at hop
      · simp only [List.mem_singleton] at hop; exact ⟨_, hop⟩
      · simp at hop

mutual
theorem bal_inst (o : POpts) (S : LSchema) : ∀ (n : DNode) (ops : List Op), instOps o S n = some ops → Bal ops
  | .term sid f m v, ops, h => by
    simp only [instOps] at h
    exact bal_allw (allw_cat h (fun x hx => allw_header hx) (fun y hy => allw_value hy))
  | .inner sid f m kids, ops, h => by
    simp only [instOps] at h
    obtain ⟨x, y, hx, hy, rfl⟩ := cat_eq_some h
    obtain ⟨y1, y2, hy1, hy2, rfl⟩ := cat_eq_some hy
    obtain ⟨z1, z2, hz1, hz2, rfl⟩ := cat_eq_some hy2
    simp only [Option.some.injEq] at hy1 hz2
    subst hy1 hz2
    have hk := bal_sibs_none o S kids (some sid) z1 hz1
    have := bal_append (bal_allw (allw_header hx)) (bal_frame hk)
    simpa using this
termination_by n => (sizeOf n, 0)
decreasing_by all_goals (simp_wf; first | (apply Prod.Lex.left; omega) | (apply Prod.Lex.left; simp; omega) | (apply Prod.Lex.right; omega) | (apply Prod.Lex.right; simp))

theorem bal_sibs_none (o : POpts) (S : LSchema) : ∀ (nodes : List DNode) (par : Option Nat) (ops : List Op),
    sibOps o S par (S.frame par) none nodes = some ops → Bal ops
  | [], par, ops, h => by
    simp only [sibOps, closeOps, Option.some.injEq] at h
    subst h
    exact bal_nil
  | n :: rest, par, ops, h => by
    simp only [sibOps, reduceCtorEq, ↓reduceIte, closeOps] at h
    obtain ⟨x0, y0, hx0, hy0, rfl⟩ := cat_eq_some h
    simp only [Option.some.injEq] at hx0
    subst hx0
    obtain ⟨x, y, hx, hy, rfl⟩ := cat_eq_some hy0
    have hbx := bal_allw (allw_nodeHead hx)
    by_cases hmulti : S.isMulti n.sid = true
    · simp only [hmulti, ↓reduceIte] at hy
      obtain ⟨y1, y2, hy1, hy2, rfl⟩ := cat_eq_some hy
      obtain ⟨z1, z2, hz1, hz2, rfl⟩ := cat_eq_some hy2
      simp only [Option.some.injEq] at hy1
      subst hy1
      obtain ⟨X, Y, rfl, hX, hY⟩ := bal_sibs_some o S rest par n.sid z2 hz2
      have hb1 := bal_inst o S n z1 hz1
      have := bal_append hbx (bal_append (bal_frame (bal_append hb1 hX)) hY)
      simpa using this
    · simp only [hmulti, Bool.false_eq_true, ↓reduceIte] at hy
      obtain ⟨z1, z2, hz1, hz2, rfl⟩ := cat_eq_some hy
      have := bal_append hbx (bal_append (bal_inst o S n z1 hz1) (bal_sibs_none o S rest par z2 hz2))
      simpa using this
termination_by nodes => (sizeOf nodes, 0)
decreasing_by all_goals (simp_wf; first | (apply Prod.Lex.left; omega) | (apply Prod.Lex.left; simp; omega) | (apply Prod.Lex.right; omega) | (apply Prod.Lex.right; simp))

theorem bal_sibs_some (o : POpts) (S : LSchema) : ∀ (nodes : List DNode) (par : Option Nat) (s : Nat) (ops : List Op),
    sibOps o S par (S.frame par) (some s) nodes = some ops → ∃ X Y, ops = X ++ .stop :: Y ∧ Bal X ∧ Bal Y
  | [], par, s, ops, h => by
    simp only [sibOps, closeOps, Option.some.injEq] at h
    subst h
    exact ⟨[], [], rfl, bal_nil, bal_nil⟩
  | n :: rest, par, s, ops, h => by
    by_cases hs : s = n.sid
    · subst hs
      simp only [sibOps, ↓reduceIte] at h
      obtain ⟨z1, z2, hz1, hz2, rfl⟩ := cat_eq_some h
      obtain ⟨X, Y, rfl, hX, hY⟩ := bal_sibs_some o S rest par n.sid z2 hz2
      exact ⟨z1 ++ X, Y, by simp, bal_append (bal_inst o S n z1 hz1) hX, hY⟩
    · have hs' : ¬ (some s = some n.sid) := by simpa using hs
      simp only [sibOps, hs', ↓reduceIte, closeOps] at h
      obtain ⟨x0, y0, hx0, hy0, rfl⟩ := cat_eq_some h
      simp only [Option.some.injEq] at hx0
      subst hx0
      have hnone : sibOps o S par (S.frame par) none (n :: rest) = some y0 := by
        simp only [sibOps, reduceCtorEq, ↓reduceIte, closeOps]
        rw [hy0]; rfl
      exact ⟨[], y0, rfl, bal_nil, bal_sibs_none o S (n :: rest) par y0 hnone⟩
termination_by nodes => (sizeOf nodes, 1)
decreasing_by all_goals (simp_wf; first | (apply Prod.Lex.left; omega) | (apply Prod.Lex.left; simp; omega) | (apply Prod.Lex.right; omega) | (apply Prod.Lex.right; simp))
end

/-- **the document's call sequence is well nested** -/
theorem docOpsW_wellNested (o : POpts) (S : LSchema) (t : List DNode) (ops : List Op) (h : docOpsW o S t = some ops) :
    WellNested ops := by
  obtain ⟨x1, y1, hx1, hy1, rfl⟩ := cat_eq_some (by simpa only [docOpsW, docAround] using h)
  obtain ⟨x2, y2, hx2, hy2, rfl⟩ := cat_eq_some hy1
  obtain ⟨x3, y3, hx3, hy3, rfl⟩ := cat_eq_some hy2
  obtain ⟨x4, y4, hx4, hy4, rfl⟩ := cat_eq_some hy3
  simp only [Option.some.injEq] at hx1 hx3 hy4
  subst hx1 hx3 hy4
  have h2 : Bal x2 := by
    split at hx2
    · exact bal_allw (allw_some hx2 (allw_wNum _ _))
    · exact bal_allw (allw_cat hx2 (fun x hx => allw_some hx (allw_wNum _ _)) (fun y hy => allw_model hy))
  have h4 := bal_sibs_none o S t none x4 hx4
  have hb : Bal ([magicOp, .write [UInt8.ofNat LYB_VERSION_NUM]] ++ (x2 ++ ([.start] ++ (x4 ++ [.stop, .write [0]])))) := by
    refine bal_append (bal_write _ (bal_write _ bal_nil)) (bal_append h2 ?_)
    have := bal_append (bal_frame h4) (bal_write [0] bal_nil)
    simpa using this
  have := hb 0 []
  simpa [WellNested, wellNestedFrom, magicOp] using this

end LyModel.LybTree
