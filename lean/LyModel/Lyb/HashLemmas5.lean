import LyModel.Lyb.HashLemmas4
/-! When `lyb_hash_siblings` fails: every collision id is blocked by an earlier sibling with the same hashes. -/
namespace LyModel.Lyb
open LyModel.Generated

theorem blocked_collide {h : Nat → Nat → Nat} (sh : Shape h) {ht : HT} {s : Nat} (inv : TInv h ht s) {i : Nat}
    (hi : i < LYB_HASH_BITS) (hb : Blocked h ht s i) : ∃ p, p < s ∧ ∀ j, j ≤ i → h p j = h s j := by
  rcases hb with ⟨j, hj, hsc⟩ | ⟨hany, hor⟩
  · obtain ⟨r, hr, _, e2⟩ := (seqCheck_iff h ht s j i).mp hsc
    exact ⟨r.1, inv.lt hr, fun j' hj' => (e2 j' hj').symm⟩
  · rcases hor with h0 | hsc
    · subst h0
      simp only [List.any_eq_true, beq_iff_eq] at hany
      obtain ⟨r, hr, e1⟩ := hany
      obtain ⟨cr, hcr, er⟩ := inv.recs r hr
      have : cr = 0 := shape_inj sh hcr hi (er ▸ e1)
      subst this
      refine ⟨r.1, inv.lt hr, ?_⟩
      intro j' hj'
      have : j' = 0 := by omega
      subst this
      rw [← er]; exact e1
    · obtain ⟨r, hr, _, e2⟩ := (seqCheck_iff h ht s i i).mp hsc
      exact ⟨r.1, inv.lt hr, fun j' hj' => (e2 j' hj').symm⟩

theorem assignFrom_none (h : Nat → Nat → Nat) (ht : HT) (s : Nat) (hnew : ∀ v, (s, v) ∉ ht) :
    ∀ (left i : Nat), assignFrom h ht s left i = none → ∀ i', i ≤ i' → i' < i + left → Blocked h ht s i' := by
  intro left
  induction left with
  | zero => intro i _ i' h1 h2; omega
  | succ left ih =>
    intro i hh i' h1 h2
    simp only [assignFrom] at hh
    have next : Blocked h ht s i → assignFrom h ht s left (i + 1) = none → Blocked h ht s i' := by
      intro hb hrec
      rcases Nat.eq_or_lt_of_le h1 with e | l
      · subst e; exact hb
      · exact ih (i + 1) hrec i' (by omega) (by omega)
    split at hh
    · rename_i hany
      apply next _ hh
      left
      simp only [List.any_eq_true, List.mem_range] at hany
      exact hany
    · split at hh
      · simp at hh
      · rename_i hins
        split at hh
        · split at hh
          · rename_i hc
            simp only [List.contains_iff_mem] at hc
            exact absurd hc (hnew _)
          · simp at hh
        · rename_i hseq
          apply next _ hh
          right
          refine ⟨by simpa using hins, ?_⟩
          simp only [ne_eq, Bool.and_eq_true, decide_eq_true_eq, Bool.not_eq_eq_eq_not, Bool.not_true, not_and,
            Bool.not_eq_false] at hseq
          by_cases h0 : i = 0
          · left; exact h0
          · right; exact hseq h0

theorem hashSiblingsFrom_some {h : Nat → Nat → Nat} (sh : Shape h) (n : Nat)
    (hd : ∀ p s, p < s → s < n → ∃ j, j < LYB_HASH_BITS ∧ h p j ≠ h s j) :
    ∀ (cnt s : Nat) (ht : HT), TInv h ht s → s + cnt ≤ n → (hashSiblingsFrom h LYB_HASH_BITS ht cnt s).isSome = true := by
  intro cnt
  induction cnt with
  | zero => intro s ht _ _; simp [hashSiblingsFrom]
  | succ cnt ih =>
    intro s ht inv hle
    simp only [hashSiblingsFrom]
    cases ha : assignFrom h ht s LYB_HASH_BITS 0 with
    | none =>
      exfalso
      have hnew : ∀ v, (s, v) ∉ ht := fun v hv => by have := inv.lt hv; simp at this
      have hb := assignFrom_none h ht s hnew _ _ ha (LYB_HASH_BITS - 1) (Nat.zero_le _) (by decide)
      obtain ⟨p, hp, hcol⟩ := blocked_collide sh inv (by decide) hb
      obtain ⟨j, hj, hne⟩ := hd p s hp (by omega)
      exact hne (hcol j (by have : LYB_HASH_BITS = 8 := rfl; omega))
    | some ht1 =>
      exact ih (s + 1) ht1 (tinv_step sh inv ha) (by omega)

end LyModel.Lyb
