import LyModel.Lyb.Tree
import LyModel.Lyb.TreeLemmasA
import LyModel.Lyb.RevLemmas
import LyModel.Props.C01Lyb
import LyModel.Val.LemmasGeneric
/-!
Round trip of the pieces of a node over the stepwise chunk interface `At` (TreeLemmasA): numbers, strings, module
records, schema hash sequences (through `lyb_hash_lookup_correct`), node headers, term values (through `Val.unlyb_lyb`).
-/
namespace LyModel.LybTree
open LyModel LyModel.Lyb LyModel.Tree LyModel.Generated LyModel.Generated.LybTree

theorem cat_eq_some {a b : Option (List Op)} {c : List Op} (h : (a +++ b) = some c) :
    ∃ x y, a = some x ∧ b = some y ∧ c = x ++ y := by
  cases a with
  | none => simp [cat] at h
  | some x =>
    cases b with
    | none => simp [cat] at h
    | some y =>
      simp only [cat, Option.some.injEq] at h
      exact ⟨x, y, rfl, rfl, h.symm⟩

theorem rdNum_at (P : Params) (hP : P.Ok) (d : Nat) (k n : Nat) (hn : n < 256 ^ k) (ops : List Op) (r : R)
    (h : At P d (wNum k n :: ops) r) : ∃ r', rdNum P r k = (r', n) ∧ At P d ops r' := by
  obtain ⟨r', h1, h2⟩ := at_read P hP d (leBytes k n) ops r h
  rw [length_leBytes] at h1
  refine ⟨r', ?_, h2⟩
  simp only [rdNum, h1, leVal_leBytes, Nat.mod_eq_of_lt hn]

theorem str_at (P : Params) (hP : P.Ok) (d : Nat) (k : Nat) (s : Bytes) (o : List Op) (ho : strOps k s = some o) (K : List Op) (r : R)
    (h : At P d (o ++ K) r) :
    ∃ r1 r2, rdNum P r k = (r1, s.length) ∧ rread P r1 s.length = (r2, s) ∧ At P d K r2 := by
  simp only [strOps] at ho
  split at ho
  · rename_i hlen
    simp only [Option.some.injEq] at ho
    subst ho
    obtain ⟨r1, e1, a1⟩ := rdNum_at P hP d k s.length hlen _ r h
    obtain ⟨r2, e2, a2⟩ := at_read P hP d s _ r1 a1
    exact ⟨r1, r2, e1, e2, a2⟩
  · simp at ho

theorem packRev_lt (rev : Option Bytes) : packRev rev < 256 ^ 2 := by
  cases rev with
  | none => simp [packRev]
  | some s => simp only [packRev]; exact Nat.mod_lt _ (by decide)

theorem model_at (P : Params) (hP : P.Ok) (d : Nat) (name : Bytes) (rev : Option Bytes) (wf : Bool) (o : List Op)
    (ho : modelOps name rev wf = some o) (hne : name ≠ []) (K : List Op) (r : R) (h : At P d (o ++ K) r) :
    ∃ r', pModel P r wf = (r', name, unpackRev (packRev rev)) ∧ At P d K r' := by
  obtain ⟨x, y, hx, hy, rfl⟩ := cat_eq_some ho
  simp only [Option.some.injEq] at hy
  subst hy
  rw [List.append_assoc] at h
  obtain ⟨r1, r2, e1, e2, a2⟩ := str_at P hP d P_MODNAME name x hx _ r h
  have hlen : name.length ≠ 0 := by simpa using hne
  simp only [List.cons_append] at a2
  obtain ⟨r3, e3, a3⟩ := rdNum_at P hP d P_REV (packRev rev) (packRev_lt rev) _ r2 a2
  have c1 : R_MODNAME = P_MODNAME := rfl
  have c2 : R_REV = P_REV := rfl
  have c3 : R_FEATCOUNT = P_FEATCOUNT := rfl
  cases wf with
  | false =>
    simp only [Bool.false_eq_true, ↓reduceIte, List.nil_append] at a3
    exact ⟨r3, by simp only [pModel, c1, c2, e1, hlen, ↓reduceIte, e2, e3, Bool.false_eq_true], a3⟩
  | true =>
    simp only [↓reduceIte, List.cons_append, List.nil_append] at a3
    obtain ⟨r4, e4, a4⟩ := rdNum_at P hP d P_FEATCOUNT 0 (by decide) _ r3 a3
    exact ⟨r4, by simp only [pModel, c1, c2, c3, e1, hlen, ↓reduceIte, e2, e3, e4, skipStrings], a4⟩

/-! ### schema hash -/

theorem tabHash_eq (m : Bytes) (names : List Bytes) : tabHash (hashTable m names) m names = realHash m names := by
  funext s i
  simp only [tabHash, hashTable, List.getElem?_map]
  cases hs : names[s]? with
  | none => simp
  | some nm =>
    simp only [Option.map_some]
    by_cases hi : i < LYB_HASH_BITS
    · rw [List.getElem?_map, List.getElem?_range hi]
      simp only [Option.map_some, realHash]
      congr 1
      simp [List.getD_eq_getElem?_getD, hs]
    · have : (List.range LYB_HASH_BITS)[i]? = none := by simp; omega
      rw [List.getElem?_map, this]
      simp

theorem generateHash_lt (m n : Bytes) (c : Nat) : generateHash m n c < 256 := by
  simp only [generateHash]
  exact Nat.mod_lt _ (by decide)

theorem frame_h (S : LSchema) (par : Option Nat) :
    (S.frame par).h = realHash S.modName ((S.sibs par).map S.name) := by
  simp only [FrameCtx.h, LSchema.frame, tabHash_eq]

theorem frame_ht (S : LSchema) (par : Option Nat) :
    (S.frame par).ht = hashSiblings (S.frame par).h (S.sibs par).length := rfl

theorem rdBytes1_at (P : Params) (hP : P.Ok) (d : Nat) (l : List Nat) (hl : ∀ b ∈ l, b < 256) (K : List Op) :
    ∀ (r : R), At P d ((l.map fun b => Op.write [UInt8.ofNat b]) ++ K) r →
      ∃ r', rdBytes1 P l.length r = (r', l) ∧ At P d K r' := by
  induction l with
  | nil => intro r h; exact ⟨r, rfl, by simpa using h⟩
  | cons b l ih =>
    intro r h
    simp only [List.map_cons, List.cons_append] at h
    obtain ⟨r1, e1, a1⟩ := at_read P hP d [UInt8.ofNat b] _ r h
    obtain ⟨r2, e2, a2⟩ := ih (fun x hx => hl x (List.mem_cons_of_mem _ hx)) r1 a1
    have hb := hl b List.mem_cons_self
    refine ⟨r2, ?_, a2⟩
    simp only [List.length_cons, List.length_nil, Nat.zero_add] at e1
    simp only [List.length_cons, rdBytes1, e1, e2, List.headD_cons, UInt8.toNat_ofNat']
    rw [Nat.mod_eq_of_lt hb]

theorem getElem?_idxOf (l : List Nat) (a : Nat) (h : l.idxOf a < l.length) : l[l.idxOf a]? = some a := by
  rw [List.getElem?_eq_getElem h, List.getElem_idxOf]

theorem hash_at (P : Params) (hP : P.Ok) (d : Nat) (S : LSchema) (par : Option Nat) (sid : Nat) (o : List Op)
    (ho : hashOps (S.frame par) sid = some o) (K : List Op) (r : R) (h : At P d (o ++ K) r) :
    ∃ r', pHash P true (S.frame par) r = some (sid, r') ∧ At P d K r' ∧ sid ∈ S.sibs par := by
  have hh := frame_h S par
  have hht := frame_ht S par
  have hsibs : (S.frame par).sibs = S.sibs par := rfl
  generalize S.frame par = fc at *
  simp only [hashOps] at ho
  split at ho
  · simp at ho
  · rename_i ht hfcht
    simp only [hsibs] at ho
    split at ho
    · rename_i hk
      split at ho
      · simp at ho
      · rename_i seq hseq
        simp only [Option.some.injEq] at ho
        subst ho
        have sh : Shape fc.h := by rw [hh]; exact realHash_shape _ _
        have hs : hashSiblings fc.h (S.sibs par).length = some ht := by rw [← hht, hfcht]
        have inv : TInv fc.h ht (S.sibs par).length := by
          have := tinv_run sh (S.sibs par).length 0 [] ht (tinv_nil fc.h) hs
          simpa using this
        obtain ⟨ck, hck, hmem, huniq⟩ := tinv_record inv hk
        have hspec := printSeq_spec sh hck hmem huniq
        rw [hseq, Option.some.injEq] at hspec
        obtain ⟨seq', hseq', hparse⟩ := Props.C01Lyb.lyb_hash_lookup_correct fc.h sh _ ht hs _ hk
        rw [hseq, Option.some.injEq] at hseq'
        subst hseq'
        have hpar := hparse []
        rw [List.append_nil, hspec] at hpar
        have hlt : ∀ s i, fc.h s i < 256 := by
          intro s i; rw [hh]; exact generateHash_lt _ _ _
        subst hspec
        simp only [seqOf, List.map_cons, List.cons_append] at h
        obtain ⟨r1, e1, a1⟩ := at_read P hP d [UInt8.ofNat (fc.h ((S.sibs par).idxOf sid) ck)] _ r h
        have hlen : ((List.range ck).reverse.map fun j => fc.h ((S.sibs par).idxOf sid) j).length = ck := by simp
        obtain ⟨r2, e2, a2⟩ := rdBytes1_at P hP d _ (by
          intro b hb
          simp only [List.mem_map] at hb
          obtain ⟨j, _, rfl⟩ := hb
          exact hlt _ _) K r1 a1
        rw [hlen] at e2
        obtain ⟨hne, hfb⟩ := sh ((S.sibs par).idxOf sid) ck hck
        refine ⟨r2, ?_, a2, List.idxOf_lt_length_iff.mp hk⟩
        simp only [List.length_cons, List.length_nil, Nat.zero_add] at e1
        simp only [pHash, e1, List.headD_cons, UInt8.toNat_ofNat', Nat.mod_eq_of_lt (hlt _ _), hne, ↓reduceIte, hfb, e2,
          Bool.not_true, Bool.false_eq_true, hsibs]
        simp only [seqOf] at hpar
        rw [hpar]
        simp only [getElem?_idxOf _ _ hk, Option.map_some]
    · simp at ho

/-! ### flags, header -/

theorem flags_rt (f : Flags) : Flags.ofNat (f.toNat) = f := by
  obtain ⟨a, b, c⟩ := f
  cases a <;> cases b <;> cases c <;> decide

theorem flags_lt (f : Flags) : f.toNat < 256 ^ P_FLAGS := by
  obtain ⟨a, b, c⟩ := f
  cases a <;> cases b <;> cases c <;> decide

/-- the annotation table is unambiguous: an annotation is found again by its dump key and by the (module, revision word,
name) the printer writes for it, and its module has a name -/
def AnnotsOk (S : LSchema) : Prop :=
  ∀ a ∈ S.annotsEff, a.modName ≠ [] ∧ S.annotsEff.find? (fun b => b.key == a.key) = some a ∧
    S.annotsEff.find? (fun b => modMatches a.modName (unpackRev (packRev a.rev)) b.modName b.rev && b.name == a.name) = some a

/-- metadata instances of known annotations with canonical values of the annotation's type -/
def MetasOk (S : LSchema) (ms : List Meta) : Prop :=
  ∀ m ∈ ms, ∃ a ∈ S.annotsEff, a.key = m.1 ∧ textVal a.ty m.2 = some m.2

theorem metas_at (P : Params) (hP : P.Ok) (d : Nat) (S : LSchema) (hann : AnnotsOk S) :
    ∀ (ms : List Meta) (ops K : List Op) (r : R), metasOps S ms = some ops → MetasOk S ms → At P d (ops ++ K) r →
      ∃ r', pMetas P S ms.length r = some (r', ms) ∧ At P d K r' := by
  intro ms
  induction ms with
  | nil =>
    intro ops K r ho _ h
    simp only [metasOps, Option.some.injEq] at ho
    subst ho
    exact ⟨r, rfl, by simpa using h⟩
  | cons m ms ih =>
    intro ops K r ho hm h
    obtain ⟨a, ha, hkey, hval⟩ := hm m List.mem_cons_self
    obtain ⟨hne, hf1, hf2⟩ := hann a ha
    simp only [metasOps, ← hkey, hf1] at ho
    obtain ⟨x1, y1, hx1, hy1, rfl⟩ := cat_eq_some ho
    obtain ⟨x2, y2, hx2, hy2, rfl⟩ := cat_eq_some hy1
    obtain ⟨x3, y3, hx3, hy3, rfl⟩ := cat_eq_some hy2
    simp only [List.append_assoc] at h
    obtain ⟨r1, e1, a1⟩ := model_at P hP d a.modName a.rev false x1 hx1 hne _ r h
    obtain ⟨r2, r3, e2, e3, a3⟩ := str_at P hP d P_METANAME a.name x2 hx2 _ r1 a1
    obtain ⟨r4, r5, e4, e5, a5⟩ := str_at P hP d P_METAVAL m.2 x3 hx3 _ r3 a3
    obtain ⟨r6, e6, a6⟩ := ih y3 K r5 hy3 (fun x hx => hm x (List.mem_cons_of_mem _ hx)) a5
    have c3 : R_METANAME = P_METANAME := rfl
    have c4 : R_METAVAL = P_METAVAL := rfl
    refine ⟨r6, ?_, a6⟩
    simp only [List.length_cons, pMetas, e1, c3, c4, e2, e3, e4, e5, hf2, hval, e6, hkey]

/-- the with-defaults instance the printer adds is one of a known annotation with a canonical value -/
theorem printedMetas_ok (o : POpts) (S : LSchema) (n : DNode) (hm : MetasOk S n.metas) : MetasOk S (printedMetas o S n) := by
  intro m hmem
  simp only [printedMetas, List.mem_append] at hmem
  rcases hmem with h | h
  · split at h
    · rename_i ht
      simp only [List.mem_singleton] at h
      subst h
      have hsome : S.wd.isSome = true := by
        simp only [wdTagged, Bool.and_eq_true] at ht
        exact ht.1.2
      obtain ⟨w, hw⟩ := Option.isSome_iff_exists.mp hsome
      exact ⟨wdAnnot w, by simp [LSchema.annotsEff, hw], rfl, rfl⟩
    · simp at h
  · exact hm m h

/-- the header of a node: metadata count, the metadata instances (the with-defaults annotation first when the printer
adds it), flags -/
theorem header_at (P : Params) (hP : P.Ok) (d : Nat) (o : POpts) (S : LSchema) (hann : AnnotsOk S) (n : DNode)
    (hm : MetasOk S n.metas) (ops : List Op) (ho : headerOps o S n = some ops) (K : List Op) (r : R) (h : At P d (ops ++ K) r) :
    ∃ r', pHeader P S r = some (r', printedMetas o S n, n.flags) ∧ At P d K r' := by
  have c1 : R_METACOUNT = P_METACOUNT := rfl
  have c2 : R_FLAGS = P_FLAGS := rfl
  simp only [headerOps] at ho
  split at ho
  · simp at ho
  · rename_i hlen
    obtain ⟨x1, y1, hx1, hy1, rfl⟩ := cat_eq_some ho
    obtain ⟨x2, y2, hx2, hy2, rfl⟩ := cat_eq_some hy1
    simp only [Option.some.injEq] at hx1 hy2
    subst hx1 hy2
    simp only [List.cons_append, List.nil_append, List.append_assoc] at h
    obtain ⟨r1, e1, a1⟩ := rdNum_at P hP d P_METACOUNT (printedMetas o S n).length (by
      have : (256 : Nat) ^ P_METACOUNT = 256 := rfl
      omega) _ r h
    obtain ⟨r2, e2, a2⟩ := metas_at P hP d S hann _ x2 _ r1 hx2 (printedMetas_ok o S n hm) a1
    obtain ⟨r3, e3, a3⟩ := rdNum_at P hP d P_FLAGS n.flags.toNat (flags_lt _) _ r2 a2
    exact ⟨r3, by simp only [pHeader, c1, c2, e1, e2, e3, flags_rt], a3⟩

/-- skipping an annotation with the widths it was printed with lands behind it -/
theorem metaSkip_at (P : Params) (hP : P.Ok) (d : Nat) (name val : Bytes) (x y : List Op) (hx : strOps P_METANAME name = some x)
    (hy : strOps P_METAVAL val = some y) (K : List Op) (r : R) (h : At P d (x ++ (y ++ K)) r) :
    At P d K (pMetaSkipW P P_METANAME P_METAVAL r) := by
  obtain ⟨r1, r2, e1, e2, a2⟩ := str_at P hP d P_METANAME name x hx _ r h
  obtain ⟨r3, r4, e3, e4, a4⟩ := str_at P hP d P_METAVAL val y hy _ r2 a2
  simp only [pMetaSkipW, e1, e2, e3, e4]
  exact a4

/-! ### term values -/

/-- the value is the canonical form of a value of the type (what a term node of a libyang tree holds) -/
def CanonVal : LTy → Bytes → Prop
  | .empty, v => v = []
  | .val t, v => t.WF ∧ ∃ x, Val.store t LYD_HINT_DATA v = .ok x ∧ Val.canon t x = v

theorem encVal_len (ty : LTy) (v b : Bytes) (n : Nat) (hc : CanonVal ty v) (he : encVal ty v = some b)
    (hl : ty.lybLen = some n) : b.length = n := by
  cases ty with
  | empty =>
    simp only [encVal] at he
    split at he
    · simp only [Option.some.injEq] at he
      subst he
      have : LTy.empty.lybLen = some 0 := by decide
      rw [this] at hl
      simpa using hl
    · simp at he
  | val t =>
    obtain ⟨hwf, x, hst, _⟩ := hc
    simp only [encVal, hst, Option.some.injEq] at he
    subst he
    have hf := Val.stored_facts ⟨_, _, hst⟩
    cases hf with
    | @int it rg nn _ _ _ =>
      have : (LTy.val (.int it rg)).lybLen = some it.lybSize := by cases it <;> rfl
      rw [this, Option.some.injEq] at hl
      simp only [Val.lyb, Val.lybInt, Val.leBytes_length, hl]
    | dec _ _ _ =>
      have : ∀ fd rg, (LTy.val (.dec64 fd rg)).lybLen = some 8 := by intros; rfl
      rw [this, Option.some.injEq] at hl
      simp only [Val.lyb, Val.lybDec64, Val.leBytes_length, hl]
    | bool =>
      have : (LTy.val .bool).lybLen = some 1 := by decide
      rw [this, Option.some.injEq] at hl
      simp [Val.lyb, Val.lybBool, ← hl]
    | enum _ =>
      have : ∀ items, (LTy.val (.enum items)).lybLen = some 4 := by intros; rfl
      rw [this, Option.some.injEq] at hl
      simp only [Val.lyb, Val.lybEnum, Val.leBytes_length, hl]
    | bits _ =>
      have : ∀ items, (LTy.val (.bits items)).lybLen = none := by intros; rfl
      rw [this] at hl
      simp at hl
    | str _ =>
      have : ∀ len, (LTy.val (.str len)).lybLen = none := by intros; rfl
      rw [this] at hl
      simp at hl

theorem decVal_encVal (ty : LTy) (v b : Bytes) (hc : CanonVal ty v) (he : encVal ty v = some b) : decVal ty b = some v := by
  cases ty with
  | empty =>
    simp only [encVal] at he
    split at he
    · simp only [Option.some.injEq] at he
      subst he
      simp only [CanonVal] at hc
      simp [decVal, hc]
    · simp at he
  | val t =>
    obtain ⟨hwf, x, hst, hcan⟩ := hc
    simp only [encVal, hst, Option.some.injEq] at he
    subst he
    simp only [decVal, Val.unlyb_lyb hwf ⟨_, _, hst⟩, hcan]

theorem value_at (P : Params) (hP : P.Ok) (d : Nat) (ty : LTy) (v : Bytes) (ops : List Op) (ho : valueOps ty v = some ops)
    (hc : CanonVal ty v) (K : List Op) (r : R) (h : At P d (ops ++ K) r) :
    ∃ r', pValue P ty r = some (r', v) ∧ At P d K r' := by
  simp only [valueOps] at ho
  split at ho
  · simp at ho
  · rename_i b he
    have hdec := decVal_encVal ty v b hc he
    have c1 : R_TERMLEN = P_TERMLEN := rfl
    split at ho
    · rename_i hl
      split at ho
      · simp at ho
      · rename_i hmax
        simp only [Option.some.injEq] at ho
        subst ho
        simp only [List.cons_append] at h
        obtain ⟨r1, e1, a1⟩ := rdNum_at P hP d P_TERMLEN b.length (by
          have : UINT32_MAX < 256 ^ P_TERMLEN := by decide
          omega) _ r h
        by_cases hpos : b.length > 0
        · simp only [hpos, ↓reduceIte, List.cons_append, List.nil_append] at a1
          obtain ⟨r2, e2, a2⟩ := at_read P hP d b _ r1 a1
          exact ⟨r2, by simp only [pValue, hl, c1, e1, hmax, ↓reduceIte, hpos, e2, hdec, Option.map_some], a2⟩
        · simp only [hpos, ↓reduceIte, List.nil_append] at a1
          have hb : b = [] := List.eq_nil_of_length_eq_zero (by omega)
          subst hb
          exact ⟨r1, by simp only [pValue, hl, c1, e1, hmax, ↓reduceIte, hpos, hdec, Option.map_some], a1⟩
    · rename_i n hl
      simp only [Option.some.injEq] at ho
      subst ho
      have hlen := encVal_len ty v b n hc he hl
      by_cases hpos : n > 0
      · simp only [hpos, ↓reduceIte, List.cons_append, List.nil_append] at h
        obtain ⟨r2, e2, a2⟩ := at_read P hP d b _ r h
        rw [hlen] at e2
        exact ⟨r2, by simp only [pValue, hl, hpos, ↓reduceIte, e2, hdec, Option.map_some], a2⟩
      · simp only [hpos, ↓reduceIte, List.nil_append] at h
        have hb : b = [] := List.eq_nil_of_length_eq_zero (by omega)
        subst hb
        exact ⟨r, by simp only [pValue, hl, hpos, ↓reduceIte, hdec, Option.map_some], h⟩

end LyModel.LybTree
