import LyModel.Lyb.ChunkWriter
/-! Part D2: the whole operation sequence — `wrun` produces `spec` (inner counts erased). -/
namespace LyModel.Lyb

theorem wrun_spec (P : Params) (hM : 0 < P.sizeMax) :
    ∀ (ops : List Op) (w w' : W), wrun P w ops = some w' → InvW P.sizeMax w →
      wellNestedFrom w.frames.length ops = true →
      w'.out.map Item.erase
        = fill (pendOf P.sizeMax (fun k => bytesUntilClose k ops) 0 w.frames) w.out
          ++ spec P.sizeMax (w.frames.map (·.written)) ops := by
  intro ops
  induction ops with
  | nil =>
    intro w w' h _ wf
    simp only [wrun, Option.some.injEq] at h
    subst h
    simp only [wellNestedFrom, beq_iff_eq, List.length_eq_zero_iff] at wf
    simp [wf, pendOf, spec]
  | cons op r ih =>
    intro w w' h inv wf
    simp only [wrun] at h
    split at h
    · simp at h
    · rename_i w1 hop
      cases op with
      | start =>
        simp only [wop, wstart] at hop
        split at hop
        · simp at hop
        · rename_i fs hbump
          simp only [Option.some.injEq] at hop
          subst hop
          have hmap := bumpInner_map P.inMax w.frames fs hbump
          obtain ⟨hw, hp, hl⟩ := map_written_of_map w.frames fs hmap
          have hposfs : ∀ g ∈ fs, g.pos < w.out.length := by
            intro g hg
            have : g.pos ∈ w.frames.map (·.pos) := by rw [← hp]; exact List.mem_map_of_mem hg
            obtain ⟨g', hg', e⟩ := List.mem_map.mp this
            rw [← e]; exact inv.pos_lt g' hg'
          have inv1 : InvW P.sizeMax
              { out := w.out ++ [.hdr 0 0], frames := { written := 0, pos := w.out.length, inner := 0 } :: fs } := by
            refine ⟨?_, ?_, ?_⟩
            · intro g hg
              simp only [List.length_append, List.length_singleton]
              rcases List.mem_cons.mp hg with rfl | hg
              · simp
              · have := hposfs g hg; omega
            · intro g hg
              rcases List.mem_cons.mp hg with rfl | hg
              · simp
              · have : g.written ∈ w.frames.map (·.written) := by rw [← hw]; exact List.mem_map_of_mem hg
                obtain ⟨g', hg', e⟩ := List.mem_map.mp this
                rw [← e]; exact inv.wr_le g' hg'
            · simp only [List.map_cons, hp]
              apply List.nodup_cons.mpr
              refine ⟨?_, inv.nodup⟩
              intro hmem
              obtain ⟨g', hg', e⟩ := List.mem_map.mp hmem
              have := inv.pos_lt g' hg'; omega
          have wf1 : wellNestedFrom (fs.length + 1) r = true := by
            simpa [wellNestedFrom, hl] using wf
          have := ih _ w' h inv1 (by simpa using wf1)
          rw [this]
          simp only [pendOf, Nat.zero_add, List.map_cons, hw, spec, fill_cons]
          rw [pendOf_shift, pendOf_congr _ _ _ w.frames fs hmap]
          have hkeys : ∀ ps ∈ pendOf P.sizeMax (fun j => bytesUntilClose (j + 1) r) 0 w.frames, ps.1 < w.out.length := by
            intro ps hps
            have : ps.1 ∈ w.frames.map (·.pos) := by rw [← pendOf_keys]; exact List.mem_map_of_mem hps
            obtain ⟨g', hg', e⟩ := List.mem_map.mp this
            rw [← e]; exact inv.pos_lt g' hg'
          rw [fill_append_single _ _ _ hkeys, List.set_append_right _ _ (by simp)]
          simp [Item.erase, bytesUntilClose]
      | stop =>
        simp only [wop, wstop] at hop
        split at hop
        · simp at hop
        · rename_i f fs hfr
          simp only [Option.some.injEq] at hop
          subst hop
          have hnd := inv.nodup
          rw [hfr] at hnd
          simp only [List.map_cons] at hnd
          have inv1 : InvW P.sizeMax { out := patch w.out f, frames := fs } := by
            refine ⟨?_, ?_, (List.nodup_cons.mp hnd).2⟩
            · intro g hg
              simp only [patch, List.length_set]
              exact inv.pos_lt g (by rw [hfr]; exact List.mem_cons_of_mem _ hg)
            · intro g hg
              exact inv.wr_le g (by rw [hfr]; exact List.mem_cons_of_mem _ hg)
          have wf1 : wellNestedFrom fs.length r = true := by
            simpa [wellNestedFrom, hfr] using wf
          have := ih _ w' h inv1 wf1
          rw [this, hfr]
          simp only [pendOf, Nat.zero_add, List.map_cons, spec, fill_cons, List.tail_cons, patch]
          rw [pendOf_shift]
          have hnotin : ∀ ps ∈ pendOf P.sizeMax (fun k => bytesUntilClose k r) 0 fs, ps.1 ≠ f.pos := by
            intro ps hps heq
            have : ps.1 ∈ fs.map (·.pos) := by rw [← pendOf_keys]; exact List.mem_map_of_mem hps
            exact (List.nodup_cons.mp hnd).1 (heq ▸ this)
          rw [fill_set_notin _ _ _ _ hnotin]
          have hfw : f.written ≤ P.sizeMax := inv.wr_le f (by rw [hfr]; simp)
          simp [Item.erase, bytesUntilClose, Nat.min_eq_right hfw]
      | write bs =>
        simp only [wop, wwrite] at hop
        have hmeas : loopMeasure P.sizeMax (w.frames.map (·.written)) bs.length
            ≤ loopFuel bs.length w.frames.length := by
          have := loopMeasure_le_fuel P.sizeMax (w.frames.map (·.written)) bs.length
          simpa using this
        obtain ⟨f1, f2, f3, f4⟩ :=
          wloop_spec P hM (fun k => bytesUntilClose k r) _ w bs w1 hop inv hmeas
        have wf1 : wellNestedFrom w1.frames.length r = true := by
          simpa [wellNestedFrom, f4] using wf
        have := ih w1 w' h f3 wf1
        rw [this, f1, f2]
        simp only [spec, List.length_map, bytesUntilClose, List.append_assoc]

/-- the writer started on the empty state -/
theorem wrun_spec_init (P : Params) (hM : 0 < P.sizeMax) (ops : List Op) (w' : W)
    (h : wrun P {} ops = some w') (wf : WellNested ops) :
    w'.out.map Item.erase = spec P.sizeMax [] ops := by
  have := wrun_spec P hM ops {} w' h ⟨by simp, by simp, by simp⟩ wf
  simpa [pendOf] using this

end LyModel.Lyb
