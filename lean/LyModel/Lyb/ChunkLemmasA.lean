import LyModel.Lyb.Chunk
/-! Helper lemmas for the LYB chunk proofs, part A: little-endian fields, `readMeta` on a serialised record, the scan. -/
namespace LyModel.Lyb

theorem length_leBytes (k n : Nat) : (leBytes k n).length = k := by
  induction k generalizing n with
  | zero => rfl
  | succ k ih => simp [leBytes, ih]

theorem leVal_leBytes (k n : Nat) : leVal (leBytes k n) = n % 256 ^ k := by
  induction k generalizing n with
  | zero => simp [leBytes, leVal, Nat.mod_one]
  | succ k ih =>
    simp only [leBytes, leVal, ih]
    have h : (UInt8.ofNat (n % 256)).toNat = n % 256 := by
      simp
    rw [h, Nat.pow_succ, Nat.mul_comm (256 ^ k) 256, Nat.mod_mul]

theorem and_sizeMax {x M b : Nat} (hM : M + 1 = 2 ^ b) : x &&& M = x % 2 ^ b := by
  have : M = 2 ^ b - 1 := by omega
  rw [this, Nat.and_two_pow_sub_one_eq_mod]

theorem two_pow_le_256 {b k : Nat} (h : b ≤ 8 * k) : 2 ^ b ≤ 256 ^ k := by
  have : (256 : Nat) ^ k = 2 ^ (8 * k) := by rw [Nat.pow_mul]
  rw [this]
  exact Nat.pow_le_pow_right (by decide) h

/-- reading back a serialised meta record -/
theorem readMeta_ser (P : Params) (hP : P.Ok) (s i : Nat) (hs : s ≤ P.sizeMax) (rest : Bytes) :
    readMeta P (Item.ser P (.hdr s i) ++ rest)
      = ({ written := s, more := s == P.sizeMax, inner := i % (P.inMax + 1) }, rest) := by
  obtain ⟨bs, hbs, hbs'⟩ := hP.size_fits
  obtain ⟨bi, hbi, hbi'⟩ := hP.in_fits
  have h1 : s &&& P.sizeMax = s := by
    rw [and_sizeMax hbs]; apply Nat.mod_eq_of_lt; omega
  have h2 : i &&& P.inMax = i % (P.inMax + 1) := by
    rw [and_sizeMax hbi, hbi]
  have hs' : s % 256 ^ P.sizeBytes = s := by
    apply Nat.mod_eq_of_lt
    have := two_pow_le_256 hbs'
    omega
  have hi' : i % (P.inMax + 1) % 256 ^ P.inBytes = i % (P.inMax + 1) := by
    apply Nat.mod_eq_of_lt
    have := two_pow_le_256 hbi'
    have : i % (P.inMax + 1) < P.inMax + 1 := Nat.mod_lt _ (by omega)
    omega
  simp only [readMeta, Item.ser, h1, h2]
  have l1 := length_leBytes P.sizeBytes s
  have l2 := length_leBytes P.inBytes (i % (P.inMax + 1))
  rw [List.append_assoc, List.take_left' l1, List.drop_left' l1, List.take_left' l2,
    leVal_leBytes, leVal_leBytes, hs', hi']
  congr 1
  rw [← List.append_assoc, List.drop_left']
  simp [l1, l2]

end LyModel.Lyb
