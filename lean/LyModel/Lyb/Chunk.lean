import LyModel.Base
import LyModel.Generated.Consts
/-!
LYB chunk framing — model of `printer_lyb.c: lyb_write, lyb_write_start_siblings, lyb_write_stop_siblings,
lyb_write_sibling_meta` and `parser_lyb.c: lyb_read, lyb_read_sibling_meta, lyb_read_start_siblings,
lyb_read_stop_siblings, lyb_skip_siblings`.  CORE LEAN ONLY (linked into `lydrv`).

Representation.  The printer's memory `ly_out` is a list of *items*: a data segment (the bytes of one `ly_write_`
call) or one sibling-meta record (`LYB_META_BYTES` reserved by `ly_write_skip`, filled later by `ly_write_skipped`).
`WFrame.pos` is the index of the reserved record in the item list (C: byte offset).  `serialize` turns the items into
the byte image, applying the `& LYB_SIZE_MAX` / `& LYB_INCHUNK_MAX` masks and the little-endian layout of
`lyb_write_sibling_meta`.  The reader works on plain bytes.

All constants are parameters (`Params`); `Params.gen` takes them from `LyModel.Generated` (lyb.h).
-/
namespace LyModel.Lyb

structure Params where
  sizeMax : Nat      -- LYB_SIZE_MAX
  inMax : Nat        -- LYB_INCHUNK_MAX
  sizeBytes : Nat    -- LYB_SIZE_BYTES
  inBytes : Nat      -- LYB_INCHUNK_BYTES
  deriving Repr

def Params.gen : Params :=
  { sizeMax := Generated.LYB_SIZE_MAX, inMax := Generated.LYB_INCHUNK_MAX,
    sizeBytes := Generated.LYB_SIZE_BYTES, inBytes := Generated.LYB_INCHUNK_BYTES }

/-- LYB_META_BYTES -/
def Params.metaBytes (P : Params) : Nat := P.sizeBytes + P.inBytes

/-- side conditions under which the theorems are stated (checked for `Params.gen` by evaluation) -/
structure Params.Ok (P : Params) : Prop where
  size_pos : 0 < P.sizeMax
  /-- `LYB_SIZE_MAX` is an all-ones mask that fits into `LYB_SIZE_BYTES` bytes -/
  size_fits : ∃ b, P.sizeMax + 1 = 2 ^ b ∧ b ≤ 8 * P.sizeBytes
  /-- `LYB_INCHUNK_MAX` is an all-ones mask that fits into `LYB_INCHUNK_BYTES` bytes -/
  in_fits : ∃ b, P.inMax + 1 = 2 ^ b ∧ b ≤ 8 * P.inBytes

/-! ### little-endian fields -/

/-- `k` little-endian bytes of `n` (what `htole64` + `memcpy(…, k)` stores) -/
def leBytes : Nat → Nat → Bytes
  | 0, _ => []
  | k + 1, n => UInt8.ofNat (n % 256) :: leBytes k (n / 256)

def leVal : Bytes → Nat
  | [] => 0
  | b :: r => b.toNat + 256 * leVal r

/-! ### items and serialisation -/

inductive Item where
  | seg (bs : Bytes)
  | hdr (size inner : Nat)
  deriving Repr, BEq, DecidableEq

def Item.ser (P : Params) : Item → Bytes
  | .seg bs => bs
  | .hdr s i => leBytes P.sizeBytes (s &&& P.sizeMax) ++ leBytes P.inBytes (i &&& P.inMax)

def serialize (P : Params) (items : List Item) : Bytes := items.flatMap (Item.ser P)

/-! ### operations -/

inductive Op where
  | start
  | stop
  | write (bs : Bytes)
  deriving Repr, BEq, DecidableEq

/-- what the reader is driven by: the same shape, lengths only -/
inductive ROp where
  | start
  | stop
  | read (n : Nat)
  deriving Repr, BEq, DecidableEq

def Op.shape : Op → ROp
  | .start => .start
  | .stop => .stop
  | .write bs => .read bs.length

/-- depth bookkeeping: `wellNestedFrom d ops` — starting with `d` open frames no `stop` hits an empty stack and all
frames are closed at the end -/
def wellNestedFrom : Nat → List Op → Bool
  | d, [] => d == 0
  | d, .start :: r => wellNestedFrom (d + 1) r
  | 0, .stop :: _ => false
  | d + 1, .stop :: r => wellNestedFrom d r
  | d, .write _ :: r => wellNestedFrom d r

def WellNested (ops : List Op) : Prop := wellNestedFrom 0 ops = true

instance (ops : List Op) : Decidable (WellNested ops) := by unfold WellNested; infer_instance

/-! ### the full-chunk scan

C (`lyb_write`):
```
to_write = count; full = NULL;
LY_ARRAY_FOR(siblings, u) if (siblings[u].written + to_write >= LYB_SIZE_MAX) { to_write = LYB_SIZE_MAX - written; full = &siblings[u]; }
```
The model keeps the frame stack **innermost first** (`start` = cons, `stop` = tail; C index `u` = length − 1 − model
index).  The C loop runs from the outermost to the innermost frame, so the recursion first scans the tail (outer
frames) and then decides the head; a later (inner) hit replaces an earlier one.  `scanW` returns the final `to_write`
and the model index of `full`. -/
def scanW (sizeMax : Nat) : List Nat → Nat → Nat × Option Nat
  | [], tw => (tw, none)
  | w :: ws, tw =>
    match scanW sizeMax ws tw with
    | (tw1, full1) => if w + tw1 ≥ sizeMax then (sizeMax - w, some 0) else (tw1, full1.map (· + 1))

/-! ### writer -/

structure WFrame where
  written : Nat
  pos : Nat
  inner : Nat
  deriving Repr, BEq, DecidableEq

structure W where
  out : List Item := []
  frames : List WFrame := []      -- innermost first (C: `lybctx->siblings[count-1 … 0]`)
  deriving Repr, BEq, DecidableEq

/-- `++iter->inner_chunks` for the listed frames, `LY_EINT` (none) when one already is `LYB_INCHUNK_MAX` -/
def bumpInner (inMax : Nat) : List WFrame → Option (List WFrame)
  | [] => some []
  | f :: fs =>
    if f.inner = inMax then none
    else match bumpInner inMax fs with
      | none => none
      | some fs' => some ({ f with inner := f.inner + 1 } :: fs')

/-- `lyb_write_sibling_meta`: fill the reserved record of frame `f` -/
def patch (out : List Item) (f : WFrame) : List Item := out.set f.pos (.hdr f.written f.inner)

def addWritten (n : Nat) (fs : List WFrame) : List WFrame := fs.map fun f => { f with written := f.written + n }

/-- `lyb_write_start_siblings` -/
def wstart (P : Params) (w : W) : Option W :=
  match bumpInner P.inMax w.frames with
  | none => none
  | some fs => some { out := w.out ++ [.hdr 0 0], frames := { written := 0, pos := w.out.length, inner := 0 } :: fs }

/-- `lyb_write_stop_siblings` (an empty stack is undefined behaviour in C; the model refuses) -/
def wstop (w : W) : Option W :=
  match w.frames with
  | [] => none
  | f :: fs => some { out := patch w.out f, frames := fs }

/-- fuel that provably suffices for one `lyb_write` call (`Lemmas`): every iteration either writes at least one byte or
closes a frame that stands at `LYB_SIZE_MAX` -/
def loopFuel (count nframes : Nat) : Nat := count * (nframes + 1) + nframes + 1

/-- "we are actually writing some data, not just finishing another chunk": `ly_write_` of `tw` bytes and
`written += tw` in every open frame -/
def wdata (w : W) (buf : Bytes) (tw : Nat) : W :=
  if tw > 0 then { out := w.out ++ [.seg (buf.take tw)], frames := addWritten tw w.frames } else w

/-- `if (full)`: write the meta information of frame `u`, zero its counters, reserve the next record
(`ly_write_skip`), count it in the outer frames (`LY_EINT` when one of them is at `LYB_INCHUNK_MAX`) -/
def wclose (P : Params) (w1 : W) (u : Nat) : Option W :=
  match w1.frames[u]? with
  | none => none
  | some f =>
    match bumpInner P.inMax (w1.frames.drop (u + 1)) with
    | none => none
    | some outer =>
      some { out := patch w1.out f ++ [.hdr 0 0],
             frames := w1.frames.take u ++ { written := 0, pos := (patch w1.out f).length, inner := 0 } :: outer }

/-- the `while (1)` loop of `lyb_write` -/
def wloop (P : Params) : Nat → W → Bytes → Option W
  | 0, w, _ => some w
  | fuel + 1, w, buf =>
    match scanW P.sizeMax (w.frames.map (·.written)) buf.length with
    | (tw, full) =>
      if full.isNone && buf.isEmpty then some w
      else
        match full with
        | none => wloop P fuel (wdata w buf tw) (buf.drop tw)
        | some u =>
          match wclose P (wdata w buf tw) u with
          | none => none
          | some w2 => wloop P fuel w2 (buf.drop tw)

/-- `lyb_write(out, buf, count, lybctx)` -/
def wwrite (P : Params) (w : W) (buf : Bytes) : Option W :=
  wloop P (loopFuel buf.length w.frames.length) w buf

def wop (P : Params) (w : W) : Op → Option W
  | .start => wstart P w
  | .stop => wstop w
  | .write bs => wwrite P w bs

def wrun (P : Params) : W → List Op → Option W
  | w, [] => some w
  | w, op :: r => match wop P w op with
    | none => none
    | some w' => wrun P w' r

/-- byte image the printer produces for an operation sequence (none: `LY_EINT` or stop without start) -/
def writeAll (P : Params) (ops : List Op) : Option Bytes :=
  match wrun P {} ops with
  | none => none
  | some w => some (serialize P w.out)

/-! ### reader -/

structure RFrame where
  written : Nat
  more : Bool        -- C: `position` = (written == LYB_SIZE_MAX) when the record was read
  inner : Nat
  deriving Repr, BEq, DecidableEq

structure R where
  inp : Bytes
  frames : List RFrame := []     -- innermost first
  deriving Repr, BEq, DecidableEq

/-- `lyb_read_sibling_meta` (reading behind the end of the input yields zero bytes in the model; C: out of bounds) -/
def readMeta (P : Params) (inp : Bytes) : RFrame × Bytes :=
  let s := leVal (inp.take P.sizeBytes)
  let i := leVal ((inp.drop P.sizeBytes).take P.inBytes)
  ({ written := s, more := s == P.sizeMax, inner := i }, inp.drop (P.sizeBytes + P.inBytes))

/-- C (`lyb_read`): `if ((siblings[u].written <= to_read) && siblings[u].position) { to_read = written; empty = u; }` -/
def scanR : List RFrame → Nat → Nat × Option Nat
  | [], tr => (tr, none)
  | f :: fs, tr =>
    match scanR fs tr with
    | (tr1, e1) => if f.written ≤ tr1 ∧ f.more = true then (f.written, some 0) else (tr1, e1.map (· + 1))

/-- `size_t` subtraction: wraps modulo 2^64 (reached only on streams the printer cannot produce, and by
`lyb_skip_siblings` — finding F69) -/
def subWrap (a n : Nat) : Nat := if n ≤ a then a - n else a + 2 ^ 64 - n

def subWritten (n : Nat) (fs : List RFrame) : List RFrame := fs.map fun f => { f with written := subWrap f.written n }

/-- `ly_in_read` / `ly_in_skip` of `tr` bytes and `written -= tr` in every open frame -/
def rdata (r : R) (tr : Nat) : R :=
  if tr > 0 then { inp := r.inp.drop tr, frames := subWritten tr r.frames } else r

/-- `if (empty) lyb_read_sibling_meta(empty, lybctx)` -/
def rclose (P : Params) (r1 : R) (u : Nat) : R :=
  match readMeta P r1.inp with
  | (f, rest) => { inp := rest, frames := r1.frames.set u f }

/-- the `while (1)` loop of `lyb_read`; `acc` collects the bytes copied to `buf` -/
def rloop (P : Params) : Nat → R → Nat → Bytes → R × Bytes
  | 0, r, _, acc => (r, acc)
  | fuel + 1, r, count, acc =>
    match scanR r.frames count with
    | (tr, empty) =>
      if empty.isNone && count == 0 then (r, acc)
      else
        let acc1 := if tr > 0 then acc ++ r.inp.take tr else acc
        match empty with
        | none => rloop P fuel (rdata r tr) (count - tr) acc1
        | some u => rloop P fuel (rclose P (rdata r tr) u) (count - tr) acc1

/-- `lyb_read(buf, count, lybctx)` -/
def rread (P : Params) (r : R) (count : Nat) : R × Bytes :=
  rloop P (loopFuel count r.frames.length) r count []

/-- `lyb_read_start_siblings` -/
def rstart (P : Params) (r : R) : R :=
  match readMeta P r.inp with
  | (f, rest) => { inp := rest, frames := f :: r.frames }

/-- `lyb_read_stop_siblings`: `LOGINT` (none) unless the frame is read completely -/
def rstop (r : R) : Option R :=
  match r.frames with
  | [] => none
  | f :: fs => if f.written ≠ 0 then none else some { r with frames := fs }

def rop (P : Params) (st : R × List Bytes) : ROp → Option (R × List Bytes)
  | .start => some (rstart P st.1, st.2)
  | .stop => match rstop st.1 with
    | none => none
    | some r => some (r, st.2)
  | .read n => match rread P st.1 n with
    | (r, got) => some (r, st.2 ++ [got])

def rrun (P : Params) : R × List Bytes → List ROp → Option (R × List Bytes)
  | st, [] => some st
  | st, op :: r => match rop P st op with
    | none => none
    | some st' => rrun P st' r

/-- payloads the reader returns when driven by `shape` over the image `inp`, together with the final state -/
def readAll (P : Params) (shape : List ROp) (inp : Bytes) : Option (R × List Bytes) :=
  rrun P ({ inp := inp }, []) shape

def payloads : List Op → List Bytes
  | [] => []
  | .write bs :: r => bs :: payloads r
  | _ :: r => payloads r

/-! ### `lyb_skip_siblings`

```
do { ly_in_skip(in, LAST.inner_chunks * LYB_META_BYTES); lyb_read(NULL, LAST.written, lybctx); } while (LAST.written);
```
-/
def rskip (P : Params) : Nat → R → R
  | 0, r => r
  | fuel + 1, r =>
    match r.frames with
    | [] => r
    | f :: _ =>
      let r1 : R := { r with inp := r.inp.drop (f.inner * P.metaBytes) }
      let r2 := (rread P r1 f.written).1
      match r2.frames with
      | [] => r2
      | f2 :: _ => if f2.written = 0 then r2 else rskip P fuel r2

/-! ### reading with one frame skipped (`lyb_read_start_siblings; lyb_skip_siblings; lyb_read_stop_siblings`) -/

/-- the ops after the stop that closes the frame just opened (`d` deeper frames open) -/
def dropFrame : List Op → Nat → List Op
  | [], _ => []
  | .start :: t, d => dropFrame t (d + 1)
  | .stop :: t, 0 => t
  | .stop :: t, d + 1 => dropFrame t d
  | .write _ :: t, d => dropFrame t d

/-- reader driven by the shape, except that the frame opened by the `k`-th start is passed with
`lyb_read_start_siblings; lyb_skip_siblings; lyb_read_stop_siblings`.  Returns the final state and the payloads read. -/
def readSkipping (P : Params) : List Op → Nat → R × List Bytes → Option (R × List Bytes)
  | [], _, st => some st
  | .start :: r, 0, st =>
    let r1 := rstart P st.1
    let r2 := rskip P (r1.inp.length + 2) r1
    match rstop r2 with
    | none => none
    | some r3 => rrun P (r3, st.2) ((dropFrame r 0).map Op.shape)
  | .start :: r, k + 1, st => match rop P st .start with
    | none => none
    | some st' => readSkipping P r k st'
  | .stop :: r, k, st => match rop P st .stop with
    | none => none
    | some st' => readSkipping P r k st'
  | .write bs :: r, k, st => match rop P st (.read bs.length) with
    | none => none
    | some st' => readSkipping P r k st'

/-- the payloads outside the frame opened by the `k`-th start -/
def payloadsSkipping : List Op → Nat → List Bytes
  | [], _ => []
  | .start :: r, 0 => payloads (dropFrame r 0)
  | .start :: r, k + 1 => payloadsSkipping r k
  | .write bs :: r, k => bs :: payloadsSkipping r k
  | .stop :: r, k => payloadsSkipping r k

end LyModel.Lyb
