import LyModel.Lyb.ChunkSpec
/-!
Part D: the patching writer produces the specification stream (proof plan step 2).
-/
namespace LyModel.Lyb

structure InvW (M : Nat) (w : W) : Prop where
  pos_lt : ∀ f ∈ w.frames, f.pos < w.out.length
  wr_le : ∀ f ∈ w.frames, f.written ≤ M
  nodup : (w.frames.map (·.pos)).Nodup

theorem pendOf_keys (M : Nat) (rem : Nat → Nat) (k : Nat) (fs : List WFrame) :
    (pendOf M rem k fs).map (·.1) = fs.map (·.pos) := by
  induction fs generalizing k with
  | nil => rfl
  | cons f fs ih => simp [pendOf, ih]

theorem pendOf_append (M : Nat) (rem : Nat → Nat) (k : Nat) (A B : List WFrame) :
    pendOf M rem k (A ++ B) = pendOf M rem k A ++ pendOf M rem (k + A.length) B := by
  induction A generalizing k with
  | nil => simp [pendOf]
  | cons f A ih => simp [pendOf, ih, Nat.add_assoc, Nat.add_comm 1]

theorem pendOf_shift (M : Nat) (rem : Nat → Nat) (k : Nat) (fs : List WFrame) :
    pendOf M rem (k + 1) fs = pendOf M (fun j => rem (j + 1)) k fs := by
  induction fs generalizing k with
  | nil => rfl
  | cons f fs ih => simp [pendOf, ih]

theorem bumpInner_map (i : Nat) (fs fs' : List WFrame) (h : bumpInner i fs = some fs') :
    fs'.map (fun f => (f.written, f.pos)) = fs.map (fun f => (f.written, f.pos)) := by
  induction fs generalizing fs' with
  | nil => simp [bumpInner] at h; subst h; rfl
  | cons f fs ih =>
    simp only [bumpInner] at h
    split at h
    · simp at h
    · split at h
      · simp at h
      · rename_i fs'' hb
        simp at h; subst h
        simp [ih fs'' hb]

theorem pendOf_congr (M : Nat) (rem : Nat → Nat) (k : Nat) (fs fs' : List WFrame)
    (h : fs'.map (fun f => (f.written, f.pos)) = fs.map (fun f => (f.written, f.pos))) :
    pendOf M rem k fs' = pendOf M rem k fs := by
  induction fs generalizing fs' k with
  | nil => simp at h; subst h; rfl
  | cons f fs ih =>
    cases fs' with
    | nil => simp at h
    | cons f' fs' =>
      simp at h
      obtain ⟨⟨h1, h2⟩, h3⟩ := h
      simp [pendOf, h1, h2, ih (k + 1) fs' (by simpa using h3)]

theorem map_written_of_map (fs fs' : List WFrame)
    (h : fs'.map (fun f => (f.written, f.pos)) = fs.map (fun f => (f.written, f.pos))) :
    fs'.map (·.written) = fs.map (·.written) ∧ fs'.map (·.pos) = fs.map (·.pos) ∧ fs'.length = fs.length := by
  have h1 := congrArg (List.map Prod.fst) h
  have h2 := congrArg (List.map Prod.snd) h
  have h3 := congrArg List.length h
  simp only [List.map_map, List.length_map] at h1 h2 h3
  exact ⟨h1, h2, h3⟩

theorem pendOf_addWritten (M : Nat) (rem rem1 : Nat → Nat) (tw k : Nat) (fs : List WFrame)
    (h : ∀ j, tw + rem1 j = rem j) : pendOf M rem1 k (addWritten tw fs) = pendOf M rem k fs := by
  induction fs generalizing k with
  | nil => rfl
  | cons f fs ih =>
    have := h k
    simp only [addWritten, List.map_cons, pendOf] at ih ⊢
    rw [ih]
    congr 2
    omega

/-! ### step A: the data-writing half of a loop iteration -/

theorem stepA (M : Nat) (w : W) (buf : Bytes) (tw : Nat) (fut : Nat → Nat) (inv : InvW M w)
    (htw : tw ≤ buf.length) (hb : ∀ f ∈ w.frames, f.written + tw ≤ M) :
    let w1 : W := wdata w buf tw
    InvW M w1 ∧
    fill (pendOf M (fun k => (buf.drop tw).length + fut k) 0 w1.frames) w1.out
      = fill (pendOf M (fun k => buf.length + fut k) 0 w.frames) w.out
        ++ (if tw > 0 then [Item.seg (buf.take tw)] else []) ∧
    w1.frames.map (·.written) = (if tw > 0 then (w.frames.map (·.written)).map (· + tw) else w.frames.map (·.written)) ∧
    w1.frames.length = w.frames.length := by
  intro w1
  by_cases h0 : tw > 0
  · have hw1 : w1 = { out := w.out ++ [.seg (buf.take tw)], frames := addWritten tw w.frames } := by
      simp [w1, wdata, h0]
    rw [hw1]
    simp only [h0, ↓reduceIte]
    refine ⟨⟨?_, ?_, ?_⟩, ?_, ?_, ?_⟩
    · intro f hf
      simp only [addWritten, List.mem_map] at hf
      obtain ⟨g, hg, rfl⟩ := hf
      have := inv.pos_lt g hg
      simp; omega
    · intro f hf
      simp only [addWritten, List.mem_map] at hf
      obtain ⟨g, hg, rfl⟩ := hf
      exact hb g hg
    · have : (addWritten tw w.frames).map (·.pos) = w.frames.map (·.pos) := by
        simp [addWritten, List.map_map, Function.comp_def]
      rw [this]; exact inv.nodup
    · rw [pendOf_addWritten M (fun k => buf.length + fut k) _ tw 0 w.frames
        (by intro j; simp only [List.length_drop]; omega)]
      rw [fill_append_single]
      · rfl
      · intro ps hps
        have hk := pendOf_keys M (fun k => buf.length + fut k) 0 w.frames
        have : ps.1 ∈ w.frames.map (·.pos) := by
          rw [← hk]; exact List.mem_map_of_mem hps
        obtain ⟨g, hg, hgp⟩ := List.mem_map.mp this
        rw [← hgp]; exact inv.pos_lt g hg
    · simp [addWritten, List.map_map, Function.comp_def]
    · simp [addWritten]
  · have htw0 : tw = 0 := by omega
    have hw1 : w1 = w := by simp [w1, wdata, h0]
    rw [hw1]
    subst htw0
    simp [inv]

/-! ### step B: closing the full chunk of frame `u` -/

theorem frames_split (fs : List WFrame) (u : Nat) (f : WFrame) (hu : fs[u]? = some f) :
    fs = fs.take u ++ f :: fs.drop (u + 1) ∧ (fs.take u).length = u := by
  obtain ⟨hlt, hget⟩ := List.getElem?_eq_some_iff.mp hu
  refine ⟨?_, by simp; omega⟩
  conv => lhs; rw [← List.take_append_drop u fs]
  rw [List.drop_eq_getElem_cons hlt, hget]

theorem stepB (M inMax : Nat) (w1 : W) (u : Nat) (f : WFrame) (outer : List WFrame) (rem1 : Nat → Nat)
    (inv : InvW M w1) (hu : w1.frames[u]? = some f) (hf : f.written = M)
    (hbump : bumpInner inMax (w1.frames.drop (u + 1)) = some outer) :
    let out2 := patch w1.out f
    let w2 : W := { out := out2 ++ [.hdr 0 0],
                    frames := w1.frames.take u ++ { written := 0, pos := out2.length, inner := 0 } :: outer }
    InvW M w2 ∧
    fill (pendOf M rem1 0 w2.frames) w2.out = fill (pendOf M rem1 0 w1.frames) w1.out ++ [.hdr (min M (rem1 u)) 0] ∧
    w2.frames.map (·.written) = (w1.frames.map (·.written)).set u 0 ∧
    w2.frames.length = w1.frames.length := by
  intro out2 w2
  obtain ⟨hsplit, hlenA⟩ := frames_split w1.frames u f hu
  obtain ⟨A, hA⟩ : ∃ A, A = w1.frames.take u := ⟨_, rfl⟩
  obtain ⟨B, hB⟩ : ∃ B, B = w1.frames.drop (u + 1) := ⟨_, rfl⟩
  rw [← hA, ← hB] at hsplit
  rw [← hA] at hlenA
  rw [← hB] at hbump
  have hmapB := bumpInner_map inMax B outer hbump
  obtain ⟨hBw, hBp, hBl⟩ := map_written_of_map B outer hmapB
  have hout2 : out2.length = w1.out.length := by simp [out2, patch]
  -- facts from the invariant
  have hposA : ∀ g ∈ A, g.pos < w1.out.length := fun g hg => inv.pos_lt g (by rw [hsplit]; simp [hg])
  have hposB : ∀ g ∈ B, g.pos < w1.out.length := fun g hg => inv.pos_lt g (by rw [hsplit]; simp [hg])
  have hposf : f.pos < w1.out.length := inv.pos_lt f (by rw [hsplit]; simp)
  have hnd := inv.nodup
  rw [hsplit] at hnd
  simp only [List.map_append, List.map_cons] at hnd
  have hndA := (List.nodup_append.mp hnd).1
  have hndfB := (List.nodup_append.mp hnd).2.1
  have hdisj := (List.nodup_append.mp hnd).2.2
  have hfA : ∀ g ∈ A, g.pos ≠ f.pos := fun g hg => hdisj g.pos (List.mem_map_of_mem hg) f.pos (by simp)
  have hfB : ∀ g ∈ B, g.pos ≠ f.pos := by
    intro g hg heq
    have := (List.nodup_cons.mp hndfB).1
    exact this (heq ▸ List.mem_map_of_mem hg)
  have hw2f : w2.frames = A ++ { written := 0, pos := out2.length, inner := 0 } :: outer := by
    simp only [w2, hA]
  refine ⟨⟨?_, ?_, ?_⟩, ?_, ?_, ?_⟩
  · -- positions inside the output
    intro g hg
    rw [hw2f] at hg
    simp only [w2, List.length_append, List.length_singleton, hout2]
    rcases List.mem_append.mp hg with hg | hg
    · have := hposA g hg; omega
    · rcases List.mem_cons.mp hg with rfl | hg
      · simp [hout2]
      · have : g.pos ∈ B.map (·.pos) := by rw [← hBp]; exact List.mem_map_of_mem hg
        obtain ⟨g', hg', hp⟩ := List.mem_map.mp this
        have := hposB g' hg'; omega
  · intro g hg
    rw [hw2f] at hg
    rcases List.mem_append.mp hg with hg | hg
    · exact inv.wr_le g (by rw [hsplit]; simp [hg])
    · rcases List.mem_cons.mp hg with rfl | hg
      · simp
      · have : g.written ∈ B.map (·.written) := by rw [← hBw]; exact List.mem_map_of_mem hg
        obtain ⟨g', hg', hp⟩ := List.mem_map.mp this
        rw [← hp]; exact inv.wr_le g' (by rw [hsplit]; simp [hg'])
  · rw [hw2f]
    simp only [List.map_append, List.map_cons, hBp]
    apply List.nodup_append.mpr
    refine ⟨hndA, ?_, ?_⟩
    · apply List.nodup_cons.mpr
      refine ⟨?_, (List.nodup_cons.mp hndfB).2⟩
      intro hmem
      obtain ⟨g', hg', hp⟩ := List.mem_map.mp hmem
      have := hposB g' hg'; omega
    · intro a ha b hb
      rcases List.mem_cons.mp hb with rfl | hb
      · obtain ⟨g', hg', hp⟩ := List.mem_map.mp ha
        have := hposA g' hg'; omega
      · exact hdisj a ha b (List.mem_cons_of_mem _ hb)
  · -- the filled output grows by exactly the new record
    have hpend1 : pendOf M rem1 0 w1.frames
        = pendOf M rem1 0 A ++ (f.pos, M) :: pendOf M rem1 (u + 1) B := by
      rw [hsplit, pendOf_append, hlenA]
      simp only [pendOf, Nat.zero_add, hf]
      congr 2
      simp
    have hpend2 : pendOf M rem1 0 w2.frames
        = pendOf M rem1 0 A ++ (out2.length, min M (rem1 u)) :: pendOf M rem1 (u + 1) B := by
      rw [hw2f, pendOf_append, hlenA]
      simp only [pendOf, Nat.zero_add]
      rw [pendOf_congr M rem1 (u + 1) B outer hmapB]
    have hkeysA : ∀ ps ∈ pendOf M rem1 0 A, ps.1 < w1.out.length ∧ ps.1 ≠ f.pos := by
      intro ps hps
      have : ps.1 ∈ A.map (·.pos) := by rw [← pendOf_keys M rem1 0 A]; exact List.mem_map_of_mem hps
      obtain ⟨g, hg, hp⟩ := List.mem_map.mp this
      rw [← hp]; exact ⟨hposA g hg, hfA g hg⟩
    have hkeysB : ∀ ps ∈ pendOf M rem1 (u + 1) B, ps.1 < w1.out.length ∧ ps.1 ≠ f.pos := by
      intro ps hps
      have : ps.1 ∈ B.map (·.pos) := by rw [← pendOf_keys M rem1 (u + 1) B]; exact List.mem_map_of_mem hps
      obtain ⟨g, hg, hp⟩ := List.mem_map.mp this
      rw [← hp]; exact ⟨hposB g hg, hfB g hg⟩
    have hkeysAB : ∀ ps ∈ pendOf M rem1 0 A ++ pendOf M rem1 (u + 1) B, ps.1 < w1.out.length ∧ ps.1 ≠ f.pos := by
      intro ps hps
      rcases List.mem_append.mp hps with h | h
      · exact hkeysA ps h
      · exact hkeysB ps h
    rw [hpend1, hpend2]
    show fill _ (out2 ++ [Item.hdr 0 0]) = _
    rw [fill_middle _ _ _ _ _ (fun ps hps => by have := (hkeysA ps hps).1; omega)]
    rw [fill_append_single _ _ _ (fun ps hps => by rw [hout2]; exact (hkeysAB ps hps).1)]
    rw [List.set_append_right _ _ (by simp)]
    simp only [length_fill, Nat.sub_self, List.set_cons_zero, Item.erase]
    congr 1
    show fill _ (w1.out.set f.pos (Item.hdr f.written f.inner)) = _
    rw [fill_set_notin _ _ _ _ (fun ps hps => (hkeysAB ps hps).2)]
    rw [fill_middle _ _ _ _ _ (fun ps hps => (hkeysA ps hps).2)]
    simp [Item.erase, hf]
  · rw [hw2f]
    conv => rhs; rw [hsplit]
    simp only [List.map_append, List.map_cons, hBw]
    rw [List.set_append_right _ _ (by simp [hlenA])]
    simp [hlenA]
  · rw [hw2f]
    conv => rhs; rw [hsplit]
    simp [hBl]

/-! ### the loop -/

theorem stepB' (P : Params) (w1 w2 : W) (u : Nat) (rem1 : Nat → Nat) (inv : InvW P.sizeMax w1)
    (hfull : ∀ f, w1.frames[u]? = some f → f.written = P.sizeMax) (h : wclose P w1 u = some w2) :
    InvW P.sizeMax w2 ∧
    fill (pendOf P.sizeMax rem1 0 w2.frames) w2.out
      = fill (pendOf P.sizeMax rem1 0 w1.frames) w1.out ++ [.hdr (min P.sizeMax (rem1 u)) 0] ∧
    w2.frames.map (·.written) = (w1.frames.map (·.written)).set u 0 ∧
    w2.frames.length = w1.frames.length := by
  simp only [wclose] at h
  split at h
  · simp at h
  · rename_i f hu
    split at h
    · simp at h
    · rename_i outer hbump
      simp only [Option.some.injEq] at h
      subst h
      exact stepB P.sizeMax P.inMax w1 u f outer rem1 inv hu (hfull f hu) hbump

theorem wloop_spec (P : Params) (hM : 0 < P.sizeMax) (fut : Nat → Nat) :
    ∀ (fuel : Nat) (w : W) (buf : Bytes) (w' : W), wloop P fuel w buf = some w' → InvW P.sizeMax w →
      loopMeasure P.sizeMax (w.frames.map (·.written)) buf.length ≤ fuel →
      fill (pendOf P.sizeMax fut 0 w'.frames) w'.out
        = fill (pendOf P.sizeMax (fun k => buf.length + fut k) 0 w.frames) w.out
          ++ (sloop P.sizeMax fut fuel (w.frames.map (·.written)) buf).1 ∧
      w'.frames.map (·.written) = (sloop P.sizeMax fut fuel (w.frames.map (·.written)) buf).2 ∧
      InvW P.sizeMax w' ∧ w'.frames.length = w.frames.length := by
  intro fuel
  induction fuel with
  | zero =>
    intro w buf w' _ _ hfuel
    simp [loopMeasure] at hfuel
  | succ fuel ih =>
    intro w buf w' h inv hfuel
    have hle := scanW_le P.sizeMax (w.frames.map (·.written)) buf.length
    have hbound := scanW_bound P.sizeMax (w.frames.map (·.written)) buf.length
      (by intro x hx; obtain ⟨f, hf, rfl⟩ := List.mem_map.mp hx; exact inv.wr_le f hf)
    have hnone := scanW_none P.sizeMax (w.frames.map (·.written)) buf.length
    have hsome := scanW_some P.sizeMax (w.frames.map (·.written)) buf.length
    simp only [wloop] at h
    simp only [sloop]
    generalize scanW P.sizeMax (w.frames.map (·.written)) buf.length = sc at *
    obtain ⟨tw, full⟩ := sc
    simp only at h hle hbound hnone hsome ⊢
    split at h
    · -- loop exit
      rename_i hexit
      simp only [Option.some.injEq] at h
      subst h
      simp only [hexit, ↓reduceIte]
      simp only [Bool.and_eq_true, List.isEmpty_iff] at hexit
      simp [hexit.2, inv]
    · rename_i hexit
      simp only [hexit, Bool.false_eq_true, ↓reduceIte]
      have hb : ∀ f ∈ w.frames, f.written + tw ≤ P.sizeMax :=
        fun f hf => hbound f.written (List.mem_map_of_mem hf)
      obtain ⟨invA, fillA, wrA, lenA⟩ := stepA P.sizeMax w buf tw fut inv hle hb
      cases full with
      | none =>
        simp only at h ⊢
        have htw : tw = buf.length := hnone rfl
        have hpos : 0 < tw := by
          rcases Nat.eq_zero_or_pos tw with h0 | h0
          · exfalso; apply hexit
            have : buf = [] := List.eq_nil_of_length_eq_zero (by omega)
            simp [this]
          · exact h0
        have hmeas : loopMeasure P.sizeMax ((wdata w buf tw).frames.map (·.written)) (buf.drop tw).length ≤ fuel := by
          have := loopMeasure_write P.sizeMax (w.frames.map (·.written)) ((wdata w buf tw).frames.map (·.written))
            buf.length tw (by simp [lenA]) hpos hle
          simp only [List.length_drop]; omega
        obtain ⟨f1, f2, f3, f4⟩ := ih (wdata w buf tw) (buf.drop tw) w' h invA hmeas
        rw [wrA] at f1 f2
        refine ⟨?_, f2, f3, by omega⟩
        rw [f1, fillA, List.append_assoc]
      | some u =>
        simp only at h ⊢
        obtain ⟨x, hx, hxge⟩ := hsome u rfl
        split at h
        · simp at h
        · rename_i w2 hclose
          -- frame u of the state after the data write stands at sizeMax
          have hfull : ∀ f, (wdata w buf tw).frames[u]? = some f → f.written = P.sizeMax := by
            intro f hf
            have h1 : ((wdata w buf tw).frames.map (·.written))[u]? = some f.written := by
              simp [List.getElem?_map, hf]
            have h2 := invA.wr_le f (List.mem_of_getElem? hf)
            rw [wrA] at h1
            split at h1
            · simp only [List.getElem?_map, hx, Option.map_some, Option.some.injEq] at h1
              omega
            · rw [hx] at h1
              simp only [Option.some.injEq] at h1
              have := hbound x (List.mem_of_getElem? hx)
              omega
          obtain ⟨invB, fillB, wrB, lenB⟩ :=
            stepB' P (wdata w buf tw) w2 u (fun k => (buf.drop tw).length + fut k) invA hfull hclose
          have hmeas : loopMeasure P.sizeMax (w2.frames.map (·.written)) (buf.drop tw).length ≤ fuel := by
            rw [wrB]
            rcases Nat.eq_zero_or_pos tw with h0 | h0
            · -- nothing written: the number of full frames drops
              subst h0
              have hw : (wdata w buf 0) = w := by simp [wdata]
              rw [hw]
              have := nfull_set_zero P.sizeMax hM (w.frames.map (·.written)) u x hx (by omega)
              simp only [loopMeasure, List.length_set, List.drop_zero] at hfuel ⊢
              omega
            · have := loopMeasure_write P.sizeMax (w.frames.map (·.written))
                (((wdata w buf tw).frames.map (·.written)).set u 0) buf.length tw (by simp [lenA]) h0 hle
              simp only [List.length_drop]; omega
          obtain ⟨f1, f2, f3, f4⟩ := ih w2 (buf.drop tw) w' h invB hmeas
          rw [wrB, wrA] at f1 f2
          refine ⟨?_, f2, f3, by omega⟩
          rw [f1, fillB, fillA]
          simp only [List.append_assoc, List.cons_append, List.nil_append]

end LyModel.Lyb
