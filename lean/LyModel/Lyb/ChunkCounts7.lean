import LyModel.Lyb.ChunkCounts6
/-! Part 7: from the history to the byte image of the frame as a list of counted chunks. -/
namespace LyModel.Lyb

theorem drop_split (out : List Item) (b nxt : Nat) (x : Item) (h1 : b < nxt) (h2 : nxt ≤ out.length)
    (hx : out[b]? = some x) : out.drop b = x :: rng out (b + 1) nxt ++ out.drop nxt := by
  obtain ⟨hlt, hget⟩ := List.getElem?_eq_some_iff.mp hx
  rw [List.drop_eq_getElem_cons hlt, hget]
  congr 1
  conv => lhs; rw [← List.take_append_drop nxt out]
  rw [List.drop_append_of_le_length (by simp; omega)]
  rfl

theorem serialize_cons' (P : Params) (a : Item) (l : List Item) : serialize P (a :: l) = a.ser P ++ serialize P l := by
  simp [serialize]

theorem serialize_append (P : Params) (a b : List Item) : serialize P (a ++ b) = serialize P a ++ serialize P b := by
  simp [serialize]

theorem hist_image_tail (P : Params) (out : List Item) (e s i : Nat) (he : out[e]? = some (.hdr s i))
    (hs : s < P.sizeMax) (hi : i ≤ P.inMax) (hseg : segBytes (out.drop (e + 1)) = s)
    (hcnt : hdrCount (out.drop (e + 1)) = i) (hz : s = 0 → i = 0) :
    ∀ (bs : List Nat), Hist P out bs e →
      ∃ cs, serialize P (out.drop (histHead bs e)) = chunkBytes P cs ∧ GoodTail P cs ∧ cs.length = bs.length + 1 := by
  have hlast : serialize P (out.drop e) = chunkBytes P [(s, i, serialize P (out.drop (e + 1)))] := by
    obtain ⟨hlt, hget⟩ := List.getElem?_eq_some_iff.mp he
    rw [List.drop_eq_getElem_cons hlt, hget]
    simp [serialize_cons', chunkBytes]
  intro bs
  induction bs with
  | nil =>
    intro _
    refine ⟨[(s, i, serialize P (out.drop (e + 1)))], hlast, ⟨hs, hi, ?_, hz⟩, rfl⟩
    rw [length_serialize, hseg, hcnt]
  | cons b r ih =>
    intro h
    have step : ∀ nxt, ChunkAt P out b nxt →
        (∃ cs, serialize P (out.drop nxt) = chunkBytes P cs ∧ GoodTail P cs ∧ cs.length = r.length + 1) →
        ∃ cs, serialize P (out.drop b) = chunkBytes P cs ∧ GoodTail P cs ∧ cs.length = (b :: r).length + 1 := by
      intro nxt hc ⟨cs, e1, e2, e3⟩
      obtain ⟨c1, c2, c3, c4, c5⟩ := hc
      refine ⟨(P.sizeMax, hdrCount (rng out (b + 1) nxt), serialize P (rng out (b + 1) nxt)) :: cs, ?_, ?_, by simp [e3]⟩
      · rw [drop_split out b nxt _ c1 c2 c3]
        simp [serialize_cons', serialize_append, chunkBytes, e1]
      · cases cs with
        | nil => simp at e3
        | cons ch rest =>
          refine ⟨rfl, c4, ?_, e2⟩
          rw [length_serialize, c5]
    cases r with
    | nil => exact step e h (ih trivial)
    | cons b' r' => exact step b' h.1 (ih h.2)

theorem hist_image_frame (P : Params) (out : List Item) (e s i : Nat) (he : out[e]? = some (.hdr s i))
    (hs : s < P.sizeMax) (hi : i ≤ P.inMax) (hseg : segBytes (out.drop (e + 1)) = s)
    (hcnt : hdrCount (out.drop (e + 1)) = i) (bs : List Nat) (h : Hist P out bs e)
    (hz : bs ≠ [] → s = 0 → i = 0) :
    ∃ cs, serialize P (out.drop (histHead bs e)) = chunkBytes P cs ∧ GoodFrame P cs ∧ cs.length = bs.length + 1 := by
  cases bs with
  | nil =>
    obtain ⟨hlt, hget⟩ := List.getElem?_eq_some_iff.mp he
    refine ⟨[(s, i, serialize P (out.drop (e + 1)))], ?_, ⟨hs, hi, ?_⟩, rfl⟩
    · simp only [histHead]
      rw [List.drop_eq_getElem_cons hlt, hget]
      simp [serialize_cons', chunkBytes]
    · rw [length_serialize, hseg, hcnt]
  | cons b r =>
    obtain ⟨cs, e1, e2, e3⟩ := hist_image_tail P out e s i he hs hi hseg hcnt (hz (by simp)) (b :: r) h
    refine ⟨cs, e1, ?_, e3⟩
    -- a good tail of at least two chunks is a good frame
    cases cs with
    | nil => simp at e3
    | cons c1 rest =>
      cases rest with
      | nil => simp at e3
      | cons c2 rest' =>
        obtain ⟨s1, i1, b1⟩ := c1
        exact e2

end LyModel.Lyb
