import LyModel.Lyb.HashLemmas3
/-! `lyb_generate_hash` produces hashes of the collision shape; the failing direction of `assignFrom`. -/
namespace LyModel.Lyb
open LyModel.Generated

/-- the last two statements of `lyb_generate_hash` on the low 7 bits -/
def shortHash (y i : Nat) : Nat := (((y &&& (LYB_HASH_MASK >>> i)) % 256) ||| (LYB_HASH_COLLISION_ID >>> i)) % 256

set_option maxRecDepth 100000 in
theorem shortHash_shape : ∀ y, y < 128 → ∀ i, i < LYB_HASH_BITS → shortHash y i ≠ 0 ∧ firstBit (shortHash y i) = i := by
  decide

theorem and_mask_mod (x i : Nat) : x &&& (LYB_HASH_MASK >>> i) = (x % 128) &&& (LYB_HASH_MASK >>> i) := by
  have hm : LYB_HASH_MASK >>> i < 128 := by
    have : LYB_HASH_MASK >>> i ≤ LYB_HASH_MASK := Nat.shiftRight_le _ _
    have : LYB_HASH_MASK = 127 := rfl
    omega
  have h1 : x &&& (LYB_HASH_MASK >>> i) < 128 := Nat.lt_of_le_of_lt Nat.and_le_right hm
  have h2 := Nat.and_mod_two_pow (a := x) (b := LYB_HASH_MASK >>> i) (n := 7)
  simp only [show (2 : Nat) ^ 7 = 128 from rfl] at h2
  rw [Nat.mod_eq_of_lt h1, Nat.mod_eq_of_lt hm] at h2
  exact h2

theorem generateHash_shape (modName nodeName : Bytes) (i : Nat) (hi : i < LYB_HASH_BITS) :
    generateHash modName nodeName i ≠ 0 ∧ firstBit (generateHash modName nodeName i) = i := by
  simp only [generateHash]
  generalize (hashMulti _ []).toNat = x
  rw [and_mask_mod]
  exact shortHash_shape (x % 128) (Nat.mod_lt _ (by decide)) i hi

theorem realHash_shape (modName : Bytes) (names : List Bytes) : Shape (realHash modName names) :=
  fun s i hi => generateHash_shape modName (names.getD s []) i hi

end LyModel.Lyb
