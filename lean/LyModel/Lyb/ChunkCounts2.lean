import LyModel.Lyb.ChunkCounts
/-! Part 2: ranges of the output whose counts are frozen; the history of closed chunks of the outermost frame. -/
namespace LyModel.Lyb

/-- items `m … n-1` -/
def rng (out : List Item) (m n : Nat) : List Item := (out.take n).drop m

theorem rng_append (out : List Item) (x : Item) (m n : Nat) (h : n ≤ out.length) :
    rng (out ++ [x]) m n = rng out m n := by
  simp only [rng, List.take_append_of_le_length h]

theorem rng_set_hdr (out : List Item) (p a b c d m n : Nat) (h : out[p]? = some (.hdr a b)) :
    segBytes (rng (out.set p (.hdr c d)) m n) = segBytes (rng out m n) ∧
    hdrCount (rng (out.set p (.hdr c d)) m n) = hdrCount (rng out m n) := by
  simp only [rng, List.take_set, List.drop_set]
  split
  · exact ⟨rfl, rfl⟩
  · rename_i hpm
    by_cases hpn : p < n
    · apply counts_set_hdr _ _ a b
      rw [List.getElem?_drop, List.getElem?_take]
      have : m + (p - m) = p := by omega
      simp [this, hpn, h]
    · rw [List.set_eq_of_length_le]
      · exact ⟨rfl, rfl⟩
      · simp only [List.length_drop, List.length_take]; omega

/-- `b` is the record of a full chunk that ends before `nxt` and counts what lies between -/
def ChunkAt (P : Params) (out : List Item) (b nxt : Nat) : Prop :=
  b < nxt ∧ nxt ≤ out.length ∧ out[b]? = some (.hdr P.sizeMax (hdrCount (rng out (b + 1) nxt))) ∧
  hdrCount (rng out (b + 1) nxt) ≤ P.inMax ∧ segBytes (rng out (b + 1) nxt) = P.sizeMax

/-- the closed chunks of the outermost frame: records at `bs`, the last chunk ends before `e` -/
def Hist (P : Params) (out : List Item) : List Nat → Nat → Prop
  | [], _ => True
  | [b], e => ChunkAt P out b e
  | b :: b' :: r, e => ChunkAt P out b b' ∧ Hist P out (b' :: r) e

theorem chunkAt_append {P : Params} {out : List Item} {b nxt : Nat} (x : Item) (h : ChunkAt P out b nxt) :
    ChunkAt P (out ++ [x]) b nxt := by
  obtain ⟨h1, h2, h3, h4, h5⟩ := h
  refine ⟨h1, by simp; omega, ?_, ?_, ?_⟩
  · rw [List.getElem?_append_left (by omega), rng_append _ _ _ _ h2]; exact h3
  · rw [rng_append _ _ _ _ h2]; exact h4
  · rw [rng_append _ _ _ _ h2]; exact h5

theorem chunkAt_set {P : Params} {out : List Item} {b nxt p a0 b0 : Nat} (c d : Nat) (hp : out[p]? = some (.hdr a0 b0))
    (hne : b ≠ p) (h : ChunkAt P out b nxt) : ChunkAt P (out.set p (.hdr c d)) b nxt := by
  obtain ⟨h1, h2, h3, h4, h5⟩ := h
  obtain ⟨e1, e2⟩ := rng_set_hdr out p a0 b0 c d (b + 1) nxt hp
  refine ⟨h1, by simpa using h2, ?_, ?_, ?_⟩
  · rw [List.getElem?_set_ne (Ne.symm hne), e2]; exact h3
  · rw [e2]; exact h4
  · rw [e1]; exact h5

theorem hist_append {P : Params} {out : List Item} (x : Item) :
    ∀ {bs : List Nat} {e : Nat}, Hist P out bs e → Hist P (out ++ [x]) bs e
  | [], _, _ => trivial
  | [_], _, h => chunkAt_append x h
  | _ :: b' :: r, _, h => ⟨chunkAt_append x h.1, hist_append x (bs := b' :: r) h.2⟩

theorem hist_set {P : Params} {out : List Item} {p a0 b0 : Nat} (c d : Nat) (hp : out[p]? = some (.hdr a0 b0)) :
    ∀ {bs : List Nat} {e : Nat}, (∀ b ∈ bs, b ≠ p) → Hist P out bs e → Hist P (out.set p (.hdr c d)) bs e
  | [], _, _, _ => trivial
  | [b], _, hne, h => chunkAt_set c d hp (hne b (by simp)) h
  | b :: b' :: r, _, hne, h =>
    ⟨chunkAt_set c d hp (hne b (by simp)) h.1,
     hist_set c d hp (bs := b' :: r) (fun x hx => hne x (List.mem_cons_of_mem _ hx)) h.2⟩

theorem hist_snoc {P : Params} {out : List Item} :
    ∀ {bs : List Nat} {e e' : Nat}, Hist P out bs e → ChunkAt P out e e' → Hist P out (bs ++ [e]) e'
  | [], _, _, _, hc => hc
  | [_], _, _, h, hc => ⟨h, hc⟩
  | _ :: b' :: r, _, _, h, hc => ⟨h.1, hist_snoc (bs := b' :: r) h.2 hc⟩

/-- first record position of a history that ends at `e` -/
def histHead : List Nat → Nat → Nat
  | [], e => e
  | b :: _, _ => b

theorem histHead_snoc (bs : List Nat) (e e' : Nat) : histHead (bs ++ [e]) e' = histHead bs e := by
  cases bs <;> rfl

end LyModel.Lyb
