import LyModel.Lyb.ChunkCounts2
/-! Part 3: the invariant of the outermost open frame `f0` (deeper frames `fs`, closed-chunk records `bs`) and its
preservation by the three kinds of output change. -/
namespace LyModel.Lyb

structure TopInv (P : Params) (n0 : Nat) (out : List Item) (fs : List WFrame) (f0 : WFrame) (bs : List Nat) : Prop where
  hist : Hist P out bs f0.pos
  bounds_lt : ∀ b ∈ bs, b < f0.pos
  hdr0 : ∃ a b, out[f0.pos]? = some (.hdr a b)
  seg : segBytes (out.drop (f0.pos + 1)) = f0.written
  cnt : hdrCount (out.drop (f0.pos + 1)) = f0.inner
  inner_le : ∀ f ∈ fs ++ [f0], f.inner ≤ P.inMax
  deeper : ∀ f ∈ fs, f.pos ≠ f0.pos ∧ (∀ b ∈ bs, b ≠ f.pos) ∧ ∃ a b, out[f.pos]? = some (.hdr a b)
  /-- the frame's first record sits at `n0` -/
  head : histHead bs f0.pos = n0

theorem lt_length_of_getElem? {α : Type} {l : List α} {i : Nat} {x : α} (h : l[i]? = some x) : i < l.length :=
  (List.getElem?_eq_some_iff.mp h).1

theorem drop_counts_set (out : List Item) (p a b c d m : Nat) (h : out[p]? = some (.hdr a b)) :
    segBytes ((out.set p (.hdr c d)).drop m) = segBytes (out.drop m) ∧
    hdrCount ((out.set p (.hdr c d)).drop m) = hdrCount (out.drop m) := by
  have := rng_set_hdr out p a b c d m out.length h
  simpa [rng, List.take_of_length_le] using this

/-- an item is appended; `f0` accounts for it -/
theorem top_append {P : Params} {n0 : Nat} {out : List Item} {fs : List WFrame} {f0 : WFrame} {bs : List Nat} (x : Item)
    (h : TopInv P n0 out fs f0 bs) (fs' : List WFrame) (f0' : WFrame) (hpos0 : f0'.pos = f0.pos)
    (hposs : fs'.map (·.pos) = fs.map (·.pos)) (hw : f0'.written = f0.written + segBytes [x])
    (hi : f0'.inner = f0.inner + hdrCount [x]) (hle : ∀ f ∈ fs' ++ [f0'], f.inner ≤ P.inMax) :
    TopInv P n0 (out ++ [x]) fs' f0' bs := by
  obtain ⟨a, b, hab⟩ := h.hdr0
  have hlt := lt_length_of_getElem? hab
  refine ⟨?_, ?_, ⟨a, b, ?_⟩, ?_, ?_, hle, ?_, by rw [hpos0]; exact h.head⟩
  · rw [hpos0]; exact hist_append x h.hist
  · rw [hpos0]; exact h.bounds_lt
  · rw [hpos0, List.getElem?_append_left hlt]; exact hab
  · rw [hpos0, List.drop_append_of_le_length (by omega), segBytes_append, h.seg, hw]
  · rw [hpos0, List.drop_append_of_le_length (by omega), hdrCount_append, h.cnt, hi]
  · intro f hf
    have : f.pos ∈ fs.map (·.pos) := by rw [← hposs]; exact List.mem_map_of_mem hf
    obtain ⟨g, hg, e⟩ := List.mem_map.mp this
    obtain ⟨d1, d2, a', b', d3⟩ := h.deeper g hg
    rw [← e, hpos0]
    exact ⟨d1, d2, a', b', by rw [List.getElem?_append_left (lt_length_of_getElem? d3)]; exact d3⟩

/-- the reserved record of a deeper frame is filled -/
theorem top_set {P : Params} {n0 : Nat} {out : List Item} {fs : List WFrame} {f0 : WFrame} {bs : List Nat} (p a0 b0 c d : Nat)
    (h : TopInv P n0 out fs f0 bs) (hp : out[p]? = some (.hdr a0 b0)) (hp0 : p ≠ f0.pos) (hpb : ∀ b ∈ bs, b ≠ p) :
    TopInv P n0 (out.set p (.hdr c d)) fs f0 bs := by
  obtain ⟨a, b, hab⟩ := h.hdr0
  obtain ⟨e1, e2⟩ := drop_counts_set out p a0 b0 c d (f0.pos + 1) hp
  refine ⟨hist_set c d hp hpb h.hist, h.bounds_lt, ⟨a, b, ?_⟩, by rw [e1]; exact h.seg, by rw [e2]; exact h.cnt,
    h.inner_le, ?_, h.head⟩
  · rw [List.getElem?_set_ne hp0]; exact hab
  · intro f hf
    obtain ⟨d1, d2, a', b', d3⟩ := h.deeper f hf
    refine ⟨d1, d2, ?_⟩
    by_cases e : p = f.pos
    · exact ⟨c, d, by rw [← e, List.getElem?_set_self (lt_length_of_getElem? hp)]⟩
    · exact ⟨a', b', by rw [List.getElem?_set_ne e]; exact d3⟩

/-- the outermost frame closes a full chunk and reserves the next record -/
theorem top_rollover {P : Params} {n0 : Nat} {out : List Item} {fs : List WFrame} {f0 : WFrame} {bs : List Nat}
    (h : TopInv P n0 out fs f0 bs) (hfull : f0.written = P.sizeMax) :
    TopInv P n0 (out.set f0.pos (.hdr f0.written f0.inner) ++ [.hdr 0 0]) fs
      { written := 0, pos := (out.set f0.pos (.hdr f0.written f0.inner)).length, inner := 0 } (bs ++ [f0.pos]) := by
  obtain ⟨a, b, hab⟩ := h.hdr0
  have hlt := lt_length_of_getElem? hab
  have hlen : (out.set f0.pos (.hdr f0.written f0.inner)).length = out.length := by simp
  obtain ⟨e1, e2⟩ := drop_counts_set out f0.pos a b f0.written f0.inner (f0.pos + 1) hab
  have hrng : rng (out.set f0.pos (.hdr f0.written f0.inner) ++ [.hdr 0 0]) (f0.pos + 1) out.length
      = (out.set f0.pos (.hdr f0.written f0.inner)).drop (f0.pos + 1) := by
    rw [rng_append _ _ _ _ (by simp)]
    simp [rng, List.take_of_length_le]
  have hchunk : ChunkAt P (out.set f0.pos (.hdr f0.written f0.inner) ++ [.hdr 0 0]) f0.pos out.length := by
    refine ⟨hlt, by simp, ?_, ?_, ?_⟩
    · rw [List.getElem?_append_left (by simpa using hlt), List.getElem?_set_self hlt, hrng, e2, h.cnt, hfull]
    · rw [hrng, e2, h.cnt]; exact h.inner_le f0 (by simp)
    · rw [hrng, e1, h.seg, hfull]
  refine ⟨?_, ?_, ⟨0, 0, ?_⟩, ?_, ?_, ?_, ?_, by rw [histHead_snoc]; exact h.head⟩
  · simp only [hlen]
    apply hist_snoc _ hchunk
    apply hist_append
    exact hist_set _ _ hab (fun x hx => Nat.ne_of_lt (h.bounds_lt x hx)) h.hist
  · intro x hx
    simp only [hlen]
    rcases List.mem_append.mp hx with hx | hx
    · have := h.bounds_lt x hx; omega
    · simp only [List.mem_singleton] at hx; omega
  · simp [hlen]
  · rw [List.drop_of_length_le (by simp)]; rfl
  · rw [List.drop_of_length_le (by simp)]; rfl
  · intro f hf
    rcases List.mem_append.mp hf with hf | hf
    · exact h.inner_le f (List.mem_append_left _ hf)
    · simp only [List.mem_singleton] at hf; subst hf; exact Nat.zero_le _
  · intro f hf
    obtain ⟨d1, d2, a', b', d3⟩ := h.deeper f hf
    have hflt := lt_length_of_getElem? d3
    refine ⟨by simp only [hlen]; omega, ?_, a', b', ?_⟩
    · intro x hx
      rcases List.mem_append.mp hx with hx | hx
      · exact d2 x hx
      · simp only [List.mem_singleton] at hx; subst hx; exact Ne.symm d1
    · rw [List.getElem?_append_left (by simpa using hflt), List.getElem?_set_ne (Ne.symm d1)]; exact d3

end LyModel.Lyb
