import LyModel.Lyb.Hash
/-! Algebraic injectivity of the Jenkins byte step (no bit-blasting): each of the three sub-steps is a bijection of
`BitVec 32`. -/
namespace LyModel.Lyb
open LyModel.Generated

/-- `h ↦ h + (h <<< JENK_STEP_SHL)` is multiplication by the odd number `2^10 + 1`, which has an inverse mod `2^32` -/
theorem shlAdd_injective (x y : H32) (e : x + (x <<< JENK_STEP_SHL) = y + (y <<< JENK_STEP_SHL)) : x = y := by
  have hm : ∀ z : H32, z + (z <<< JENK_STEP_SHL) = z * 1025#32 := by
    intro z
    rw [BitVec.shiftLeft_eq_mul_twoPow]
    have h1 : BitVec.twoPow 32 JENK_STEP_SHL = 1024#32 := by decide
    have h2 : (1025#32 : H32) = 1#32 + 1024#32 := by decide
    rw [h1, h2, BitVec.mul_add, BitVec.mul_one]
  rw [hm x, hm y] at e
  have hinv : (1025#32 : H32) * 3222273025#32 = 1#32 := by decide
  have := congrArg (· * 3222273025#32) e
  simp only [BitVec.mul_assoc, hinv, BitVec.mul_one] at this
  exact this

theorem shr_iter (d : H32) (s : Nat) (e : d = d >>> s) : ∀ k, d = d >>> (s * k) := by
  intro k
  induction k with
  | zero => simp
  | succ k ih =>
    rw [Nat.mul_succ, BitVec.shiftRight_add, ← ih, ← e]

/-- `h ↦ h ^^^ (h >>> s)` is injective for `s > 0`: the difference `d` of two preimages satisfies `d = d >>> s`, hence
`d = d >>> 32·s = 0` -/
theorem xorShr_injective (s : Nat) (hs : 0 < s) (x y : H32) (e : x ^^^ (x >>> s) = y ^^^ (y >>> s)) : x = y := by
  have h1 : (x ^^^ y) ^^^ ((x ^^^ y) >>> s) = 0#32 := by
    rw [BitVec.ushiftRight_xor_distrib]
    have : x ^^^ y ^^^ (x >>> s ^^^ y >>> s) = (x ^^^ x >>> s) ^^^ (y ^^^ y >>> s) := by
      simp only [BitVec.xor_assoc]
      congr 1
      rw [← BitVec.xor_assoc, BitVec.xor_comm y (x >>> s), BitVec.xor_assoc]
    rw [this, e, BitVec.xor_self]
  have h2 : x ^^^ y = (x ^^^ y) >>> s := BitVec.xor_eq_zero_iff.mp h1
  have h3 := shr_iter (x ^^^ y) s h2 32
  rw [BitVec.ushiftRight_eq_zero (by have : 32 ≤ s * 32 := Nat.le_mul_of_pos_left 32 hs; omega)] at h3
  exact BitVec.xor_eq_zero_iff.mp h3

/-- the byte step of `lyht_hash_multi` is injective in the running hash -/
theorem jMix_injective (c h1 h2 : H32) (e : jMix h1 c = jMix h2 c) : h1 = h2 := by
  simp only [jMix] at e
  have a := xorShr_injective JENK_STEP_SHR (by decide) _ _ e
  have b := shlAdd_injective _ _ a
  have := congrArg (· - c) b
  simpa using this

theorem mulOdd_injective (m inv : H32) (hinv : m * inv = 1#32) (x y : H32) (e : x * m = y * m) : x = y := by
  have := congrArg (· * inv) e
  simp only [BitVec.mul_assoc, hinv, BitVec.mul_one] at this
  exact this

/-- the final avalanche of `lyht_hash_multi` (`key_part == NULL`) is injective as well -/
theorem jFin_injective (h1 h2 : H32) (e : jFin h1 = jFin h2) : h1 = h2 := by
  simp only [jFin] at e
  have hm1 : ∀ z : H32, z + (z <<< JENK_FIN_SHL1) = z * 9#32 := by
    intro z
    rw [BitVec.shiftLeft_eq_mul_twoPow]
    have h1 : BitVec.twoPow 32 JENK_FIN_SHL1 = 8#32 := by decide
    have h2 : (9#32 : H32) = 1#32 + 8#32 := by decide
    rw [h1, h2, BitVec.mul_add, BitVec.mul_one]
  have hm2 : ∀ z : H32, z + (z <<< JENK_FIN_SHL2) = z * 32769#32 := by
    intro z
    rw [BitVec.shiftLeft_eq_mul_twoPow]
    have h1 : BitVec.twoPow 32 JENK_FIN_SHL2 = 32768#32 := by decide
    have h2 : (32769#32 : H32) = 1#32 + 32768#32 := by decide
    rw [h1, h2, BitVec.mul_add, BitVec.mul_one]
  rw [hm2, hm2] at e
  have a := mulOdd_injective 32769#32 1073709057#32 (by decide) _ _ e
  have b := xorShr_injective JENK_FIN_SHR (by decide) _ _ a
  rw [hm1, hm1] at b
  exact mulOdd_injective 9#32 954437177#32 (by decide) _ _ b

theorem foldl_jStep_injective (key : Bytes) : ∀ (h1 h2 : H32), key.foldl jStep h1 = key.foldl jStep h2 → h1 = h2 := by
  induction key with
  | nil => intro h1 h2 e; exact e
  | cons b r ih =>
    intro h1 h2 e
    simp only [List.foldl_cons] at e
    exact jMix_injective _ _ _ (ih _ _ e)

end LyModel.Lyb
