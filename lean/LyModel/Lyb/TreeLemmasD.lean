import LyModel.Lyb.TreeLemmasC
import LyModel.Lyb.TreeLemmasE
/-! The whole document: magic number, header byte, module table, top-level siblings, ending zero. -/
namespace LyModel.LybTree
open LyModel LyModel.Lyb LyModel.Tree LyModel.Generated LyModel.Generated.LybTree

theorem doc_rt (P : Params) (hP : P.Ok) (o : POpts) (S : LSchema) (hann : AnnotsOk S)
    (hname : S.modName ≠ []) (hrev : unpackRev (packRev S.rev) = S.rev) (t : List DNode) (hwf : WfForest S t)
    (img : Bytes) (hp : printLybW P o S t = some img) (fuel : Nat) (hf : costL t + 1 ≤ fuel) :
    parseLybF P S fuel img = some (t.map (viewNode o S)) := by
  simp only [printLybW] at hp
  split at hp
  · simp at hp
  · rename_i ops hops
    · have hnest := docOpsW_wellNested o S t ops hops
      have hat := at_init P hP ops hnest img hp
      obtain ⟨x1, y1, hx1, hy1, rfl⟩ := cat_eq_some (by simpa only [docOpsW, docAround] using hops)
      obtain ⟨x2, y2, hx2, hy2, rfl⟩ := cat_eq_some hy1
      obtain ⟨x3, y3, hx3, hy3, rfl⟩ := cat_eq_some hy2
      obtain ⟨x4, y4, hx4, hy4, rfl⟩ := cat_eq_some hy3
      simp only [Option.some.injEq] at hx1 hx3 hy4
      subst hx1 hx3 hy4
      simp only [List.cons_append, List.nil_append, List.append_assoc, magicOp] at hat
      obtain ⟨r1, e1, a1⟩ := at_read P hP 0 _ _ _ hat
      obtain ⟨r2, e2, a2⟩ := at_read P hP 0 _ _ _ a1
      have hm : (P_MAGIC.map UInt8.ofNat).length = R_MAGIC.length := rfl
      have hm2 : (P_MAGIC.map UInt8.ofNat != R_MAGIC.map UInt8.ofNat) = false := by decide
      have hv : (([UInt8.ofNat LYB_VERSION_NUM].headD 0).toNat &&& LYB_VERSION_MASK != LYB_VERSION_NUM) = false := by decide
      rw [hm] at e1
      simp only [List.length_cons, List.length_nil, Nat.zero_add] at e2
      have c1 : R_MODCOUNT = P_MODCOUNT := rfl
      cases fuel with
      | zero => omega
      | succ fuel =>
      cases t with
      | nil =>
        simp only [List.isEmpty_nil, ↓reduceIte, Option.some.injEq] at hx2
        subst hx2
        simp only [sibOps, closeOps, Option.some.injEq] at hx4
        subst hx4
        simp only [List.cons_append, List.nil_append] at a2
        obtain ⟨r3, e3, a3⟩ := rdNum_at P hP 0 P_MODCOUNT 0 (by decide) _ r2 a2
        have a4 := at_start P hP 0 _ r3 a3
        have hw : topWritten (rstart P r3) = 0 := (topWritten_at P 0 _ _ a4).mpr (by simp [bytesUntilClose])
        obtain ⟨r5, e5, _⟩ := at_stop P 0 _ _ a4
        cases fuel with
        | zero => simp [costL] at hf
        | succ fuel =>
          simp only [parseLybF, e1, hm2, Bool.false_eq_true, ↓reduceIte, e2, hv, c1, e3, pModels, pSibs, pLoop, hw, e5,
            Option.map_some, List.map_nil]
      | cons n rest =>
        simp only [List.isEmpty_cons, Bool.false_eq_true, ↓reduceIte] at hx2
        obtain ⟨u1, u2, hu1, hu2, rfl⟩ := cat_eq_some hx2
        simp only [Option.some.injEq] at hu1
        subst hu1
        simp only [List.cons_append, List.nil_append, List.append_assoc] at a2
        obtain ⟨r3, e3, a3⟩ := rdNum_at P hP 0 P_MODCOUNT 1 (by decide) _ r2 a2
        obtain ⟨r4, e4, a4⟩ := model_at P hP 0 S.modName S.rev true u2 hu2 hname _ r3 a3
        have a5 := at_start P hP 0 _ r4 a4
        obtain ⟨r6, e6, a6⟩ := sibs_none P hP o S hann hname hrev (n :: rest) none x4 _ 0 (rstart P r4) hx4 hwf a5 fuel []
          (by omega)
        obtain ⟨r7, e7, _⟩ := at_stop P 0 _ r6 a6
        have hmm : modMatches S.modName (unpackRev (packRev S.rev)) S.modName S.rev = true := by
          rw [hrev]; simp [modMatches]
        cases fuel with
        | zero => have := costL_pos (n :: rest); omega
        | succ fuel =>
          simp only [parseLybF, e1, hm2, Bool.false_eq_true, ↓reduceIte, e2, hv, c1, e3, pModels, e4, hmm, Bool.true_or,
            pSibs] at e6 ⊢
          simp only [show ((1 : Nat) != 0) = true from rfl, e6, e7, Option.map_some, List.nil_append]

/-! ### the single-tree mode is the with-siblings mode of the first tree -/

theorem cat_nil_left (x : Option (List Op)) : (some [] +++ x) = x := by
  cases x <;> simp [cat]

theorem cat_nil_right (x : Option (List Op)) : (x +++ some []) = x := by
  cases x <;> simp [cat]

/-- what the print options select of a forest: all of it, or (no `LYD_PRINT_WITHSIBLINGS`) its first tree -/
def printedForest (o : POpts) (t : List DNode) : List DNode := if o.withSiblings then t else t.take 1

theorem topSingleOps_eq (o : POpts) (S : LSchema) (fc : FrameCtx) (t : List DNode) :
    topSingleOps o S fc t = sibOps o S none fc none (t.take 1) := by
  cases t with
  | nil => rfl
  | cons n rest =>
    simp only [topSingleOps, List.take_succ_cons, List.take_zero, sibOps, reduceCtorEq, ↓reduceIte, closeOps, cat_nil_left,
      cat_nil_right]

theorem docOps_eq (o : POpts) (S : LSchema) (t : List DNode) : docOps o S t = docOpsW o S (printedForest o t) := by
  simp only [docOps, printedForest]
  split
  · rfl
  · simp only [docOpsW, topSingleOps_eq]
    cases t <;> rfl

theorem printLyb_eq (P : Params) (o : POpts) (S : LSchema) (t : List DNode) :
    printLyb P o S t = printLybW P o S (printedForest o t) := by
  simp only [printLyb, printLybW, docOps_eq]

theorem wfForest_take (S : LSchema) : ∀ (t : List DNode), WfForest S t → WfForest S (t.take 1)
  | [], _ => trivial
  | n :: rest, h => by
    simp only [List.take_succ_cons, List.take_zero, WfForest] at h ⊢
    exact ⟨h.1, trivial⟩

end LyModel.LybTree
