import LyModel.Lyb.ChunkLemmasA
/-!
Reader side of `lyb_skip_siblings`: on a top-level frame (no enclosing frame) whose chunk records carry the right
counts — `content.length = inner × LYB_META_BYTES + size` for every chunk, all chunks but the last full — the loop
`do { skip inner × META; lyb_read(NULL, written) } while (written)` consumes exactly the frame, **unless** the last
of several chunks is `(size 0, inner > 0)` (finding F69 (a)).
-/
namespace LyModel.Lyb

/-- byte image of a frame given as chunks `(size, inner, content)` -/
def chunkBytes (P : Params) : List (Nat × Nat × Bytes) → Bytes
  | [] => []
  | (s, i, c) :: r => Item.ser P (.hdr s i) ++ c ++ chunkBytes P r

/-- the chunk that follows a full chunk: full again, or the last one — which must not be `(0, inner > 0)` -/
def GoodTail (P : Params) : List (Nat × Nat × Bytes) → Prop
  | [] => False
  | [(s, i, c)] => s < P.sizeMax ∧ i ≤ P.inMax ∧ c.length = i * P.metaBytes + s ∧ (s = 0 → i = 0)
  | (s, i, c) :: r => s = P.sizeMax ∧ i ≤ P.inMax ∧ c.length = i * P.metaBytes + s ∧ GoodTail P r

/-- a whole frame: a single chunk of any size below `sizeMax` (even `(0, inner > 0)`), or a full chunk and a good tail -/
def GoodFrame (P : Params) : List (Nat × Nat × Bytes) → Prop
  | [] => False
  | [(s, i, c)] => s < P.sizeMax ∧ i ≤ P.inMax ∧ c.length = i * P.metaBytes + s
  | (s, i, c) :: r => s = P.sizeMax ∧ i ≤ P.inMax ∧ c.length = i * P.metaBytes + s ∧ GoodTail P r

theorem mod_inMax {P : Params} {i : Nat} (h : i ≤ P.inMax) : i % (P.inMax + 1) = i := Nat.mod_eq_of_lt (by omega)

theorem rloop_succ (P : Params) (fuel : Nat) (r : R) (count : Nat) (acc : Bytes) :
    rloop P (fuel + 1) r count acc =
      (if (scanR r.frames count).2.isNone && count == 0 then (r, acc)
       else match (scanR r.frames count).2 with
        | none => rloop P fuel (rdata r (scanR r.frames count).1) (count - (scanR r.frames count).1)
            (if (scanR r.frames count).1 > 0 then acc ++ r.inp.take (scanR r.frames count).1 else acc)
        | some u => rloop P fuel (rclose P (rdata r (scanR r.frames count).1) u) (count - (scanR r.frames count).1)
            (if (scanR r.frames count).1 > 0 then acc ++ r.inp.take (scanR r.frames count).1 else acc)) := by
  rfl

/-- `lyb_read(NULL, written)` on the only open frame when it is the last chunk (`more = false`) -/
theorem rread_last (P : Params) (s i : Nat) (inp : Bytes) :
    (rread P { inp := inp, frames := [{ written := s, more := false, inner := i }] } s).1
      = { inp := inp.drop s, frames := [{ written := 0, more := false, inner := i }] } := by
  simp only [rread, loopFuel, List.length_singleton]
  rw [show s * (1 + 1) + 1 + 1 = (s * 2 + 1) + 1 by omega, rloop_succ]
  have hscan : ∀ c, scanR [({ written := s, more := false, inner := i } : RFrame)] c = (c, none) := by
    intro c; simp [scanR]
  simp only [hscan]
  by_cases h0 : s = 0
  · subst h0; simp
  · have hpos : s > 0 := by omega
    have hne : (s == 0) = false := by simp [h0]
    simp only [Option.isNone_none, Bool.true_and, hne, Bool.false_eq_true, ↓reduceIte, rdata, hpos, subWritten,
      List.map_cons, List.map_nil, subWrap, Nat.le_refl, Nat.sub_self]
    rw [rloop_succ]
    simp [scanR]

/-- … and when the chunk is full (`more = true`, `written = sizeMax`): the next meta record `f` is loaded; the loop
ends there unless `f` is `written = 0 ∧ more` (which `lyb_read_sibling_meta` never yields for `sizeMax > 0`) -/
theorem rread_full (P : Params) (hM : 0 < P.sizeMax) (i : Nat) (inp : Bytes)
    (hf : ¬ ((readMeta P (inp.drop P.sizeMax)).1.written ≤ 0 ∧ (readMeta P (inp.drop P.sizeMax)).1.more = true)) :
    (rread P { inp := inp, frames := [{ written := P.sizeMax, more := true, inner := i }] } P.sizeMax).1
      = { inp := (readMeta P (inp.drop P.sizeMax)).2, frames := [(readMeta P (inp.drop P.sizeMax)).1] } := by
  simp only [rread, loopFuel, List.length_singleton]
  rw [show P.sizeMax * (1 + 1) + 1 + 1 = (P.sizeMax * 2) + 1 + 1 by omega, rloop_succ]
  have h0 : (P.sizeMax == 0) = false := by simp; omega
  have hscan : scanR [({ written := P.sizeMax, more := true, inner := i } : RFrame)] P.sizeMax = (P.sizeMax, some 0) := by
    simp [scanR]
  simp only [hscan, Option.isNone_some, Bool.false_and, Bool.false_eq_true, ↓reduceIte, rdata, hM, subWritten,
    List.map_cons, List.map_nil, subWrap, Nat.le_refl, Nat.sub_self, rclose, List.set_cons_zero]
  rw [rloop_succ]
  simp only [scanR, hf, ↓reduceIte, Option.map_none, Option.isNone_none, BEq.rfl, Bool.and_self]

theorem length_ser_hdr (P : Params) (s i : Nat) : (Item.ser P (.hdr s i)).length = P.metaBytes := by
  simp [Item.ser, length_leBytes, Params.metaBytes]

theorem beq_sizeMax_false {P : Params} {s : Nat} (h : s < P.sizeMax) : (s == P.sizeMax) = false := by
  simp; omega

/-- the loop of `lyb_skip_siblings` from the state in which the record `(s, i)` of a chunk has just been read -/
theorem rskip_tail (P : Params) (hP : P.Ok) (tail : Bytes) :
    ∀ (cs : List (Nat × Nat × Bytes)) (s i : Nat) (c : Bytes) (fuel : Nat), GoodTail P ((s, i, c) :: cs) →
      cs.length < fuel →
      ∃ j, rskip P fuel { inp := c ++ chunkBytes P cs ++ tail, frames := [{ written := s, more := s == P.sizeMax, inner := i }] }
        = { inp := tail, frames := [{ written := 0, more := false, inner := j }] } := by
  intro cs
  induction cs with
  | nil =>
    intro s i c fuel hg hfuel
    obtain ⟨hs, hi, hc, _⟩ := hg
    cases fuel with
    | zero => omega
    | succ fuel =>
      refine ⟨i, ?_⟩
      simp only [rskip, beq_sizeMax_false hs, rread_last, chunkBytes, List.append_nil, ↓reduceIte]
      rw [List.drop_drop, List.drop_left' (by omega)]
  | cons ch cs ih =>
    intro s i c fuel hg hfuel
    obtain ⟨s', i', c'⟩ := ch
    obtain ⟨hs, hi, hc, hg'⟩ := hg
    have hM := hP.size_pos
    cases fuel with
    | zero => simp at hfuel
    | succ fuel =>
      subst hs
      have hdrop : List.drop P.sizeMax (List.drop (i * P.metaBytes) (c ++ chunkBytes P ((s', i', c') :: cs) ++ tail))
          = Item.ser P (.hdr s' i') ++ (c' ++ chunkBytes P cs ++ tail) := by
        rw [List.drop_drop, List.append_assoc, List.drop_left' (by omega)]
        simp [chunkBytes, List.append_assoc]
      have hs'le : s' ≤ P.sizeMax := by
        cases cs with
        | nil => exact Nat.le_of_lt hg'.1
        | cons _ _ => exact Nat.le_of_eq hg'.1
      have hi' : i' ≤ P.inMax := by
        cases cs with
        | nil => exact hg'.2.1
        | cons _ _ => exact hg'.2.1
      have hmeta := readMeta_ser P hP s' i' hs'le (c' ++ chunkBytes P cs ++ tail)
      rw [mod_inMax hi'] at hmeta
      have hf : ¬ ((readMeta P (List.drop P.sizeMax (List.drop (i * P.metaBytes)
            (c ++ chunkBytes P ((s', i', c') :: cs) ++ tail)))).1.written ≤ 0 ∧
          (readMeta P (List.drop P.sizeMax (List.drop (i * P.metaBytes)
            (c ++ chunkBytes P ((s', i', c') :: cs) ++ tail)))).1.more = true) := by
        rw [hdrop, hmeta]
        simp only [Nat.le_zero_eq, beq_iff_eq, not_and]
        intro h0 h1; omega
      simp only [rskip, BEq.rfl]
      rw [rread_full P hM i _ hf, hdrop, hmeta]
      simp only
      by_cases h0 : s' = 0
      · -- the next chunk is empty: the loop stops; it must be the last one and carry no inner records
        subst h0
        simp only [↓reduceIte]
        cases cs with
        | nil =>
          obtain ⟨_, _, hc', hz⟩ := hg'
          have : i' = 0 := hz rfl
          subst this
          have : c' = [] := List.eq_nil_of_length_eq_zero (by simpa using hc')
          subst this
          exact ⟨0, by simp [chunkBytes, beq_sizeMax_false hM]⟩
        | cons _ _ => exact absurd hg'.1 (by omega)
      · simp only [h0, ↓reduceIte]
        exact ih s' i' c' fuel hg' (by simpa using hfuel)

end LyModel.Lyb
