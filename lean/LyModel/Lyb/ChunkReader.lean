import LyModel.Lyb.ChunkSpec
/-!
Part E: the byte-level reader on the specification stream returns the payloads (proof plan step 3).

`RelR M rem k rs ws`: reader frame and counter at the same depth agree — with `S = min M (w + rem k)` the final size of
the frame's current chunk, the reader holds `written = S − w` (what is left of the chunk) and `more ⇔ S = M`.
-/
namespace LyModel.Lyb

def RelR (M : Nat) (rem : Nat → Nat) : Nat → List RFrame → List Nat → Prop
  | _, [], [] => True
  | k, f :: fs, w :: ws =>
    f.written = min M (w + rem k) - w ∧ f.more = decide (min M (w + rem k) = M) ∧ RelR M rem (k + 1) fs ws
  | _, _, _ => False

theorem RelR_length {M : Nat} {rem : Nat → Nat} : ∀ {k : Nat} {rs : List RFrame} {ws : List Nat},
    RelR M rem k rs ws → rs.length = ws.length
  | _, [], [], _ => rfl
  | _, [], _ :: _, h => by simp [RelR] at h
  | _, _ :: _, [], h => by simp [RelR] at h
  | k, f :: fs, w :: ws, h => by
    simp only [RelR] at h
    simp [RelR_length h.2.2]

/-- under the relation both scans take the same decision -/
theorem scanR_eq (M c : Nat) (fut : Nat → Nat) :
    ∀ (k : Nat) (rs : List RFrame) (ws : List Nat), RelR M (fun j => c + fut j) k rs ws → scanR rs c = scanW M ws c := by
  intro k rs
  induction rs generalizing k with
  | nil =>
    intro ws h
    cases ws with
    | nil => rfl
    | cons w ws => simp [RelR] at h
  | cons f fs ih =>
    intro ws h
    cases ws with
    | nil => simp [RelR] at h
    | cons w ws =>
      simp only [RelR] at h
      obtain ⟨h1, h2, h3⟩ := h
      have hle := scanW_le M ws c
      simp only [scanR, scanW, ih (k + 1) ws h3]
      generalize scanW M ws c = sc at *
      obtain ⟨tw1, full1⟩ := sc
      simp only at hle ⊢
      by_cases hit : w + tw1 ≥ M
      · have hS : min M (w + (c + fut k)) = M := by omega
        have : f.written ≤ tw1 ∧ f.more = true := by
          rw [h1, h2, hS]; simp; omega
        rw [if_pos this, if_pos hit, h1, hS]
      · have : ¬ (f.written ≤ tw1 ∧ f.more = true) := by
          intro ⟨a, b⟩
          rw [h2] at b
          simp only [decide_eq_true_eq] at b
          rw [h1, b] at a
          omega
        rw [if_neg this, if_neg hit]

theorem RelR_data (M c tw : Nat) (fut : Nat → Nat) (htw : tw ≤ c) :
    ∀ (k : Nat) (rs : List RFrame) (ws : List Nat), RelR M (fun j => c + fut j) k rs ws → (∀ w ∈ ws, w + tw ≤ M) →
      RelR M (fun j => (c - tw) + fut j) k (subWritten tw rs) (ws.map (· + tw)) := by
  intro k rs
  induction rs generalizing k with
  | nil =>
    intro ws h _
    cases ws with
    | nil => simp [subWritten, RelR]
    | cons w ws => simp [RelR] at h
  | cons f fs ih =>
    intro ws h hb
    cases ws with
    | nil => simp [RelR] at h
    | cons w ws =>
      simp only [RelR] at h
      obtain ⟨h1, h2, h3⟩ := h
      have := ih (k + 1) ws h3 (fun x hx => hb x (List.mem_cons_of_mem _ hx))
      have hbw := hb w List.mem_cons_self
      simp only [subWritten, List.map_cons, RelR] at this ⊢
      have e : w + tw + (c - tw + fut k) = w + (c + fut k) := by omega
      refine ⟨?_, ?_, this⟩
      · rw [e, h1]; simp only [subWrap]; split <;> omega
      · rw [e, h2]

theorem RelR_close (M : Nat) (rem : Nat → Nat) :
    ∀ (u k : Nat) (rs : List RFrame) (ws : List Nat) (i : Nat), RelR M rem k rs ws → u < rs.length →
      RelR M rem k (rs.set u { written := min M (rem (k + u)), more := min M (rem (k + u)) == M, inner := i })
        (ws.set u 0) := by
  intro u
  induction u with
  | zero =>
    intro k rs ws i h hu
    cases rs with
    | nil => simp at hu
    | cons f fs =>
      cases ws with
      | nil => simp [RelR] at h
      | cons w ws =>
        simp only [RelR] at h
        simp only [List.set_cons_zero, RelR, Nat.add_zero, Nat.zero_add, Nat.sub_zero, true_and]
        exact ⟨by simp [BEq.beq], h.2.2⟩
  | succ u ih =>
    intro k rs ws i h hu
    cases rs with
    | nil => simp at hu
    | cons f fs =>
      cases ws with
      | nil => simp [RelR] at h
      | cons w ws =>
        simp only [RelR] at h
        simp only [List.set_cons_succ, RelR]
        refine ⟨h.1, h.2.1, ?_⟩
        have := ih (k + 1) fs ws i h.2.2 (by simpa using hu)
        rw [show k + 1 + u = k + (u + 1) by omega] at this
        exact this

theorem serialize_cons (P : Params) (a : Item) (l : List Item) : serialize P (a :: l) = a.ser P ++ serialize P l := by
  simp [serialize]

theorem erase_eq_seg {it : Item} {bs : Bytes} (h : it.erase = .seg bs) : it = .seg bs := by
  cases it <;> simp_all [Item.erase]

theorem erase_eq_hdr {it : Item} {s j : Nat} (h : it.erase = .hdr s j) : ∃ i, it = .hdr s i := by
  cases it with
  | seg bs => simp [Item.erase] at h
  | hdr s' i => simp only [Item.erase, Item.hdr.injEq] at h; exact ⟨i, by rw [h.1]⟩

/-! ### the two halves of a reader iteration on the specification stream -/

theorem rdata_spec (P : Params) (M c tw : Nat) (fut : Nat → Nat) (buf acc : Bytes) (hc : c = buf.length) (htw : tw ≤ c)
    (rs : List RFrame) (ws : List Nat) (items rest : List Item)
    (hrel : RelR M (fun j => c + fut j) 0 rs ws) (hb : ∀ w ∈ ws, w + tw ≤ M)
    (hitems : items.map Item.erase = (if tw > 0 then [Item.seg (buf.take tw)] else []) ++ rest) :
    ∃ items1 rs1, rdata { inp := serialize P items, frames := rs } tw = { inp := serialize P items1, frames := rs1 } ∧
      items1.map Item.erase = rest ∧
      (if tw > 0 then acc ++ (serialize P items).take tw else acc) = acc ++ buf.take tw ∧
      RelR M (fun j => (c - tw) + fut j) 0 rs1 (if tw > 0 then ws.map (· + tw) else ws) := by
  by_cases h0 : tw > 0
  · simp only [h0, ↓reduceIte, List.cons_append, List.nil_append] at hitems ⊢
    cases items with
    | nil => simp at hitems
    | cons it items1 =>
      simp only [List.map_cons, List.cons.injEq] at hitems
      have hit := erase_eq_seg hitems.1
      subst hit
      have hlen : (buf.take tw).length = tw := by simp; omega
      refine ⟨items1, subWritten tw rs, ?_, hitems.2, ?_, RelR_data M c tw fut htw 0 rs ws hrel hb⟩
      · simp only [rdata, h0, ↓reduceIte, serialize_cons, Item.ser]
        rw [List.drop_left' hlen]
      · simp only [serialize_cons, Item.ser]
        rw [List.take_left' hlen]
  · have : tw = 0 := by omega
    subst this
    simp only [Nat.lt_irrefl, ↓reduceIte, List.nil_append, List.take_zero, List.append_nil, Nat.sub_zero] at hitems ⊢
    exact ⟨items, rs, by simp [rdata], hitems, trivial, hrel⟩

theorem rclose_spec (P : Params) (hP : P.Ok) (rem : Nat → Nat) (u : Nat)
    (rs : List RFrame) (ws : List Nat) (items rest : List Item)
    (hrel : RelR P.sizeMax rem 0 rs ws) (hu : u < rs.length)
    (hitems : items.map Item.erase = .hdr (min P.sizeMax (rem u)) 0 :: rest) :
    ∃ items2 rs2, rclose P { inp := serialize P items, frames := rs } u = { inp := serialize P items2, frames := rs2 } ∧
      items2.map Item.erase = rest ∧ RelR P.sizeMax rem 0 rs2 (ws.set u 0) := by
  cases items with
  | nil => simp at hitems
  | cons it items2 =>
    simp only [List.map_cons, List.cons.injEq] at hitems
    obtain ⟨i, hit⟩ := erase_eq_hdr hitems.1
    subst hit
    have hmeta := readMeta_ser P hP (min P.sizeMax (rem u)) i (Nat.min_le_left _ _) (serialize P items2)
    refine ⟨items2, rs.set u { written := min P.sizeMax (rem u), more := min P.sizeMax (rem u) == P.sizeMax,
                               inner := i % (P.inMax + 1) }, ?_, hitems.2, ?_⟩
    · simp only [rclose, serialize_cons, hmeta]
    · have := RelR_close P.sizeMax rem u 0 rs ws (i % (P.inMax + 1)) hrel hu
      simpa using this

end LyModel.Lyb
