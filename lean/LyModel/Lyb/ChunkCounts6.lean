import LyModel.Lyb.ChunkCounts5
/-! Part 6: the invariant along an operation sequence inside the outermost frame. -/
namespace LyModel.Lyb

theorem wclose_length (P : Params) (w1 w2 : W) (u : Nat) (h : wclose P w1 u = some w2) :
    w2.frames.length = w1.frames.length := by
  have := congrArg List.length (wclose_written P w1 w2 u h)
  simpa using this

theorem wdata_length (w : W) (buf : Bytes) (tw : Nat) : (wdata w buf tw).frames.length = w.frames.length := by
  have := congrArg List.length (wdata_written w buf tw)
  simpa using this

theorem topW_run (P : Params) (hM : 0 < P.sizeMax) (n0 : Nat) :
    ∀ (ops : List Op) (w w' : W) (bs : List Nat), wrun P w ops = some w' → TopW P n0 w bs →
      (∀ f ∈ w.frames, f.written < P.sizeMax) → wellNestedFrom (w.frames.length - 1) ops = true →
      ∃ bs', TopW P n0 w' bs' ∧ (∀ f ∈ w'.frames, f.written < P.sizeMax) ∧ w'.frames.length = 1 := by
  intro ops
  induction ops with
  | nil =>
    intro w w' bs h tw hlt wf
    simp only [wrun, Option.some.injEq] at h
    subst h
    obtain ⟨fs, f0, hfr, _⟩ := tw
    simp only [wellNestedFrom, beq_iff_eq] at wf
    refine ⟨bs, ⟨fs, f0, hfr, by assumption⟩, hlt, ?_⟩
    rw [hfr] at wf ⊢
    simp at wf ⊢
    omega
  | cons op r ih =>
    intro w w' bs h tw hlt wf
    have hne : 1 ≤ w.frames.length := by
      obtain ⟨fs, f0, hfr, _⟩ := tw
      simp [hfr]
    simp only [wrun] at h
    split at h
    · simp at h
    · rename_i w1 hop
      cases op with
      | start =>
        simp only [wop] at hop
        have tw1 := topW_wstart tw hop
        simp only [wstart] at hop
        split at hop
        · simp at hop
        · rename_i res hb
          simp only [Option.some.injEq] at hop
          subst hop
          obtain ⟨hw, _, hl⟩ := map_written_of_map _ _ (bumpInner_map P.inMax _ _ hb)
          apply ih _ w' bs h tw1
          · intro f hf
            rcases List.mem_cons.mp hf with rfl | hf
            · exact hM
            · have : f.written ∈ w.frames.map (·.written) := by rw [← hw]; exact List.mem_map_of_mem hf
              obtain ⟨g, hg, e⟩ := List.mem_map.mp this
              rw [← e]; exact hlt g hg
          · simp only [List.length_cons, hl, Nat.add_sub_cancel]
            simp only [wellNestedFrom] at wf
            rw [show w.frames.length - 1 + 1 = w.frames.length by omega] at wf
            exact wf
      | stop =>
        simp only [wop] at hop
        -- the outermost frame is not closed inside the sequence
        have hdeep : 2 ≤ w.frames.length := by
          rcases Nat.lt_or_ge w.frames.length 2 with hl | hl
          · have : w.frames.length - 1 = 0 := by omega
            rw [this] at wf
            simp [wellNestedFrom] at wf
          · exact hl
        have tw1 := topW_wstop_deeper tw hop hdeep
        simp only [wstop] at hop
        split at hop
        · simp at hop
        · rename_i g fs hfr
          simp only [Option.some.injEq] at hop
          subst hop
          apply ih _ w' bs h tw1
          · intro f hf; exact hlt f (by rw [hfr]; exact List.mem_cons_of_mem _ hf)
          · rw [hfr] at wf hdeep
            simp only [List.length_cons, Nat.add_sub_cancel] at wf hdeep ⊢
            obtain ⟨k, hk⟩ : ∃ k, fs.length = k + 1 := ⟨fs.length - 1, by omega⟩
            rw [hk] at wf ⊢
            simpa [wellNestedFrom] using wf
      | write bsy =>
        simp only [wop, wwrite] at hop
        have hres := wloop_preserves P hM (fun x => (∃ b, TopW P n0 x b) ∧ x.frames.length = w.frames.length)
          (fun x buf t ht hq => ⟨by obtain ⟨b, hb⟩ := hq.1; exact ⟨b, topW_wdata buf t ht hb⟩,
            by rw [wdata_length]; exact hq.2⟩)
          (fun x1 x2 u hq hfull hc => ⟨by obtain ⟨b, hb⟩ := hq.1; exact topW_wclose u hb hfull hc,
            by rw [wclose_length P x1 x2 u hc]; exact hq.2⟩)
          _ w bsy w1 hop (fun f hf => Nat.le_of_lt (hlt f hf))
          (by have := loopMeasure_le_fuel P.sizeMax (w.frames.map (·.written)) bsy.length; simpa using this)
          ⟨⟨bs, tw⟩, rfl⟩
        obtain ⟨⟨⟨b1, tw1⟩, hlen1⟩, hlt1⟩ := hres
        apply ih w1 w' b1 h tw1 hlt1
        rw [hlen1]
        simpa [wellNestedFrom] using wf

end LyModel.Lyb
