import LyModel.Tree.Schema
/-!
# Data trees over S1 (shared tree base; DESIGN.md §4 row `DTree`, Appendix B `tree dump`)

`DNode` is `struct lyd_node` as seen through the API: schema id, the flags `LYD_DEFAULT | LYD_WHEN_TRUE | LYD_NEW`,
the metadata list, and either children (keys of a list instance first, as in libyang) or a canonical value.

The canonical **dump** (the serialisation shared with `harness/treeproto.h` and `tools/vlib/treegen.py`) has one
line per node, depth first, siblings in list order: `<depth> <sid> <flags> <value-hex> [<meta>=<value-hex>]*`.

`insertNode` is the place `lyd_insert_node(…, LYD_INSERT_NODE_DEFAULT)` gives a new sibling: schema order; instances
of a system-ordered keyed list / configuration leaf-list sorted by key / value with the type's `sort` callback;
everything else after the existing instances of its schema node.
Core Lean only.
-/
namespace LyModel.Tree

structure Flags where
  dflt : Bool := false
  whenTrue : Bool := false
  new : Bool := false
  deriving Repr, DecidableEq, Inhabited

def Flags.toNat (f : Flags) : Nat := (if f.dflt then 1 else 0) + (if f.whenTrue then 2 else 0) + (if f.new then 4 else 0)
def Flags.ofNat (n : Nat) : Flags := { dflt := n % 2 == 1, whenTrue := n / 2 % 2 == 1, new := n / 4 % 2 == 1 }

/-- metadata instance: annotation name (module `yang` implied unless written `mod:name`) and canonical value -/
abbrev Meta := String × Bytes

inductive DNode where
  | inner (sid : Nat) (flags : Flags) (metas : List Meta) (kids : List DNode)
  | term (sid : Nat) (flags : Flags) (metas : List Meta) (val : Bytes)
  deriving Repr, Inhabited

namespace DNode

def sid : DNode → Nat | inner s .. => s | term s .. => s
def flags : DNode → Flags | inner _ f .. => f | term _ f .. => f
def metas : DNode → List Meta | inner _ _ m _ => m | term _ _ m _ => m
def kids : DNode → List DNode | inner _ _ _ k => k | term .. => []
def val : DNode → Bytes | inner .. => [] | term _ _ _ v => v
def isTerm : DNode → Bool | inner .. => false | term .. => true

def setFlags (f : Flags) : DNode → DNode
  | inner s _ m k => inner s f m k
  | term s _ m v => term s f m v
def setMetas (m : List Meta) : DNode → DNode
  | inner s f _ k => inner s f m k
  | term s f _ v => term s f m v
def setKids (k : List DNode) : DNode → DNode
  | inner s f m _ => inner s f m k
  | n => n
def setVal (v : Bytes) : DNode → DNode
  | term s f m _ => term s f m v
  | n => n
def setDflt (b : Bool) (n : DNode) : DNode := n.setFlags { n.flags with dflt := b }

end DNode

/-! ### size measures (fuel for the tree-recursive model functions) -/
mutual
def DNode.height : DNode → Nat
  | .inner _ _ _ ks => heightL ks + 1
  | .term .. => 1
def heightL : List DNode → Nat
  | [] => 0
  | n :: ns => Nat.max n.height (heightL ns)
end

/-! ### structural equality (flags and metadata included), executable -/
mutual
def DNode.beq : DNode → DNode → Bool
  | .inner s f m k, .inner s' f' m' k' => s == s' && f == f' && m == m' && beqL k k'
  | .term s f m v, .term s' f' m' v' => s == s' && f == f' && m == m' && v == v'
  | _, _ => false
def beqL : List DNode → List DNode → Bool
  | [], [] => true
  | a :: as, b :: bs => a.beq b && beqL as bs
  | _, _ => false
end

/-! ### dump -/
def metaTok (m : Meta) : String := m.1 ++ "=" ++ Hex.enc m.2

def nodeLine (depth : Nat) (n : DNode) : String :=
  let base := toString depth ++ " " ++ toString n.sid ++ " " ++ toString n.flags.toNat ++ " " ++
    (if n.isTerm then Hex.enc n.val else "-")
  n.metas.foldl (fun s m => s ++ " " ++ metaTok m) base

mutual
def dumpNode (depth : Nat) : DNode → List String
  | .inner s f m ks => nodeLine depth (.inner s f m []) :: dumpL (depth + 1) ks
  | .term s f m v => [nodeLine depth (.term s f m v)]
def dumpL (depth : Nat) : List DNode → List String
  | [] => []
  | n :: ns => dumpNode depth n ++ dumpL depth ns
end

def dumpText (forest : List DNode) : String := "\n".intercalate (dumpL 0 forest)

/-- the protocol token of a forest: hex of the dump text -/
def dumpTok (forest : List DNode) : String := Hex.enc (bytesOfString (dumpText forest))

/-! ### parse -/
structure Tok where
  depth : Nat
  sid : Nat
  flags : Flags
  val : Bytes
  metas : List Meta
  deriving Repr

def parseMeta (s : String) : Option Meta :=
  match s.splitOn "=" with
  | [n, v] => (Hex.dec v).map fun b => (n, b)
  | _ => none

def parseTok (line : String) : Option Tok :=
  match line.splitOn " " with
  | d :: s :: f :: v :: ms => do
    pure { depth := ← d.toNat?, sid := ← s.toNat?, flags := Flags.ofNat (← f.toNat?), val := ← Hex.dec v,
           metas := ← ms.mapM parseMeta }
  | _ => none

/-- siblings at depth `d` from the front of the token list; returns the unread rest -/
def parseLevel (S : Schema) : (fuel : Nat) → (d : Nat) → List Tok → List DNode × List Tok
  | 0, _, toks => ([], toks)
  | _ + 1, _, [] => ([], [])
  | fuel + 1, d, t :: rest =>
    if t.depth != d then ([], t :: rest)
    else if S.isTerm t.sid then
      let (sibs, rest') := parseLevel S fuel d rest
      (.term t.sid t.flags t.metas t.val :: sibs, rest')
    else
      let (ks, rest1) := parseLevel S fuel (d + 1) rest
      let (sibs, rest2) := parseLevel S fuel d rest1
      (.inner t.sid t.flags t.metas ks :: sibs, rest2)

def parseForest (S : Schema) (text : Bytes) : Option (List DNode) :=
  if text.isEmpty then some [] else
  match ((asciiString text).splitOn "\n").mapM parseTok with
  | none => none
  | some toks =>
    if toks.any (fun t => t.sid ≥ S.nodes.length) then none else
    match parseLevel S (2 * toks.length + 2) 0 toks with
    | (f, []) => some f
    | _ => none

def forestOfHex (S : Schema) (h : String) : Option (List DNode) := (Hex.dec h).bind (parseForest S)

/-! ### sibling order -/

/-- children of a node without the leading list keys (`lyd_child_no_keys`) -/
def noKeys (S : Schema) (ks : List DNode) : List DNode := ks.dropWhile fun c => S.isKey c.sid
def keysOf (S : Schema) (ks : List DNode) : List DNode := ks.takeWhile fun c => S.isKey c.sid

/-- `rb_compare_lists`: key by key with the key type's `sort` callback -/
def cmpKeys (S : Schema) : List DNode → List DNode → Ordering
  | a :: as, b :: bs =>
    match (S.ty a.sid).cmp a.val b.val with
    | .eq => cmpKeys S as bs
    | o => o
  | _, _ => .eq

/-- `lyds_compare_single` for two instances of the same sorted schema node -/
def cmpInst (S : Schema) (a b : DNode) : Ordering :=
  if a.isTerm then (S.ty a.sid).cmp a.val b.val
  else cmpKeys S (keysOf S a.kids) (keysOf S b.kids)

/-- insert before the first sibling of a later schema node, else last (`lyd_insert_node_ordby_schema`) -/
def insertBySchema (n : DNode) : List DNode → List DNode
  | [] => [n]
  | x :: xs => if n.sid < x.sid then n :: x :: xs else x :: insertBySchema n xs

/-- within the instances of `n`'s schema node: after every instance that is not greater (`lyds_insert`) -/
def insertSorted (S : Schema) (n : DNode) : List DNode → List DNode
  | [] => [n]
  | x :: xs =>
    if x.sid == n.sid && cmpInst S n x == .lt then n :: x :: xs
    else if n.sid < x.sid then n :: x :: xs
    else x :: insertSorted S n xs

/-- `lyd_insert_node(parent, first_sibling, node, LYD_INSERT_NODE_DEFAULT)` on the sibling list -/
def insertNode (S : Schema) (sibs : List DNode) (n : DNode) : List DNode :=
  if S.isSorted n.sid && sibs.any (fun x => x.sid == n.sid) then insertSorted S n sibs
  else insertBySchema n sibs

/-- rebuild every sibling list by inserting its nodes one by one in the given order (what the harness does with
`lyd_new_*`); on a canonical tree this is the identity -/
def canon (S : Schema) : (fuel : Nat) → List DNode → List DNode
  | 0, f => f
  | fuel + 1, f =>
    f.foldl (fun acc n =>
      let n' := match n with
        | .inner s fl m ks => DNode.inner s fl m (keysOf S ks ++ canon S fuel (noKeys S ks))
        | t => t
      insertNode S acc n') []

end LyModel.Tree
