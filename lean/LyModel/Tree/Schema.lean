import LyModel.Base
/-!
# Schema family S1 (shared tree base; DESIGN.md §2.4, Appendix A "Schema S1")

A schema is the flat pre-order table of its nodes (choice and case included); the index in the table is the
schema id `sid` that data nodes carry.  The table is parsed from the line DSL that `tools/vlib/treegen.py`
renders next to the YANG text:

```
module <name>
<depth> container <name> <presence> <config>
<depth> list      <name> <nkeys> <userord> <min> <max> <config>          -- keys = the first <nkeys> children
<depth> leaflist  <name> <type> <userord> <min> <max> <config> <dflt-hex>*
<depth> leaf      <name> <type> <mandatory> <config> <key> <dflt-hex | ~>
<depth> choice    <name> <mandatory> <config> <default-case | ~>
<depth> case      <name> <config>
```
`<type>` is `string | int8 | uint8 | int32 | boolean | empty | enum:<name>=<value>,…`; `<userord>`/`<config>` are the
*effective* values (libyang makes every state list / leaf-list user-ordered).
Core Lean only: this file is linked into `lydrv`.
-/
namespace LyModel.Tree

inductive BaseTy where
  | string | int8 | uint8 | int32 | boolean | empty
  | enumeration (items : List (String × Int))
  deriving Repr, BEq, Inhabited

inductive SKind where
  | container | list | leaflist | leaf | choice | case
  deriving Repr, DecidableEq, Inhabited

structure SNode where
  depth : Nat
  kind : SKind
  name : String
  presence : Bool := false
  config : Bool := true
  nkeys : Nat := 0
  userord : Bool := false
  min : Nat := 0
  max : Nat := 0                      -- 0 = unbounded
  ty : BaseTy := .string
  mandatory : Bool := false
  iskey : Bool := false
  dflts : List Bytes := []            -- leaf: 0 or 1 default; leaf-list: its defaults
  dfltCase : Option String := none
  deriving Repr, Inhabited

structure Schema where
  modName : String
  nodes : List SNode
  deriving Repr, Inhabited

namespace Schema

def get? (S : Schema) (sid : Nat) : Option SNode := S.nodes[sid]?

def kind? (S : Schema) (sid : Nat) : Option SKind := (S.get? sid).map (·.kind)

def isKind (S : Schema) (sid : Nat) (k : SKind) : Bool := S.kind? sid == some k

def isTerm (S : Schema) (sid : Nat) : Bool := S.isKind sid .leaf || S.isKind sid .leaflist
def isInner (S : Schema) (sid : Nat) : Bool := S.isKind sid .container || S.isKind sid .list
def isKey (S : Schema) (sid : Nat) : Bool := match S.get? sid with | some n => n.iskey | none => false
def config (S : Schema) (sid : Nat) : Bool := match S.get? sid with | some n => n.config | none => true
def name (S : Schema) (sid : Nat) : String := match S.get? sid with | some n => n.name | none => "?"
def ty (S : Schema) (sid : Nat) : BaseTy := match S.get? sid with | some n => n.ty | none => .string
def nkeys (S : Schema) (sid : Nat) : Nat := match S.get? sid with | some n => n.nkeys | none => 0

/-- `lysc_is_userordered` -/
def isUserOrd (S : Schema) (sid : Nat) : Bool :=
  match S.get? sid with
  | some n => (n.kind == .list || n.kind == .leaflist) && n.userord
  | none => false

/-- `lysc_is_dup_inst_list`: key-less list or state leaf-list -/
def isDupInst (S : Schema) (sid : Nat) : Bool :=
  match S.get? sid with
  | some n => (n.kind == .list && n.nkeys == 0) || (n.kind == .leaflist && !n.config)
  | none => false

/-- `lyds_is_supported`: instances kept sorted by libyang (system-ordered leaf-list or keyed list) -/
def isSorted (S : Schema) (sid : Nat) : Bool :=
  match S.get? sid with
  | some n => !n.userord && (n.kind == .leaflist || (n.kind == .list && n.nkeys != 0))
  | none => false

/-- `lysc_is_np_cont` -/
def isNpCont (S : Schema) (sid : Nat) : Bool :=
  match S.get? sid with
  | some n => n.kind == .container && !n.presence
  | none => false

/-- the nearest ancestor (by pre-order depth) that is instantiated in data; `none` = top level -/
def dataParent (S : Schema) (sid : Nat) : Option Nat :=
  match S.get? sid with
  | none => none
  | some n =>
    let rec go (i : Nat) (d : Nat) : Option Nat :=
      match i with
      | 0 => none
      | i + 1 =>
        match S.nodes[i]? with
        | some m =>
          if m.depth < d then
            if m.kind == .choice || m.kind == .case then go i m.depth else some i
          else go i d
        | none => go i d
    go sid n.depth

end Schema

/-! ## DSL parser -/

def asciiString (b : Bytes) : String := String.ofList (b.map fun x => Char.ofNat x.toNat)

def parseBool (s : String) : Option Bool :=
  if s == "1" then some true else if s == "0" then some false else none

def parseEnumItems (s : String) : Option (List (String × Int)) :=
  (s.splitOn ",").mapM fun it =>
    match it.splitOn "=" with
    | [n, v] => v.toInt?.map fun i => (n, i)
    | _ => none

def parseTy (s : String) : Option BaseTy :=
  if s == "string" then some .string
  else if s == "int8" then some .int8
  else if s == "uint8" then some .uint8
  else if s == "int32" then some .int32
  else if s == "boolean" then some .boolean
  else if s == "empty" then some .empty
  else if s.startsWith "enum:" then (parseEnumItems (s.drop 5).toString).map .enumeration
  else none

def parseSNode (line : String) : Option SNode :=
  match line.splitOn " " with
  | d :: "container" :: nm :: [p, c] => do
    pure { depth := ← d.toNat?, kind := .container, name := nm, presence := ← parseBool p, config := ← parseBool c }
  | d :: "list" :: nm :: [nk, uo, mn, mx, c] => do
    pure { depth := ← d.toNat?, kind := .list, name := nm, nkeys := ← nk.toNat?, userord := ← parseBool uo,
           min := ← mn.toNat?, max := ← mx.toNat?, config := ← parseBool c }
  | d :: "leaflist" :: nm :: t :: uo :: mn :: mx :: c :: ds => do
    pure { depth := ← d.toNat?, kind := .leaflist, name := nm, ty := ← parseTy t, userord := ← parseBool uo,
           min := ← mn.toNat?, max := ← mx.toNat?, config := ← parseBool c, dflts := ← ds.mapM Hex.dec }
  | d :: "leaf" :: nm :: [t, m, c, k, df] => do
    let dl ← if df == "~" then pure [] else (Hex.dec df).map ([·])
    pure { depth := ← d.toNat?, kind := .leaf, name := nm, ty := ← parseTy t, mandatory := ← parseBool m,
           config := ← parseBool c, iskey := ← parseBool k, dflts := dl }
  | d :: "choice" :: nm :: [m, c, dc] => do
    pure { depth := ← d.toNat?, kind := .choice, name := nm, mandatory := ← parseBool m, config := ← parseBool c,
           dfltCase := if dc == "~" then none else some dc }
  | [d, "case", nm, c] => do
    pure { depth := ← d.toNat?, kind := .case, name := nm, config := ← parseBool c }
  | _ => none

def Schema.parse (dsl : Bytes) : Option Schema :=
  match (asciiString dsl).splitOn "\n" with
  | hd :: rest =>
    match hd.splitOn " " with
    | ["module", nm] => (rest.mapM parseSNode).map fun ns => { modName := nm, nodes := ns }
    | _ => none
  | [] => none

def Schema.ofHex (h : String) : Option Schema := (Hex.dec h).bind Schema.parse

/-- one token per node, as printed by `tp_schema_summary` (harness/treeproto.h) and `Schema.summary` (treegen.py) -/
def Schema.summary (S : Schema) : List String :=
  (List.range S.nodes.length).map fun sid =>
    let n := S.nodes[sid]?.getD default
    let k := match n.kind with
      | .container => "container" | .list => "list" | .leaflist => "leaflist" | .leaf => "leaf"
      | .choice => "choice" | .case => "case"
    let dp := match S.dataParent sid with | some p => toString p | none => "-"
    let b := fun (x : Bool) => if x then "1" else "0"
    n.name ++ "/" ++ k ++ "/" ++ dp ++ "/u" ++ b (S.isUserOrd sid) ++ "d" ++ b (S.isDupInst sid) ++ "k" ++ b n.iskey
      ++ "c" ++ b n.config

/-! ## values: canonical byte strings with a per-type comparison (libyang's plugin `sort` callbacks) -/

/-- lexicographic comparison of byte strings = `strcmp` on NUL-free strings -/
def cmpBytes : Bytes → Bytes → Ordering
  | [], [] => .eq
  | [], _ :: _ => .lt
  | _ :: _, [] => .gt
  | a :: as, b :: bs => if a < b then .lt else if b < a then .gt else cmpBytes as bs

def parseNatB : Bytes → Nat → Nat
  | [], acc => acc
  | c :: cs, acc => parseNatB cs (acc * 10 + (c.toNat - 48))

/-- canonical decimal integer -/
def parseIntB : Bytes → Int
  | 45 :: cs => - (Int.ofNat (parseNatB cs 0))
  | cs => Int.ofNat (parseNatB cs 0)

def enumValue (items : List (String × Int)) (v : Bytes) : Int :=
  match items.find? (fun it => bytesOfString it.1 == v) with
  | some it => it.2
  | none => 0

/-- `plugin->sort(val1, val2)`: string/empty by `strcmp` of the canonical value, integers numerically,
`false < true`, and enumerations in DEscending order of the enum value (`lyplg_type_sort_enum`, as the code has it). -/
def BaseTy.cmp : BaseTy → Bytes → Bytes → Ordering
  | .string, a, b => cmpBytes a b
  | .empty, a, b => cmpBytes a b
  | .int8, a, b => compare (parseIntB a) (parseIntB b)
  | .uint8, a, b => compare (parseIntB a) (parseIntB b)
  | .int32, a, b => compare (parseIntB a) (parseIntB b)
  | .boolean, a, b => compare (if a == [116, 114, 117, 101] then 1 else 0) (if b == [116, 114, 117, 101] then 1 else 0)
  | .enumeration items, a, b => compare (enumValue items b) (enumValue items a)

end LyModel.Tree
