import LyModel.Base
import LyModel.Text.Drv
import LyModel.Lex.Drv
import LyModel.XmlTree.Drv
import LyModel.JsonTree.Drv
import LyModel.XsdRe.Drv
import LyModel.Val.Drv
import LyModel.Path.Drv
import LyModel.Lyb.Drv
import LyModel.Conc.Drv
import LyModel.Iff.Drv
import LyModel.XPath.Drv
import LyModel.YangStr.Drv
import LyModel.LyHt.Drv
import LyModel.Sib.Drv
import LyModel.Diff.Drv
import LyModel.Diff.Drv13
import LyModel.Ctx.Drv
import LyModel.Merge.Drv
import LyModel.Valid.Drv
import LyModel.Fn.Drv
import LyModel.Yin.Drv
/-! Dispatch table of the line-protocol driver: one handler per component. -/
namespace LyModel.Drv

def dispatch (comp op : String) (args : List String) : String :=
  match comp with
  | "echo" => "ok " ++ op ++ " " ++ " ".intercalate args
  | "text" => Text.Drv.handle op args
  | "lex" => Lex.Drv.handle op args
  | "xmltree" => XmlTree.Drv.handle op args
  | "jsontree" => JsonTree.Drv.handle op args
  | "xsdre" => XsdRe.Drv.handle op args
  | "val" => Val.Drv.handle op args
  | "path" => Path.Drv.handle op args
  | "lyb" => Lyb.Drv.handle op args
  | "conc" => Conc.Drv.handle op args
  | "iff" => Iff.Drv.handle op args
  | "xpath" => XPath.Drv.handle op args
  | "yangstr" => YangStr.Drv.handle op args
  | "ht" => LyHt.Drv.handle op args
  | "sib" => Sib.Drv.handle op args
  | "diff" => Diff.Drv.handle op args
  | "diff13" => Diff.Drv13.handle op args
  | "ctx" => Ctx.Drv.handle op args
  | "merge" => Merge.Drv.handle op args
  | "valid" => Valid.Drv.handle op args
  | "fn" => Fn.Drv.handle op args
  | "yin" => Yin.Drv.handle op args
  | _ => "err NoSuchComponent"

end LyModel.Drv
