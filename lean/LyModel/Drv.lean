import LyModel.Base
import LyModel.Text.Drv
import LyModel.Diff.Drv
import LyModel.Valid.Drv
/-! Dispatch table of the line-protocol driver: one handler per component. -/
namespace LyModel.Drv

def dispatch (comp op : String) (args : List String) : String :=
  match comp with
  | "echo" => "ok " ++ op ++ " " ++ " ".intercalate args
  | "text" => Text.Drv.handle op args
  | "diff" => Diff.Drv.handle op args
  | "valid" => Valid.Drv.handle op args
  | _ => "err NoSuchComponent"

end LyModel.Drv
