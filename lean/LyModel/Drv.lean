import LyModel.Base
import LyModel.Text.Drv
import LyModel.Diff.Drv
import LyModel.Diff.Drv13
/-! Dispatch table of the line-protocol driver: one handler per component. -/
namespace LyModel.Drv

def dispatch (comp op : String) (args : List String) : String :=
  match comp with
  | "echo" => "ok " ++ op ++ " " ++ " ".intercalate args
  | "text" => Text.Drv.handle op args
  | "diff" => Diff.Drv.handle op args
  | "diff13" => Diff.Drv13.handle op args
  | _ => "err NoSuchComponent"

end LyModel.Drv
