import LyModel.Base
import LyModel.Text.Drv
import LyModel.Ctx.Drv
/-! Dispatch table of the line-protocol driver: one handler per component. -/
namespace LyModel.Drv

def dispatch (comp op : String) (args : List String) : String :=
  match comp with
  | "echo" => "ok " ++ op ++ " " ++ " ".intercalate args
  | "text" => Text.Drv.handle op args
  | "ctx" => Ctx.Drv.handle op args
  | _ => "err NoSuchComponent"

end LyModel.Drv
