import LyModel.XsdRe.Parse
/-!
A direct, semantics-first translation of a parsed XSD pattern into PCRE2 syntax (to be compiled with the options libyang
uses).  It is **not** a model of libyang: it is the cross-check of the oracle.  Running PCRE2 (trusted base) on
`toPcre p` must give the verdicts of the spec matcher `Regex.matches p.toRegex`; the check module does that for every
pattern on which libyang and the spec disagree (so a wrong oracle is not reported as a libyang defect) and on a sample
of all patterns.

Every literal is written `\x{H}`; a class expression becomes look-aheads over one-character alternatives, so negation,
subtraction and class escapes inside a class need no case analysis:
`[g₁-[g₂]]` ↦ `(?!T g₂)G g₁`, positive group ↦ `(?:i₁|i₂|…)`, negative group ↦ `(?!(?:i₁|…))[\s\S]`.
-/
namespace LyModel.XsdRe

def hexDigits (n : Nat) : String := String.ofList (Nat.toDigits 16 n)

def pcreLit (c : Char) : String := "\\x{" ++ hexDigits c.toNat ++ "}"

def pcreRanges (rs : List (Nat × Nat)) : String :=
  "[" ++ String.join (rs.map fun r => "\\x{" ++ hexDigits r.1 ++ "}-\\x{" ++ hexDigits r.2 ++ "}") ++ "]"

/-- a one-character PCRE2 pattern for an escape -/
def Esc.toPcre (neg : Bool) : Esc → String
  | .dig => if neg then "\\P{Nd}" else "\\p{Nd}"
  | .word => if neg then "[\\p{P}\\p{Z}\\p{C}]" else "[^\\p{P}\\p{Z}\\p{C}]"
  | .space => if neg then "[^\\x{20}\\x{9}\\x{a}\\x{d}]" else "[\\x{20}\\x{9}\\x{a}\\x{d}]"
  | .nameStart => (if neg then "(?!" else "(?=") ++ pcreRanges Unicode.nameStartRanges ++ ")[\\s\\S]"
  | .nameChar => (if neg then "(?!" else "(?=") ++ pcreRanges (Unicode.nameStartRanges ++ Unicode.nameCharExtra) ++ ")[\\s\\S]"
  | .cat n => (if neg then "\\P{" else "\\p{") ++ n ++ "}"
  | .block n => (if neg then "(?!" else "(?=") ++ pcreRanges ((Unicode.blockRanges n).getD []) ++ ")[\\s\\S]"

def CItem.toPcre : CItem → String
  | .ch c => pcreLit c
  | .range lo hi => "[" ++ pcreLit lo ++ "-" ++ pcreLit hi ++ "]"
  | .esc neg e => e.toPcre neg

def CGroup.toPcre (g : CGroup) : String :=
  let alts := "(?:" ++ "|".intercalate (g.items.map CItem.toPcre) ++ ")"
  if g.neg then "(?!" ++ alts ++ ")[\\s\\S]" else alts

def CClass.toPcre : CClass → String
  | [] => "(?!)"
  | [g] => g.toPcre
  | g :: rest => "(?!" ++ CClass.toPcre rest ++ ")" ++ g.toPcre

def quantText (lo : Nat) : Option Nat → String
  | none => "{" ++ toString lo ++ ",}"
  | some m => "{" ++ toString lo ++ "," ++ toString m ++ "}"

def Pat.toPcre : Pat → String
  | .eps => ""
  | .chr c => pcreLit c
  | .dot => "[^\\x{a}\\x{d}]"
  | .esc neg e => "(?:" ++ e.toPcre neg ++ ")"
  | .cls cc => "(?:" ++ CClass.toPcre cc ++ ")"
  | .alt a b => "(?:" ++ a.toPcre ++ "|" ++ b.toPcre ++ ")"
  | .cat a b => a.toPcre ++ b.toPcre
  | .rep p lo hi => "(?:" ++ p.toPcre ++ ")" ++ quantText lo hi
  | .group p => "(?:" ++ p.toPcre ++ ")"

end LyModel.XsdRe
