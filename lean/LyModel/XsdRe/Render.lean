import LyModel.XsdRe.Parse
/-!
# Canonical text of a pattern syntax tree (core Lean only)

`Pat.render d p` is the canonical concrete syntax of `p` in dialect `d`; `Props/C18Parse` proves that the parser reads it back
(`parseCharsD d (p.render d) = .ok p`) for every tree the grammar can produce (`Pat.Canon`: exactly the trees the parser
builds — alternations and concatenations nested to the right, quantifiers on atoms, valid names and bounds) whose constructs
belong to the dialect (`Pat.inDialect`).

Choices of the printer (one text per tree; the other spellings the grammar allows are covered by `Derives` / `parse_sound`):
* `\n \r \t` for the three control characters; a backslash before each metacharacter `\ | . ? * + ( ) { } [ ]` outside a
  class and before `\ [ ] - ^` inside one; every other character stands for itself — in particular a raw `^` / `$`
  outside a class in the XSD dialect (where they are ordinary characters), `\^` / `\$` in the PCRE dialect;
* quantifiers: `*` `+` `?` for `{0,}` `{1,}` `{0,1}`, `{n}` for `{n,n}`, else `{n,}` / `{n,m}`;
* class subtraction `[items-[…]]`, negation `[^items]`.
-/
namespace LyModel.XsdRe

/-- characters written with a backslash outside a character class -/
def metaChars : List Char := "\\|.?*+(){}[]".toList

/-- characters written with a backslash inside a character class -/
def clsMetaChars : List Char := "\\[]-^".toList

/-- a literal character outside a class -/
def renderChr (d : Dialect) (c : Char) : List Char :=
  if c == '\n' then ['\\', 'n'] else if c == '\r' then ['\\', 'r'] else if c == '\t' then ['\\', 't']
  else if metaChars.contains c || (!d.rawAnchors && (c == '^' || c == '$')) then ['\\', c]
  else [c]

/-- a literal character inside a class -/
def renderClsChr (c : Char) : List Char :=
  if c == '\n' then ['\\', 'n'] else if c == '\r' then ['\\', 'r'] else if c == '\t' then ['\\', 't']
  else if clsMetaChars.contains c then ['\\', c]
  else [c]

def Esc.render (neg : Bool) : Esc → List Char
  | .dig => ['\\', if neg then 'D' else 'd']
  | .word => ['\\', if neg then 'W' else 'w']
  | .space => ['\\', if neg then 'S' else 's']
  | .nameStart => ['\\', if neg then 'I' else 'i']
  | .nameChar => ['\\', if neg then 'C' else 'c']
  | .cat n => '\\' :: (if neg then 'P' else 'p') :: '{' :: (n.toList ++ ['}'])
  | .block b => '\\' :: (if neg then 'P' else 'p') :: '{' :: 'I' :: 's' :: (b.toList ++ ['}'])

/-- decimal digits of a number -/
def natDigits (n : Nat) : List Char :=
  if n < 10 then [Char.ofNat (48 + n)] else natDigits (n / 10) ++ [Char.ofNat (48 + n % 10)]

def renderQuant (lo : Nat) : Option Nat → List Char
  | none => if lo = 0 then ['*'] else if lo = 1 then ['+'] else '{' :: (natDigits lo ++ [',', '}'])
  | some hi =>
    if lo = 0 ∧ hi = 1 then ['?']
    else if lo = hi then '{' :: (natDigits lo ++ ['}'])
    else '{' :: (natDigits lo ++ ',' :: (natDigits hi ++ ['}']))

def CItem.render : CItem → List Char
  | .ch c => renderClsChr c
  | .range lo hi => renderClsChr lo ++ '-' :: renderClsChr hi
  | .esc neg e => e.render neg

def CGroup.render (g : CGroup) : List Char :=
  (if g.neg then ['^'] else []) ++ g.items.flatMap CItem.render

/-- the text after the opening `[`, up to and including the closing `]` -/
def CClass.render : CClass → List Char
  | [] => [']']
  | [g] => g.render ++ [']']
  | g :: rest => g.render ++ '-' :: '[' :: (CClass.render rest ++ [']'])

def Pat.render (d : Dialect) : Pat → List Char
  | .eps => []
  | .chr c => renderChr d c
  | .dot => ['.']
  | .esc neg e => e.render neg
  | .cls cc => '[' :: cc.render
  | .alt a b => a.render d ++ '|' :: b.render d
  | .cat a b => a.render d ++ b.render d
  | .rep p lo hi => p.render d ++ renderQuant lo hi
  | .group p => '(' :: (p.render d ++ [')'])

/-- `renderXsd`: the canonical XSD text of a pattern -/
def renderXsd (p : Pat) : List Char := p.render .xsd

/-! ### the trees of the grammar -/

/-- a property name the grammar knows, written with name characters only -/
def Esc.wf : Esc → Bool
  | .cat n => Unicode.categoryNames.contains n && n.toList.all isNameCh &&
      (match n.toList with | 'I' :: 's' :: _ => false | _ => true)
  | .block b => (Unicode.blockRanges b).isSome && b.toList.all isNameCh
  | _ => true

def CItem.wf : CItem → Bool
  | .ch _ => true
  | .range lo hi => decide (lo ≤ hi)
  | .esc _ e => e.wf

def CGroup.wf (g : CGroup) : Bool := !g.items.isEmpty && g.items.all CItem.wf

def CClass.wf (cc : CClass) : Bool := !cc.isEmpty && cc.all CGroup.wf

/-- Atom of the grammar: a character, `.`, an escape, a class, a parenthesised regExp -/
def Pat.isAtom : Pat → Bool
  | .chr _ | .dot | .esc _ _ | .cls _ | .group _ => true
  | _ => false

/-- Piece: an atom with an optional quantifier -/
def Pat.isPiece : Pat → Bool
  | .rep p _ _ => p.isAtom
  | p => p.isAtom

/-- a non-empty sequence of pieces, nested to the right (what `mkCat` builds) -/
def Pat.isBranch1 : Pat → Bool
  | .cat a b => a.isPiece && b.isBranch1
  | p => p.isPiece

/-- Branch: a possibly empty sequence of pieces -/
def Pat.isBranch : Pat → Bool
  | .eps => true
  | p => p.isBranch1

/-- regExp: branches separated by `|`, nested to the right (what `mkAlt` builds) -/
def Pat.isRe : Pat → Bool
  | .alt a b => a.isBranch && b.isRe
  | p => p.isBranch

/-- names, ranges and quantifier bounds are valid everywhere; the content of every group is a regExp -/
def Pat.wf : Pat → Bool
  | .eps | .chr _ | .dot => true
  | .esc _ e => e.wf
  | .cls cc => cc.wf
  | .alt a b => a.wf && b.wf
  | .cat a b => a.wf && b.wf
  | .rep p lo hi => p.wf && Regex.hiOk lo hi
  | .group p => p.wf && p.isRe

/-- the syntax trees of the grammar (= the trees the parser builds, `Props/C18Parse.canon_of_parse`) -/
def Pat.Canon (p : Pat) : Bool := p.isRe && p.wf

/-! ### the constructs of a dialect -/

def Esc.inDialect (d : Dialect) : Esc → Bool
  | .dig | .cat _ => true
  | .block _ => d.isBlocks
  | _ => d.multiEsc

def CItem.inDialect (d : Dialect) : CItem → Bool
  | .esc _ e => e.inDialect d
  | _ => true

def CClass.inDialect (d : Dialect) (cc : CClass) : Bool :=
  (d.subtraction || cc.length ≤ 1) && cc.all fun g => g.items.all (CItem.inDialect d)

/-- every construct of `p` belongs to dialect `d` (vacuous for `Dialect.xsd`); for `Dialect.pcre` this is the fragment on which
    XSD and PCRE2 agree syntactically: no class subtraction (F181), no `\i \c \I \C` (F182), no `\w \W \s \S` (F183), no
    block escapes, quantifier bounds up to 65535, no U+0000 -/
def Pat.inDialect (d : Dialect) : Pat → Bool
  | .eps | .dot => true
  | .chr _ => true
  | .esc _ e => e.inDialect d
  | .cls cc => cc.inDialect d
  | .alt a b => a.inDialect d && b.inDialect d
  | .cat a b => a.inDialect d && b.inDialect d
  | .rep p lo hi => p.inDialect d && quantAllowed d lo hi
  | .group p => p.inDialect d

end LyModel.XsdRe
