import LyModel.XsdRe.RewriteLemmas
/-!
Pass 1 with the multi-character escape table (`escapeLoopM`, fixes/F182.diff + F183.diff): with an empty table it is the
loop as it was (`escapeLoop`); its only error is the stray bracket; what it does at an escape of the table.
-/
namespace LyModel.XsdRe

private theorem emap_map (x : Except RwErr Bytes) (f g : Bytes → Bytes) : (x.map f).map g = x.map (fun o => g (f o)) := by
  cases x <;> rfl

private theorem emap_id (x : Except RwErr Bytes) : x.map (fun t => [] ++ t) = x := by
  cases x <;> simp [Except.map]

theorem mceLookup_nil (c : UInt8) : mceLookup [] c = Option.none := rfl

/-- **Switch off = the code as it was**: with an empty table the loop is `escapeLoop` (a pending backslash is written one
    round later, hence the `map` in the `escaped` state). -/
theorem escapeLoopM_nil_aux (fx : Fixes) : ∀ (s : Bytes) (b : Nat),
    escapeLoopM [] fx b false s = escapeLoop fx b false s ∧
    escapeLoopM [] fx b true s = (escapeLoop fx b true s).map (bBackslash :: ·)
  | [], b => by simp [escapeLoopM, escapeLoop, Except.map]
  | c :: rest, b => by
    have ih := escapeLoopM_nil_aux fx rest
    constructor
    · rw [escapeLoopM, escapeLoop_cons]
      simp only [Bool.false_eq_true, if_false, mceLookup_nil, List.nil_append, Bool.not_false]
      by_cases hb : c = bBackslash
      · simp only [hb, if_true, (ih b).2]
      · simp only [hb, if_false, (ih _).1, and_false, not_false_eq_true, and_true]
    · rw [escapeLoopM, escapeLoop_cons]
      simp only [if_true, mceLookup_nil, Bool.not_true, List.cons_append, List.nil_append]
      by_cases hb : c = bBackslash
      · simp only [hb, if_true, (ih b).1, emap_map]
      · simp only [hb, if_false, (ih _).1, emap_map, Bool.true_eq_false, and_false, if_false]
        by_cases ha : c = bDollar ∨ c = bCaret
        · simp only [ha, if_true, and_true]
          split <;> simp [emap_map]
        · simp only [ha, if_false]
          by_cases ho : c = bOpen
          · simp only [ho, if_true, emap_map]
          · simp only [ho, if_false]
            by_cases hc : c = bClose <;> simp only [hc, if_true, if_false, emap_map]

theorem escapeLoopM_nil (fx : Fixes) (b : Nat) (s : Bytes) : escapeLoopM [] fx b false s = escapeLoop fx b false s :=
  (escapeLoopM_nil_aux fx s b).1

theorem rewriteWithM_nil (fx : Fixes) (p : Bytes) : rewriteWithM [] fx p = rewriteWith fx p := by
  unfold rewriteWithM rewriteWith
  rw [escapeLoopM_nil]

/-- the only error of pass 1 is the stray bracket, whatever the table -/
theorem escapeLoopM_err (tbl : List (UInt8 × Bytes)) (fx : Fixes) : ∀ (s : Bytes) (b : Nat) (e : Bool) (err : RwErr),
    escapeLoopM tbl fx b e s = .error err → err = .strayBracket
  | [], b, e, err => by simp [escapeLoopM]
  | c :: rest, b, e, err => by
    have ih := escapeLoopM_err tbl fx rest
    have hm : ∀ (x : Except RwErr Bytes) (f : Bytes → Bytes), x.map f = .error err → x = .error err := by
      intro x f h; cases x <;> simp_all [Except.map]
    rw [escapeLoopM]
    split
    · intro h; exact ih _ _ _ (hm _ _ h)
    · split
      · split
        · intro h; exact ih _ _ _ (hm _ _ h)
        · intro h; exact ih _ _ _ h
      · split
        · split <;> (intro h; exact ih _ _ _ (hm _ _ h))
        · split
          · intro h; exact ih _ _ _ (hm _ _ h)
          · split
            · split
              · intro h; cases h; rfl
              · intro h; exact ih _ _ _ (hm _ _ h)
            · intro h; exact ih _ _ _ (hm _ _ h)

/-- **What the repaired loop does at an escape of the table** (outside an escape, i.e. `escaped = 0`): `\c` with `c` a row
    of the table becomes the class members of the row, with brackets of their own at depth 0 and without inside a class;
    the depth and `escaped = 0` are unchanged. -/
theorem escapeLoopM_at_escape (tbl : List (UInt8 × Bytes)) (fx : Fixes) (b : Nat) (c : UInt8) (m rest : Bytes)
    (h : mceLookup tbl c = some m) :
    escapeLoopM tbl fx b false (bBackslash :: c :: rest) =
      (escapeLoopM tbl fx b false rest).map (fun t => (if b = 0 then bOpen :: (m ++ [bClose]) else m) ++ t) := by
  rw [escapeLoopM]
  simp only [Bool.false_eq_true, if_false, if_true]
  rw [escapeLoopM]
  simp only [if_true, h, mceText]

/-- … and an escape that is not in the table is copied (the backslash, then the byte is handled by the `switch` with
    `escaped = 1`), as before -/
theorem escapeLoopM_other_escape (tbl : List (UInt8 × Bytes)) (fx : Fixes) (b : Nat) (c : UInt8) (rest : Bytes)
    (h : mceLookup tbl c = Option.none) (hc : c ≠ bBackslash ∧ c ≠ bDollar ∧ c ≠ bCaret ∧ c ≠ bOpen ∧ c ≠ bClose) :
    escapeLoopM tbl fx b false (bBackslash :: c :: rest) =
      (escapeLoopM tbl fx b false rest).map (fun t => bBackslash :: c :: t) := by
  rw [escapeLoopM]
  simp only [Bool.false_eq_true, if_false, if_true]
  rw [escapeLoopM]
  simp only [if_true, h, hc.1, hc.2.1, hc.2.2.1, hc.2.2.2.1, hc.2.2.2.2, false_or, if_false, List.cons_append, List.nil_append]

end LyModel.XsdRe
