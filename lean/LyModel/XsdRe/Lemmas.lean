import LyModel.XsdRe.Regex
/-!
Correctness of the derivative matcher: `matches r s = true ↔ L r s` (all `r`, `s`).
-/
namespace LyModel.XsdRe.Regex
variable {α : Type}

/-! ### powers of a language -/

theorem pow_nil_iff (P : List α → Prop) (n : Nat) : Pow P n [] ↔ n = 0 ∨ P [] := by
  induction n with
  | zero => simp [Pow]
  | succ n ih =>
    simp only [Pow]
    constructor
    · rintro ⟨u, v, h, hu, _⟩
      have hu' : u = [] := (List.append_eq_nil_iff.mp h.symm).1
      subst hu'
      exact Or.inr hu
    · rintro (h | h)
      · omega
      · exact ⟨[], [], rfl, h, ih.mpr (Or.inr h)⟩

/-- a nullable language can be padded with one more (empty) factor -/
theorem pow_succ_of_nil {P : List α → Prop} (h : P []) {n : Nat} {s : List α} (hs : Pow P n s) : Pow P (n + 1) s :=
  ⟨[], s, rfl, h, hs⟩

theorem pow_mono_of_nil {P : List α → Prop} (h : P []) {n m : Nat} (hnm : n ≤ m) {s : List α} (hs : Pow P n s) : Pow P m s := by
  induction hnm with
  | refl => exact hs
  | step _ ih => exact pow_succ_of_nil h ih

/-- first-factor analysis of a non-empty word in a power: skip the empty leading factors -/
theorem pow_cons {P : List α → Prop} {c : α} : ∀ {n : Nat} {s : List α}, Pow P n (c :: s) →
    ∃ k u v, k < n ∧ s = u ++ v ∧ P (c :: u) ∧ Pow P k v ∧ (k + 1 = n ∨ P [])
  | 0, s, h => by simp [Pow] at h
  | n + 1, s, h => by
    obtain ⟨u, v, huv, hu, hv⟩ := h
    cases u with
    | nil =>
      simp only [List.nil_append] at huv
      subst huv
      obtain ⟨k, u', v', hk, hs, hcu, hpk, _⟩ := pow_cons (n := n) hv
      exact ⟨k, u', v', by omega, hs, hcu, hpk, Or.inr hu⟩
    | cons d u' =>
      simp only [List.cons_append, List.cons.injEq] at huv
      obtain ⟨rfl, rfl⟩ := huv
      exact ⟨n, u', v, by omega, rfl, hu, hv, Or.inl rfl⟩

/-! ### nullable -/

theorem hiOk_iff (lo : Nat) (hi : Option Nat) : hiOk lo hi = true ↔ ∀ m, hi = some m → lo ≤ m := by
  cases hi with
  | none => simp [hiOk]
  | some m => simp [hiOk]

theorem nullable_iff : ∀ (r : Regex α), nullable r = true ↔ L r []
  | zero => by simp [nullable, L]
  | one => by simp [nullable, L]
  | sym p => by simp [nullable, L]
  | alt a b => by simp [nullable, L, nullable_iff a, nullable_iff b]
  | cat a b => by
    simp only [nullable, L, Bool.and_eq_true, nullable_iff a, nullable_iff b]
    constructor
    · rintro ⟨ha, hb⟩
      exact ⟨[], [], rfl, ha, hb⟩
    · rintro ⟨u, v, h, ha, hb⟩
      obtain ⟨rfl, rfl⟩ := List.append_eq_nil_iff.mp h.symm
      exact ⟨ha, hb⟩
  | rep r lo hi => by
    simp only [nullable, L, Bool.or_eq_true, Bool.and_eq_true, beq_iff_eq, nullable_iff r, hiOk_iff, InBounds]
    constructor
    · rintro (h | ⟨hr, hb⟩)
      · subst h
        exact ⟨0, ⟨Nat.le_refl 0, fun m _ => Nat.zero_le m⟩, rfl⟩
      · exact ⟨lo, ⟨Nat.le_refl lo, hb⟩, (pow_nil_iff _ _).mpr (Or.inr hr)⟩
    · rintro ⟨n, ⟨hlo, hhi⟩, hp⟩
      rcases (pow_nil_iff _ _).mp hp with h | h
      · left; omega
      · by_cases h0 : lo = 0
        · exact Or.inl h0
        · exact Or.inr ⟨h, fun m hm => Nat.le_trans hlo (hhi m hm)⟩

/-! ### derivative -/

/-- the quantifier of the residual after one iteration: `{lo,hi}` ↦ `{lo-1,hi-1}` -/
theorem rep_cons_iff {P D : List α → Prop} {c : α} (hD : ∀ u, D u ↔ P (c :: u)) (lo : Nat) (hi hi' : Option Nat)
    (hhi : ∀ k, (∀ m, hi' = some m → k ≤ m) ↔ (∀ m, hi = some m → k + 1 ≤ m)) (s : List α) :
    (∃ u v, s = u ++ v ∧ D u ∧ ∃ k, InBounds (lo - 1) hi' k ∧ Pow P k v) ↔
    (∃ n, InBounds lo hi n ∧ Pow P n (c :: s)) := by
  constructor
  · rintro ⟨u, v, rfl, hu, k, ⟨hklo, hkhi⟩, hp⟩
    refine ⟨k + 1, ⟨by omega, (hhi k).mp hkhi⟩, c :: u, v, rfl, (hD u).mp hu, hp⟩
  · rintro ⟨n, ⟨hlo, hhi'⟩, hp⟩
    obtain ⟨k, u, v, hk, rfl, hcu, hpk, hor⟩ := pow_cons hp
    refine ⟨u, v, rfl, (hD u).mpr hcu, ?_⟩
    rcases hor with h | h
    · subst h
      exact ⟨k, ⟨by omega, (hhi k).mpr hhi'⟩, hpk⟩
    · refine ⟨n - 1, ⟨by omega, (hhi (n - 1)).mpr ?_⟩, pow_mono_of_nil h (by omega) hpk⟩
      intro m hm
      have := hhi' m hm
      omega

theorem deriv_iff (c : α) : ∀ (r : Regex α) (s : List α), L (deriv c r) s ↔ L r (c :: s)
  | zero, s => by simp [deriv, L]
  | one, s => by simp [deriv, L]
  | sym p, s => by
    simp only [deriv]
    by_cases h : p c = true
    · simp only [h, if_true, L]
      constructor
      · rintro rfl
        exact ⟨c, rfl, h⟩
      · rintro ⟨d, hd, _⟩
        simp only [List.cons.injEq] at hd
        exact hd.2
    · simp only [h, L]
      constructor
      · intro hf; cases hf
      · rintro ⟨d, hd, hpd⟩
        simp only [List.cons.injEq] at hd
        obtain ⟨rfl, _⟩ := hd
        exact h hpd
  | alt a b, s => by simp only [deriv, L, deriv_iff c a, deriv_iff c b]
  | cat a b, s => by
    have key : L (cat a b) (c :: s) ↔ (∃ u v, s = u ++ v ∧ L a (c :: u) ∧ L b v) ∨ (L a [] ∧ L b (c :: s)) := by
      simp only [L]
      constructor
      · rintro ⟨u, v, h, ha, hb⟩
        cases u with
        | nil =>
          simp only [List.nil_append] at h
          subst h
          exact Or.inr ⟨ha, hb⟩
        | cons d u' =>
          simp only [List.cons_append, List.cons.injEq] at h
          obtain ⟨rfl, rfl⟩ := h
          exact Or.inl ⟨u', v, rfl, ha, hb⟩
      · rintro (⟨u, v, rfl, ha, hb⟩ | ⟨ha, hb⟩)
        · exact ⟨c :: u, v, rfl, ha, hb⟩
        · exact ⟨[], c :: s, rfl, ha, hb⟩
    rw [key]
    simp only [deriv]
    by_cases hn : nullable a = true
    · simp only [hn, if_true, L, deriv_iff c a, deriv_iff c b]
      have := (nullable_iff a).mp hn
      constructor
      · rintro (h | h)
        · exact Or.inl h
        · exact Or.inr ⟨this, h⟩
      · rintro (h | ⟨_, h⟩)
        · exact Or.inl h
        · exact Or.inr h
    · have hna : ¬ L a [] := fun h => hn ((nullable_iff a).mpr h)
      have hn' : nullable a = false := by simpa using hn
      simp only [hn', Bool.false_eq_true, if_false, L, deriv_iff c a]
      constructor
      · intro h; exact Or.inl h
      · rintro (h | ⟨h, _⟩)
        · exact h
        · exact absurd h hna
  | rep r lo hi, s => by
    cases hi with
    | none =>
      simp only [deriv, L]
      exact rep_cons_iff (fun u => deriv_iff c r u) lo none none (by simp) s
    | some m =>
      cases m with
      | zero =>
        simp only [deriv, L, InBounds, false_iff]
        rintro ⟨n, ⟨_, hhi⟩, hp⟩
        have : n = 0 := by have := hhi 0 rfl; omega
        subst this
        simp [Pow] at hp
      | succ m =>
        simp only [deriv, L]
        exact rep_cons_iff (fun u => deriv_iff c r u) lo (some (m + 1)) (some m) (by simp) s

/-- **Correctness of the matcher**: the derivative matcher decides the denotation, for every regular
    expression and every string. -/
theorem matches_iff_L : ∀ (s : List α) (r : Regex α), «matches» r s = true ↔ L r s
  | [], r => by simp only [«matches»]; exact nullable_iff r
  | c :: s, r => by
    simp only [«matches»]
    rw [matches_iff_L s (deriv c r)]
    exact deriv_iff c r s

end LyModel.XsdRe.Regex
