import LyModel.XsdRe.Parse
import LyModel.Generated.UBlocks
/-!
# The multi-character escape table of the source denotes the XSD escapes (fixes/F182.diff, fixes/F183.diff)

`Generated.UBlocks.mceTable` is `xsdmce2class` as extracted from the source now (empty before the repairs).  Every row is
read as a PCRE2 class body by the parser of the PCRE dialect (`parseClass .pcre`) and compared by a decidable check with
what this file expects for the letter (`rowOk`, evaluated on the extracted table in `Props/C18Sem`); the expected range
lists are proved, for every Unicode scalar value, to be the XSD sets `\i \c \s` and their complements; `\W` is the
three categories P Z C, `\w` the other four major categories.
-/
namespace LyModel.XsdRe
open Unicode

def bytesToChars (b : Bytes) : List Char := b.map fun x => Char.ofNat x.toNat

/-- `[members]` read in the PCRE dialect -/
def mceClass (members : Bytes) : Except ReErr (CClass × List Char) :=
  parseClass .pcre (members.length + 2) (bytesToChars members ++ [']'])

def itemsRanges : List CItem → Option (List (Nat × Nat))
  | [] => some []
  | .ch a :: r => (itemsRanges r).map ((a.toNat, a.toNat) :: ·)
  | .range lo hi :: r => (itemsRanges r).map ((lo.toNat, hi.toNat) :: ·)
  | .esc _ _ :: _ => none

def expI : List (Nat × Nat) := [(0x3A, 0x3A), (0x41, 0x5A), (0x5F, 0x5F), (0x61, 0x7A), (0xC0, 0xD6), (0xD8, 0xF6), (0xF8, 0x2FF), (0x370, 0x37D), (0x37F, 0x1FFF), (0x200C, 0x200D), (0x2070, 0x218F), (0x2C00, 0x2FEF), (0x3001, 0xD7FF), (0xF900, 0xFDCF), (0xFDF0, 0xFFFD), (0x10000, 0xEFFFF)]
def expNotI : List (Nat × Nat) := [(0x0, 0x39), (0x3B, 0x40), (0x5B, 0x5E), (0x60, 0x60), (0x7B, 0xBF), (0xD7, 0xD7), (0xF7, 0xF7), (0x300, 0x36F), (0x37E, 0x37E), (0x2000, 0x200B), (0x200E, 0x206F), (0x2190, 0x2BFF), (0x2FF0, 0x3000), (0xE000, 0xF8FF), (0xFDD0, 0xFDEF), (0xFFFE, 0xFFFF), (0xF0000, 0x10FFFF)]
def expC : List (Nat × Nat) := [(0x2D, 0x2E), (0x30, 0x3A), (0x41, 0x5A), (0x5F, 0x5F), (0x61, 0x7A), (0xB7, 0xB7), (0xC0, 0xD6), (0xD8, 0xF6), (0xF8, 0x37D), (0x37F, 0x1FFF), (0x200C, 0x200D), (0x203F, 0x2040), (0x2070, 0x218F), (0x2C00, 0x2FEF), (0x3001, 0xD7FF), (0xF900, 0xFDCF), (0xFDF0, 0xFFFD), (0x10000, 0xEFFFF)]
def expNotC : List (Nat × Nat) := [(0x0, 0x2C), (0x2F, 0x2F), (0x3B, 0x40), (0x5B, 0x5E), (0x60, 0x60), (0x7B, 0xB6), (0xB8, 0xBF), (0xD7, 0xD7), (0xF7, 0xF7), (0x37E, 0x37E), (0x2000, 0x200B), (0x200E, 0x203E), (0x2041, 0x206F), (0x2190, 0x2BFF), (0x2FF0, 0x3000), (0xE000, 0xF8FF), (0xFDD0, 0xFDEF), (0xFFFE, 0xFFFF), (0xF0000, 0x10FFFF)]
def expS : List (Nat × Nat) := [(0x9, 0xA), (0xD, 0xD), (0x20, 0x20)]
def expNotS : List (Nat × Nat) := [(0x0, 0x8), (0xB, 0xC), (0xE, 0x1F), (0x21, 0xD7FF), (0xE000, 0x10FFFF)]

/-- the XSD escape a letter of the table stands for (negated?, escape) -/
def mceSpec (letter : UInt8) : Option (Bool × Esc) :=
  if letter = 105 then some (false, .nameStart) else if letter = 73 then some (true, .nameStart)
  else if letter = 99 then some (false, .nameChar) else if letter = 67 then some (true, .nameChar)
  else if letter = 115 then some (false, .space) else if letter = 83 then some (true, .space)
  else if letter = 119 then some (false, .word) else if letter = 87 then some (true, .word)
  else none

/-- the ranges expected for a letter (`none`: a category row) -/
def mceExpRanges (letter : UInt8) : Option (List (Nat × Nat)) :=
  if letter = 105 then some expI else if letter = 73 then some expNotI
  else if letter = 99 then some expC else if letter = 67 then some expNotC
  else if letter = 115 then some expS else if letter = 83 then some expNotS
  else none

def wordItems : List CItem := [.esc false (.cat "L"), .esc false (.cat "M"), .esc false (.cat "N"), .esc false (.cat "S")]
def notWordItems : List CItem := [.esc false (.cat "P"), .esc false (.cat "Z"), .esc false (.cat "C")]

/-- the decidable check of one row: the members parse, in the PCRE dialect, as ONE positive group, and its items are the
    expected ranges of the letter (or the expected categories for `w` / `W`) -/
def rowOk (row : UInt8 × Bytes) : Bool :=
  match mceClass row.2 with
  | .ok ([⟨false, items⟩], []) =>
    if row.1 = 119 then decide (items = wordItems)
    else if row.1 = 87 then decide (items = notWordItems)
    else match mceExpRanges row.1 with
      | some rs => itemsRanges items == some rs
      | none => false
  | _ => false

/-- `inRanges` on a number -/
def inRangesN (rs : List (Nat × Nat)) (n : Nat) : Bool := rs.any fun r => r.1 ≤ n && n ≤ r.2

theorem inRanges_eq (rs : List (Nat × Nat)) (c : Char) : inRanges rs c = inRangesN rs c.toNat := rfl

/-- a Unicode scalar value -/
def Scalar (n : Nat) : Prop := n < 0xD800 ∨ (0xDFFF < n ∧ n < 0x110000)

theorem scalar_toNat (c : Char) : Scalar c.toNat := by
  have := c.valid
  unfold UInt32.isValidChar Nat.isValidChar at this
  show Scalar c.val.toNat
  unfold Scalar; omega

theorem char_eq_iff (a c : Char) : (a == c) = (decide (a.toNat ≤ c.toNat) && decide (c.toNat ≤ a.toNat)) := by
  rw [Bool.eq_iff_iff]
  simp only [beq_iff_eq, Bool.and_eq_true, decide_eq_true_eq]
  constructor
  · intro h; subst h; exact ⟨Nat.le_refl _, Nat.le_refl _⟩
  · intro ⟨h1, h2⟩
    apply Char.ext
    apply UInt32.toNat_inj.mp
    exact Nat.le_antisymm h1 h2

theorem char_le_iff (a c : Char) : decide (a ≤ c) = decide (a.toNat ≤ c.toNat) := by
  rw [Bool.eq_iff_iff]
  simp only [decide_eq_true_eq]
  rw [Char.le_def, UInt32.le_iff_toNat_le]
  rfl

theorem items_any_eq : ∀ (items : List CItem) (rs : List (Nat × Nat)), itemsRanges items = some rs →
    ∀ c : Char, (items.any fun i => i.mem c) = inRanges rs c
  | [], rs, h, c => by
    simp only [itemsRanges, Option.some.injEq] at h; subst h; rfl
  | .ch a :: r, rs, h, c => by
    simp only [itemsRanges, Option.map_eq_some_iff] at h
    obtain ⟨rs', h', rfl⟩ := h
    show ((CItem.ch a).mem c || r.any fun i => i.mem c) =
      ((decide (a.toNat ≤ c.toNat) && decide (c.toNat ≤ a.toNat)) || inRanges rs' c)
    rw [items_any_eq r rs' h' c]
    simp only [CItem.mem, char_eq_iff]
  | .range lo hi :: r, rs, h, c => by
    simp only [itemsRanges, Option.map_eq_some_iff] at h
    obtain ⟨rs', h', rfl⟩ := h
    show ((CItem.range lo hi).mem c || r.any fun i => i.mem c) =
      ((decide (lo.toNat ≤ c.toNat) && decide (c.toNat ≤ hi.toNat)) || inRanges rs' c)
    rw [items_any_eq r rs' h' c]
    simp only [CItem.mem, char_le_iff]
  | .esc _ _ :: _, rs, h, c => by simp [itemsRanges] at h


/-! ### the expected lists are the XSD sets -/

theorem space_spec (c : Char) : (c.toNat == 32 || c.toNat == 9 || c.toNat == 10 || c.toNat == 13) = isXsdSpace c := by
  unfold isXsdSpace
  rw [char_eq_iff c ' ', char_eq_iff c '\t', char_eq_iff c '\n', char_eq_iff c '\r']
  have h1 : (' ' : Char).toNat = 32 := rfl
  have h2 : ('\t' : Char).toNat = 9 := rfl
  have h3 : ('\n' : Char).toNat = 10 := rfl
  have h4 : ('\r' : Char).toNat = 13 := rfl
  rw [h1, h2, h3, h4, Bool.eq_iff_iff]
  simp only [Bool.or_eq_true, Bool.and_eq_true, decide_eq_true_eq, beq_iff_eq]
  omega

theorem expI_eq : expI = nameStartRanges := by decide

theorem expNotI_spec (n : Nat) (h : Scalar n) : inRangesN expNotI n = !inRangesN nameStartRanges n := by
  unfold Scalar at h
  simp only [inRangesN, expNotI, nameStartRanges, List.any_cons, List.any_nil, Bool.or_false]
  rw [Bool.eq_iff_iff]
  simp only [Bool.or_eq_true, Bool.and_eq_true, decide_eq_true_eq, Bool.not_eq_true', Bool.or_eq_false_iff, Bool.and_eq_false_iff, decide_eq_false_iff_not]
  omega

theorem expC_spec (n : Nat) : inRangesN expC n = (inRangesN nameStartRanges n || inRangesN nameCharExtra n) := by
  simp only [inRangesN, expC, nameStartRanges, nameCharExtra, List.any_cons, List.any_nil, Bool.or_false]
  rw [Bool.eq_iff_iff]
  simp only [Bool.or_eq_true, Bool.and_eq_true, decide_eq_true_eq]
  omega

theorem expNotC_spec (n : Nat) (h : Scalar n) : inRangesN expNotC n = !(inRangesN nameStartRanges n || inRangesN nameCharExtra n) := by
  unfold Scalar at h
  simp only [inRangesN, expNotC, nameStartRanges, nameCharExtra, List.any_cons, List.any_nil, Bool.or_false]
  rw [Bool.eq_iff_iff]
  simp only [Bool.or_eq_true, Bool.and_eq_true, decide_eq_true_eq, Bool.not_eq_true', Bool.or_eq_false_iff, Bool.and_eq_false_iff, decide_eq_false_iff_not]
  omega

theorem expS_spec (n : Nat) : inRangesN expS n = (n == 32 || n == 9 || n == 10 || n == 13) := by
  simp only [inRangesN, expS, List.any_cons, List.any_nil, Bool.or_false]
  rw [Bool.eq_iff_iff]
  simp only [Bool.or_eq_true, Bool.and_eq_true, decide_eq_true_eq, beq_iff_eq]
  omega

theorem expNotS_spec (n : Nat) (h : Scalar n) : inRangesN expNotS n = !(n == 32 || n == 9 || n == 10 || n == 13) := by
  unfold Scalar at h
  simp only [inRangesN, expNotS, List.any_cons, List.any_nil, Bool.or_false]
  rw [Bool.eq_iff_iff]
  simp only [Bool.or_eq_true, Bool.and_eq_true, decide_eq_true_eq, Bool.not_eq_true', Bool.or_eq_false_iff, Bool.and_eq_false_iff, decide_eq_false_iff_not, beq_iff_eq, beq_eq_false_iff_ne, ne_eq]
  omega


/-! ### a row that passes the check denotes the XSD escape -/

/-- the first letter of the general category is one of the seven major categories (all categories Unicode defines) -/
def MajorCat (c : Char) : Prop := (category c).1 ∈ ['L', 'M', 'N', 'P', 'Z', 'S', 'C']

theorem cls_single_mem (items : List CItem) (c : Char) :
    CClass.mem [⟨false, items⟩] c = items.any fun i => i.mem c := by
  simp [CClass.mem, CGroup.mem]

theorem wordItems_mem (c : Char) (h : MajorCat c) : (wordItems.any fun i => i.mem c) = isXsdWord c := by
  unfold MajorCat at h
  simp only [wordItems, List.any_cons, List.any_nil, CItem.mem, Esc.mem, inCategory, isXsdWord]
  have e1 : "L".toList = ['L'] := by decide
  have e2 : "M".toList = ['M'] := by decide
  have e3 : "N".toList = ['N'] := by decide
  have e4 : "S".toList = ['S'] := by decide
  simp only [e1, e2, e3, e4]
  generalize (category c).1 = a at h
  simp only [List.mem_cons, List.not_mem_nil, or_false] at h
  rcases h with h | h | h | h | h | h | h <;> subst h <;> decide

theorem notWordItems_mem (c : Char) : (notWordItems.any fun i => i.mem c) = !isXsdWord c := by
  simp only [notWordItems, List.any_cons, List.any_nil, CItem.mem, Esc.mem, inCategory, isXsdWord]
  have e1 : "P".toList = ['P'] := by decide
  have e2 : "Z".toList = ['Z'] := by decide
  have e3 : "C".toList = ['C'] := by decide
  simp only [e1, e2, e3]
  generalize (category c).1 = a
  by_cases h1 : a = 'P'
  · subst h1; decide
  by_cases h2 : a = 'Z'
  · subst h2; decide
  by_cases h3 : a = 'C'
  · subst h3; decide
  have h1' : ¬ 'P' = a := fun e => h1 e.symm
  have h2' : ¬ 'Z' = a := fun e => h2 e.symm
  have h3' : ¬ 'C' = a := fun e => h3 e.symm
  rw [beq_eq_false_iff_ne.mpr h1', beq_eq_false_iff_ne.mpr h2', beq_eq_false_iff_ne.mpr h3',
    beq_eq_false_iff_ne.mpr h1, beq_eq_false_iff_ne.mpr h2, beq_eq_false_iff_ne.mpr h3]
  rfl

/-- **A row that passes `rowOk` denotes the XSD escape of its letter**: its members, read as a PCRE2 class body, form one
    positive group whose members are — for every character — exactly the characters of the XSD escape (`\w`: for every
    character whose category is one of the seven major categories). -/
theorem rowOk_sound (row : UInt8 × Bytes) (h : rowOk row = true) :
    ∃ neg e items, mceSpec row.1 = some (neg, e) ∧ mceClass row.2 = .ok ([⟨false, items⟩], []) ∧
      ∀ c : Char, (row.1 = 119 → MajorCat c) → CClass.mem [⟨false, items⟩] c = (e.mem c != neg) := by
  unfold rowOk at h
  split at h
  next items hcls =>
    by_cases hw : row.1 = 119
    · simp only [hw, if_true, decide_eq_true_eq] at h
      refine ⟨false, .word, items, by simp [mceSpec, hw], hcls, fun c hc => ?_⟩
      rw [cls_single_mem, h, wordItems_mem c (hc hw)]; simp [Esc.mem]
    · by_cases hW : row.1 = 87
      · simp only [hW, if_true, decide_eq_true_eq] at h
        have : (87 : UInt8) = 119 ↔ False := by decide
        simp only [this, if_false] at h
        have h := of_decide_eq_true h
        refine ⟨true, .word, items, by simp [mceSpec, hW], hcls, fun c _ => ?_⟩
        rw [cls_single_mem, h, notWordItems_mem c]; simp [Esc.mem]
      · simp only [hw, hW, if_false] at h
        split at h
        next rs hrs =>
          simp only [beq_iff_eq] at h
          have hany := fun c => items_any_eq items rs h c
          unfold mceExpRanges at hrs
          split at hrs
          next hl =>
            cases hrs
            refine ⟨false, .nameStart, items, by simp [mceSpec, hl], hcls, fun c _ => ?_⟩
            rw [cls_single_mem, hany, expI_eq]; simp [Esc.mem, isNameStart]
          next =>
            split at hrs
            next hl =>
              cases hrs
              refine ⟨true, .nameStart, items, by simp [mceSpec, hl], hcls, fun c _ => ?_⟩
              rw [cls_single_mem, hany, inRanges_eq, expNotI_spec _ (scalar_toNat c)]; simp [Esc.mem, isNameStart, inRanges_eq]
            next =>
              split at hrs
              next hl =>
                cases hrs
                refine ⟨false, .nameChar, items, by simp [mceSpec, hl], hcls, fun c _ => ?_⟩
                rw [cls_single_mem, hany, inRanges_eq, expC_spec]; simp [Esc.mem, isNameChar, inRanges_eq]
              next =>
                split at hrs
                next hl =>
                  cases hrs
                  refine ⟨true, .nameChar, items, by simp [mceSpec, hl], hcls, fun c _ => ?_⟩
                  rw [cls_single_mem, hany, inRanges_eq, expNotC_spec _ (scalar_toNat c)]; simp [Esc.mem, isNameChar, inRanges_eq]
                next =>
                  split at hrs
                  next hl =>
                    cases hrs
                    refine ⟨false, .space, items, by simp [mceSpec, hl], hcls, fun c _ => ?_⟩
                    rw [cls_single_mem, hany, inRanges_eq, expS_spec, space_spec]; simp [Esc.mem]
                  next =>
                    split at hrs
                    next hl =>
                      cases hrs
                      refine ⟨true, .space, items, by simp [mceSpec, hl], hcls, fun c _ => ?_⟩
                      rw [cls_single_mem, hany, inRanges_eq, expNotS_spec _ (scalar_toNat c), space_spec]; simp [Esc.mem]
                    next => cases hrs
        next => cases h
  next => cases h

end LyModel.XsdRe
