import LyModel.XsdRe.Rewrite
/-!
# Pass 1 with the translation of class subtraction (fixes/F181.diff) — core Lean only

`[G-[S]]` becomes `(?:[G](?<![S]))`: a character of `G` that is not — fixed-length look-behind — a character of `S`; nested
subtractions nest the look-behinds, the non-capturing group lets a following quantifier apply to the whole expression.
The C code inserts the `(?:` retroactively at the place where the outermost class began (`memmove` at `cls_start`); the model
emits *events* and `resolve` puts the `(?:` at the nearest class start to the left of a `wrap` event.  The per-depth bit
mask `sub_mask` (which levels were opened by a subtraction; depths from 64 on are never marked) is a list of depths.
With the switch off (`Generated.UBlocks.subtraction = false`, the source before the repair) the driver uses `escapeLoopM`.
-/
namespace LyModel.XsdRe

inductive Ev where
  | b (x : UInt8)
  /-- `cls_start = idx`: an unescaped `[` at depth 0 follows -/
  | clsStart
  /-- `memmove` + `memcpy(perl_regex + cls_start, "(?:", 3)` -/
  | wrap
deriving Repr, DecidableEq

def evBytes (bs : Bytes) : List Ev := bs.map Ev.b

/-- `(?:` -/
def subOpenText : Bytes := [40, 63, 58]
/-- `](?<![` -/
def subMidText : Bytes := [93, 40, 63, 60, 33, 91]
def bMinus : UInt8 := 45
def bRParen : UInt8 := 41

/-- from the right: a `wrap` marks the nearest class start to its left -/
def resolveGo : List Ev → Bool × Bytes
  | [] => (false, [])
  | .b x :: r => let (p, o) := resolveGo r; (p, x :: o)
  | .wrap :: r => let (_, o) := resolveGo r; (true, o)
  | .clsStart :: r => let (p, o) := resolveGo r; (false, if p then subOpenText ++ o else o)

def resolve (evs : List Ev) : Bytes := (resolveGo evs).2

structure SubSt where
  brack : Nat := 0
  escaped : Bool := false
  /-- depths (< 64) whose class was opened by a subtraction -/
  mask : List Nat := []
  /-- `sub_wrapped` -/
  wrapped : Bool := false
  /-- `sub_closed`: the previous round closed a subtrahend, the members of the enclosing class are closed already -/
  closed : Bool := false
  /-- the `[` of a `-[` that the previous round consumed together with the `-` (`orig_ptr += 2`) -/
  skip : Bool := false
deriving Repr

def maskTest (mask : List Nat) (d : Nat) : Bool := decide (d < 64) && mask.contains d
def maskSet (mask : List Nat) (d : Nat) : List Nat := if d < 64 then d :: mask.erase d else mask
def maskClear (mask : List Nat) (d : Nat) : List Nat := if d < 64 then mask.erase d else mask

def escapeLoopS (tbl : List (UInt8 × Bytes)) (fx : Fixes) : SubSt → Bytes → Except RwErr (List Ev)
  | st, [] => .ok (if st.escaped then [.b bBackslash] else [])
  | st, c :: rest =>
    if st.skip then escapeLoopS tbl fx { st with skip := false } rest
    else
    let pre : List Ev := if st.escaped then [.b bBackslash] else []
    match (if st.escaped then mceLookup tbl c else Option.none) with
    | some m =>
      (escapeLoopS tbl fx { st with escaped := false, closed := false } rest).map (fun t => evBytes (mceText st.brack m) ++ t)
    | Option.none =>
      if c = bBackslash then
        if st.escaped then (escapeLoopS tbl fx { st with escaped := false, closed := false } rest).map (fun t => pre ++ .b c :: t)
        else escapeLoopS tbl fx { st with escaped := true, closed := false } rest
      else if c = bDollar ∨ c = bCaret then
        if st.brack = 0 ∧ ¬(fx.f25 = true ∧ st.escaped = true) then
          (escapeLoopS tbl fx { st with escaped := false, closed := false } rest).map (fun t => pre ++ .b bBackslash :: .b c :: t)
        else
          (escapeLoopS tbl fx { st with escaped := false, closed := false } rest).map (fun t => pre ++ .b c :: t)
      else if c = bMinus ∧ st.brack ≠ 0 ∧ st.escaped = false ∧ rest.head? = some bOpen then
        -- class subtraction: `-[` is consumed as a whole
        let w : List Ev := if st.brack = 1 ∧ st.wrapped = false then [.wrap] else []
        (escapeLoopS tbl fx { st with brack := st.brack + 1, mask := maskSet st.mask (st.brack + 1),
                                       wrapped := st.wrapped || decide (st.brack = 1), closed := false, skip := true } rest).map
          (fun t => w ++ evBytes subMidText ++ t)
      else if c = bOpen then
        if st.escaped then (escapeLoopS tbl fx { st with escaped := false, closed := false } rest).map (fun t => pre ++ .b c :: t)
        else
          (escapeLoopS tbl fx { st with brack := st.brack + 1, mask := maskClear st.mask (st.brack + 1), closed := false } rest).map
            (fun t => (if st.brack = 0 then [.clsStart] else []) ++ .b c :: t)
      else if c = bClose then
        if st.brack = 0 ∧ st.escaped = false then .error .strayBracket
        else if st.escaped then (escapeLoopS tbl fx { st with escaped := false, closed := false } rest).map (fun t => pre ++ .b c :: t)
        else
          let isSub := maskTest st.mask st.brack
          let b' := st.brack - 1
          let e1 : List Ev := if st.closed then [] else [.b bClose]
          if isSub then
            (escapeLoopS tbl fx { st with brack := b', closed := true } rest).map (fun t => e1 ++ .b bRParen :: t)
          else
            let e2 : List Ev := if b' = 0 ∧ st.wrapped = true then [.b bRParen] else []
            (escapeLoopS tbl fx { st with brack := b', wrapped := if b' = 0 then false else st.wrapped, closed := false } rest).map
              (fun t => e1 ++ e2 ++ t)
      else
        (escapeLoopS tbl fx { st with escaped := false, closed := false } rest).map (fun t => pre ++ .b c :: t)

/-- the whole rewrite of the source with fixes/F181.diff -/
def rewriteWithS (mce : List (UInt8 × Bytes)) (fx : Fixes) (pattern : Bytes) : Except RwErr Bytes :=
  match escapeLoopS mce fx {} (cstr pattern) with
  | .error e => .error e
  | .ok evs => chblocks fx (resolve evs)

/-! ### negated block escapes outside a class (fixes/F185.diff) -/

/-- `P{Is` -/
def negNeedle : Bytes := [80, 123, 73, 115]
/-- `[^\p` -/
def negOpenText : Bytes := [91, 94, 92, 112]

/-- `lys_compile_pattern_negblocks_xmlschema2perl`: `\P{IsX}` at bracket depth 0 becomes `[^\p{IsX}]` (pass 2 then substitutes
    the range without its brackets).  State: `brack`, `escaped`, `pending` (a `}` closes the class).  As in `escapeLoopM` a
    backslash that sets `escaped` is written one round later (the C code overwrites it: `res + idx - 1`). -/
def negBlocksLoop : Nat → Bool → Bool → Bytes → Bytes
  | _, escaped, _, [] => if escaped then [bBackslash] else []
  | brack, true, pending, c :: rest =>
    if brack = 0 ∧ negNeedle.isPrefixOf (c :: rest) = true then negOpenText ++ negBlocksLoop brack false true rest
    else bBackslash :: c :: negBlocksLoop brack false pending rest
  | brack, false, pending, c :: rest =>
    if c = bBackslash then negBlocksLoop brack true pending rest
    else if c = bOpen then c :: negBlocksLoop (brack + 1) false pending rest
    else if c = bClose ∧ brack ≠ 0 then c :: negBlocksLoop (brack - 1) false pending rest
    else if c = bRBrace ∧ pending = true then bRBrace :: bClose :: negBlocksLoop brack false false rest
    else c :: negBlocksLoop brack false pending rest

/-- the pattern pass 1 works on: the C string, through the negated-block pass when the source has it -/
def prePass (on : Bool) (pattern : Bytes) : Bytes :=
  if on then negBlocksLoop 0 false false (cstr pattern) else cstr pattern

/-- **the rewrite of the source as it is now**: the escape table and the subtraction switch are extracted from it
    (`Generated.UBlocks`), `fx` are the five older repairs -/
def rewriteSrc (fx : Fixes) (p : Bytes) : Except RwErr Bytes :=
  if Generated.UBlocks.subtraction then rewriteWithS Generated.UBlocks.mceTable fx (prePass Generated.UBlocks.negBlocks p)
  else rewriteWithM Generated.UBlocks.mceTable fx (prePass Generated.UBlocks.negBlocks p)

end LyModel.XsdRe
