import LyModel.XsdRe.RenderLemmas
import LyModel.XsdRe.Grammar
/-!
# Soundness of the parser for the declarative grammar (`Props/C18Parse.parse_sound`)
-/
set_option linter.unusedSimpArgs false
set_option linter.unusedVariables false
namespace LyModel.XsdRe

theorem parseNat_sound {s r : List Char} {n : Nat} (h : parseNat s = some (n, r)) : ∃ ds, s = ds ++ r ∧ IsNat n ds := by
  unfold parseNat at h
  simp only [span_eq] at h
  split at h <;> simp at h
  rename_i hne
  obtain ⟨hn, rfl⟩ := h
  refine ⟨s.takeWhile Char.isDigit, (List.takeWhile_append_dropWhile).symm, ?_, ?_, hn⟩
  · simpa using hne
  · exact List.all_eq_true.mp (@List.all_takeWhile _ Char.isDigit s)

theorem parseQuant0_sound {s r : List Char} {lo : Nat} {hi : Option Nat} (h : parseQuant0 s = .ok (some (lo, hi), r)) :
    ∃ t, s = t ++ r ∧ Quant lo hi t := by
  unfold parseQuant0 at h
  split at h
  · simp at h; obtain ⟨⟨rfl, rfl⟩, rfl⟩ := h; exact ⟨['*'], rfl, .star⟩
  · simp at h; obtain ⟨⟨rfl, rfl⟩, rfl⟩ := h; exact ⟨['+'], rfl, .plus⟩
  · simp at h; obtain ⟨⟨rfl, rfl⟩, rfl⟩ := h; exact ⟨['?'], rfl, .opt⟩
  · split at h
    · simp at h
    · rename_i n r1 hn
      obtain ⟨ds, rfl, hds⟩ := parseNat_sound hn
      split at h
      · simp at h; obtain ⟨⟨rfl, rfl⟩, rfl⟩ := h
        exact ⟨'{' :: (ds ++ ['}']), by simp, .exact _ ds hds⟩
      · simp at h; obtain ⟨⟨rfl, rfl⟩, rfl⟩ := h
        exact ⟨'{' :: (ds ++ [',', '}']), by simp, .min _ ds hds⟩
      · split at h
        · rename_i m r3 hm
          obtain ⟨es, rfl, hes⟩ := parseNat_sound hm
          split at h <;> simp at h
          rename_i hle
          obtain ⟨⟨rfl, rfl⟩, rfl⟩ := h
          exact ⟨'{' :: (ds ++ ',' :: (es ++ ['}'])), by simp, .range _ _ ds es hds hes hle⟩
        · simp at h
      · simp at h
  · simp at h

theorem parseQuant_sound {d : Dialect} {s r : List Char} {lo : Nat} {hi : Option Nat}
    (h : parseQuant d s = .ok (some (lo, hi), r)) : ∃ t, s = t ++ r ∧ Quant lo hi t := by
  unfold parseQuant at h
  split at h
  · rename_i lo' hi' r' heq
    split at h <;> simp at h
    obtain ⟨⟨rfl, rfl⟩, rfl⟩ := h
    exact parseQuant0_sound heq
  · exact parseQuant0_sound h

theorem parseQuant_none_eq {d : Dialect} {s r : List Char} (h : parseQuant d s = .ok (none, r)) : r = s := by
  unfold parseQuant at h
  split at h
  · split at h <;> simp at h
  · unfold parseQuant0 at h
    split at h
    all_goals first
      | (simp at h; done)
      | (simp at h; exact h.symm)
      | skip
    repeat' split at h
    all_goals simp at h

theorem parseProp_sound {neg n : Bool} {s r : List Char} {e : Esc} (h : parseProp neg s = .ok (.cls n e, r)) :
    ∃ t, s = t ++ r ∧ ClassEsc neg e ((if neg then 'P' else 'p') :: t) ∧ n = neg := by
  have hw := parseProp_wf h
  unfold parseProp at h
  split at h
  · rename_i r0
    simp only [span_eq] at h
    have hsplit := (List.takeWhile_append_dropWhile (p := isNameCh) (l := r0)).symm
    split at h
    · rename_i r'' heq
      rw [heq] at hsplit
      split at h
      · rename_i b hb
        split at h <;> simp at h
        obtain ⟨⟨rfl, rfl⟩, rfl⟩ := h
        refine ⟨'{' :: 'I' :: 's' :: (b ++ ['}']), by rw [hsplit, hb]; simp, ?_, rfl⟩
        have := ClassEsc.block neg (String.ofList b) hw
        simpa [String.toList_ofList] using this
      · split at h <;> simp at h
        obtain ⟨⟨rfl, rfl⟩, rfl⟩ := h
        refine ⟨'{' :: (r0.takeWhile isNameCh ++ ['}']), by simpa using hsplit, ?_, rfl⟩
        have := ClassEsc.cat neg (String.ofList (r0.takeWhile isNameCh)) hw
        simpa [String.toList_ofList] using this
    · simp at h
  · simp at h

/-- the text after a backslash, by kind of token -/
def EscTokDerives : EscTok → List Char → Prop
  | .lit c, t => SingleEsc c t
  | .cls n e, t => ClassEsc n e t

theorem parseEscape0_sound {s r : List Char} {tok : EscTok} (h : parseEscape0 s = .ok (tok, r)) :
    ∃ t, s = t ++ r ∧ EscTokDerives tok t := by
  unfold parseEscape0 at h
  split at h
  · simp at h
  · simp at h; obtain ⟨rfl, rfl⟩ := h; exact ⟨['n'], rfl, SingleEsc.n⟩
  · simp at h; obtain ⟨rfl, rfl⟩ := h; exact ⟨['r'], rfl, SingleEsc.r⟩
  · simp at h; obtain ⟨rfl, rfl⟩ := h; exact ⟨['t'], rfl, SingleEsc.t⟩
  · simp at h; obtain ⟨rfl, rfl⟩ := h; exact ⟨['d'], rfl, ClassEsc.d⟩
  · simp at h; obtain ⟨rfl, rfl⟩ := h; exact ⟨['D'], rfl, ClassEsc.D⟩
  · simp at h; obtain ⟨rfl, rfl⟩ := h; exact ⟨['w'], rfl, ClassEsc.w⟩
  · simp at h; obtain ⟨rfl, rfl⟩ := h; exact ⟨['W'], rfl, ClassEsc.W⟩
  · simp at h; obtain ⟨rfl, rfl⟩ := h; exact ⟨['s'], rfl, ClassEsc.s⟩
  · simp at h; obtain ⟨rfl, rfl⟩ := h; exact ⟨['S'], rfl, ClassEsc.S⟩
  · simp at h; obtain ⟨rfl, rfl⟩ := h; exact ⟨['i'], rfl, ClassEsc.i⟩
  · simp at h; obtain ⟨rfl, rfl⟩ := h; exact ⟨['I'], rfl, ClassEsc.I⟩
  · simp at h; obtain ⟨rfl, rfl⟩ := h; exact ⟨['c'], rfl, ClassEsc.c⟩
  · simp at h; obtain ⟨rfl, rfl⟩ := h; exact ⟨['C'], rfl, ClassEsc.C⟩
  · cases tok with
    | lit c =>
      exfalso
      unfold parseProp at h
      repeat' split at h
      all_goals first | (simp at h; done) | (dsimp only at h; split at h <;> simp at h)
    | cls n e =>
      obtain ⟨t, rfl, ht, rfl⟩ := parseProp_sound h
      exact ⟨'p' :: t, rfl, by simpa [EscTokDerives] using ht⟩
  · cases tok with
    | lit c =>
      exfalso
      unfold parseProp at h
      repeat' split at h
      all_goals first | (simp at h; done) | (dsimp only at h; split at h <;> simp at h)
    | cls n e =>
      obtain ⟨t, rfl, ht, rfl⟩ := parseProp_sound h
      exact ⟨'P' :: t, rfl, by simpa [EscTokDerives] using ht⟩
  · rename_i c r0 _ _ _ _ _ _ _ _ _ _ _ _ _ _ _
    split at h <;> simp at h
    rename_i hc
    obtain ⟨rfl, rfl⟩ := h
    exact ⟨[c], rfl, SingleEsc.lit c hc⟩

theorem parseEscape_xsd_sound {s r : List Char} {tok : EscTok} (h : parseEscape .xsd s = .ok (tok, r)) :
    ∃ t, s = t ++ r ∧ EscTokDerives tok t := by
  unfold parseEscape at h
  split at h
  · simp [Dialect.xsd] at h
  · cases heq : parseEscape0 s with
    | error e => rw [heq] at h; simp at h
    | ok v =>
      obtain ⟨t', r'⟩ := v
      rw [heq] at h
      dsimp only at h
      split at h <;> simp at h
      obtain ⟨rfl, rfl⟩ := h
      exact parseEscape0_sound heq

/-! ### character classes -/

theorem parseRangeHi_sound {s r : List Char} {c : Char} (h : parseRangeHi .xsd s = .ok (c, r)) :
    ∃ t, s = t ++ r ∧ CharOrEsc c t := by
  unfold parseRangeHi at h
  split at h
  · simp at h
  · rw [bind_eq_ok] at h
    obtain ⟨⟨tok, r'⟩, h1, h2⟩ := h
    obtain ⟨t, rfl, ht⟩ := parseEscape_xsd_sound h1
    dsimp only at h2
    split at h2 <;> simp at h2
    obtain ⟨rfl, rfl⟩ := h2
    exact ⟨'\\' :: t, rfl, CharOrEsc.esc _ t ht⟩
  · rename_i c0 r0 hne
    split at h <;> simp at h
    rename_i hc
    obtain ⟨rfl, rfl⟩ := h
    simp only [Bool.or_eq_true, beq_iff_eq, not_or] at hc
    exact ⟨[c0], rfl, CharOrEsc.raw c0 hne hc.2 hc.1.1 hc.1.2⟩

/-- after a literal member `lo` (spelled `s0`): a single character or the rest of a range -/
theorem parseRangeOrChar_sound {lo : Char} {s r : List Char} {it : CItem} (h : parseRangeOrChar .xsd lo s = .ok (it, r))
    (s0 : List Char) (h0 : CharOrEsc lo s0) : ∃ t, s = t ++ r ∧ Member it (s0 ++ t) := by
  have one : Member (.ch lo) (s0 ++ []) := by simpa using Member.ch lo s0 h0
  unfold parseRangeOrChar at h
  split at h
  · simp at h; obtain ⟨rfl, rfl⟩ := h; exact ⟨[], rfl, one⟩
  · simp at h; obtain ⟨rfl, rfl⟩ := h; exact ⟨[], rfl, one⟩
  · rw [bind_eq_ok] at h
    obtain ⟨⟨hi, r3⟩, h1, h2⟩ := h
    obtain ⟨t, rfl, ht⟩ := parseRangeHi_sound h1
    dsimp only at h2
    split at h2 <;> simp at h2
    rename_i hle
    obtain ⟨rfl, rfl⟩ := h2
    exact ⟨'-' :: t, rfl, Member.range lo hi s0 t h0 ht hle⟩
  · simp at h; obtain ⟨rfl, rfl⟩ := h; exact ⟨[], rfl, one⟩

theorem Members.snoc {l : List CItem} {u : List Char} (h : Members l u) {it : CItem} {s : List Char} (hm : Member it s) :
    Members (l ++ [it]) (u ++ s) := by
  induction h with
  | nil => simpa using Members.cons it [] s [] hm .nil
  | cons y l s' t hy _ ih => simpa [List.append_assoc] using Members.cons y _ s' _ hy ih

/-- the members read so far in the current group, with their text: an optional leading `-`, then members -/
def GroupPrefix (acc : List CItem) (u : List Char) : Prop :=
  ∃ lead ms t, Members ms t ∧ acc = dashItems lead ++ ms ∧ u = dashText lead ++ t

theorem GroupPrefix.nil : GroupPrefix [] [] := ⟨false, [], [], .nil, rfl, rfl⟩

theorem GroupPrefix.snoc {acc : List CItem} {u : List Char} (h : GroupPrefix acc u) {it : CItem} {s : List Char}
    (hm : Member it s) : GroupPrefix (acc ++ [it]) (u ++ s) := by
  obtain ⟨lead, ms, t, hms, rfl, rfl⟩ := h
  exact ⟨lead, ms ++ [it], t ++ s, hms.snoc hm, by simp, by simp⟩

theorem GroupPrefix.of_nil {u : List Char} (h : GroupPrefix [] u) : u = [] := by
  obtain ⟨lead, ms, t, hms, h1, rfl⟩ := h
  cases lead with
  | true => simp [dashItems] at h1
  | false =>
    simp [dashItems] at h1
    subst h1
    cases hms
    rfl

theorem GroupPrefix.posGroup {acc : List CItem} {u : List Char} (h : GroupPrefix acc u) (last : Bool) (hne : acc ≠ []) :
    PosGroup last acc u := by
  obtain ⟨lead, ms, t, hms, rfl, rfl⟩ := h
  have := PosGroup.mk (last := last) lead false ms t hms (by simp) (by simpa [dashItems] using hne)
  simpa [dashItems, dashText] using this

theorem GroupPrefix.posGroup_dash {acc : List CItem} {u : List Char} (h : GroupPrefix acc u) :
    PosGroup true (acc ++ [.ch '-']) (u ++ ['-']) := by
  obtain ⟨lead, ms, t, hms, rfl, rfl⟩ := h
  have := PosGroup.mk (last := true) lead true ms t hms (by simp) (by simp [dashItems])
  simpa [dashItems, dashText, List.append_assoc] using this

theorem class_sound : ∀ f : Nat,
    (∀ s cc r, parseClass .xsd f s = .ok (cc, r) → ∃ t, s = t ++ r ∧ ClassExpr cc t) ∧
    (∀ neg acc s cc r u, parseItems .xsd f neg acc s = .ok (cc, r) → GroupPrefix acc u →
      (neg = false → ∀ t', u ++ s ≠ '^' :: t') → ∃ t, s = t ++ r ∧ ClassExpr cc (hatText neg ++ u ++ t)) := by
  intro f
  induction f with
  | zero => constructor <;> (intros; simp_all [parseClass, parseItems])
  | succ f ih =>
    constructor
    · intro s cc r h
      unfold parseClass at h
      split at h
      · obtain ⟨t, rfl, hd⟩ := ih.2 _ _ _ _ _ [] h .nil (by simp)
        exact ⟨'^' :: t, rfl, by simpa [hatText] using hd⟩
      · rename_i hhat
        obtain ⟨t, rfl, hd⟩ := ih.2 _ _ _ _ _ [] h .nil (by intro _ t' e; exact hhat t' (by simpa using e))
        exact ⟨t, rfl, by simpa [hatText] using hd⟩
    · intro neg acc s cc r u h hp hhat
      unfold parseItems at h
      split at h
      · simp at h
      · split at h <;> simp at h
        rename_i hne
        obtain ⟨rfl, rfl⟩ := h
        refine ⟨[']'], rfl, ?_⟩
        have := ClassExpr.single neg acc u (hp.posGroup true (by simpa using hne))
          (by intro hn t' e; apply hhat hn; rw [e]; rfl)
        simpa [List.append_assoc] using this
      · split at h
        · simp at h
        · split at h
          · simp at h
          · rename_i hne
            rw [bind_eq_ok] at h
            obtain ⟨⟨sub, r'⟩, h1, h2⟩ := h
            obtain ⟨tu, rfl, hsub⟩ := ih.1 _ _ _ h1
            dsimp only at h2
            split at h2 <;> simp at h2
            obtain ⟨rfl, rfl⟩ := h2
            refine ⟨'-' :: '[' :: (tu ++ [']']), by simp, ?_⟩
            have := ClassExpr.sub neg acc u sub tu (hp.posGroup false (by simpa using hne))
              (by intro hn t' e; apply hhat hn; rw [e]; rfl) hsub
            simpa [List.append_assoc] using this
      · simp at h
      · rw [bind_eq_ok] at h
        obtain ⟨⟨tok, r'⟩, h1, h2⟩ := h
        obtain ⟨te, rfl, hte⟩ := parseEscape_xsd_sound h1
        dsimp only at h2
        split at h2
        · obtain ⟨t, rfl, hd⟩ := ih.2 _ _ _ _ _ (u ++ '\\' :: te) h2 (hp.snoc (Member.esc _ _ te hte))
            (by intro hn t' e; exact hhat hn t' (by simpa [List.append_assoc] using e))
          exact ⟨'\\' :: (te ++ t), by simp, by simpa [List.append_assoc] using hd⟩
        · rw [bind_eq_ok] at h2
          obtain ⟨⟨it, r''⟩, h3, h4⟩ := h2
          obtain ⟨tm, rfl, hm⟩ := parseRangeOrChar_sound h3 ('\\' :: te) (CharOrEsc.esc _ te hte)
          obtain ⟨t, rfl, hd⟩ := ih.2 _ _ _ _ _ (u ++ ('\\' :: te ++ tm)) h4 (hp.snoc hm)
            (by intro hn t' e; exact hhat hn t' (by simpa [List.append_assoc] using e))
          exact ⟨'\\' :: (te ++ tm ++ t), by simp, by simpa [List.append_assoc] using hd⟩
      · rename_i r0 _ _
        split at h
        · rename_i r1
          cases f with
          | zero => simp [parseItems] at h
          | succ f' =>
            simp [parseItems] at h
            obtain ⟨rfl, rfl⟩ := h
            refine ⟨['-', ']'], rfl, ?_⟩
            have := ClassExpr.single neg _ _ hp.posGroup_dash
              (by intro hn t' e; apply hhat hn; rw [List.append_cons, e]; rfl)
            simpa [List.append_assoc] using this
        · split at h
          · rename_i hemp
            have hacc : acc = [] := by simpa using hemp
            subst hacc
            have hu := hp.of_nil
            subst hu
            obtain ⟨t, rfl, hd⟩ := ih.2 _ _ _ _ _ ['-'] h ⟨true, [], [], .nil, rfl, rfl⟩ (by intro _ t' e; simp at e)
            exact ⟨'-' :: t, rfl, by simpa using hd⟩
          · simp at h
      · rename_i c r0 hn1 hn2 hn3 hn4 hn5
        rw [bind_eq_ok] at h
        obtain ⟨⟨it, r''⟩, h3, h4⟩ := h
        have hraw : CharOrEsc c [c] := CharOrEsc.raw c hn4 hn5 hn3 hn1
        obtain ⟨tm, rfl, hm⟩ := parseRangeOrChar_sound h3 [c] hraw
        obtain ⟨t, rfl, hd⟩ := ih.2 _ _ _ _ _ (u ++ ([c] ++ tm)) h4 (hp.snoc hm)
          (by intro hn t' e; exact hhat hn t' (by simpa [List.append_assoc] using e))
        exact ⟨c :: (tm ++ t), by simp, by simpa [List.append_assoc] using hd⟩

/-- the pieces read so far in the current branch, with their text -/
inductive DPieces : List Pat → List Char → Prop
  | nil : DPieces [] []
  | cons (x : Pat) (l : List Pat) (s t : List Char) : x.isPiece = true → Derives x s → DPieces l t → DPieces (x :: l) (s ++ t)

/-- the branches read so far, with their text (each followed by `|`) -/
inductive DAlts : List Pat → List Char → Prop
  | nil : DAlts [] []
  | cons (a : Pat) (l : List Pat) (s t : List Char) : a.isBranch = true → Derives a s → DAlts l t →
      DAlts (a :: l) (s ++ '|' :: t)

theorem DPieces.snoc {l : List Pat} {u : List Char} (h : DPieces l u) {x : Pat} {s : List Char} (hx : x.isPiece = true)
    (hd : Derives x s) : DPieces (l ++ [x]) (u ++ s) := by
  induction h with
  | nil => simpa using DPieces.cons x [] s [] hx hd .nil
  | cons y l s' t hy hdy _ ih => simpa [List.append_assoc] using DPieces.cons y _ s' _ hy hdy ih

theorem DAlts.snoc {l : List Pat} {w : List Char} (h : DAlts l w) {b : Pat} {u : List Char} (hb : b.isBranch = true)
    (hd : Derives b u) : DAlts (l ++ [b]) (w ++ u ++ ['|']) := by
  induction h with
  | nil => simpa using DAlts.cons b [] u [] hb hd .nil
  | cons a l s t ha hda _ ih => simpa [List.append_assoc] using DAlts.cons a _ s _ ha hda ih

theorem DPieces.derives_mkCat1 {l : List Pat} {u : List Char} (h : DPieces l u) (hne : l ≠ []) :
    Derives (mkCat l) u ∧ (mkCat l).isBranch1 = true := by
  induction h with
  | nil => exact absurd rfl hne
  | cons x l s t hx hdx hl ih =>
    cases l with
    | nil =>
      cases hl
      simpa [mkCat] using And.intro hdx (isBranch1_of_isPiece hx)
    | cons y l' =>
      have := ih (by simp)
      simp only [mkCat, Pat.isBranch1, Bool.and_eq_true]
      exact ⟨Derives.cat x _ s t hx this.2 hdx this.1, hx, this.2⟩

theorem DPieces.derives_mkCat {l : List Pat} {u : List Char} (h : DPieces l u) :
    Derives (mkCat l) u ∧ (mkCat l).isBranch = true := by
  cases l with
  | nil => cases h; exact ⟨Derives.eps, rfl⟩
  | cons x l' =>
    have := h.derives_mkCat1 (by simp)
    exact ⟨this.1, isBranch_of_isBranch1 this.2⟩

theorem DAlts.derives_mkAlt {l : List Pat} {w : List Char} (h : DAlts l w) {b : Pat} {u : List Char} (hb : b.isBranch = true)
    (hd : Derives b u) : Derives (mkAlt (l ++ [b])) (w ++ u) ∧ (mkAlt (l ++ [b])).isRe = true := by
  induction h with
  | nil => simpa [mkAlt] using And.intro hd (isRe_of_isBranch hb)
  | cons a l s t ha hda _ ih =>
    have e : ∃ y ys, l ++ [b] = y :: ys := by cases l <;> simp
    obtain ⟨y, ys, hy⟩ := e
    simp only [List.cons_append, hy, mkAlt, Pat.isRe, Bool.and_eq_true, List.append_assoc]
    rw [hy] at ih
    exact ⟨Derives.alt a _ s _ ha ih.2 hda ih.1, ha, ih.2⟩

theorem seq_sound : ∀ f : Nat,
    (∀ g alts cur s p r w u, parseSeq .xsd f g alts cur s = .ok (p, r) → DAlts alts w → DPieces cur u →
      ∃ t, s = t ++ (if g = true then ')' :: r else r) ∧ Derives p (w ++ u ++ t)) ∧
    (∀ s a r, parseAtom .xsd f s = .ok (a, r) → (∀ r0, s ≠ ')' :: r0) → (∀ r0, s ≠ '|' :: r0) →
      ∃ t, s = t ++ r ∧ Derives a t) := by
  intro f
  induction f with
  | zero => constructor <;> (intros; simp_all [parseSeq, parseAtom])
  | succ f ih =>
    constructor
    · intro g alts cur s p r w u h ha hc
      have fin : Derives (mkAlt (alts ++ [mkCat cur])) (w ++ u) := (ha.derives_mkAlt hc.derives_mkCat.2 hc.derives_mkCat.1).1
      unfold parseSeq at h
      split at h
      · split at h <;> simp at h
        rename_i hg
        obtain ⟨rfl, rfl⟩ := h
        exact ⟨[], by simp [hg], by simpa using fin⟩
      · split at h <;> simp at h
        rename_i hg
        obtain ⟨rfl, rfl⟩ := h
        exact ⟨[], by simp [hg], by simpa using fin⟩
      · obtain ⟨t, ht, hd⟩ := ih.1 _ _ _ _ _ _ _ _ h (ha.snoc hc.derives_mkCat.2 hc.derives_mkCat.1) .nil
        exact ⟨'|' :: t, by simp [ht], by simpa [List.append_assoc] using hd⟩
      · rename_i hnil hpar hbar
        have hh := h
        rw [bind_eq_ok] at h
        obtain ⟨⟨a, r1⟩, h1, h2⟩ := h
        dsimp only at h2
        rw [bind_eq_ok] at h2
        obtain ⟨⟨q, r2⟩, h3, h4⟩ := h2
        dsimp only at h4
        obtain ⟨ta, rfl, hda⟩ := ih.2 _ _ _ h1 (fun r0 e => hpar r0 e) (fun r0 e => hbar r0 e)
        have ga := (seq_canon .xsd f).2 _ _ _ h1
        cases q with
        | none =>
          have := parseQuant_none_eq h3
          subst this
          obtain ⟨t, ht, hd⟩ := ih.1 _ _ _ _ _ _ _ _ h4 ha (hc.snoc (isPiece_of_isAtom ga.1) hda)
          exact ⟨ta ++ t, by simp [ht], by simpa [List.append_assoc] using hd⟩
        | some lh =>
          obtain ⟨lo, hi⟩ := lh
          obtain ⟨tq, rfl, hq⟩ := parseQuant_sound h3
          obtain ⟨t, ht, hd⟩ := ih.1 _ _ _ _ _ _ _ _ h4 ha
            (hc.snoc (x := .rep a lo hi) (by simpa [Pat.isPiece] using ga.1) (Derives.rep a lo hi ta tq ga.1 hda hq))
          exact ⟨ta ++ tq ++ t, by simp [ht], by simpa [List.append_assoc] using hd⟩
    · intro s a r h hpar hbar
      unfold parseAtom at h
      split at h
      · simp at h
      · rw [bind_eq_ok] at h
        obtain ⟨⟨p, r'⟩, h1, h2⟩ := h
        obtain ⟨t, ht, hd⟩ := ih.1 _ _ _ _ _ _ _ _ h1 .nil .nil
        have gp := (seq_canon .xsd f).1 _ _ _ _ _ _ h1 (by simp) (by simp)
        simp at h2
        obtain ⟨rfl, rfl⟩ := h2
        exact ⟨'(' :: (t ++ [')']), by simp [ht], Derives.group p t gp.1 (by simpa using hd)⟩
      · rw [bind_eq_ok] at h
        obtain ⟨⟨cc, r'⟩, h1, h2⟩ := h
        obtain ⟨t, ht, hcls⟩ := (class_sound f).1 _ _ _ h1
        simp at h2
        obtain ⟨rfl, rfl⟩ := h2
        exact ⟨'[' :: t, by simp [ht], Derives.cls cc t hcls⟩
      · simp at h; obtain ⟨rfl, rfl⟩ := h; exact ⟨['.'], rfl, Derives.dot⟩
      · rw [bind_eq_ok] at h
        obtain ⟨⟨tok, r'⟩, h1, h2⟩ := h
        obtain ⟨t, rfl, ht⟩ := parseEscape_xsd_sound h1
        dsimp only at h2
        split at h2 <;> simp at h2
        · obtain ⟨rfl, rfl⟩ := h2
          exact ⟨'\\' :: t, rfl, Derives.escChr _ t ht⟩
        · obtain ⟨rfl, rfl⟩ := h2
          exact ⟨'\\' :: t, rfl, Derives.esc _ _ t ht⟩
      · rename_i c r0 hne1 hne2 hne3 hne4
        split at h
        · simp at h
        · rename_i hmeta
          split at h <;> simp at h
          obtain ⟨rfl, rfl⟩ := h
          refine ⟨[c], rfl, Derives.chr c ?_⟩
          simp only [NormalChar, metaChars_eq]
          simp only [Bool.or_eq_true, beq_iff_eq, not_or] at hmeta
          have p1 : c ≠ '(' := hne1
          have p2 : c ≠ '[' := hne2
          have p3 : c ≠ '.' := hne3
          have p4 : c ≠ '\\' := hne4
          have p5 : c ≠ ')' := fun e => hpar r0 (by rw [e])
          have p6 : c ≠ '|' := fun e => hbar r0 (by rw [e])
          simp [p1, p2, p3, p4, p5, p6, hmeta]

/-- every text the XSD parser accepts is a spelling of the tree it returns -/
theorem parseChars_sound (s : List Char) (p : Pat) (h : parseChars s = .ok p) : Derives p s := by
  unfold parseChars parseCharsD at h
  split at h
  · rename_i p' r heq
    simp at h
    subst h
    obtain ⟨t, ht, hd⟩ := (seq_sound _).1 _ _ _ _ _ _ _ _ heq .nil .nil
    have hr : r = [] := by
      have : ∀ f g alts cur s p r, parseSeq .xsd f g alts cur s = .ok (p, r) → g = false → r = [] := by
        intro f
        induction f with
        | zero => intros; simp_all [parseSeq]
        | succ f ih =>
          intro g alts cur s p r h hg
          unfold parseSeq at h
          split at h
          · split at h <;> simp at h
            first | exact h.2 | exact h.2.symm
          · split at h <;> simp at h
            simp_all
          · exact ih _ _ _ _ _ _ h hg
          · rw [bind_eq_ok] at h
            obtain ⟨⟨a, r1⟩, h1, h2⟩ := h
            dsimp only at h2
            rw [bind_eq_ok] at h2
            obtain ⟨⟨q, r2⟩, h3, h4⟩ := h2
            exact ih _ _ _ _ _ _ h4 hg
      exact this _ _ _ _ _ _ _ heq rfl
    subst hr
    simp at ht hd
    rw [ht]; exact hd
  · simp at h

/-! ## Completeness: every spelling the grammar derives is read back -/

/-! ### escapes -/

theorem SingleEsc.parse {c : Char} {t : List Char} (h : SingleEsc c t) (d : Dialect) (r : List Char) :
    parseEscape d (t ++ r) = .ok (.lit c, r) := by
  cases h with
  | n => exact parseEscape_n d r
  | r => exact parseEscape_r d r
  | t => exact parseEscape_t d r
  | lit c hc => exact parseEscape_single d c r hc

theorem ClassEsc.eq_body {n : Bool} {e : Esc} {t : List Char} (h : ClassEsc n e t) : t = e.body n ∧ e.wf = true := by
  cases h <;> first | exact ⟨rfl, rfl⟩ | (rename_i hw; exact ⟨rfl, hw⟩)

theorem ClassEsc.parse {n : Bool} {e : Esc} {t : List Char} (h : ClassEsc n e t) (r : List Char) :
    parseEscape .xsd (t ++ r) = .ok (.cls n e, r) := by
  obtain ⟨rfl, hw⟩ := h.eq_body
  exact parseEscape_esc .xsd n e r hw (Esc.inDialect_xsd e)

/-! ### character classes -/

/-- what may follow a class member: anything but a `-` that is neither the `-[` of a subtraction nor the last member -/
def ClsTail2 : List Char → Bool
  | [] => true
  | c :: t => c != '-' || (match t with | x :: _ => x == '[' || x == ']' | [] => false)

/-- the first character of a member is none of `- [ ]` -/
def memHeadOk : List Char → Bool
  | [] => false
  | c :: _ => !(c == '-' || c == '[' || c == ']')

theorem memHeadOk_append (s rest : List Char) (h : memHeadOk s = true) : memHeadOk (s ++ rest) = true := by
  cases s with
  | nil => simp [memHeadOk] at h
  | cons c t => simpa [memHeadOk] using h

theorem clsTail2_of_memHeadOk (s : List Char) (h : memHeadOk s = true) : ClsTail2 s = true := by
  cases s with
  | nil => rfl
  | cons c t => simp [memHeadOk, ClsTail2] at h ⊢; simp [h]

theorem CharOrEsc.headOk {c : Char} {s : List Char} (h : CharOrEsc c s) : memHeadOk s = true := by
  cases h with
  | raw h1 h2 h3 h4 => simp [memHeadOk, h2, h3, h4]
  | esc te ht => simp [memHeadOk]

theorem Member.headOk {it : CItem} {s : List Char} (h : Member it s) : memHeadOk s = true := by
  cases h with
  | ch c t hc => exact hc.headOk
  | range lo hi s t hl hh _ => exact memHeadOk_append _ _ hl.headOk
  | esc n e t ht => simp [memHeadOk]

theorem length_pos_of_memHeadOk {s : List Char} (h : memHeadOk s = true) : 1 ≤ s.length := by
  cases s with
  | nil => simp [memHeadOk] at h
  | cons c t => simp

theorem parseRangeOrChar_ch2 (d : Dialect) (c : Char) (rest : List Char) (h : ClsTail2 rest = true) :
    parseRangeOrChar d c rest = .ok (.ch c, rest) := by
  unfold parseRangeOrChar
  split
  · rfl
  · rfl
  · rename_i r2 h1 h2
    cases r2 with
    | nil => simp [ClsTail2] at h
    | cons x t =>
      simp [ClsTail2] at h
      rcases h with h | h
      · subst h; exact absurd rfl (h1 t)
      · subst h; exact absurd rfl (h2 t)
  · rfl

theorem CharOrEsc.parseItems {c : Char} {s0 : List Char} (h : CharOrEsc c s0) (f : Nat) (neg : Bool) (acc : List CItem)
    (r : List Char) :
    parseItems .xsd (f+1) neg acc (s0 ++ r) =
      (parseRangeOrChar .xsd c r >>= fun x => LyModel.XsdRe.parseItems .xsd f neg (acc ++ [x.1]) x.2) := by
  cases h with
  | raw h1 h2 h3 h4 =>
    simp only [List.cons_append, List.nil_append]
    rw [LyModel.XsdRe.parseItems]
    all_goals (intros; simp_all)
  | esc te ht =>
    simp only [List.cons_append, LyModel.XsdRe.parseItems, ht.parse .xsd r, bind, Except.bind]

theorem CharOrEsc.parseRangeHi {c : Char} {s0 : List Char} (h : CharOrEsc c s0) (r : List Char) :
    parseRangeHi .xsd (s0 ++ r) = .ok (c, r) := by
  cases h with
  | raw h1 h2 h3 h4 =>
    simp only [List.cons_append, List.nil_append]
    unfold LyModel.XsdRe.parseRangeHi
    split <;> simp_all
  | esc te ht =>
    simp only [List.cons_append, LyModel.XsdRe.parseRangeHi, ht.parse .xsd r, bind, Except.bind]

theorem parseRangeOrChar_range2 (lo hi : Char) (t rest : List Char) (ht : CharOrEsc hi t) (h : lo ≤ hi) :
    parseRangeOrChar .xsd lo ('-' :: (t ++ rest)) = .ok (.range lo hi, rest) := by
  have hh := memHeadOk_append _ rest ht.headOk
  have hp := ht.parseRangeHi rest
  cases hs : t ++ rest with
  | nil => rw [hs] at hh; simp [memHeadOk] at hh
  | cons x t' =>
    rw [hs] at hh hp
    simp [memHeadOk] at hh
    unfold parseRangeOrChar
    split
    · rename_i heq; simp at heq; simp [heq.1] at hh
    · rename_i heq; simp at heq; simp [heq.1] at hh
    · rename_i r2 _ _ heq
      simp at heq
      subst heq
      simp [hp, h, bind, Except.bind]
    · rename_i hne
      exact absurd rfl (hne _)

theorem Member.parseItems {it : CItem} {s : List Char} (hm : Member it s) (f : Nat) (neg : Bool) (acc : List CItem)
    (rest : List Char) (ht : ClsTail2 rest = true) :
    parseItems .xsd (f+1) neg acc (s ++ rest) = LyModel.XsdRe.parseItems .xsd f neg (acc ++ [it]) rest := by
  cases hm with
  | ch c t hc =>
    rw [hc.parseItems, parseRangeOrChar_ch2 _ c rest ht]
    rfl
  | range lo hi s t hl hh hle =>
    simp only [List.append_assoc, List.cons_append]
    rw [hl.parseItems, parseRangeOrChar_range2 lo hi t rest hh hle]
    rfl
  | esc n e t hte =>
    simp only [List.cons_append, LyModel.XsdRe.parseItems, hte.parse rest, bind, Except.bind]

theorem Members.length_le {ms : List CItem} {t : List Char} (h : Members ms t) : ms.length ≤ t.length := by
  induction h with
  | nil => simp
  | cons it l s t hm _ ih =>
    have := length_pos_of_memHeadOk hm.headOk
    simp only [List.length_cons, List.length_append]
    omega

theorem Members.clsTail2 {ms : List CItem} {t : List Char} (h : Members ms t) (rest : List Char)
    (hr : ClsTail2 rest = true) : ClsTail2 (t ++ rest) = true := by
  cases h with
  | nil => simpa using hr
  | cons it l s t hm _ =>
    rw [List.append_assoc]
    exact clsTail2_of_memHeadOk _ (memHeadOk_append _ _ hm.headOk)

theorem Members.parseItems {ms : List CItem} {t : List Char} (h : Members ms t) (neg : Bool) :
    ∀ (f : Nat) (acc : List CItem) (rest : List Char), ClsTail2 rest = true →
    parseItems .xsd (f + ms.length) neg acc (t ++ rest) = LyModel.XsdRe.parseItems .xsd f neg (acc ++ ms) rest := by
  induction h with
  | nil => intro f acc rest _; simp
  | cons it l s t hm hl ih =>
    intro f acc rest hr
    have e1 : f + (it :: l).length = (f + l.length) + 1 := by simp; omega
    rw [e1, List.append_assoc, hm.parseItems _ neg acc _ (hl.clsTail2 rest hr), ih f (acc ++ [it]) rest hr]
    simp

/-- a raw `-` as first member -/
theorem parseItems_leadDash (f : Nat) (neg : Bool) (rest : List Char) (h : ∀ t, rest ≠ '[' :: t) :
    parseItems .xsd (f+1) neg [] ('-' :: rest) = parseItems .xsd f neg [.ch '-'] rest := by
  cases rest with
  | nil => simp [parseItems]
  | cons x t =>
    have hx : x ≠ '[' := fun e => h t (by rw [e])
    by_cases hb : x = ']'
    · subst hb; simp [parseItems]
    · rw [parseItems]
      · simp
        try (split
             · rename_i heq; simp at heq; exact absurd heq.1 hb
             · rfl)
      all_goals (intros; simp_all)

/-- a raw `-` as last member, directly before `]` -/
theorem parseItems_trailDash (f : Nat) (neg : Bool) (acc : List CItem) (r : List Char) :
    parseItems .xsd (f+1) neg acc ('-' :: ']' :: r) = parseItems .xsd f neg (acc ++ [.ch '-']) (']' :: r) := by
  simp [parseItems]

/-- the end of a group: the closing `]`, or the `-[` of a subtraction (then no raw `-` as last member) -/
def GroupTail (last : Bool) (tail : List Char) : Prop :=
  (last = true ∧ ∃ r, tail = ']' :: r) ∨ (last = false ∧ ∃ r, tail = '-' :: '[' :: r)

theorem PosGroup.parseItems {last : Bool} {items : List CItem} {t : List Char} (h : PosGroup last items t) (neg : Bool)
    (f : Nat) (tail : List Char) (ht : GroupTail last tail) :
    parseItems .xsd (f + items.length) neg [] (t ++ tail) = LyModel.XsdRe.parseItems .xsd f neg items tail := by
  cases h with
  | mk lead trail ms tm hms htr hne =>
    have tailOk : ClsTail2 tail = true := by
      rcases ht with ⟨_, r, rfl⟩ | ⟨_, r, rfl⟩ <;> simp [ClsTail2]
    have tailNoBrk : ∀ x, tail ≠ '[' :: x := by
      rcases ht with ⟨_, r, rfl⟩ | ⟨_, r, rfl⟩ <;> simp
    have msNoBrk : ∀ rest, (∀ x, rest ≠ '[' :: x) → ∀ x, tm ++ rest ≠ '[' :: x := by
      intro rest hrest x
      cases hms with
      | nil => simpa using hrest x
      | cons it l s t' hm _ =>
        have := memHeadOk_append _ (t' ++ rest) hm.headOk
        intro e
        rw [← List.append_assoc, e] at this
        simp [memHeadOk] at this
    cases lead <;> cases trail
    · -- no raw dash
      simp only [dashItems, dashText, Bool.false_eq_true, if_false, List.nil_append, List.append_nil]
      simpa using hms.parseItems neg f [] tail tailOk
    · -- trailing dash
      have hl : last = true := htr rfl
      rcases ht with ⟨_, r, rfl⟩ | ⟨h0, _⟩
      · simp only [dashItems, dashText, Bool.false_eq_true, if_false, if_true, List.nil_append, List.append_assoc,
          List.cons_append, List.length_append, List.length_cons, List.length_nil]
        have e : f + (ms.length + (0 + 1)) = (f + 1) + ms.length := by omega
        rw [e, hms.parseItems neg (f+1) [] _ (by simp [ClsTail2]), parseItems_trailDash]
        simp
      · rw [hl] at h0; simp at h0
    · -- leading dash
      simp only [dashItems, dashText, Bool.false_eq_true, if_false, if_true, List.append_nil, List.append_assoc,
        List.cons_append, List.nil_append, List.length_cons, List.length_append, List.length_nil]
      have e : f + (ms.length + 1) = (f + ms.length) + 1 := by omega
      rw [e, parseItems_leadDash _ _ _ (msNoBrk tail tailNoBrk), hms.parseItems neg f _ tail tailOk]
      rfl
    · -- both
      have hl : last = true := htr rfl
      rcases ht with ⟨_, r, rfl⟩ | ⟨h0, _⟩
      · simp only [dashItems, dashText, if_true, List.append_assoc, List.cons_append, List.nil_append,
          List.length_cons, List.length_append, List.length_nil]
        have e : f + (ms.length + (0 + 1) + 1) = ((f + 1) + ms.length) + 1 := by omega
        rw [e, parseItems_leadDash _ _ _ (msNoBrk _ (by simp)), hms.parseItems neg (f+1) _ _ (by simp [ClsTail2]),
          parseItems_trailDash]
        simp
      · rw [hl] at h0; simp at h0

theorem PosGroup.length_le {last : Bool} {items : List CItem} {t : List Char} (h : PosGroup last items t) :
    items.length ≤ t.length ∧ items ≠ [] := by
  cases h with
  | mk lead trail ms tm hms htr hne =>
    have := hms.length_le
    refine ⟨?_, hne⟩
    cases lead <;> cases trail <;> simp [dashItems, dashText] <;> omega

theorem parseClass_hat (f : Nat) (neg : Bool) (t rest : List Char) (hh : neg = false → ∀ t', t ≠ '^' :: t')
    (hr : ∀ t', rest ≠ '^' :: t') :
    parseClass .xsd (f+1) (hatText neg ++ t ++ rest) = parseItems .xsd f neg [] (t ++ rest) := by
  cases neg with
  | true => simp [hatText, parseClass]
  | false =>
    simp only [hatText, Bool.false_eq_true, if_false, List.nil_append]
    rw [parseClass]
    intro r e
    cases t with
    | nil => exact hr r (by simpa using e)
    | cons c t0 =>
      simp at e
      exact hh rfl t0 (by rw [e.1])

/-- the parser reads every spelling of a class expression the grammar derives -/
theorem ClassExpr.parse {cc : CClass} {t : List Char} (h : ClassExpr cc t) :
    ∀ (f : Nat) (rest : List Char), t.length + 1 ≤ f → parseClass .xsd f (t ++ rest) = .ok (cc, rest) := by
  induction h with
  | single neg items tg hg hh =>
    intro f rest hf
    obtain ⟨hlen, hne⟩ := hg.length_le
    simp only [List.length_append, List.length_cons, List.length_nil] at hf
    obtain ⟨f0, rfl⟩ : ∃ f0, f = ((f0 + 1) + items.length) + 1 := ⟨f - items.length - 2, by omega⟩
    rw [List.append_assoc, parseClass_hat _ neg tg _ hh (by simp), List.singleton_append,
      hg.parseItems neg (f0+1) _ (Or.inl ⟨rfl, rest, rfl⟩), parseItems]
    have : items.isEmpty = false := by simpa using hne
    simp [this]
  | sub neg items tg sub u hg hh hsub ih =>
    intro f rest hf
    obtain ⟨hlen, hne⟩ := hg.length_le
    simp only [List.length_append, List.length_cons, List.length_nil] at hf
    obtain ⟨f0, rfl⟩ : ∃ f0, f = ((f0 + 1) + items.length) + 1 := ⟨f - items.length - 2, by omega⟩
    have hemp : items.isEmpty = false := by simpa using hne
    have hs : Dialect.xsd.subtraction = true := rfl
    rw [List.append_assoc, parseClass_hat _ neg tg _ hh (by simp), List.cons_append, List.cons_append,
      hg.parseItems neg (f0+1) _ (Or.inr ⟨rfl, _, rfl⟩), parseItems]
    have := ih f0 (']' :: rest) (by omega)
    simp only [List.append_assoc, List.cons_append, List.nil_append] at this ⊢
    simp [hs, hemp, this, bind, Except.bind]

/-- `x = .ok (cc, [])` for a well-formed `cc`, decided by evaluation (the class printer is injective on well-formed classes) -/
def classParsesTo (x : Except ReErr (CClass × List Char)) (cc : CClass) : Bool :=
  match x with
  | .ok (q, r) => decide (CClass.render q = CClass.render cc) && r.isEmpty && CClass.wf q && CClass.wf cc
  | .error _ => false

theorem eq_ok_of_classParsesTo {x : Except ReErr (CClass × List Char)} {cc : CClass} (h : classParsesTo x cc = true) :
    x = .ok (cc, []) := by
  cases x with
  | error e => simp [classParsesTo] at h
  | ok v =>
    obtain ⟨q, r⟩ := v
    simp only [classParsesTo, Bool.and_eq_true, decide_eq_true_eq, List.isEmpty_iff] at h
    obtain ⟨⟨⟨h1, rfl⟩, h2⟩, h3⟩ := h
    have a := parseClass_render .xsd q h2 (CClass.inDialect_xsd q) _ [] (Nat.le_refl _)
    have b := parseClass_render .xsd cc h3 (CClass.inDialect_xsd cc) _ [] (Nat.le_refl _)
    rw [h1, b] at a
    simp at a
    rw [a]

/-! ### quantifiers and the four levels -/

theorem IsNat.parseNat {n : Nat} {ds : List Char} (h : IsNat n ds) (c : Char) (rest : List Char) (hc : c.isDigit = false) :
    parseNat (ds ++ c :: rest) = some (n, c :: rest) := by
  obtain ⟨h1, h2, h3⟩ := h
  simp only [LyModel.XsdRe.parseNat, span_append_stop Char.isDigit ds c rest h2 hc]
  simp [h1, h3]

theorem Quant.parse {lo : Nat} {hi : Option Nat} {q : List Char} (h : Quant lo hi q) (rest : List Char) :
    parseQuant .xsd (q ++ rest) = .ok (some (lo, hi), rest) := by
  have hq : ∀ lo hi, quantAllowed .xsd lo hi = true := fun _ _ => rfl
  cases h with
  | star => simp [parseQuant, parseQuant0, hq]
  | plus => simp [parseQuant, parseQuant0, hq]
  | opt => simp [parseQuant, parseQuant0, hq]
  | exact n ds hds => simp [parseQuant, parseQuant0, hq, hds.parseNat '}' _ (by decide)]
  | min n ds hds => simp [parseQuant, parseQuant0, hq, hds.parseNat ',' _ (by decide)]
  | range n m ds es hds hes hle =>
    obtain ⟨c, t, rfl⟩ : ∃ c t, es = c :: t := by
      cases es with
      | nil => exact absurd rfl hes.1
      | cons c t => exact ⟨c, t, rfl⟩
    have hcd : c.isDigit = true := hes.2.1 c (by simp)
    have hne : c ≠ '}' := by rintro rfl; revert hcd; decide
    have h2 := hes.parseNat '}' rest (by decide)
    rw [List.cons_append] at h2
    simp [parseQuant, parseQuant0, hq, hds.parseNat ',' _ (by decide), hne, h2, hle]

def AtomOkT (a : Pat) (t : List Char) : Prop :=
  ∀ (f : Nat) (rest : List Char), t.length + 1 ≤ f → parseAtom .xsd f (t ++ rest) = .ok (a, rest)

def PieceOkT (p : Pat) (t : List Char) : Prop :=
  ∀ (f : Nat) (g : Bool) (alts cur : List Pat) (rest : List Char), NoQuantStart rest = true → t.length + 2 ≤ f →
    parseSeq .xsd f g alts cur (t ++ rest) = parseSeq .xsd (f - 1) g alts (cur ++ [p]) rest

def BranchOkT (b : Pat) (t : List Char) : Prop :=
  ∀ (f : Nat) (g : Bool) (alts cur : List Pat) (rest : List Char), NoQuantStart rest = true → t.length + 2 ≤ f →
    ∃ f', f ≤ f' + t.length ∧ parseSeq .xsd f g alts cur (t ++ rest) = parseSeq .xsd f' g alts (cur ++ pieces b) rest

def ReOkT (p : Pat) (t : List Char) : Prop :=
  ∀ (f : Nat) (g : Bool) (alts : List Pat) (rest rest' : List Char), SeqEnd g rest rest' → t.length + 2 ≤ f →
    parseSeq .xsd f g alts [] (t ++ rest) = .ok (mkAlt (alts ++ branches p), rest')

theorem pieceT_of_atom {a : Pat} {t : List Char} (ht : headOk t = true) (ha : AtomOkT a t) : PieceOkT a t := by
  intro f g alts cur rest hq hf
  obtain ⟨f0, rfl⟩ : ∃ f0, f = f0 + 1 := ⟨f - 1, by omega⟩
  rw [parseSeq_piece .xsd f0 g alts cur _ rest rest a none (headOk_append _ _ ht)
    (ha f0 rest (by omega)) (parseQuant_none .xsd rest hq)]
  rfl

theorem pieceT_of_rep {a : Pat} {lo : Nat} {hi : Option Nat} {t q : List Char} (ht : headOk t = true) (ha : AtomOkT a t)
    (hq : Quant lo hi q) : PieceOkT (.rep a lo hi) (t ++ q) := by
  intro f g alts cur rest _ hf
  obtain ⟨f0, rfl⟩ : ∃ f0, f = f0 + 1 := ⟨f - 1, by omega⟩
  simp only [List.length_append, List.append_assoc] at hf ⊢
  rw [parseSeq_piece .xsd f0 g alts cur _ (q ++ rest) rest a (some (lo, hi)) (headOk_append _ _ ht)
    (ha f0 _ (by omega)) (hq.parse rest)]
  rfl

theorem branchT_of_piece {p : Pat} {t : List Char} (h : p.isPiece = true) (ht : headOk t = true) (hp : PieceOkT p t) :
    BranchOkT p t := by
  intro f g alts cur rest hq hf
  have := length_pos_of_headOk _ ht
  refine ⟨f - 1, by omega, ?_⟩
  rw [hp f g alts cur rest hq hf, pieces_of_piece p h]

theorem branchT_cat {a b : Pat} {s t : List Char} (hs : headOk s = true) (ht : headOk t = true) (pa : PieceOkT a s)
    (pb : BranchOkT b t) : BranchOkT (.cat a b) (s ++ t) := by
  intro f g alts cur rest hq hf
  simp only [List.length_append, List.append_assoc] at hf ⊢
  have hla := length_pos_of_headOk _ hs
  rw [pa f g alts cur (t ++ rest) (noQuantStart_of_headOk _ (headOk_append _ _ ht)) (by omega)]
  obtain ⟨f', h1, h2⟩ := pb (f - 1) g alts (cur ++ [a]) rest hq (by omega)
  refine ⟨f', by omega, ?_⟩
  rw [h2]
  simp [pieces]

theorem reT_of_branch {p : Pat} {t : List Char} (h : p.isBranch = true) (hp : BranchOkT p t) : ReOkT p t := by
  intro f g alts rest rest' he hf
  obtain ⟨f', h1, h2⟩ := hp f g alts [] rest (noQuantStart_seqEnd he) hf
  rw [h2, parseSeq_end .xsd f' g alts _ rest rest' he (by omega), branches_of_branch p h]
  simp [mkCat_pieces p h]

theorem reT_alt {a b : Pat} {s t : List Char} (ha : a.isBranch = true) (pa : BranchOkT a s) (pb : ReOkT b t) :
    ReOkT (.alt a b) (s ++ '|' :: t) := by
  intro f g alts rest rest' he hf
  simp only [List.length_append, List.length_cons, List.append_assoc, List.cons_append] at hf ⊢
  obtain ⟨f', h1, h2⟩ := pa f g alts [] ('|' :: (t ++ rest)) (by simp [NoQuantStart]) (by omega)
  obtain ⟨f0, rfl⟩ : ∃ f0, f' = f0 + 1 := ⟨f' - 1, by omega⟩
  rw [h2, parseSeq, pb f0 g _ rest rest' he (by omega)]
  simp [branches, mkCat_pieces a ha]

theorem atomT_group {p : Pat} {t : List Char} (h : p.isRe = true) (hp : ReOkT p t) :
    AtomOkT (.group p) ('(' :: (t ++ [')'])) := by
  intro f rest hf
  simp only [List.length_append, List.length_cons, List.length_nil, List.append_assoc, List.cons_append,
    List.nil_append] at hf ⊢
  obtain ⟨f0, rfl⟩ : ∃ f0, f = f0 + 1 := ⟨f - 1, by omega⟩
  rw [parseAtom, hp f0 true [] (')' :: rest) rest (Or.inl ⟨rfl, rfl⟩) (by omega)]
  simp [bind, Except.bind, mkAlt_branches p h]

/-- the first character of a derived non-empty branch -/
theorem Derives.headOk {p : Pat} {t : List Char} (h : Derives p t) : p.isBranch1 = true → headOk t = true := by
  induction h with
  | chr c hc =>
    intro _
    simp only [NormalChar, metaChars_eq] at hc
    simp at hc
    simp [LyModel.XsdRe.headOk, hc]
  | escChr c t ht => intro _; simp [LyModel.XsdRe.headOk]
  | dot => intro _; simp [LyModel.XsdRe.headOk]
  | esc n e t ht => intro _; simp [LyModel.XsdRe.headOk]
  | cls cc t ht => intro _; simp [LyModel.XsdRe.headOk]
  | group p t _ _ _ => intro _; simp [LyModel.XsdRe.headOk]
  | rep a lo hi t q ha _ _ ih => intro _; exact headOk_append _ _ (ih (isBranch1_of_isPiece (isPiece_of_isAtom ha)))
  | eps => intro h; simp [Pat.isBranch1, Pat.isPiece, Pat.isAtom] at h
  | cat a b s t ha _ _ _ iha _ => intro _; exact headOk_append _ _ (iha (isBranch1_of_isPiece ha))
  | alt a b s t _ _ _ _ _ _ => intro h; simp [Pat.isBranch1, Pat.isPiece, Pat.isAtom] at h

theorem Derives.isRe {p : Pat} {t : List Char} (h : Derives p t) : p.isRe = true := by
  cases h with
  | rep a lo hi t q ha _ _ => simpa [Pat.isRe, Pat.isBranch, Pat.isBranch1, Pat.isPiece] using ha
  | cat a b s t ha hb _ _ => simp [Pat.isRe, Pat.isBranch, Pat.isBranch1, ha, hb]
  | alt a b s t ha hb _ _ => simp [Pat.isRe, ha, hb]
  | _ => rfl

theorem upT_atom {a : Pat} {t : List Char} (h : a.isAtom = true) (ht : headOk t = true) (ha : AtomOkT a t) :
    (a.isAtom = true → AtomOkT a t) ∧ (a.isPiece = true → PieceOkT a t) ∧ (a.isBranch = true → BranchOkT a t) ∧
      (a.isRe = true → ReOkT a t) := by
  have hp := pieceT_of_atom ht ha
  have hb := branchT_of_piece (isPiece_of_isAtom h) ht hp
  have hbr := isBranch_of_isBranch1 (isBranch1_of_isPiece (isPiece_of_isAtom h))
  exact ⟨fun _ => ha, fun _ => hp, fun _ => hb, fun _ => reT_of_branch hbr hb⟩

theorem branchT_eps : BranchOkT .eps [] := by
  intro f g alts cur rest hq hf
  exact ⟨f, by omega, by simp [pieces]⟩

theorem Derives.ok {p : Pat} {t : List Char} (h : Derives p t) :
    (p.isAtom = true → AtomOkT p t) ∧ (p.isPiece = true → PieceOkT p t) ∧ (p.isBranch = true → BranchOkT p t) ∧
      (p.isRe = true → ReOkT p t) := by
  induction h with
  | chr c hc =>
    refine upT_atom rfl ((Derives.chr c hc).headOk rfl) ?_
    intro f rest hf
    obtain ⟨f0, rfl⟩ : ∃ f0, f = f0 + 1 := ⟨f - 1, by omega⟩
    exact parseAtom_plain .xsd f0 c rest hc (by simp [Dialect.xsd])
  | escChr c t ht =>
    refine upT_atom rfl ((Derives.escChr c t ht).headOk rfl) ?_
    intro f rest hf
    obtain ⟨f0, rfl⟩ : ∃ f0, f = f0 + 1 := ⟨f - 1, by omega⟩
    exact parseAtom_escLit .xsd f0 c _ rest (ht.parse .xsd rest)
  | dot =>
    refine upT_atom rfl (Derives.dot.headOk rfl) ?_
    intro f rest hf
    obtain ⟨f0, rfl⟩ : ∃ f0, f = f0 + 1 := ⟨f - 1, by omega⟩
    simp [parseAtom]
  | esc n e t ht =>
    refine upT_atom rfl ((Derives.esc n e t ht).headOk rfl) ?_
    intro f rest hf
    obtain ⟨f0, rfl⟩ : ∃ f0, f = f0 + 1 := ⟨f - 1, by omega⟩
    simp [parseAtom, ht.parse rest, bind, Except.bind]
  | cls cc t ht =>
    refine upT_atom rfl ((Derives.cls cc t ht).headOk rfl) ?_
    intro f rest hf
    simp only [List.length_cons, List.cons_append] at hf ⊢
    obtain ⟨f0, rfl⟩ : ∃ f0, f = f0 + 1 := ⟨f - 1, by omega⟩
    rw [parseAtom, ht.parse f0 rest (by omega)]
    rfl
  | group p t hre hd ih =>
    exact upT_atom rfl ((Derives.group p t hre hd).headOk rfl) (atomT_group hre (ih.2.2.2 hre))
  | rep a lo hi t q ha hd hq ih =>
    have hta := hd.headOk (isBranch1_of_isPiece (isPiece_of_isAtom ha))
    have hpc : (Pat.rep a lo hi).isPiece = true := by simpa [Pat.isPiece] using ha
    have key : PieceOkT (.rep a lo hi) (t ++ q) := pieceT_of_rep hta (ih.1 ha) hq
    have hb := branchT_of_piece hpc (headOk_append _ _ hta) key
    exact ⟨fun h => by simp [Pat.isAtom] at h, fun _ => key, fun _ => hb,
      fun _ => reT_of_branch (isBranch_of_isBranch1 (isBranch1_of_isPiece hpc)) hb⟩
  | eps =>
    exact ⟨fun h => by simp [Pat.isAtom] at h, fun h => by simp [Pat.isPiece, Pat.isAtom] at h, fun _ => branchT_eps,
      fun _ => reT_of_branch rfl branchT_eps⟩
  | cat a b s t ha hb hda hdb iha ihb =>
    have key : BranchOkT (.cat a b) (s ++ t) :=
      branchT_cat (hda.headOk (isBranch1_of_isPiece ha)) (hdb.headOk hb) (iha.2.1 ha)
        (ihb.2.2.1 (isBranch_of_isBranch1 hb))
    have hbr : (Pat.cat a b).isBranch = true := by simp [Pat.isBranch, Pat.isBranch1, ha, hb]
    exact ⟨fun h => by simp [Pat.isAtom] at h, fun h => by simp [Pat.isPiece, Pat.isAtom] at h, fun _ => key,
      fun _ => reT_of_branch hbr key⟩
  | alt a b s t ha hb hda hdb iha ihb =>
    exact ⟨fun h => by simp [Pat.isAtom] at h, fun h => by simp [Pat.isPiece, Pat.isAtom] at h,
      fun h => by simp [Pat.isBranch, Pat.isBranch1, Pat.isPiece, Pat.isAtom] at h,
      fun _ => reT_alt ha (iha.2.2.1 ha) (ihb.2.2.2 hb)⟩

/-- the XSD parser reads every spelling the grammar derives, as the tree it is a spelling of -/
theorem parseChars_complete (s : List Char) (p : Pat) (h : Derives p s) : parseChars s = .ok p := by
  have hre := h.isRe
  have := h.ok.2.2.2 hre (2 * s.length + 4) false [] [] [] (Or.inr ⟨rfl, rfl, rfl⟩) (by omega)
  simp only [List.append_nil, List.nil_append] at this
  simp [parseChars, parseCharsD, this, mkAlt_branches p hre]

end LyModel.XsdRe
