import LyModel.XsdRe.RenderLemmas
import LyModel.XsdRe.Grammar
/-!
# Soundness of the parser for the declarative grammar (`Props/C18Parse.parse_sound`)
-/
set_option linter.unusedSimpArgs false
set_option linter.unusedVariables false
namespace LyModel.XsdRe

theorem parseNat_sound {s r : List Char} {n : Nat} (h : parseNat s = some (n, r)) : ∃ ds, s = ds ++ r ∧ IsNat n ds := by
  unfold parseNat at h
  simp only [span_eq] at h
  split at h <;> simp at h
  rename_i hne
  obtain ⟨hn, rfl⟩ := h
  refine ⟨s.takeWhile Char.isDigit, (List.takeWhile_append_dropWhile).symm, ?_, ?_, hn⟩
  · simpa using hne
  · exact List.all_eq_true.mp (@List.all_takeWhile _ Char.isDigit s)

theorem parseQuant0_sound {s r : List Char} {lo : Nat} {hi : Option Nat} (h : parseQuant0 s = .ok (some (lo, hi), r)) :
    ∃ t, s = t ++ r ∧ Quant lo hi t := by
  unfold parseQuant0 at h
  split at h
  · simp at h; obtain ⟨⟨rfl, rfl⟩, rfl⟩ := h; exact ⟨['*'], rfl, .star⟩
  · simp at h; obtain ⟨⟨rfl, rfl⟩, rfl⟩ := h; exact ⟨['+'], rfl, .plus⟩
  · simp at h; obtain ⟨⟨rfl, rfl⟩, rfl⟩ := h; exact ⟨['?'], rfl, .opt⟩
  · split at h
    · simp at h
    · rename_i n r1 hn
      obtain ⟨ds, rfl, hds⟩ := parseNat_sound hn
      split at h
      · simp at h; obtain ⟨⟨rfl, rfl⟩, rfl⟩ := h
        exact ⟨'{' :: (ds ++ ['}']), by simp, .exact _ ds hds⟩
      · simp at h; obtain ⟨⟨rfl, rfl⟩, rfl⟩ := h
        exact ⟨'{' :: (ds ++ [',', '}']), by simp, .min _ ds hds⟩
      · split at h
        · rename_i m r3 hm
          obtain ⟨es, rfl, hes⟩ := parseNat_sound hm
          split at h <;> simp at h
          rename_i hle
          obtain ⟨⟨rfl, rfl⟩, rfl⟩ := h
          exact ⟨'{' :: (ds ++ ',' :: (es ++ ['}'])), by simp, .range _ _ ds es hds hes hle⟩
        · simp at h
      · simp at h
  · simp at h

theorem parseQuant_sound {d : Dialect} {s r : List Char} {lo : Nat} {hi : Option Nat}
    (h : parseQuant d s = .ok (some (lo, hi), r)) : ∃ t, s = t ++ r ∧ Quant lo hi t := by
  unfold parseQuant at h
  split at h
  · rename_i lo' hi' r' heq
    split at h <;> simp at h
    obtain ⟨⟨rfl, rfl⟩, rfl⟩ := h
    exact parseQuant0_sound heq
  · exact parseQuant0_sound h

theorem parseQuant_none_eq {d : Dialect} {s r : List Char} (h : parseQuant d s = .ok (none, r)) : r = s := by
  unfold parseQuant at h
  split at h
  · split at h <;> simp at h
  · unfold parseQuant0 at h
    split at h
    all_goals first
      | (simp at h; done)
      | (simp at h; exact h.symm)
      | skip
    repeat' split at h
    all_goals simp at h

theorem parseProp_sound {neg n : Bool} {s r : List Char} {e : Esc} (h : parseProp neg s = .ok (.cls n e, r)) :
    ∃ t, s = t ++ r ∧ ClassEsc neg e ((if neg then 'P' else 'p') :: t) ∧ n = neg := by
  have hw := parseProp_wf h
  unfold parseProp at h
  split at h
  · rename_i r0
    simp only [span_eq] at h
    have hsplit := (List.takeWhile_append_dropWhile (p := isNameCh) (l := r0)).symm
    split at h
    · rename_i r'' heq
      rw [heq] at hsplit
      split at h
      · rename_i b hb
        split at h <;> simp at h
        obtain ⟨⟨rfl, rfl⟩, rfl⟩ := h
        refine ⟨'{' :: 'I' :: 's' :: (b ++ ['}']), by rw [hsplit, hb]; simp, ?_, rfl⟩
        have := ClassEsc.block neg (String.ofList b) hw
        simpa [String.toList_ofList] using this
      · split at h <;> simp at h
        obtain ⟨⟨rfl, rfl⟩, rfl⟩ := h
        refine ⟨'{' :: (r0.takeWhile isNameCh ++ ['}']), by simpa using hsplit, ?_, rfl⟩
        have := ClassEsc.cat neg (String.ofList (r0.takeWhile isNameCh)) hw
        simpa [String.toList_ofList] using this
    · simp at h
  · simp at h

/-- the text after a backslash, by kind of token -/
def EscTokDerives : EscTok → List Char → Prop
  | .lit c, t => SingleEsc c t
  | .cls n e, t => ClassEsc n e t

theorem parseEscape0_sound {s r : List Char} {tok : EscTok} (h : parseEscape0 s = .ok (tok, r)) :
    ∃ t, s = t ++ r ∧ EscTokDerives tok t := by
  unfold parseEscape0 at h
  split at h
  · simp at h
  · simp at h; obtain ⟨rfl, rfl⟩ := h; exact ⟨['n'], rfl, SingleEsc.n⟩
  · simp at h; obtain ⟨rfl, rfl⟩ := h; exact ⟨['r'], rfl, SingleEsc.r⟩
  · simp at h; obtain ⟨rfl, rfl⟩ := h; exact ⟨['t'], rfl, SingleEsc.t⟩
  · simp at h; obtain ⟨rfl, rfl⟩ := h; exact ⟨['d'], rfl, ClassEsc.d⟩
  · simp at h; obtain ⟨rfl, rfl⟩ := h; exact ⟨['D'], rfl, ClassEsc.D⟩
  · simp at h; obtain ⟨rfl, rfl⟩ := h; exact ⟨['w'], rfl, ClassEsc.w⟩
  · simp at h; obtain ⟨rfl, rfl⟩ := h; exact ⟨['W'], rfl, ClassEsc.W⟩
  · simp at h; obtain ⟨rfl, rfl⟩ := h; exact ⟨['s'], rfl, ClassEsc.s⟩
  · simp at h; obtain ⟨rfl, rfl⟩ := h; exact ⟨['S'], rfl, ClassEsc.S⟩
  · simp at h; obtain ⟨rfl, rfl⟩ := h; exact ⟨['i'], rfl, ClassEsc.i⟩
  · simp at h; obtain ⟨rfl, rfl⟩ := h; exact ⟨['I'], rfl, ClassEsc.I⟩
  · simp at h; obtain ⟨rfl, rfl⟩ := h; exact ⟨['c'], rfl, ClassEsc.c⟩
  · simp at h; obtain ⟨rfl, rfl⟩ := h; exact ⟨['C'], rfl, ClassEsc.C⟩
  · cases tok with
    | lit c =>
      exfalso
      unfold parseProp at h
      repeat' split at h
      all_goals first | (simp at h; done) | (dsimp only at h; split at h <;> simp at h)
    | cls n e =>
      obtain ⟨t, rfl, ht, rfl⟩ := parseProp_sound h
      exact ⟨'p' :: t, rfl, by simpa [EscTokDerives] using ht⟩
  · cases tok with
    | lit c =>
      exfalso
      unfold parseProp at h
      repeat' split at h
      all_goals first | (simp at h; done) | (dsimp only at h; split at h <;> simp at h)
    | cls n e =>
      obtain ⟨t, rfl, ht, rfl⟩ := parseProp_sound h
      exact ⟨'P' :: t, rfl, by simpa [EscTokDerives] using ht⟩
  · rename_i c r0 _ _ _ _ _ _ _ _ _ _ _ _ _ _ _
    split at h <;> simp at h
    rename_i hc
    obtain ⟨rfl, rfl⟩ := h
    exact ⟨[c], rfl, SingleEsc.lit c hc⟩

theorem parseEscape_xsd_sound {s r : List Char} {tok : EscTok} (h : parseEscape .xsd s = .ok (tok, r)) :
    ∃ t, s = t ++ r ∧ EscTokDerives tok t := by
  unfold parseEscape at h
  split at h
  · simp [Dialect.xsd] at h
  · cases heq : parseEscape0 s with
    | error e => rw [heq] at h; simp at h
    | ok v =>
      obtain ⟨t', r'⟩ := v
      rw [heq] at h
      dsimp only at h
      split at h <;> simp at h
      obtain ⟨rfl, rfl⟩ := h
      exact parseEscape0_sound heq

/-- the pieces read so far in the current branch, with their text -/
inductive DPieces : List Pat → List Char → Prop
  | nil : DPieces [] []
  | cons (x : Pat) (l : List Pat) (s t : List Char) : x.isPiece = true → Derives x s → DPieces l t → DPieces (x :: l) (s ++ t)

/-- the branches read so far, with their text (each followed by `|`) -/
inductive DAlts : List Pat → List Char → Prop
  | nil : DAlts [] []
  | cons (a : Pat) (l : List Pat) (s t : List Char) : a.isBranch = true → Derives a s → DAlts l t →
      DAlts (a :: l) (s ++ '|' :: t)

theorem DPieces.snoc {l : List Pat} {u : List Char} (h : DPieces l u) {x : Pat} {s : List Char} (hx : x.isPiece = true)
    (hd : Derives x s) : DPieces (l ++ [x]) (u ++ s) := by
  induction h with
  | nil => simpa using DPieces.cons x [] s [] hx hd .nil
  | cons y l s' t hy hdy _ ih => simpa [List.append_assoc] using DPieces.cons y _ s' _ hy hdy ih

theorem DAlts.snoc {l : List Pat} {w : List Char} (h : DAlts l w) {b : Pat} {u : List Char} (hb : b.isBranch = true)
    (hd : Derives b u) : DAlts (l ++ [b]) (w ++ u ++ ['|']) := by
  induction h with
  | nil => simpa using DAlts.cons b [] u [] hb hd .nil
  | cons a l s t ha hda _ ih => simpa [List.append_assoc] using DAlts.cons a _ s _ ha hda ih

theorem DPieces.derives_mkCat1 {l : List Pat} {u : List Char} (h : DPieces l u) (hne : l ≠ []) :
    Derives (mkCat l) u ∧ (mkCat l).isBranch1 = true := by
  induction h with
  | nil => exact absurd rfl hne
  | cons x l s t hx hdx hl ih =>
    cases l with
    | nil =>
      cases hl
      simpa [mkCat] using And.intro hdx (isBranch1_of_isPiece hx)
    | cons y l' =>
      have := ih (by simp)
      simp only [mkCat, Pat.isBranch1, Bool.and_eq_true]
      exact ⟨Derives.cat x _ s t hx this.2 hdx this.1, hx, this.2⟩

theorem DPieces.derives_mkCat {l : List Pat} {u : List Char} (h : DPieces l u) :
    Derives (mkCat l) u ∧ (mkCat l).isBranch = true := by
  cases l with
  | nil => cases h; exact ⟨Derives.eps, rfl⟩
  | cons x l' =>
    have := h.derives_mkCat1 (by simp)
    exact ⟨this.1, isBranch_of_isBranch1 this.2⟩

theorem DAlts.derives_mkAlt {l : List Pat} {w : List Char} (h : DAlts l w) {b : Pat} {u : List Char} (hb : b.isBranch = true)
    (hd : Derives b u) : Derives (mkAlt (l ++ [b])) (w ++ u) ∧ (mkAlt (l ++ [b])).isRe = true := by
  induction h with
  | nil => simpa [mkAlt] using And.intro hd (isRe_of_isBranch hb)
  | cons a l s t ha hda _ ih =>
    have e : ∃ y ys, l ++ [b] = y :: ys := by cases l <;> simp
    obtain ⟨y, ys, hy⟩ := e
    simp only [List.cons_append, hy, mkAlt, Pat.isRe, Bool.and_eq_true, List.append_assoc]
    rw [hy] at ih
    exact ⟨Derives.alt a _ s _ ha ih.2 hda ih.1, ha, ih.2⟩

theorem seq_sound : ∀ f : Nat,
    (∀ g alts cur s p r w u, parseSeq .xsd f g alts cur s = .ok (p, r) → DAlts alts w → DPieces cur u →
      ∃ t, s = t ++ (if g = true then ')' :: r else r) ∧ Derives p (w ++ u ++ t)) ∧
    (∀ s a r, parseAtom .xsd f s = .ok (a, r) → (∀ r0, s ≠ ')' :: r0) → (∀ r0, s ≠ '|' :: r0) →
      ∃ t, s = t ++ r ∧ Derives a t) := by
  intro f
  induction f with
  | zero => constructor <;> (intros; simp_all [parseSeq, parseAtom])
  | succ f ih =>
    constructor
    · intro g alts cur s p r w u h ha hc
      have fin : Derives (mkAlt (alts ++ [mkCat cur])) (w ++ u) := (ha.derives_mkAlt hc.derives_mkCat.2 hc.derives_mkCat.1).1
      unfold parseSeq at h
      split at h
      · split at h <;> simp at h
        rename_i hg
        obtain ⟨rfl, rfl⟩ := h
        exact ⟨[], by simp [hg], by simpa using fin⟩
      · split at h <;> simp at h
        rename_i hg
        obtain ⟨rfl, rfl⟩ := h
        exact ⟨[], by simp [hg], by simpa using fin⟩
      · obtain ⟨t, ht, hd⟩ := ih.1 _ _ _ _ _ _ _ _ h (ha.snoc hc.derives_mkCat.2 hc.derives_mkCat.1) .nil
        exact ⟨'|' :: t, by simp [ht], by simpa [List.append_assoc] using hd⟩
      · rename_i hnil hpar hbar
        have hh := h
        rw [bind_eq_ok] at h
        obtain ⟨⟨a, r1⟩, h1, h2⟩ := h
        dsimp only at h2
        rw [bind_eq_ok] at h2
        obtain ⟨⟨q, r2⟩, h3, h4⟩ := h2
        dsimp only at h4
        obtain ⟨ta, rfl, hda⟩ := ih.2 _ _ _ h1 (fun r0 e => hpar r0 e) (fun r0 e => hbar r0 e)
        have ga := (seq_canon .xsd f).2 _ _ _ h1
        cases q with
        | none =>
          have := parseQuant_none_eq h3
          subst this
          obtain ⟨t, ht, hd⟩ := ih.1 _ _ _ _ _ _ _ _ h4 ha (hc.snoc (isPiece_of_isAtom ga.1) hda)
          exact ⟨ta ++ t, by simp [ht], by simpa [List.append_assoc] using hd⟩
        | some lh =>
          obtain ⟨lo, hi⟩ := lh
          obtain ⟨tq, rfl, hq⟩ := parseQuant_sound h3
          obtain ⟨t, ht, hd⟩ := ih.1 _ _ _ _ _ _ _ _ h4 ha
            (hc.snoc (x := .rep a lo hi) (by simpa [Pat.isPiece] using ga.1) (Derives.rep a lo hi ta tq ga.1 hda hq))
          exact ⟨ta ++ tq ++ t, by simp [ht], by simpa [List.append_assoc] using hd⟩
    · intro s a r h hpar hbar
      unfold parseAtom at h
      split at h
      · simp at h
      · rw [bind_eq_ok] at h
        obtain ⟨⟨p, r'⟩, h1, h2⟩ := h
        obtain ⟨t, ht, hd⟩ := ih.1 _ _ _ _ _ _ _ _ h1 .nil .nil
        have gp := (seq_canon .xsd f).1 _ _ _ _ _ _ h1 (by simp) (by simp)
        simp at h2
        obtain ⟨rfl, rfl⟩ := h2
        exact ⟨'(' :: (t ++ [')']), by simp [ht], Derives.group p t gp.1 (by simpa using hd)⟩
      · rw [bind_eq_ok] at h
        obtain ⟨⟨cc, r'⟩, h1, h2⟩ := h
        obtain ⟨t, ht⟩ := (class_sfx .xsd f).1 _ _ _ h1
        simp at h2
        obtain ⟨rfl, rfl⟩ := h2
        exact ⟨'[' :: t, by simp [ht], Derives.cls cc t ⟨f, r', by rw [ht]; exact h1⟩⟩
      · simp at h; obtain ⟨rfl, rfl⟩ := h; exact ⟨['.'], rfl, Derives.dot⟩
      · rw [bind_eq_ok] at h
        obtain ⟨⟨tok, r'⟩, h1, h2⟩ := h
        obtain ⟨t, rfl, ht⟩ := parseEscape_xsd_sound h1
        dsimp only at h2
        split at h2 <;> simp at h2
        · obtain ⟨rfl, rfl⟩ := h2
          exact ⟨'\\' :: t, rfl, Derives.escChr _ t ht⟩
        · obtain ⟨rfl, rfl⟩ := h2
          exact ⟨'\\' :: t, rfl, Derives.esc _ _ t ht⟩
      · rename_i c r0 hne1 hne2 hne3 hne4
        split at h
        · simp at h
        · rename_i hmeta
          split at h <;> simp at h
          obtain ⟨rfl, rfl⟩ := h
          refine ⟨[c], rfl, Derives.chr c ?_⟩
          simp only [NormalChar, metaChars_eq]
          simp only [Bool.or_eq_true, beq_iff_eq, not_or] at hmeta
          have p1 : c ≠ '(' := hne1
          have p2 : c ≠ '[' := hne2
          have p3 : c ≠ '.' := hne3
          have p4 : c ≠ '\\' := hne4
          have p5 : c ≠ ')' := fun e => hpar r0 (by rw [e])
          have p6 : c ≠ '|' := fun e => hbar r0 (by rw [e])
          simp [p1, p2, p3, p4, p5, p6, hmeta]

/-- every text the XSD parser accepts is a spelling of the tree it returns -/
theorem parseChars_sound (s : List Char) (p : Pat) (h : parseChars s = .ok p) : Derives p s := by
  unfold parseChars parseCharsD at h
  split at h
  · rename_i p' r heq
    simp at h
    subst h
    obtain ⟨t, ht, hd⟩ := (seq_sound _).1 _ _ _ _ _ _ _ _ heq .nil .nil
    have hr : r = [] := by
      have : ∀ f g alts cur s p r, parseSeq .xsd f g alts cur s = .ok (p, r) → g = false → r = [] := by
        intro f
        induction f with
        | zero => intros; simp_all [parseSeq]
        | succ f ih =>
          intro g alts cur s p r h hg
          unfold parseSeq at h
          split at h
          · split at h <;> simp at h
            first | exact h.2 | exact h.2.symm
          · split at h <;> simp at h
            simp_all
          · exact ih _ _ _ _ _ _ h hg
          · rw [bind_eq_ok] at h
            obtain ⟨⟨a, r1⟩, h1, h2⟩ := h
            dsimp only at h2
            rw [bind_eq_ok] at h2
            obtain ⟨⟨q, r2⟩, h3, h4⟩ := h2
            exact ih _ _ _ _ _ _ h4 hg
      exact this _ _ _ _ _ _ _ heq rfl
    subst hr
    simp at ht hd
    rw [ht]; exact hd
  · simp at h

end LyModel.XsdRe
