import LyModel.XsdRe.SemMceLemmas
import LyModel.XsdRe.RewriteSub
/-!
# Pass 1 with the class-subtraction repair (`escapeLoopS`) on canonical texts (core Lean only)

* (S1) `escapeLoopS_eq_escapeLoopM`: on ANY byte text in which the loop meets no subtraction trigger (`noSubTrig`) the loop
  with the repair, resolved, is `escapeLoopM`;
* (S1') `escapeLoopS_render`, `rewriteS_render`: the canonical XSD text of a pattern of the PCRE fragment is such a text;
* (S2) `subtraction_text`: what the repaired loop makes of a class with subtractions.
-/
namespace LyModel.XsdRe

/-! ### `resolve` -/

theorem resolveGo_b (x : UInt8) (t : List Ev) : resolveGo (.b x :: t) = ((resolveGo t).1, x :: (resolveGo t).2) := rfl

theorem resolveGo_wrap (t : List Ev) : resolveGo (.wrap :: t) = (true, (resolveGo t).2) := rfl

theorem resolveGo_clsStart (t : List Ev) :
    resolveGo (.clsStart :: t) = (false, if (resolveGo t).1 then subOpenText ++ (resolveGo t).2 else (resolveGo t).2) := rfl

theorem resolveGo_evBytes : ∀ (bs : Bytes) (t : List Ev),
    resolveGo (evBytes bs ++ t) = ((resolveGo t).1, bs ++ (resolveGo t).2)
  | [], t => rfl
  | x :: bs, t => by
    show resolveGo (.b x :: (evBytes bs ++ t)) = _
    rw [resolveGo_b, resolveGo_evBytes bs t]
    rfl

theorem maskClear_nil (d : Nat) : maskClear [] d = [] := by simp [maskClear]
theorem maskTest_nil (d : Nat) : maskTest [] d = false := by simp [maskTest]

/-! ### (S1) no subtraction trigger: the loop as it was -/

/-- the loop never meets an unescaped `-` at depth ≥ 1 directly followed by `[` (the state is `brack`, `escaped`; an escaped
    byte changes neither, whatever the table) -/
def noSubTrig : Nat → Bool → Bytes → Bool
  | _, _, [] => true
  | b, true, _ :: r => noSubTrig b false r
  | b, false, c :: r =>
    if c = bBackslash then noSubTrig b true r
    else if c = bOpen then noSubTrig (b + 1) false r
    else if c = bClose then (if b = 0 then true else noSubTrig (b - 1) false r)
    else !(c == bMinus && b != 0 && r.head? == some bOpen) && noSubTrig b false r

private theorem lift (X : Except RwErr (List Ev)) (Y : Except RwErr Bytes) (f : List Ev → List Ev) (g : Bytes → Bytes)
    (hfg : ∀ t o, resolveGo t = (false, o) → resolveGo (f t) = (false, g o))
    (h : X.map resolveGo = Y.map (fun o => (false, o))) : (X.map f).map resolveGo = (Y.map g).map (fun o => (false, o)) := by
  cases X <;> cases Y <;> simp only [Except.map, Except.ok.injEq, Except.error.injEq, reduceCtorEq] at h ⊢
  · exact h
  · exact hfg _ _ h

private theorem lift_pre (pre : Bytes) (c : UInt8) : ∀ t o, resolveGo t = (false, o) →
    resolveGo (evBytes pre ++ .b c :: t) = (false, pre ++ c :: o) := by
  intro t o h
  rw [resolveGo_evBytes, resolveGo_b, h]

/-- the state of the loop outside a subtraction -/
abbrev plainSt (b : Nat) (e : Bool) : SubSt := { brack := b, escaped := e }

theorem escapeLoopS_go (tbl : List (UInt8 × Bytes)) (fx : Fixes) : ∀ (s : Bytes) (b : Nat) (e : Bool),
    noSubTrig b e s = true →
    (escapeLoopS tbl fx (plainSt b e) s).map resolveGo = (escapeLoopM tbl fx b e s).map (fun o => (false, o))
  | [], b, e, _ => by cases e <;> rfl
  | c :: rest, b, true, h => by
    have ih := escapeLoopS_go tbl fx rest
    have h' : noSubTrig b false rest = true := by simpa [noSubTrig] using h
    rw [escapeLoopS, escapeLoopM]
    simp only [Bool.false_eq_true, if_false, if_true]
    cases hl : mceLookup tbl c with
    | some m =>
      simp only []
      exact lift _ _ _ _ (by intro t o ht; rw [resolveGo_evBytes, ht]) (ih b false h')
    | none =>
      simp only []
      have hm : bMinus ≠ bBackslash ∧ bMinus ≠ bDollar ∧ bMinus ≠ bCaret := by decide
      by_cases hb : c = bBackslash
      · simp only [hb, if_true]
        exact lift _ _ _ _ (lift_pre [bBackslash] _) (ih b false h')
      simp only [hb, if_false]
      by_cases ha : c = bDollar ∨ c = bCaret
      · simp only [ha, if_true]
        split
        · exact lift _ _ (fun t => evBytes [bBackslash, bBackslash] ++ .b c :: t) _ (lift_pre _ _) (ih b false h')
        · exact lift _ _ _ _ (lift_pre [bBackslash] _) (ih b false h')
      simp only [ha, if_false, Bool.true_eq_false, and_false, false_and, if_false]
      by_cases ho : c = bOpen
      · simp only [ho, if_true]
        exact lift _ _ _ _ (lift_pre [bBackslash] _) (ih b false h')
      simp only [ho, if_false]
      by_cases hc : c = bClose
      · simp only [hc, if_true]
        exact lift _ _ _ _ (lift_pre [bBackslash] _) (ih b false h')
      simp only [hc, if_false]
      exact lift _ _ _ _ (lift_pre [bBackslash] _) (ih b false h')
  | c :: rest, b, false, h => by
    have ih := escapeLoopS_go tbl fx rest
    rw [escapeLoopS, escapeLoopM]
    simp only [Bool.false_eq_true, if_false]
    by_cases hb : c = bBackslash
    · have h' : noSubTrig b true rest = true := by simpa [noSubTrig, hb] using h
      simp only [hb, if_true]
      exact ih b true h'
    simp only [hb, if_false]
    by_cases ha : c = bDollar ∨ c = bCaret
    · have h' : noSubTrig b false rest = true := by
        have h1 : c ≠ bOpen := by rcases ha with h | h <;> subst h <;> decide
        have h2 : c ≠ bClose := by rcases ha with h | h <;> subst h <;> decide
        simp only [noSubTrig, hb, h1, h2, if_false, Bool.and_eq_true] at h
        exact h.2
      simp only [ha, if_true]
      split
      · exact lift _ _ (fun t => evBytes [bBackslash] ++ .b c :: t) _ (lift_pre _ _) (ih b false h')
      · exact lift _ _ _ _ (lift_pre [] _) (ih b false h')
    simp only [ha, if_false]
    by_cases ho : c = bOpen
    · have h' : noSubTrig (b + 1) false rest = true := by
        have h1 : bOpen ≠ bBackslash := by decide
        simpa [noSubTrig, ho, h1] using h
      have hmo : ¬ (bOpen = bMinus) := by decide
      simp only [ho, hmo, false_and, if_false, if_true, maskClear_nil]
      refine lift _ _ _ _ ?_ (ih (b + 1) false h')
      intro t o ht
      by_cases hb0 : b = 0
      · simp only [hb0, if_true]
        rw [List.singleton_append, resolveGo_clsStart, resolveGo_b, ht]; rfl
      · simp only [hb0, if_false]
        rw [List.nil_append, resolveGo_b, ht]; rfl
    simp only [ho, if_false]
    by_cases hc : c = bClose
    · have hmc : ¬ (bClose = bMinus) := by decide
      simp only [hc, hmc, false_and, if_false, if_true, and_true, maskTest_nil]
      by_cases hb0 : b = 0
      · simp [hb0, Except.map]
      · have h' : noSubTrig (b - 1) false rest = true := by
          have h1 : bClose ≠ bBackslash := by decide
          have h2 : bClose ≠ bOpen := by decide
          simpa [noSubTrig, hc, h1, h2, hb0] using h
        simp only [hb0, if_false, and_false, List.append_nil, Bool.false_eq_true]
        have hw : (if b - 1 = 0 then false else false) = false := by split <;> rfl
        rw [hw]
        exact lift _ _ (fun t => evBytes [] ++ .b bClose :: t) _ (lift_pre [] _) (ih (b - 1) false h')
    simp only [hc, if_false]
    have hh : ¬ (c = bMinus ∧ b ≠ 0 ∧ rest.head? = some bOpen) ∧ noSubTrig b false rest = true := by
      simp only [noSubTrig, hb, ho, hc, if_false, Bool.and_eq_true, Bool.not_eq_true', Bool.and_eq_false_iff] at h
      refine ⟨?_, h.2⟩
      rintro ⟨h1, h2, h3⟩
      simp [h1, h2, h3] at h
    simp only [true_and, hh.1, if_false]
    exact lift _ _ _ _ (lift_pre [] _) (ih b false hh.2)

/-- (S1) without a subtraction trigger the repaired loop, resolved, is `escapeLoopM` -/
theorem escapeLoopS_eq_escapeLoopM (tbl : List (UInt8 × Bytes)) (fx : Fixes) (b : Nat) (e : Bool) (s : Bytes)
    (h : noSubTrig b e s = true) :
    (escapeLoopS tbl fx { brack := b, escaped := e } s).map resolve = escapeLoopM tbl fx b e s := by
  have := escapeLoopS_go tbl fx s b e h
  revert this
  cases escapeLoopS tbl fx (plainSt b e) s <;> cases escapeLoopM tbl fx b e s <;>
    simp only [Except.map, Except.ok.injEq, Except.error.injEq, reduceCtorEq, resolve, imp_self]
  intro h; rw [h]

/-! ### (S1') character level -/

def noSubTrigC : Nat → Bool → List Char → Bool
  | _, _, [] => true
  | b, true, _ :: r => noSubTrigC b false r
  | b, false, c :: r =>
    if c = '\\' then noSubTrigC b true r
    else if c = '[' then noSubTrigC (b + 1) false r
    else if c = ']' then (if b = 0 then true else noSubTrigC (b - 1) false r)
    else !(c == '-' && b != 0 && r.head? == some '[') && noSubTrigC b false r

/-- reading `chunk` at depth `b` (not escaped) meets no trigger and ends at depth `b'` (not escaped) -/
def TSteps (b : Nat) (chunk : List Char) (b' : Nat) : Prop :=
  ∀ rest, noSubTrigC b' false rest = true → noSubTrigC b false (chunk ++ rest) = true

theorem TSteps.nil (b : Nat) : TSteps b [] b := fun _ h => h

theorem TSteps.append {b b1 b2 : Nat} {c1 c2 : List Char} (h1 : TSteps b c1 b1) (h2 : TSteps b1 c2 b2) :
    TSteps b (c1 ++ c2) b2 := by
  intro rest h
  rw [List.append_assoc]
  exact h1 _ (h2 _ h)

/-- not a backslash, not a bracket -/
def noSpec (c : Char) : Prop := c ≠ '\\' ∧ c ≠ '[' ∧ c ≠ ']'

theorem noSubTrigC_cons (b : Nat) (c : Char) (r : List Char) (h : noSpec c) :
    noSubTrigC b false (c :: r) = (!(c == '-' && b != 0 && r.head? == some '[') && noSubTrigC b false r) := by
  simp only [noSubTrigC, h.1, h.2.1, h.2.2, if_false]

theorem TSteps.one (b : Nat) (c : Char) (h : noSpec c) (hd : c ≠ '-' ∨ b = 0) : TSteps b [c] b := by
  intro rest hr
  rw [List.singleton_append, noSubTrigC_cons b c rest h, hr]
  rcases hd with hd | hd
  · have : (c == '-') = false := by simpa using hd
    simp [this]
  · simp [hd]

theorem TSteps.cons {b b' : Nat} {c : Char} {r : List Char} (h : noSpec c) (hd : c ≠ '-' ∨ b = 0) (hr : TSteps b r b') :
    TSteps b (c :: r) b' :=
  TSteps.append (TSteps.one b c h hd) hr

/-- characters without backslash and brackets, the last of them not a dash -/
theorem TSteps.dashy (b : Nat) (d : Char) (hd : noSpec d) (hdd : d ≠ '-') : ∀ (cs : List Char), (∀ c ∈ cs, noSpec c) →
    TSteps b (cs ++ [d]) b
  | [], _ => TSteps.one b d hd (Or.inl hdd)
  | c :: cs, h => by
    intro rest hr
    have ih := TSteps.dashy b d hd hdd cs (fun x hx => h x (by simp [hx])) rest hr
    rw [List.cons_append, List.cons_append, noSubTrigC_cons b c _ (h c (by simp)), ih]
    have hh : (cs ++ [d] ++ rest).head? ≠ some '[' := by
      cases cs with
      | nil => simpa using hd.2.1
      | cons x xs => simpa using (h x (by simp)).2.1
    have : ((cs ++ [d] ++ rest).head? == some '[') = false := by simpa using hh
    rw [this]
    simp

theorem TSteps.plains0 : ∀ (cs : List Char), (∀ c ∈ cs, isPlain c = true) → TSteps 0 cs 0
  | [], _ => TSteps.nil 0
  | c :: cs, h => by
    obtain ⟨h1, _, _, h4, h5⟩ := (isPlain_iff c).1 (h c (by simp))
    exact TSteps.cons ⟨h1, h4, h5⟩ (Or.inr rfl) (TSteps.plains0 cs (fun x hx => h x (by simp [hx])))

theorem TSteps.escaped (b : Nat) (c : Char) : TSteps b ['\\', c] b := by
  intro rest hr
  simpa [noSubTrigC] using hr

theorem TSteps.open_ (b : Nat) : TSteps b ['['] (b + 1) := by
  intro rest hr
  simpa [noSubTrigC] using hr

theorem TSteps.close (b : Nat) : TSteps (b + 1) [']'] b := by
  intro rest hr
  simpa [noSubTrigC] using hr

/-- a dash followed by something other than `[` -/
theorem TSteps.dash {b b' : Nat} (d : Char) (r : List Char) (hd : d ≠ '[') (h : TSteps b (d :: r) b') :
    TSteps b ('-' :: d :: r) b' := by
  intro rest hr
  have := h rest hr
  rw [List.cons_append, noSubTrigC_cons b '-' _ ⟨by decide, by decide, by decide⟩, this]
  have : (d == '[') = false := by simpa using hd
  simp [this]

theorem TSteps.chr (c : Char) : TSteps 0 (renderChr .xsd c) 0 := by
  unfold renderChr
  split
  · exact TSteps.escaped 0 'n'
  split
  · exact TSteps.escaped 0 'r'
  split
  · exact TSteps.escaped 0 't'
  split
  · exact TSteps.escaped 0 c
  · rename_i h
    have hm : metaChars.contains c = false := by
      cases hh : metaChars.contains c
      · rfl
      · rw [hh] at h; simp at h
    refine TSteps.one 0 c ⟨?_, ?_, ?_⟩ (Or.inr rfl) <;> (intro hc; subst hc; revert hm; decide)

theorem renderClsChr_cases (c : Char) :
    (∃ x, renderClsChr c = ['\\', x]) ∨ (renderClsChr c = [c] ∧ noSpec c ∧ c ≠ '-') := by
  unfold renderClsChr
  split
  · exact Or.inl ⟨_, rfl⟩
  split
  · exact Or.inl ⟨_, rfl⟩
  split
  · exact Or.inl ⟨_, rfl⟩
  split
  · exact Or.inl ⟨_, rfl⟩
  · rename_i h
    have hm : clsMetaChars.contains c = false := by
      cases hh : clsMetaChars.contains c
      · rfl
      · exact absurd hh h
    refine Or.inr ⟨rfl, ⟨?_, ?_, ?_⟩, ?_⟩ <;> (intro hc; subst hc; revert hm; decide)

theorem TSteps.clsChr (b : Nat) (c : Char) : TSteps b (renderClsChr c) b := by
  rcases renderClsChr_cases c with ⟨x, hx⟩ | ⟨h1, h2, h3⟩
  · rw [hx]; exact TSteps.escaped b x
  · rw [h1]; exact TSteps.one b c h2 (Or.inl h3)

theorem TSteps.dashClsChr (b : Nat) (c : Char) : TSteps b ('-' :: renderClsChr c) b := by
  rcases renderClsChr_cases c with ⟨x, hx⟩ | ⟨h1, h2, h3⟩
  · rw [hx]; exact TSteps.dash '\\' [x] (by decide) (TSteps.escaped b x)
  · rw [h1]; exact TSteps.dash c [] h2.2.1 (TSteps.one b c h2 (Or.inl h3))

theorem isNameCh_noSpec (c : Char) (h : isNameCh c = true) : noSpec c := by
  obtain ⟨h1, _, _, h4, h5⟩ := (isPlain_iff c).1 (isNameCh_plain c h)
  exact ⟨h1, h4, h5⟩

theorem TSteps.esc (b : Nat) (neg : Bool) (e : Esc) (hwf : e.wf = true) : TSteps b (e.render neg) b := by
  cases e with
  | dig => exact TSteps.escaped b _
  | word => exact TSteps.escaped b _
  | space => exact TSteps.escaped b _
  | nameStart => exact TSteps.escaped b _
  | nameChar => exact TSteps.escaped b _
  | cat n =>
    simp only [Esc.wf, Bool.and_eq_true, List.all_eq_true] at hwf
    have := TSteps.dashy b '}' ⟨by decide, by decide, by decide⟩ (by decide) ('{' :: n.toList) (by
      intro c hc
      simp only [List.mem_cons] at hc
      rcases hc with h | h
      · subst h; exact ⟨by decide, by decide, by decide⟩
      · exact isNameCh_noSpec c (hwf.1.2 c h))
    show TSteps b (['\\', if neg then 'P' else 'p'] ++ (('{' :: n.toList) ++ ['}'])) b
    exact TSteps.append (TSteps.escaped b _) this
  | block n =>
    simp only [Esc.wf, Bool.and_eq_true, List.all_eq_true] at hwf
    have := TSteps.dashy b '}' ⟨by decide, by decide, by decide⟩ (by decide) ('{' :: 'I' :: 's' :: n.toList) (by
      intro c hc
      simp only [List.mem_cons] at hc
      rcases hc with h | h | h | h
      · subst h; exact ⟨by decide, by decide, by decide⟩
      · subst h; exact ⟨by decide, by decide, by decide⟩
      · subst h; exact ⟨by decide, by decide, by decide⟩
      · exact isNameCh_noSpec c (hwf.2 c h))
    show TSteps b (['\\', if neg then 'P' else 'p'] ++ (('{' :: 'I' :: 's' :: n.toList) ++ ['}'])) b
    exact TSteps.append (TSteps.escaped b _) this

theorem TSteps.citem (b : Nat) (i : CItem) (hwf : i.wf = true) : TSteps b i.render b := by
  cases i with
  | ch c => exact TSteps.clsChr b c
  | range lo hi => exact TSteps.append (TSteps.clsChr b lo) (TSteps.dashClsChr b hi)
  | esc neg e => exact TSteps.esc b neg e hwf

theorem TSteps.citems (b : Nat) : ∀ (is : List CItem), (∀ i ∈ is, i.wf = true) → TSteps b (is.flatMap CItem.render) b
  | [], _ => TSteps.nil b
  | i :: is, h => by
    simp only [List.flatMap_cons]
    exact TSteps.append (TSteps.citem b i (h i (by simp))) (TSteps.citems b is (fun x hx => h x (by simp [hx])))

theorem TSteps.cgroup (b : Nat) (g : CGroup) (h : ∀ i ∈ g.items, i.wf = true) : TSteps b g.render b := by
  unfold CGroup.render
  refine TSteps.append ?_ (TSteps.citems b g.items h)
  cases g.neg
  · exact TSteps.nil b
  · exact TSteps.one b '^' ⟨by decide, by decide, by decide⟩ (Or.inl (by decide))

/-- a class without subtraction -/
theorem TSteps.cclass1 (b : Nat) (cc : CClass) (hl : cc.length ≤ 1) (h : ∀ g ∈ cc, ∀ i ∈ g.items, i.wf = true) :
    TSteps (b + 1) (CClass.render cc) b := by
  match cc, hl, h with
  | [], _, _ => exact TSteps.close b
  | [g], _, h =>
    simp only [CClass.render]
    exact TSteps.append (TSteps.cgroup (b + 1) g (h g (by simp))) (TSteps.close b)
  | _ :: _ :: _, hl, _ => simp at hl

theorem TSteps.pat : ∀ (p : Pat), p.wf = true → p.inDialect .pcre = true → TSteps 0 (p.render .xsd) 0
  | .eps, _, _ => TSteps.nil 0
  | .chr c, _, _ => TSteps.chr c
  | .dot, _, _ => TSteps.one 0 '.' ⟨by decide, by decide, by decide⟩ (Or.inr rfl)
  | .esc neg e, h, _ => TSteps.esc 0 neg e h
  | .cls cc, h, hd => by
    simp only [Pat.wf, CClass.wf, CGroup.wf, Bool.and_eq_true, List.all_eq_true] at h
    simp only [Pat.inDialect, CClass.inDialect, Dialect.pcre, Bool.false_or, Bool.and_eq_true, decide_eq_true_eq] at hd
    exact TSteps.append (TSteps.open_ 0) (TSteps.cclass1 0 cc hd.1 (fun g hg i hi => (h.2 g hg).2 i hi))
  | .alt a b, h, hd => by
    simp only [Pat.wf, Pat.inDialect, Bool.and_eq_true] at h hd
    exact TSteps.append (TSteps.pat a h.1 hd.1)
      (TSteps.cons ⟨by decide, by decide, by decide⟩ (Or.inr rfl) (TSteps.pat b h.2 hd.2))
  | .cat a b, h, hd => by
    simp only [Pat.wf, Pat.inDialect, Bool.and_eq_true] at h hd
    exact TSteps.append (TSteps.pat a h.1 hd.1) (TSteps.pat b h.2 hd.2)
  | .rep p lo hi, h, hd => by
    simp only [Pat.wf, Pat.inDialect, Bool.and_eq_true] at h hd
    exact TSteps.append (TSteps.pat p h.1 hd.1) (TSteps.plains0 _ (renderQuant_plain lo hi))
  | .group p, h, hd => by
    simp only [Pat.wf, Pat.inDialect, Bool.and_eq_true] at h hd
    exact TSteps.cons ⟨by decide, by decide, by decide⟩ (Or.inr rfl)
      (TSteps.append (TSteps.pat p h.1 hd) (TSteps.one 0 ')' ⟨by decide, by decide, by decide⟩ (Or.inr rfl)))

theorem noSubTrigC_render (p : Pat) (hwf : p.wf = true) (hd : p.inDialect .pcre = true) :
    noSubTrigC 0 false (p.render .xsd) = true := by
  have := TSteps.pat p hwf hd [] rfl
  simpa using this


/-! ### (S1') bytes -/

theorem utf8_minus (cs : List Char) : utf8 ('-' :: cs) = bMinus :: utf8 cs := rfl

theorem noSubTrig_skip (b : Nat) : ∀ (bs t : Bytes),
    (∀ x ∈ bs, x ≠ bBackslash ∧ x ≠ bOpen ∧ x ≠ bClose ∧ x ≠ bMinus) → noSubTrig b false (bs ++ t) = noSubTrig b false t
  | [], _, _ => rfl
  | x :: bs, t, h => by
    obtain ⟨h1, h2, h3, h4⟩ := h x (by simp)
    have h4' : (x == bMinus) = false := by simpa using h4
    simp only [List.cons_append, noSubTrig, h1, h2, h3, h4', if_false, Bool.false_and, Bool.not_false, Bool.true_and]
    exact noSubTrig_skip b bs t (fun y hy => h y (by simp [hy]))

theorem utf8_head_open (cs : List Char) (h : (utf8 cs).head? = some bOpen) : cs.head? = some '[' := by
  cases cs with
  | nil => simp [utf8_nil] at h
  | cons d r =>
    rw [utf8_cons] at h
    cases he : String.utf8EncodeChar d with
    | nil => exact absurd he String.utf8EncodeChar_ne_nil
    | cons x xs =>
      rw [he] at h
      simp only [List.cons_append, List.head?_cons, Option.some.injEq] at h
      have : d = '[' := enc_mem_ascii d '[' (by decide) (by rw [he, h]; exact List.mem_cons_self)
      simp [this]

/-- the bridge -/
theorem noSubTrig_utf8 : ∀ (cs : List Char) (b : Nat) (e : Bool), noSubTrigC b e cs = true → noSubTrig b e (utf8 cs) = true
  | [], b, e, _ => by cases e <;> rfl
  | c :: cs, b, true, h => by
    have h' : noSubTrigC b false cs = true := by simpa [noSubTrigC] using h
    have ih := noSubTrig_utf8 cs b false h'
    rw [utf8_cons]
    cases he : String.utf8EncodeChar c with
    | nil => exact absurd he String.utf8EncodeChar_ne_nil
    | cons x xs =>
      have hxs : ∀ y ∈ xs, y ≠ bBackslash ∧ y ≠ bOpen ∧ y ≠ bClose ∧ y ≠ bMinus := by
        by_cases ha : c.toNat < 128
        · rw [enc_ascii c ha] at he
          simp only [List.cons.injEq] at he
          intro y hy; rw [← he.2] at hy; simp at hy
        · intro y hy
          have := enc_high c (by omega) y (by simp [he, hy])
          refine ⟨?_, ?_, ?_, ?_⟩ <;> (intro hyb; rw [hyb] at this; revert this; decide)
      simp only [List.cons_append, noSubTrig]
      rw [noSubTrig_skip b _ _ hxs]
      exact ih
  | c :: cs, b, false, h => by
    by_cases h1 : c = '\\'
    · subst h1
      have h' : noSubTrigC b true cs = true := by simpa [noSubTrigC] using h
      have := noSubTrig_utf8 cs b true h'
      rw [utf8_bs]
      simpa [noSubTrig] using this
    by_cases h2 : c = '['
    · subst h2
      have h' : noSubTrigC (b + 1) false cs = true := by simpa [noSubTrigC] using h
      have := noSubTrig_utf8 cs (b + 1) false h'
      have n1 : bOpen ≠ bBackslash := by decide
      rw [utf8_open]
      simpa [noSubTrig, n1] using this
    by_cases h3 : c = ']'
    · subst h3
      have n1 : bClose ≠ bBackslash := by decide
      have n2 : bClose ≠ bOpen := by decide
      rw [utf8_close]
      by_cases hb0 : b = 0
      · simp [noSubTrig, n1, n2, hb0]
      · have h' : noSubTrigC (b - 1) false cs = true := by simpa [noSubTrigC, hb0] using h
        have := noSubTrig_utf8 cs (b - 1) false h'
        simpa [noSubTrig, n1, n2, hb0] using this
    have hns : noSpec c := ⟨h1, h2, h3⟩
    rw [noSubTrigC_cons b c cs hns, Bool.and_eq_true] at h
    have ih := noSubTrig_utf8 cs b false h.2
    by_cases h4 : c = '-'
    · subst h4
      have n1 : bMinus ≠ bBackslash := by decide
      have n2 : bMinus ≠ bOpen := by decide
      have n3 : bMinus ≠ bClose := by decide
      rw [utf8_minus]
      simp only [noSubTrig, n1, n2, n3, if_false, ih, Bool.and_true, beq_self_eq_true, Bool.true_and]
      have h5 := h.1
      simp only [beq_self_eq_true, Bool.true_and, Bool.not_eq_true', Bool.and_eq_false_iff] at h5 ⊢
      rcases h5 with h5 | h5
      · exact Or.inl h5
      · refine Or.inr ?_
        cases hh : ((utf8 cs).head? == some bOpen)
        · rfl
        · have := utf8_head_open cs (by simpa using hh)
          simp [this] at h5
    · rw [utf8_cons, noSubTrig_skip b _ _ (fun x hx =>
        ⟨enc_ne c '\\' (by decide) h1 x hx, enc_ne c '[' (by decide) h2 x hx, enc_ne c ']' (by decide) h3 x hx,
          enc_ne c '-' (by decide) h4 x hx⟩)]
      exact ih

theorem noSubTrig_render (p : Pat) (hwf : p.wf = true) (hd : p.inDialect .pcre = true) :
    noSubTrig 0 false (utf8 (p.render .xsd)) = true :=
  noSubTrig_utf8 _ 0 false (noSubTrigC_render p hwf hd)

/-- (S1') the loop with both repairs on the canonical text of a pattern of the PCRE fragment -/
theorem escapeLoopS_render (tbl : List (UInt8 × Bytes)) (htbl : ∀ e ∈ tbl, e.1 ∈ mceLetters) (fx : Fixes) (p : Pat)
    (hwf : p.wf = true) (hd : p.inDialect .pcre = true) :
    (escapeLoopS tbl fx {} (utf8 (p.render .xsd))).map resolve = .ok (utf8 (p.render .pcre)) := by
  rw [← escapeLoopM_render tbl htbl fx p hwf hd]
  exact escapeLoopS_eq_escapeLoopM tbl fx 0 false _ (noSubTrig_render p hwf hd)

theorem rewriteS_render (tbl : List (UInt8 × Bytes)) (htbl : ∀ e ∈ tbl, e.1 ∈ mceLetters) (fx : Fixes) (p : Pat)
    (hwf : p.wf = true) (hd : p.inDialect .pcre = true) (hn : p.noNul = true) (hb : p.noClsBrace = true) :
    rewriteWithS tbl fx (utf8 (p.render .xsd)) = .ok (utf8 (p.render .pcre)) := by
  have h := escapeLoopS_render tbl htbl fx p hwf hd
  simp only [rewriteWithS, cstr_render .xsd p hwf hn]
  cases hx : escapeLoopS tbl fx {} (utf8 (p.render .xsd)) with
  | error e => rw [hx] at h; cases h
  | ok evs =>
    rw [hx] at h
    simp only [Except.map, Except.ok.injEq] at h
    simp only [h]
    exact chblocks_render fx p hwf hd hb


/-! ### (S2) inside a class, any subtraction state -/

/-- a state between two members of a class -/
abbrev inSt (d : Nat) (m : List Nat) (w : Bool) : SubSt :=
  { brack := d, escaped := false, mask := m, wrapped := w, closed := false, skip := false }

private theorem emap_map' (x : Except RwErr (List Ev)) (f g : List Ev → List Ev) :
    (x.map f).map g = x.map (fun o => g (f o)) := by
  cases x <;> rfl

private theorem emap_id' (x : Except RwErr (List Ev)) : x.map (fun o => o) = x := by
  cases x <;> rfl

section loop
variable (tbl : List (UInt8 × Bytes)) (fx : Fixes)

/-- a byte that is neither a backslash, a bracket nor a dash is copied inside a class -/
theorem loopS_other (d : Nat) (m : List Nat) (w : Bool) (x : UInt8) (rest : Bytes)
    (h1 : x ≠ bBackslash) (h2 : x ≠ bOpen) (h3 : x ≠ bClose) (h4 : x ≠ bMinus) :
    escapeLoopS tbl fx (inSt (d + 1) m w) (x :: rest) = (escapeLoopS tbl fx (inSt (d + 1) m w) rest).map (.b x :: ·) := by
  rw [escapeLoopS]
  simp only [Bool.false_eq_true, if_false, h1, h2, h3, h4, false_and, Nat.succ_ne_zero, and_false,
    List.nil_append]
  split <;> rfl

theorem loopS_dash (d : Nat) (m : List Nat) (w : Bool) (rest : Bytes) (h : rest.head? ≠ some bOpen) :
    escapeLoopS tbl fx (inSt (d + 1) m w) (bMinus :: rest) =
      (escapeLoopS tbl fx (inSt (d + 1) m w) rest).map (.b bMinus :: ·) := by
  have n1 : bMinus ≠ bBackslash := by decide
  have n2 : ¬ (bMinus = bDollar ∨ bMinus = bCaret) := by decide
  have n3 : bMinus ≠ bOpen := by decide
  have n4 : bMinus ≠ bClose := by decide
  rw [escapeLoopS]
  simp only [Bool.false_eq_true, if_false, n1, n2, n3, n4, h, and_false, List.nil_append]

/-- bytes without backslash and brackets, the last of them not a dash -/
theorem loopS_dashy (d : Nat) (m : List Nat) (w : Bool) (y : UInt8) (rest : Bytes)
    (hy : y ≠ bBackslash ∧ y ≠ bOpen ∧ y ≠ bClose) (hyd : y ≠ bMinus) : ∀ (bs : Bytes),
    (∀ x ∈ bs, x ≠ bBackslash ∧ x ≠ bOpen ∧ x ≠ bClose) →
    escapeLoopS tbl fx (inSt (d + 1) m w) (bs ++ y :: rest) =
      (escapeLoopS tbl fx (inSt (d + 1) m w) rest).map (evBytes (bs ++ [y]) ++ ·)
  | [], _ => by
    rw [List.nil_append, loopS_other tbl fx d m w y rest hy.1 hy.2.1 hy.2.2 hyd]
    rfl
  | x :: bs, h => by
    have ih := loopS_dashy d m w y rest hy hyd bs (fun z hz => h z (by simp [hz]))
    obtain ⟨h1, h2, h3⟩ := h x (by simp)
    rw [List.cons_append]
    by_cases hx : x = bMinus
    · have hh : (bs ++ y :: rest).head? ≠ some bOpen := by
        cases bs with
        | nil => simpa using hy.2.1
        | cons z zs => simpa using (h z (by simp)).2.1
      rw [hx, loopS_dash tbl fx d m w _ hh, ih, emap_map']
      rfl
    · rw [loopS_other tbl fx d m w x _ h1 h2 h3 hx, ih, emap_map']
      rfl

/-- `\x` where `x` is no escape of the table -/
theorem loopS_escaped (d : Nat) (m : List Nat) (w : Bool) (x : UInt8) (rest : Bytes) (hl : mceLookup tbl x = none) :
    escapeLoopS tbl fx (inSt (d + 1) m w) (bBackslash :: x :: rest) =
      (escapeLoopS tbl fx (inSt (d + 1) m w) rest).map (fun t => .b bBackslash :: .b x :: t) := by
  rw [escapeLoopS]
  simp only [Bool.false_eq_true, if_false, if_true]
  rw [escapeLoopS]
  simp only [Bool.false_eq_true, if_false, if_true, hl, Nat.succ_ne_zero, false_and,
    List.singleton_append]
  by_cases hb : x = bBackslash
  · simp only [hb, if_true]
  simp only [hb, if_false]
  by_cases ha : x = bDollar ∨ x = bCaret
  · simp only [ha, if_true]
  simp only [ha, if_false, Bool.true_eq_false, and_false, false_and]
  by_cases ho : x = bOpen
  · simp only [ho, if_true]
  simp only [ho, if_false]
  by_cases hc : x = bClose
  · simp only [hc, if_true]
  simp only [hc, if_false]

end loop


theorem evBytes_append (a b : Bytes) : evBytes (a ++ b) = evBytes a ++ evBytes b := by
  simp [evBytes]

section members
variable (tbl : List (UInt8 × Bytes)) (htbl : ∀ e ∈ tbl, e.1 ∈ mceLetters) (fx : Fixes)

/-- `chunk` is copied inside a class, whatever the subtraction state -/
def SSteps (chunk : List Char) : Prop :=
  ∀ (d : Nat) (m : List Nat) (w : Bool) (rest : Bytes),
    escapeLoopS tbl fx (inSt (d + 1) m w) (utf8 chunk ++ rest) =
      (escapeLoopS tbl fx (inSt (d + 1) m w) rest).map (evBytes (utf8 chunk) ++ ·)

theorem SSteps.nil : SSteps tbl fx [] := by
  intro d m w rest
  exact (emap_id' _).symm

variable {tbl fx} in
theorem SSteps.append {a b : List Char} (ha : SSteps tbl fx a) (hb : SSteps tbl fx b) : SSteps tbl fx (a ++ b) := by
  intro d m w rest
  rw [utf8_append, List.append_assoc, ha, hb, emap_map', evBytes_append]
  simp only [List.append_assoc]

theorem utf8_noSpec (cs : List Char) (h : ∀ c ∈ cs, noSpec c) :
    ∀ x ∈ utf8 cs, x ≠ bBackslash ∧ x ≠ bOpen ∧ x ≠ bClose := by
  intro x hx
  simp only [utf8, List.mem_flatMap] at hx
  obtain ⟨c, hc, hx⟩ := hx
  obtain ⟨h1, h2, h3⟩ := h c hc
  exact ⟨enc_ne c '\\' (by decide) h1 x hx, enc_ne c '[' (by decide) h2 x hx, enc_ne c ']' (by decide) h3 x hx⟩

theorem SSteps.dashy (cs : List Char) (c : Char) (h : ∀ x ∈ cs, noSpec x) (hc : noSpec c) (hcd : c ≠ '-') :
    SSteps tbl fx (cs ++ [c]) := by
  intro d m w rest
  have hne : String.utf8EncodeChar c ≠ [] := String.utf8EncodeChar_ne_nil
  have hsplit := List.dropLast_concat_getLast hne
  generalize (String.utf8EncodeChar c).dropLast = ds at hsplit
  generalize hy : (String.utf8EncodeChar c).getLast hne = y at hsplit
  have hB : utf8 (cs ++ [c]) = (utf8 cs ++ ds) ++ [y] := by
    rw [utf8_append, utf8_cons, utf8_nil, List.append_nil, ← hsplit, List.append_assoc]
  have hyin : y ∈ String.utf8EncodeChar c := by rw [← hsplit]; simp
  have hds : ∀ x ∈ ds, x ∈ String.utf8EncodeChar c := by intro x hx; rw [← hsplit]; simp [hx]
  have hbs : ∀ x ∈ utf8 cs ++ ds, x ≠ bBackslash ∧ x ≠ bOpen ∧ x ≠ bClose := by
    intro x hx
    rcases List.mem_append.1 hx with hx | hx
    · exact utf8_noSpec cs h x hx
    · exact ⟨enc_ne c '\\' (by decide) hc.1 x (hds x hx), enc_ne c '[' (by decide) hc.2.1 x (hds x hx),
        enc_ne c ']' (by decide) hc.2.2 x (hds x hx)⟩
  have hyy : y ≠ bBackslash ∧ y ≠ bOpen ∧ y ≠ bClose :=
    ⟨enc_ne c '\\' (by decide) hc.1 y hyin, enc_ne c '[' (by decide) hc.2.1 y hyin, enc_ne c ']' (by decide) hc.2.2 y hyin⟩
  have := loopS_dashy tbl fx d m w y rest hyy (enc_ne c '-' (by decide) hcd y hyin) (utf8 cs ++ ds) hbs
  rw [hB, List.append_assoc, List.singleton_append]
  exact this

theorem SSteps.one (c : Char) (hc : noSpec c) (hcd : c ≠ '-') : SSteps tbl fx [c] :=
  SSteps.dashy tbl fx [] c (by simp) hc hcd

/-- the characters the printer puts behind a backslash inside a class of the fragment -/
def escChars : List Char := ['n', 'r', 't', '\\', '[', ']', '-', '^', 'd', 'D', 'p', 'P']

include htbl in
theorem SSteps.escaped (c : Char) (h : c ∈ escChars) : SSteps tbl fx ['\\', c] := by
  intro d m w rest
  simp only [escChars, List.mem_cons, List.not_mem_nil, or_false] at h
  rcases h with h | h | h | h | h | h | h | h | h | h | h | h <;> subst h <;>
    exact loopS_escaped tbl fx d m w _ rest (mceLookup_none tbl htbl _ (by decide))

theorem renderClsChr_cases' (c : Char) :
    (∃ x, renderClsChr c = ['\\', x] ∧ x ∈ escChars) ∨ (renderClsChr c = [c] ∧ noSpec c ∧ c ≠ '-') := by
  unfold renderClsChr
  split
  · exact Or.inl ⟨_, rfl, by decide⟩
  split
  · exact Or.inl ⟨_, rfl, by decide⟩
  split
  · exact Or.inl ⟨_, rfl, by decide⟩
  split
  · rename_i h
    refine Or.inl ⟨c, rfl, ?_⟩
    rw [clsMetaChars_eq] at h
    simp only [List.contains_eq_mem, List.mem_cons, List.not_mem_nil, or_false, decide_eq_true_eq] at h
    rcases h with h | h | h | h | h <;> subst h <;> decide
  · rename_i h
    have hm : clsMetaChars.contains c = false := by
      cases hh : clsMetaChars.contains c
      · rfl
      · exact absurd hh h
    refine Or.inr ⟨rfl, ⟨?_, ?_, ?_⟩, ?_⟩ <;> (intro hc; subst hc; revert hm; decide)

include htbl in
theorem SSteps.clsChr (c : Char) : SSteps tbl fx (renderClsChr c) := by
  rcases renderClsChr_cases' c with ⟨x, hx, hxe⟩ | ⟨h1, h2, h3⟩
  · rw [hx]; exact SSteps.escaped tbl htbl fx x hxe
  · rw [h1]; exact SSteps.one tbl fx c h2 h3

include htbl in
theorem SSteps.dashClsChr (c : Char) : SSteps tbl fx ('-' :: renderClsChr c) := by
  rcases renderClsChr_cases' c with ⟨x, hx, hxe⟩ | ⟨h1, h2, h3⟩
  · rw [hx]
    intro d m w rest
    have := SSteps.escaped tbl htbl fx x hxe d m w rest
    rw [utf8_minus, utf8_bs, List.cons_append, loopS_dash tbl fx d m w _ (by simp [bBackslash, bOpen]), ← utf8_bs, this, emap_map']
    rfl
  · rw [h1]
    exact SSteps.dashy tbl fx ['-'] c (by intro x hx; simp only [List.mem_singleton] at hx; subst hx; exact ⟨by decide, by decide, by decide⟩) h2 h3

include htbl in
theorem SSteps.esc (neg : Bool) (e : Esc) (hwf : e.wf = true) (hd : e.inDialect .pcre = true) : SSteps tbl fx (e.render neg) := by
  cases e with
  | dig => cases neg <;> exact SSteps.escaped tbl htbl fx _ (by decide)
  | word => simp [Esc.inDialect, Dialect.pcre] at hd
  | space => simp [Esc.inDialect, Dialect.pcre] at hd
  | nameStart => simp [Esc.inDialect, Dialect.pcre] at hd
  | nameChar => simp [Esc.inDialect, Dialect.pcre] at hd
  | block n => simp [Esc.inDialect, Dialect.pcre] at hd
  | cat n =>
    simp only [Esc.wf, Bool.and_eq_true, List.all_eq_true] at hwf
    have := SSteps.dashy tbl fx ('{' :: n.toList) '}' (by
      intro c hc
      simp only [List.mem_cons] at hc
      rcases hc with h | h
      · subst h; exact ⟨by decide, by decide, by decide⟩
      · exact isNameCh_noSpec c (hwf.1.2 c h)) ⟨by decide, by decide, by decide⟩ (by decide)
    show SSteps tbl fx (['\\', if neg then 'P' else 'p'] ++ (('{' :: n.toList) ++ ['}']))
    exact SSteps.append (SSteps.escaped tbl htbl fx _ (by cases neg <;> decide)) this

include htbl in
theorem SSteps.citem (i : CItem) (hwf : i.wf = true) (hd : i.inDialect .pcre = true) : SSteps tbl fx i.render := by
  cases i with
  | ch c => exact SSteps.clsChr tbl htbl fx c
  | range lo hi => exact SSteps.append (SSteps.clsChr tbl htbl fx lo) (SSteps.dashClsChr tbl htbl fx hi)
  | esc neg e => exact SSteps.esc tbl htbl fx neg e hwf hd

include htbl in
theorem SSteps.citems : ∀ (is : List CItem), (∀ i ∈ is, i.wf = true ∧ i.inDialect .pcre = true) →
    SSteps tbl fx (is.flatMap CItem.render)
  | [], _ => SSteps.nil tbl fx
  | i :: is, h => by
    simp only [List.flatMap_cons]
    exact SSteps.append (SSteps.citem tbl htbl fx i (h i (by simp)).1 (h i (by simp)).2)
      (SSteps.citems is (fun x hx => h x (by simp [hx])))

include htbl in
theorem SSteps.cgroup (g : CGroup) (h : ∀ i ∈ g.items, i.wf = true ∧ i.inDialect .pcre = true) : SSteps tbl fx g.render := by
  unfold CGroup.render
  refine SSteps.append ?_ (SSteps.citems tbl htbl fx g.items h)
  cases g.neg
  · exact SSteps.nil tbl fx
  · exact SSteps.one tbl fx '^' ⟨by decide, by decide, by decide⟩ (by decide)

end members


/-! ### (S2) the brackets -/

/-- the state after the `]` of a subtrahend -/
abbrev closedSt (d : Nat) (m : List Nat) (w : Bool) : SubSt :=
  { brack := d, escaped := false, mask := m, wrapped := w, closed := true, skip := false }

section brackets
variable (tbl : List (UInt8 × Bytes)) (fx : Fixes)

/-- `-[` inside a class -/
theorem loopS_sub (d : Nat) (m : List Nat) (w : Bool) (rest : Bytes) :
    escapeLoopS tbl fx (inSt (d + 1) m w) (bMinus :: bOpen :: rest) =
      (escapeLoopS tbl fx (inSt (d + 2) (maskSet m (d + 2)) (w || decide (d + 1 = 1))) rest).map
        (fun t => (if d + 1 = 1 ∧ w = false then [Ev.wrap] else []) ++ evBytes subMidText ++ t) := by
  have n1 : bMinus ≠ bBackslash := by decide
  have n2 : ¬ (bMinus = bDollar ∨ bMinus = bCaret) := by decide
  rw [escapeLoopS]
  simp only [Bool.false_eq_true, if_false, n1, n2, List.head?_cons, ne_eq, Nat.succ_ne_zero, not_false_eq_true,
    and_self, if_true]
  rw [escapeLoopS]
  simp only [if_true]

/-- the `]` of a subtrahend -/
theorem loopS_close_sub (d : Nat) (m : List Nat) (w c : Bool) (rest : Bytes) (h : maskTest m (d + 1) = true) :
    escapeLoopS tbl fx { brack := d + 1, escaped := false, mask := m, wrapped := w, closed := c, skip := false } (bClose :: rest) =
      (escapeLoopS tbl fx (closedSt d m w) rest).map (fun t => (if c then [] else [Ev.b bClose]) ++ Ev.b bRParen :: t) := by
  have n1 : bClose ≠ bBackslash := by decide
  have n2 : ¬ (bClose = bDollar ∨ bClose = bCaret) := by decide
  have n3 : bClose ≠ bMinus := by decide
  have n4 : bClose ≠ bOpen := by decide
  rw [escapeLoopS]
  simp only [Bool.false_eq_true, if_false, n1, n2, n3, n4, false_and, Nat.succ_ne_zero, if_true, h, Nat.add_sub_cancel]

/-- the `]` of the outermost class -/
theorem loopS_close_top (m : List Nat) (w c : Bool) (rest : Bytes) (h : maskTest m 1 = false) :
    escapeLoopS tbl fx { brack := 1, escaped := false, mask := m, wrapped := w, closed := c, skip := false } (bClose :: rest) =
      (escapeLoopS tbl fx { brack := 0, escaped := false, mask := m, wrapped := false, closed := false, skip := false } rest).map
        (fun t => (if c then [] else [Ev.b bClose]) ++ (if w then [Ev.b bRParen] else []) ++ t) := by
  have n1 : bClose ≠ bBackslash := by decide
  have n2 : ¬ (bClose = bDollar ∨ bClose = bCaret) := by decide
  have n3 : bClose ≠ bMinus := by decide
  have n4 : bClose ≠ bOpen := by decide
  rw [escapeLoopS]
  simp only [Bool.false_eq_true, if_false, n1, n2, n3, n4, false_and, Nat.succ_ne_zero, if_true, h, Nat.sub_self, true_and]

/-- the `[` of the outermost class -/
theorem loopS_open0 (rest : Bytes) :
    escapeLoopS tbl fx {} (bOpen :: rest) = (escapeLoopS tbl fx (inSt 1 [] false) rest).map (fun t => Ev.clsStart :: Ev.b bOpen :: t) := by
  have n1 : bOpen ≠ bBackslash := by decide
  have n2 : ¬ (bOpen = bDollar ∨ bOpen = bCaret) := by decide
  have n3 : bOpen ≠ bMinus := by decide
  rw [escapeLoopS]
  simp only [Bool.false_eq_true, if_false, n1, n2, n3, false_and, if_true, maskClear_nil]
  rfl

end brackets

theorem maskTest_set_self (m : List Nat) (d : Nat) (h : d < 64) : maskTest (maskSet m d) d = true := by
  simp [maskTest, maskSet, h]

theorem maskTest_set_ne (m : List Nat) (d k : Nat) (h : k ≠ d) : maskTest (maskSet m d) k = maskTest m k := by
  unfold maskTest maskSet
  split
  · simp [h, List.mem_erase_of_ne h]
  · rfl

/-- what the loop writes for the text after the `[` of a subtrahend, up to and including its `]` -/
def nested : CClass → List Char
  | [] => []
  | [g] => g.render ++ [']', ')']
  | g :: rest => g.render ++ [']', '(', '?', '<', '!', '['] ++ nested rest ++ [')']

theorem evBytes_subMid : evBytes (utf8 [']', '(', '?', '<', '!', '[']) = evBytes subMidText := rfl
theorem evBytes_closeParen : evBytes (utf8 [']', ')']) = [Ev.b bClose, Ev.b bRParen] := rfl
theorem evBytes_paren : evBytes (utf8 [')']) = [Ev.b bRParen] := rfl

section nest
variable (tbl : List (UInt8 × Bytes)) (htbl : ∀ e ∈ tbl, e.1 ∈ mceLetters) (fx : Fixes)

include htbl in
/-- a subtrahend (with its own subtrahends), read at depth `d + 2` -/
theorem nested_loop : ∀ (cc : CClass), cc ≠ [] →
    (∀ g ∈ cc, ∀ i ∈ g.items, i.wf = true ∧ i.inDialect .pcre = true) →
    ∀ (d : Nat) (m : List Nat) (w : Bool) (tail : Bytes), d + 2 + cc.length ≤ 64 → maskTest m (d + 2) = true →
    ∃ m', (∀ k, k ≤ d + 2 → maskTest m' k = maskTest m k) ∧
      escapeLoopS tbl fx (inSt (d + 2) m w) (utf8 (CClass.render cc) ++ tail) =
        (escapeLoopS tbl fx (closedSt (d + 1) m' w) tail).map (evBytes (utf8 (nested cc)) ++ ·)
  | [], h, _ => absurd rfl h
  | [g], _, hg => by
    intro d m w tail _ hm
    refine ⟨m, fun _ _ => rfl, ?_⟩
    have hgs := SSteps.cgroup tbl htbl fx g (hg g (by simp)) (d + 1) m w
    simp only [CClass.render, nested]
    rw [utf8_append, List.append_assoc, hgs, utf8_close, utf8_nil, List.cons_append, List.nil_append,
      loopS_close_sub tbl fx (d + 1) m w false tail hm, emap_map', utf8_append]
    congr 1
    funext t
    rw [evBytes_append, evBytes_closeParen]
    simp
  | g :: g2 :: rest, _, hg => by
    intro d m w tail hlen hm
    have hgs := SSteps.cgroup tbl htbl fx g (hg g (by simp)) (d + 1) m w
    have hlen' : d + 1 + 2 + (g2 :: rest).length ≤ 64 := by simp only [List.length_cons] at hlen ⊢; omega
    obtain ⟨m', hm', ih⟩ := nested_loop (g2 :: rest) (by simp) (fun x hx => hg x (by simp [hx])) (d + 1)
      (maskSet m (d + 3)) w (bClose :: tail) hlen' (maskTest_set_self m (d + 3) (by simp only [List.length_cons] at hlen; omega))
    have hm2 : maskTest m' (d + 2) = true := by
      rw [hm' (d + 2) (by omega), maskTest_set_ne m (d + 3) (d + 2) (by omega)]
      exact hm
    refine ⟨m', fun k hk => by rw [hm' k (by omega), maskTest_set_ne m (d + 3) k (by omega)], ?_⟩
    have hw : (w || decide (d + 1 + 1 = 1)) = w := by simp
    have hwr : (if d + 1 + 1 = 1 ∧ w = false then [Ev.wrap] else []) = [] := by simp
    have htxt : utf8 (CClass.render (g :: g2 :: rest)) ++ tail =
        utf8 g.render ++ (bMinus :: bOpen :: (utf8 (CClass.render (g2 :: rest)) ++ bClose :: tail)) := by
      simp only [CClass.render, utf8_append, utf8_minus, utf8_open, utf8_close, utf8_nil, List.append_assoc,
        List.cons_append, List.nil_append]
    rw [htxt, hgs, loopS_sub tbl fx (d + 1) m w, hw, hwr, ih, loopS_close_sub tbl fx (d + 1) m' w true tail hm2]
    simp only [emap_map', nested, utf8_append, evBytes_append]
    congr 1
    funext t
    simp only [evBytes_subMid, evBytes_paren, List.append_assoc, List.nil_append, if_true, List.cons_append]

end nest


/-! ### (S2) the text of a class with subtractions -/

/-- `[G]`, or `[G](?<!` … `)` with the subtrahend in the same form -/
def subInner : CClass → List Char
  | [] => [']']
  | [g] => '[' :: (g.render ++ [']'])
  | g :: rest => '[' :: (g.render ++ "](?<!".toList ++ subInner rest ++ [')'])

/-- what the repaired loop makes of `'[' :: cc.render`: `[a-c-[b]]` ↦ `(?:[a-c](?<![b]))` -/
def subText (cc : CClass) : List Char :=
  if cc.length ≤ 1 then subInner cc else "(?:".toList ++ subInner cc ++ [')']

theorem lit_mid : "](?<!".toList = [']', '(', '?', '<', '!'] := by rfl
theorem lit_open : "(?:".toList = ['(', '?', ':'] := by rfl

theorem nested_subInner : ∀ (cc : CClass), cc ≠ [] → '[' :: (nested cc ++ [')']) = subInner cc ++ [')', ')']
  | [], h => absurd rfl h
  | [g], _ => by simp [nested, subInner]
  | g :: g2 :: rest, _ => by
    have ih := nested_subInner (g2 :: rest) (by simp)
    have ih2 : '[' :: (nested (g2 :: rest) ++ [')', ')']) = subInner (g2 :: rest) ++ [')', ')', ')'] := by
      have := congrArg (· ++ [')']) ih
      simpa using this
    simp only [nested, subInner, lit_mid, List.append_assoc, List.cons_append, List.nil_append]
    rw [ih2]

theorem resolve_wrapped (x : UInt8) (A B : Bytes) :
    resolve (Ev.clsStart :: Ev.b x :: (evBytes A ++ (Ev.wrap :: evBytes B))) = subOpenText ++ x :: (A ++ B) := by
  have hB : resolveGo (evBytes B) = (false, B) := by
    have := resolveGo_evBytes B []
    simpa [resolveGo] using this
  unfold resolve
  rw [resolveGo_clsStart, resolveGo_b, resolveGo_evBytes, resolveGo_wrap, hB]
  rfl

section top
variable (tbl : List (UInt8 × Bytes)) (htbl : ∀ e ∈ tbl, e.1 ∈ mceLetters) (fx : Fixes)

include htbl in
/-- pass 1 on a class with at least one subtraction -/
theorem escapeLoopS_subtraction (g g2 : CGroup) (rest : List CGroup)
    (hg : ∀ x ∈ g :: g2 :: rest, ∀ i ∈ x.items, i.wf = true ∧ i.inDialect .pcre = true)
    (hlen : (g :: g2 :: rest).length ≤ 63) :
    (escapeLoopS tbl fx {} (utf8 ('[' :: CClass.render (g :: g2 :: rest)))).map resolve =
      .ok (utf8 (subText (g :: g2 :: rest))) := by
  have hgs := SSteps.cgroup tbl htbl fx g (hg g (by simp)) 0 [] false
  obtain ⟨m', hm', ih⟩ := nested_loop tbl htbl fx (g2 :: rest) (by simp) (fun x hx => hg x (by simp [hx])) 0
    (maskSet [] 2) true [bClose] (by simp only [List.length_cons] at hlen ⊢; omega) (maskTest_set_self [] 2 (by omega))
  have hm1 : maskTest m' 1 = false := by
    rw [hm' 1 (by omega), maskTest_set_ne [] 2 1 (by omega), maskTest_nil]
  have htxt : utf8 ('[' :: CClass.render (g :: g2 :: rest)) =
      bOpen :: (utf8 g.render ++ (bMinus :: bOpen :: (utf8 (CClass.render (g2 :: rest)) ++ [bClose]))) := by
    simp only [CClass.render, utf8_append, utf8_minus, utf8_open, utf8_close, utf8_nil]
  have hw : (false || decide (0 + 1 = 1)) = true := by decide
  have hwr : (if 0 + 1 = 1 ∧ false = false then [Ev.wrap] else []) = [Ev.wrap] := by decide
  have hend : escapeLoopS tbl fx { brack := 0, escaped := false, mask := m', wrapped := false, closed := false, skip := false } [] =
      .ok [] := by
    rw [escapeLoopS]; rfl
  rw [htxt, loopS_open0, hgs, loopS_sub tbl fx 0 [] false, hw, hwr, ih, loopS_close_top tbl fx m' true true [] hm1, hend]
  simp only [Except.map, if_true, List.nil_append, List.append_nil, List.cons_append]
  have hN := nested_subInner (g2 :: rest) (by simp)
  have hsub : subText (g :: g2 :: rest) =
      ['(', '?', ':'] ++ ('[' :: (g.render ++ ([']', '(', '?', '<', '!', '['] ++ (nested (g2 :: rest) ++ [')'])))) := by
    have hl : ¬ ((g :: g2 :: rest).length ≤ 1) := by simp
    simp only [subText, hl, if_false, subInner, lit_mid, lit_open, List.append_assoc, List.cons_append, List.nil_append]
    rw [hN]
  rw [hsub]
  have hev : evBytes subMidText ++ (evBytes (utf8 (nested (g2 :: rest))) ++ [Ev.b bRParen]) =
      evBytes (subMidText ++ (utf8 (nested (g2 :: rest)) ++ [bRParen])) := by
    simp [evBytes]
  rw [hev, resolve_wrapped]
  simp only [utf8_append, utf8_open]
  rfl

end top


theorem braceOk_subInner : ∀ (cc : CClass), cc ≠ [] →
    (∀ g ∈ cc, ∀ i ∈ g.items, i.wf = true ∧ i.inDialect .pcre = true ∧ i.noBrace = true) →
    braceOk none (subInner cc) = true
  | [], h, _ => absurd rfl h
  | [g], _, h => by
    simp only [subInner]
    exact braceOk_append ['['] _ _ (by decide) (braceOk_append _ _ _ (braceOk_cgroup g (h g (by simp))) (by decide))
  | g :: g2 :: rest, _, h => by
    have ih := braceOk_subInner (g2 :: rest) (by simp) (fun x hx => h x (by simp [hx]))
    simp only [subInner, lit_mid]
    exact braceOk_append ['['] _ _ (by decide) (braceOk_append _ _ _ (braceOk_append _ _ _
      (braceOk_append _ _ _ (braceOk_cgroup g (h g (by simp))) (by decide)) ih) (by decide))

theorem braceOk_subText (cc : CClass) (hne : cc ≠ [])
    (h : ∀ g ∈ cc, ∀ i ∈ g.items, i.wf = true ∧ i.inDialect .pcre = true ∧ i.noBrace = true) :
    braceOk none (subText cc) = true := by
  unfold subText
  split
  · exact braceOk_subInner cc hne h
  · rw [lit_open]
    exact braceOk_append _ _ _ (braceOk_append ['(', '?', ':'] _ _ (by decide) (braceOk_subInner cc hne h)) (by decide)

/-- pass 1 on a class, with or without subtractions -/
theorem escapeLoopS_class (tbl : List (UInt8 × Bytes)) (htbl : ∀ e ∈ tbl, e.1 ∈ mceLetters) (fx : Fixes) (cc : CClass)
    (hwf : cc.wf = true) (hd : ∀ g ∈ cc, ∀ i ∈ g.items, CItem.inDialect .pcre i = true) (hlen : cc.length ≤ 63) :
    (escapeLoopS tbl fx {} (utf8 ('[' :: cc.render))).map resolve = .ok (utf8 (subText cc)) := by
  have hwf' := hwf
  simp only [CClass.wf, CGroup.wf, Bool.and_eq_true, List.all_eq_true] at hwf'
  match cc, hwf, hd, hlen, hwf' with
  | [], hwf, _, _, _ => simp [CClass.wf] at hwf
  | [g], hwf, hd, _, _ =>
    have hp : (Pat.cls [g]).inDialect .pcre = true := by
      simp only [Pat.inDialect, CClass.inDialect, Bool.and_eq_true, List.all_eq_true]
      exact ⟨by simp, fun x hx i hi => hd x hx i hi⟩
    have := escapeLoopS_render tbl htbl fx (.cls [g]) hwf hp
    simpa [Pat.render, subText, subInner, CClass.render] using this
  | g :: g2 :: rest, _, hd, hlen, hwf' =>
    exact escapeLoopS_subtraction tbl htbl fx g g2 rest (fun x hx i hi => ⟨(hwf'.2 x hx).2 i hi, hd x hx i hi⟩) hlen

/-- (S2) `[G-[S-[…]]]` ↦ `(?:[G](?<![S](?<!…)))`, for classes of at most 63 levels (the C mask has 64 bits) -/
theorem subtraction_text (tbl : List (UInt8 × Bytes)) (htbl : ∀ e ∈ tbl, e.1 ∈ mceLetters) (fx : Fixes) (cc : CClass)
    (hwf : cc.wf = true) (hd : ∀ g ∈ cc, ∀ i ∈ g.items, CItem.inDialect .pcre i = true)
    (hn : CClass.noNul cc = true) (hb : ∀ g ∈ cc, ∀ i ∈ g.items, i.noBrace = true) (hlen : cc.length ≤ 63) :
    rewriteWithS tbl fx (utf8 ('[' :: cc.render)) = .ok (utf8 (subText cc)) := by
  have hwf' := hwf
  simp only [CClass.wf, CGroup.wf, Bool.and_eq_true, List.all_eq_true, Bool.not_eq_true', List.isEmpty_eq_false_iff] at hwf'
  simp only [CClass.noNul, List.all_eq_true] at hn
  have hnn : NN ('[' :: cc.render) :=
    NN.cons (by decide) (NN.cclass cc (fun g hg i hi => ⟨(hwf'.2 g hg).2 i hi, hn g hg i hi⟩))
  have h1 := escapeLoopS_class tbl htbl fx cc hwf hd hlen
  have hfree : findSub needle (utf8 (subText cc)) = none :=
    findSub_utf8_none _ (findSubC_none_of_braceOk _ none (braceOk_subText cc hwf'.1
      (fun g hg i hi => ⟨(hwf'.2 g hg).2 i hi, hd g hg i hi, hb g hg i hi⟩)))
  simp only [rewriteWithS, cstr_utf8 _ hnn]
  cases hx : escapeLoopS tbl fx {} (utf8 ('[' :: cc.render)) with
  | error e => rw [hx] at h1; cases h1
  | ok evs =>
    rw [hx] at h1
    simp only [Except.map, Except.ok.injEq] at h1
    simp only [h1]
    exact chblocks_of_needle_free fx _ hfree


end LyModel.XsdRe
