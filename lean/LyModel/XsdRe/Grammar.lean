import LyModel.XsdRe.Render
/-!
# The grammar of XML Schema regular expressions, declaratively (XSD dialect)

XML Schema Part 2: Datatypes (2nd ed.), Appendix F.  `Derives p s`: the text `s` is a spelling of the syntax tree `p`
according to productions [1]–[11] (regExp, branch, piece, quantifier, atom, Char, charClass), [12]–[22] (character class
expressions: groups, negation, subtraction, ranges) and [23]–[27], [37] (single-character, multi-character, category and
block escapes), read with the documented choices of `Parse.lean` (`{` `}` are metacharacters, `\$` is accepted, a raw `-`
in a group is a literal only as its first member or directly before the closing `]`, `^` is a literal anywhere but
directly after `[`).  The levels of the grammar are the shapes of the tree (`Pat.isAtom`, `isPiece`,
`isBranch`, `isRe` of `Render.lean`), so one relation serves for the four non-terminals.

-/
namespace LyModel.XsdRe

/-- a non-empty string of decimal digits with value `n` -/
def IsNat (n : Nat) (ds : List Char) : Prop :=
  ds ≠ [] ∧ (∀ c ∈ ds, c.isDigit = true) ∧ ds.foldl (fun a d => a * 10 + (d.toNat - 48)) 0 = n

/-- [4] quantifier ::= [?*+] | '{' quantity '}';  [5]–[8] quantity ::= n,m | n, | n -/
inductive Quant : Nat → Option Nat → List Char → Prop
  | star : Quant 0 none ['*']
  | plus : Quant 1 none ['+']
  | opt : Quant 0 (some 1) ['?']
  | exact (n : Nat) (ds : List Char) : IsNat n ds → Quant n (some n) ('{' :: (ds ++ ['}']))
  | min (n : Nat) (ds : List Char) : IsNat n ds → Quant n none ('{' :: (ds ++ [',', '}']))
  | range (n m : Nat) (ds es : List Char) : IsNat n ds → IsNat m es → n ≤ m →
      Quant n (some m) ('{' :: (ds ++ ',' :: (es ++ ['}'])))

/-- [10] Char: any character but a metacharacter `\ | . ? * + ( ) { } [ ]` -/
def NormalChar (c : Char) : Prop := metaChars.contains c = false

/-- [24] SingleCharEsc, the text after the backslash: `n r t` or one of `\ | . ? * + ( ) { } - [ ] ^ $` -/
inductive SingleEsc : Char → List Char → Prop
  | n : SingleEsc '\n' ['n']
  | r : SingleEsc '\r' ['r']
  | t : SingleEsc '\t' ['t']
  | lit (c : Char) : singleEscChars.contains c = true → SingleEsc c [c]

/-- [37] MultiCharEsc, [25] catEsc, [26] complEsc, the text after the backslash -/
inductive ClassEsc : Bool → Esc → List Char → Prop
  | d : ClassEsc false .dig ['d']
  | D : ClassEsc true .dig ['D']
  | w : ClassEsc false .word ['w']
  | W : ClassEsc true .word ['W']
  | s : ClassEsc false .space ['s']
  | S : ClassEsc true .space ['S']
  | i : ClassEsc false .nameStart ['i']
  | I : ClassEsc true .nameStart ['I']
  | c : ClassEsc false .nameChar ['c']
  | C : ClassEsc true .nameChar ['C']
  /-- `\p{Name}` / `\P{Name}`: a general category [27]–[36] -/
  | cat (neg : Bool) (name : String) : (Esc.cat name).wf = true →
      ClassEsc neg (.cat name) ((if neg then 'P' else 'p') :: '{' :: (name.toList ++ ['}']))
  /-- `\p{IsName}` / `\P{IsName}`: a block -/
  | block (neg : Bool) (name : String) : (Esc.block name).wf = true →
      ClassEsc neg (.block name) ((if neg then 'P' else 'p') :: '{' :: 'I' :: 's' :: (name.toList ++ ['}']))

/-! ### character class expressions, productions [12]–[22] -/

/-- [20] charOrEsc ::= XmlChar | SingleCharEsc;  [21] XmlChar: any character but `\ - [ ]` -/
inductive CharOrEsc : Char → List Char → Prop
  | raw (c : Char) : c ≠ '\\' → c ≠ '-' → c ≠ '[' → c ≠ ']' → CharOrEsc c [c]
  | esc (c : Char) (t : List Char) : SingleEsc c t → CharOrEsc c ('\\' :: t)

/-- one member of a group other than a raw `-`:  [17] charRange ::= seRange | XmlCharIncDash,
    [18] seRange ::= charOrEsc '-' charOrEsc (in order),  or a [23] charClassEsc -/
inductive Member : CItem → List Char → Prop
  | ch (c : Char) (t : List Char) : CharOrEsc c t → Member (.ch c) t
  | range (lo hi : Char) (s t : List Char) : CharOrEsc lo s → CharOrEsc hi t → lo ≤ hi →
      Member (.range lo hi) (s ++ '-' :: t)
  | esc (n : Bool) (e : Esc) (t : List Char) : ClassEsc n e t → Member (.esc n e) ('\\' :: t)

inductive Members : List CItem → List Char → Prop
  | nil : Members [] []
  | cons (it : CItem) (l : List CItem) (s t : List Char) : Member it s → Members l t → Members (it :: l) (s ++ t)

/-- an optional raw `-` as a member … -/
def dashItems (b : Bool) : List CItem := if b then [.ch '-'] else []
/-- … and its text -/
def dashText (b : Bool) : List Char := if b then ['-'] else []

/-- [14] posCharGroup ::= ( charRange | charClassEsc )+, where a raw `-` ([22] XmlCharIncDash) may be the first member, and
    the last one if the group is directly followed by the closing `]` (`last`; not before the `-[` of a subtraction) -/
inductive PosGroup (last : Bool) : List CItem → List Char → Prop
  | mk (lead trail : Bool) (ms : List CItem) (t : List Char) : Members ms t → (trail = true → last = true) →
      dashItems lead ++ ms ++ dashItems trail ≠ [] →
      PosGroup last (dashItems lead ++ ms ++ dashItems trail) (dashText lead ++ t ++ dashText trail)

/-- the `^` of [15] negCharGroup ::= '^' posCharGroup -/
def hatText (neg : Bool) : List Char := if neg then ['^'] else []

/-- [12] charClassExpr ::= '[' charGroup ']', the text after the `[`, closing `]` included;
    [13] charGroup ::= posCharGroup | negCharGroup | charClassSub,
    [16] charClassSub ::= ( posCharGroup | negCharGroup ) '-' charClassExpr.
    A positive group does not start with `^` (a `^` directly after `[` is the negation). -/
inductive ClassExpr : CClass → List Char → Prop
  | single (neg : Bool) (items : List CItem) (t : List Char) : PosGroup true items t →
      (neg = false → ∀ t', t ≠ '^' :: t') → ClassExpr [⟨neg, items⟩] (hatText neg ++ t ++ [']'])
  | sub (neg : Bool) (items : List CItem) (t : List Char) (sub : CClass) (u : List Char) : PosGroup false items t →
      (neg = false → ∀ t', t ≠ '^' :: t') → ClassExpr sub u →
      ClassExpr (⟨neg, items⟩ :: sub) (hatText neg ++ t ++ '-' :: '[' :: (u ++ [']']))

inductive Derives : Pat → List Char → Prop
  /-- [9] atom ::= Char -/
  | chr (c : Char) : NormalChar c → Derives (.chr c) [c]
  /-- [11], [23] atom ::= charClass ::= charClassEsc ::= SingleCharEsc -/
  | escChr (c : Char) (t : List Char) : SingleEsc c t → Derives (.chr c) ('\\' :: t)
  /-- [11] WildcardEsc -/
  | dot : Derives .dot ['.']
  /-- [23] MultiCharEsc | catEsc | complEsc -/
  | esc (n : Bool) (e : Esc) (t : List Char) : ClassEsc n e t → Derives (.esc n e) ('\\' :: t)
  /-- [12] charClassExpr ::= '[' charGroup ']' -/
  | cls (cc : CClass) (t : List Char) : ClassExpr cc t → Derives (.cls cc) ('[' :: t)
  /-- [9] atom ::= '(' regExp ')' -/
  | group (p : Pat) (t : List Char) : p.isRe = true → Derives p t → Derives (.group p) ('(' :: (t ++ [')']))
  /-- [3] piece ::= atom quantifier -/
  | rep (a : Pat) (lo : Nat) (hi : Option Nat) (t q : List Char) : a.isAtom = true → Derives a t → Quant lo hi q →
      Derives (.rep a lo hi) (t ++ q)
  /-- [2] branch ::= piece* (none) -/
  | eps : Derives .eps []
  /-- [2] branch ::= piece* (two or more) -/
  | cat (a b : Pat) (s t : List Char) : a.isPiece = true → b.isBranch1 = true → Derives a s → Derives b t →
      Derives (.cat a b) (s ++ t)
  /-- [1] regExp ::= branch ( '|' branch )* -/
  | alt (a b : Pat) (s t : List Char) : a.isBranch = true → b.isRe = true → Derives a s → Derives b t →
      Derives (.alt a b) (s ++ '|' :: t)

end LyModel.XsdRe
