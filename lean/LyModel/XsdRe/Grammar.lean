import LyModel.XsdRe.Render
/-!
# The grammar of XML Schema regular expressions, declaratively (XSD dialect)

XML Schema Part 2: Datatypes (2nd ed.), Appendix F.  `Derives p s`: the text `s` is a spelling of the syntax tree `p`
according to productions [1]–[11] (regExp, branch, piece, quantifier, atom, Char, charClass) and [23]–[27], [37]
(single-character, multi-character, category and block escapes), read with the documented choices of `Parse.lean` (`{` `}`
are metacharacters, `\$` is accepted).  The levels of the grammar are the shapes of the tree (`Pat.isAtom`, `isPiece`,
`isBranch`, `isRe` of `Render.lean`), so one relation serves for the four non-terminals.

Character class expressions `[…]` (productions [12]–[22]) are *not* given declaratively here: `ClassLex` delegates them to
`parseClass` ("the text `t` is what `parseClass` consumes, in some context, returning `cc`").
-/
namespace LyModel.XsdRe

/-- a non-empty string of decimal digits with value `n` -/
def IsNat (n : Nat) (ds : List Char) : Prop :=
  ds ≠ [] ∧ (∀ c ∈ ds, c.isDigit = true) ∧ ds.foldl (fun a d => a * 10 + (d.toNat - 48)) 0 = n

/-- [4] quantifier ::= [?*+] | '{' quantity '}';  [5]–[8] quantity ::= n,m | n, | n -/
inductive Quant : Nat → Option Nat → List Char → Prop
  | star : Quant 0 none ['*']
  | plus : Quant 1 none ['+']
  | opt : Quant 0 (some 1) ['?']
  | exact (n : Nat) (ds : List Char) : IsNat n ds → Quant n (some n) ('{' :: (ds ++ ['}']))
  | min (n : Nat) (ds : List Char) : IsNat n ds → Quant n none ('{' :: (ds ++ [',', '}']))
  | range (n m : Nat) (ds es : List Char) : IsNat n ds → IsNat m es → n ≤ m →
      Quant n (some m) ('{' :: (ds ++ ',' :: (es ++ ['}'])))

/-- [10] Char: any character but a metacharacter `\ | . ? * + ( ) { } [ ]` -/
def NormalChar (c : Char) : Prop := metaChars.contains c = false

/-- [24] SingleCharEsc, the text after the backslash: `n r t` or one of `\ | . ? * + ( ) { } - [ ] ^ $` -/
inductive SingleEsc : Char → List Char → Prop
  | n : SingleEsc '\n' ['n']
  | r : SingleEsc '\r' ['r']
  | t : SingleEsc '\t' ['t']
  | lit (c : Char) : singleEscChars.contains c = true → SingleEsc c [c]

/-- [37] MultiCharEsc, [25] catEsc, [26] complEsc, the text after the backslash -/
inductive ClassEsc : Bool → Esc → List Char → Prop
  | d : ClassEsc false .dig ['d']
  | D : ClassEsc true .dig ['D']
  | w : ClassEsc false .word ['w']
  | W : ClassEsc true .word ['W']
  | s : ClassEsc false .space ['s']
  | S : ClassEsc true .space ['S']
  | i : ClassEsc false .nameStart ['i']
  | I : ClassEsc true .nameStart ['I']
  | c : ClassEsc false .nameChar ['c']
  | C : ClassEsc true .nameChar ['C']
  /-- `\p{Name}` / `\P{Name}`: a general category [27]–[36] -/
  | cat (neg : Bool) (name : String) : (Esc.cat name).wf = true →
      ClassEsc neg (.cat name) ((if neg then 'P' else 'p') :: '{' :: (name.toList ++ ['}']))
  /-- `\p{IsName}` / `\P{IsName}`: a block -/
  | block (neg : Bool) (name : String) : (Esc.block name).wf = true →
      ClassEsc neg (.block name) ((if neg then 'P' else 'p') :: '{' :: 'I' :: 's' :: (name.toList ++ ['}']))

/-- lexical: `t` (the text after `[`, closing `]` included) is read by `parseClass` as the class `cc` -/
def ClassLex (cc : CClass) (t : List Char) : Prop := ∃ f r, parseClass .xsd f (t ++ r) = .ok (cc, r)

inductive Derives : Pat → List Char → Prop
  /-- [9] atom ::= Char -/
  | chr (c : Char) : NormalChar c → Derives (.chr c) [c]
  /-- [11], [23] atom ::= charClass ::= charClassEsc ::= SingleCharEsc -/
  | escChr (c : Char) (t : List Char) : SingleEsc c t → Derives (.chr c) ('\\' :: t)
  /-- [11] WildcardEsc -/
  | dot : Derives .dot ['.']
  /-- [23] MultiCharEsc | catEsc | complEsc -/
  | esc (n : Bool) (e : Esc) (t : List Char) : ClassEsc n e t → Derives (.esc n e) ('\\' :: t)
  /-- [12] charClassExpr ::= '[' charGroup ']' -/
  | cls (cc : CClass) (t : List Char) : ClassLex cc t → Derives (.cls cc) ('[' :: t)
  /-- [9] atom ::= '(' regExp ')' -/
  | group (p : Pat) (t : List Char) : p.isRe = true → Derives p t → Derives (.group p) ('(' :: (t ++ [')']))
  /-- [3] piece ::= atom quantifier -/
  | rep (a : Pat) (lo : Nat) (hi : Option Nat) (t q : List Char) : a.isAtom = true → Derives a t → Quant lo hi q →
      Derives (.rep a lo hi) (t ++ q)
  /-- [2] branch ::= piece* (none) -/
  | eps : Derives .eps []
  /-- [2] branch ::= piece* (two or more) -/
  | cat (a b : Pat) (s t : List Char) : a.isPiece = true → b.isBranch1 = true → Derives a s → Derives b t →
      Derives (.cat a b) (s ++ t)
  /-- [1] regExp ::= branch ( '|' branch )* -/
  | alt (a b : Pat) (s t : List Char) : a.isBranch = true → b.isRe = true → Derives a s → Derives b t →
      Derives (.alt a b) (s ++ '|' :: t)

end LyModel.XsdRe
