import LyModel.XsdRe.RewriteLemmas
/-!
The bracket depth pass 2 (`chblocksStep`) works with, seen through the escape tokens of pass 1: the repaired loop
(`depthLoopEsc`, F190) computes the token depth `balance (tokens pre)`; the loop of the code as it was (`depthLoop`,
previous byte only) does so only where no escaped backslash stands in front of a bracket.
-/
namespace LyModel.XsdRe

theorem depthLoopEsc_nil (e : Bool) (d : Int) : depthLoopEsc e d [] = d := by
  cases e <;> simp [depthLoopEsc]

theorem depthLoopEsc_escaped (d : Int) (c : UInt8) (r : Bytes) : depthLoopEsc true d (c :: r) = depthLoopEsc false d r := by
  simp [depthLoopEsc]

theorem depthLoopEsc_cons (d : Int) (c : UInt8) (r : Bytes) :
    depthLoopEsc false d (c :: r) =
      if c = bBackslash then depthLoopEsc true d r
      else if c = bOpen then depthLoopEsc false (d + 1) r
      else if c = bClose then depthLoopEsc false (d - 1) r
      else depthLoopEsc false d r := by
  simp [depthLoopEsc]

/-- the escape-aware loop is the token fold: started unescaped at depth `d` it ends at `d` plus the balance of the escape
    tokens (every depth, every input; a trailing lone backslash is a literal and counts nothing) -/
theorem depthLoopEsc_eq_balance : ∀ (n : Nat) (p : Bytes), p.length ≤ n → ∀ d : Int,
    depthLoopEsc false d p = d + balance (tokens p)
  | _, [], _, d => by simp [depthLoopEsc_nil, tokens, balance]
  | 0, _ :: _, h, _ => by simp at h
  | n + 1, c :: rest, h, d => by
    obtain ⟨_, _, h3, h4, _, _, _, _, _⟩ := consts_ne
    have hlen : rest.length ≤ n := by simp at h; omega
    rw [depthLoopEsc_cons]
    by_cases hb : c = bBackslash
    · subst hb
      cases rest with
      | nil => simp [depthLoopEsc_nil, tokens, balance, Tok.delta, h3, h4]
      | cons e r =>
        have hr : r.length ≤ n := by simp at hlen; omega
        have ht : tokens (bBackslash :: e :: r) = .esc e :: tokens r := by
          rw [tokens.eq_def]; simp
        rw [if_pos rfl, depthLoopEsc_escaped, depthLoopEsc_eq_balance n r hr d, ht]
        simp [balance, Tok.delta]
    · have ht : tokens (c :: rest) = .lit c :: tokens rest := by
        rw [tokens.eq_def]; simp [hb]
      rw [if_neg hb, ht]
      simp only [balance, Tok.delta]
      by_cases ho : c = bOpen
      · rw [if_pos ho, depthLoopEsc_eq_balance n rest hlen, if_pos ho]; omega
      · rw [if_neg ho, if_neg ho]
        by_cases hc : c = bClose
        · rw [if_pos hc, depthLoopEsc_eq_balance n rest hlen, if_pos hc]; omega
        · rw [if_neg hc, depthLoopEsc_eq_balance n rest hlen, if_neg hc]; omega

/-- **the repaired pass-2 loop computes the token depth** -/
theorem depthOfEsc_eq_balance (pre : Bytes) : depthOfEsc pre = balance (tokens pre) := by
  unfold depthOfEsc
  rw [depthLoopEsc_eq_balance pre.length pre (Nat.le_refl _) 0]
  omega

theorem depthWith_repaired (fx : Fixes) (h : fx.f190 = true) (pre : Bytes) : depthWith fx pre = balance (tokens pre) := by
  simp [depthWith, h, depthOfEsc_eq_balance]

theorem depthWith_as_was (fx : Fixes) (h : fx.f190 = false) (pre : Bytes) : depthWith fx pre = depthOf pre := by
  simp [depthWith, h]

/-! ### the loop of the code as it was -/

theorem depthLoop_cons (prev : Option UInt8) (d : Int) (c : UInt8) (r : Bytes) :
    depthLoop prev d (c :: r) =
      depthLoop (some c)
        (if c = bClose ∧ prev ≠ some bBackslash then (if c = bOpen ∧ prev ≠ some bBackslash then d + 1 else d) - 1
         else (if c = bOpen ∧ prev ≠ some bBackslash then d + 1 else d)) r := by
  simp [depthLoop]

/-- the previous-byte loop agrees with the token fold as long as no *escaped backslash* occurs: then every backslash
    byte starts an escape token (or is the trailing lone one), so "the byte before is a backslash" does mean "escaped" -/
theorem depthLoop_eq_balance : ∀ (n : Nat) (p : Bytes), p.length ≤ n → ∀ (prev : Option UInt8) (d : Int),
    prev ≠ some bBackslash → (∀ t ∈ tokens p, t ≠ .esc bBackslash) → depthLoop prev d p = d + balance (tokens p)
  | _, [], _, _, d, _, _ => by simp [depthLoop, tokens, balance]
  | 0, _ :: _, h, _, _, _, _ => by simp at h
  | n + 1, c :: rest, h, prev, d, hprev, hno => by
    obtain ⟨_, _, h3, h4, _, _, _, _, h9⟩ := consts_ne
    have hlen : rest.length ≤ n := by simp at h; omega
    rw [depthLoop_cons]
    by_cases hb : c = bBackslash
    · subst hb
      have e1 : ¬ (bBackslash = bOpen ∧ prev ≠ some bBackslash) := fun h => h3 h.1
      have e2 : ¬ (bBackslash = bClose ∧ prev ≠ some bBackslash) := fun h => h4 h.1
      rw [if_neg e2, if_neg e1]
      cases rest with
      | nil => simp [depthLoop, tokens, balance, Tok.delta, h3, h4]
      | cons e r =>
        have hr : r.length ≤ n := by simp at hlen; omega
        have ht : tokens (bBackslash :: e :: r) = .esc e :: tokens r := by
          rw [tokens.eq_def]; simp
        rw [ht] at hno
        have he : e ≠ bBackslash := fun h => hno (.esc e) (by simp) (by rw [h])
        have hno' : ∀ t ∈ tokens r, t ≠ .esc bBackslash := fun t ht' => hno t (by simp [ht'])
        have hpe : (some e : Option UInt8) ≠ some bBackslash := fun h => he (Option.some.inj h)
        rw [depthLoop_cons]
        have e3 : ¬ (e = bOpen ∧ (some bBackslash : Option UInt8) ≠ some bBackslash) := fun h => h.2 rfl
        have e4 : ¬ (e = bClose ∧ (some bBackslash : Option UInt8) ≠ some bBackslash) := fun h => h.2 rfl
        rw [if_neg e4, if_neg e3, depthLoop_eq_balance n r hr (some e) d hpe hno', ht]
        simp [balance, Tok.delta]
    · have ht : tokens (c :: rest) = .lit c :: tokens rest := by
        rw [tokens.eq_def]; simp [hb]
      rw [ht] at hno
      have hno' : ∀ t ∈ tokens rest, t ≠ .esc bBackslash := fun t ht' => hno t (by simp [ht'])
      have hpc : (some c : Option UInt8) ≠ some bBackslash := fun h => hb (Option.some.inj h)
      rw [depthLoop_eq_balance n rest hlen (some c) _ hpc hno', ht]
      simp only [balance, Tok.delta]
      by_cases ho : c = bOpen
      · have hc : c ≠ bClose := fun h => h9 (ho.symm.trans h)
        simp only [ho, hprev, ne_eq, not_false_eq_true, and_self, if_true, h9, false_and, if_false]
        omega
      · by_cases hc : c = bClose
        · simp only [hc, hprev, ne_eq, not_false_eq_true, and_self, if_true, h9.symm, false_and, if_false]
          omega
        · simp only [ho, hc, false_and, if_false]
          omega

/-- the depth loop of the code as it was computes the token depth on texts without an escaped backslash -/
theorem depthOf_eq_balance (pre : Bytes) (hno : ∀ t ∈ tokens pre, t ≠ .esc bBackslash) : depthOf pre = balance (tokens pre) := by
  unfold depthOf
  rw [depthLoop_eq_balance pre.length pre (Nat.le_refl _) Option.none 0 (by simp) hno]
  omega

/-- a row copied in its own length: the whole text, and the text without its first and last byte -/
theorem copyLen_row (ulen : Nat) (range : Bytes) :
    range.take (copyLen true ulen range) = range ∧
    (range.drop 1).take (copyLen true ulen range - 2) = (range.drop 1).dropLast := by
  simp only [copyLen, if_true, List.take_length, true_and]
  rw [List.dropLast_eq_take, List.length_drop]
  congr 1

end LyModel.XsdRe
